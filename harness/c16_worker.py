"""Runs in a fresh interpreter under a given PYTHONHASHSEED: prints one line per
(grammar, options, input): sha256 of the serialised table and of the ordered list of trees."""
import hashlib
import json
import sys

sys.path.insert(0, sys.argv[1])
import parglare  # noqa
from parglare import Grammar, GLRParser, Parser  # noqa
from parglare.tables import create_table  # noqa
from parglare.tables.persist import table_to_serializable  # noqa
from parglare.closure import LR_0, LR_1  # noqa

cases = json.load(open(sys.argv[2]))
for c in cases:
    out = []
    try:
        if "files" in c:
            import os, tempfile, shutil
            d = tempfile.mkdtemp(prefix="pgverif-c16w-")
            for name, text in c["files"].items():
                open(os.path.join(d, name), "w").write(text)
            g = Grammar.from_file(os.path.join(d, c["root"]))
            shutil.rmtree(d, ignore_errors=True)
        else:
            g = Grammar.from_string(c["grammar"])
        for lr1 in (LR_1, LR_0):
            for ps in (False, True):
                t = create_table(g, lr1, 1, ps, ps)
                ser = json.dumps(table_to_serializable(t), sort_keys=True)
                # in the order of the report (the lists an SRConflicts / RRConflicts exception carries)
                confl = [(x.state.state_id, x.term.fqn, [p.prod_id for p in x.productions])
                         for x in t.sr_conflicts + t.rr_conflicts]
                out.append(hashlib.sha256((ser + repr(confl)).encode()).hexdigest()[:16])
        # the conflict report as the user sees it: the text of the exception
        import contextlib, io
        from parglare.exceptions import SRConflicts, RRConflicts
        for tb in (parglare.LALR, parglare.SLR):
            try:
                with contextlib.redirect_stdout(io.StringIO()):
                    Parser(g, tables=tb, prefer_shifts=False, prefer_shifts_over_empty=False)
                out.append("noconf")
            except (SRConflicts, RRConflicts) as e:
                out.append(hashlib.sha256(str(e).encode()).hexdigest()[:16])
        gp = GLRParser(g)
        for text in c["inputs"]:
            try:
                f = gp.parse(text)
                n = f.solutions
                trees = [f[i].to_str() for i in range(min(n, 40))]
                out.append(hashlib.sha256(("%d|" % n + "\n#\n".join(trees)).encode()).hexdigest()[:16])
            except parglare.SyntaxError as e:
                out.append("syntax%d:%s" % (e.location.start_position,
                                            ",".join(sorted(s.name for s in e.symbols_expected))))
            except Exception as e:
                out.append(type(e).__name__)
        # all sentence prefixes: several accepted heads are merged into one forest
        gpp = GLRParser(g, consume_input=False)
        for text in c["inputs"][:12]:
            try:
                f = gpp.parse(text)
                n = f.solutions
                trees = [f[i].to_str() for i in range(min(n, 40))]
                out.append(hashlib.sha256(("%d|" % n + "\n#\n".join(trees)).encode()).hexdigest()[:16])
            except parglare.SyntaxError as e:
                out.append("syntax%d" % e.location.start_position)
            except Exception as e:
                out.append(type(e).__name__)
    except Exception as e:
        out.append("build:" + type(e).__name__)
    print(" ".join(out))

"""Shared machinery of the checks: proof leg (lake build + axiom audit + source
grep), worker pool, verdict logic, known findings, evidence and replay files."""
import hashlib
import json
import multiprocessing as mp
import os
import re
import subprocess
import sys
import time
import traceback

VERIF = os.path.dirname(os.path.dirname(os.path.abspath(__file__)))
LEAN_DIR = os.path.join(VERIF, "lean")
REPO = os.environ.get("PARGLARE_REPO", "/repo")
EVIDENCE_DIR = os.path.join(VERIF, "evidence")
REPLAY_DIR = os.path.join(VERIF, "replay")
KNOWN_FILE = os.path.join(VERIF, "known_findings.json")
ALLOWED_AXIOMS = {"propext", "Classical.choice", "Quot.sound"}
FORBIDDEN = re.compile(r"\b(sorry|admit|native_decide|bv_decide|implemented_by|unsafe)\b|^\s*axiom\s|maxHeartbeats\s+0")
PGMODEL_PATH = os.path.join(LEAN_DIR, ".lake", "build", "bin", "pgmodel")
NCPU = int(os.environ.get("VERIF_JOBS", str(os.cpu_count() or 4)))

os.environ.setdefault("PARGLARE_VERIF", "1")
if REPO not in sys.path:
    sys.path.insert(0, REPO)


def seed():
    try:
        return int(os.environ.get("VERIF_SEED", "0"))
    except ValueError:
        return 0


def h16(obj):
    return hashlib.sha256(json.dumps(obj, sort_keys=True, default=str).encode()).hexdigest()[:16]


# ---------------------------------------------------------------- time budget

class BudgetExceeded(Exception):
    pass


class budget:
    """Wall-clock guard around one implementation call (worker processes run
    their unit in the main thread, so SIGALRM works). Memory growth of a
    diverging call is bounded by the short budget."""

    def __init__(self, seconds):
        self.seconds = seconds

    def _raise(self, *a):
        raise BudgetExceeded()

    def __enter__(self):
        import signal
        self.old = signal.signal(signal.SIGALRM, self._raise)
        signal.setitimer(signal.ITIMER_REAL, self.seconds)
        return self

    def __exit__(self, *a):
        import signal
        signal.setitimer(signal.ITIMER_REAL, 0)
        signal.signal(signal.SIGALRM, self.old)
        return False


# ---------------------------------------------------------------- proof leg

def strip_comments(src):
    # remove /- ... -/ (nested not handled beyond one level) and -- comments
    out = []
    depth = 0
    i = 0
    while i < len(src):
        if src.startswith("/-", i):
            depth += 1
            i += 2
        elif src.startswith("-/", i) and depth:
            depth -= 1
            i += 2
        elif depth:
            i += 1
        elif src.startswith("--", i):
            j = src.find("\n", i)
            i = len(src) if j < 0 else j
        else:
            out.append(src[i])
            i += 1
    return "".join(out)


def grep_forbidden():
    hits = []
    for root, _, files in os.walk(LEAN_DIR):
        if ".lake" in root:
            continue
        for f in files:
            if f.endswith(".lean"):
                p = os.path.join(root, f)
                code = strip_comments(open(p).read())
                for ln, line in enumerate(code.split("\n"), 1):
                    if FORBIDDEN.search(line):
                        hits.append("%s:%d: %s" % (os.path.relpath(p, VERIF), ln, line.strip()[:100]))
    return hits


def proof_leg(prop, theorems, thorough=False):
    """Builds the property module and the driver, audits axioms of every listed
    theorem. Returns dict(ok, obligations, discharged, details, failed)."""
    t0 = time.time()
    res = {"ok": True, "obligations": len(theorems), "discharged": 0, "failed": [],
           "axioms": {}, "log": ""}
    r = subprocess.run(["lake", "build", "pgmodel", "PgVerif.Properties.%s" % prop],
                       cwd=LEAN_DIR, capture_output=True, text=True)
    res["log"] = (r.stdout + r.stderr)[-4000:]
    if r.returncode != 0:
        res["ok"] = False
        res["failed"].append("lake build PgVerif.Properties.%s" % prop)
        res["wall_s"] = time.time() - t0
        return res
    hits = grep_forbidden()
    if hits:
        res["ok"] = False
        res["failed"].append("forbidden construct: " + "; ".join(hits[:5]))
    # axiom audit
    audit = "import PgVerif.Properties.%s\n" % prop + "".join(
        "#print axioms Pg.%s\n" % t for t in theorems)
    ap = os.path.join(LEAN_DIR, ".lake", "audit_%s.lean" % prop)
    os.makedirs(os.path.dirname(ap), exist_ok=True)
    open(ap, "w").write(audit)
    r = subprocess.run(["lake", "env", "lean", ap], cwd=LEAN_DIR, capture_output=True, text=True)
    out = r.stdout + r.stderr
    blocks = re.split(r"(?m)^(?=')", out)
    seen = {}
    for b in blocks:
        m = re.match(r"'([^']+)' (depends on axioms: \[([^\]]*)\]|does not depend on any axioms)", b.replace("\n", " "))
        if m:
            axs = [a.strip() for a in (m.group(3) or "").split(",") if a.strip()]
            seen[m.group(1)] = axs
    for t in theorems:
        full = t if t in seen else ("Pg." + t if ("Pg." + t) in seen else None)
        if full is None:
            res["ok"] = False
            res["failed"].append("theorem %s not found / does not check" % t)
            continue
        axs = seen[full]
        res["axioms"][t] = axs
        bad = [a for a in axs if a not in ALLOWED_AXIOMS]
        if bad:
            res["ok"] = False
            res["failed"].append("theorem %s depends on %s" % (t, bad))
        else:
            res["discharged"] += 1
    if r.returncode != 0 and not res["failed"]:
        res["ok"] = False
        res["failed"].append("axiom audit failed: " + out[-300:])
    if thorough and res["ok"]:
        r = subprocess.run(["lake", "env", "leanchecker", "PgVerif.Properties.%s" % prop],
                           cwd=LEAN_DIR, capture_output=True, text=True)
        res["leanchecker"] = r.returncode
        if r.returncode != 0:
            res["ok"] = False
            res["failed"].append("leanchecker: " + (r.stdout + r.stderr)[-300:])
    res["wall_s"] = time.time() - t0
    return res


# ---------------------------------------------------------------- known findings

def load_known():
    if not os.path.exists(KNOWN_FILE):
        return []
    ks = json.load(open(KNOWN_FILE))["findings"]
    for k in ks:
        fps = set(k.get("fingerprints", []))
        ff = k.get("fingerprints_file")
        if ff and os.path.exists(os.path.join(VERIF, ff)):
            fps.update(l.strip() for l in open(os.path.join(VERIF, ff)) if l.strip())
        k["_fps"] = fps
    return ks


# ---------------------------------------------------------------- pool

def _call(args):
    fn, unit = args
    import contextlib
    import io
    try:
        # parglare prints its tables on conflicts; keep the check's stdout for verdict lines
        with contextlib.redirect_stdout(io.StringIO()):
            return fn(unit)
    except Exception as e:
        tb = traceback.extract_tb(e.__traceback__)
        repo_dir = os.path.abspath(REPO) + os.sep
        here = os.path.abspath(os.path.dirname(__file__)) + os.sep
        in_repo = [i for i, f in enumerate(tb) if os.path.abspath(f.filename).startswith(repo_dir)]
        # raised by the implementation, or by a library the implementation called (re, json, ...), and not by
        # harness code the implementation called back into (recognizers, actions, filters)
        if in_repo and not any(os.path.abspath(f.filename).startswith(here) for f in tb[in_repo[-1]:]):
            tb = tb[:in_repo[-1] + 1]
            # the implementation itself raised where the harness expected it to work: that is a
            # finding about the code, not a failure of the check's machinery
            return {"evaluations": 1, "violations": [{
                "kind": "unexpected-exception-from-implementation",
                "case": {"unit": repr(unit)[:600]},
                "observed": "%s: %s at %s:%d" % (type(e).__name__, str(e)[:120],
                                                 os.path.relpath(tb[-1].filename, REPO), tb[-1].lineno),
                "traceback": traceback.format_exc()[-1500:]}]}
        return {"harness_error": traceback.format_exc(), "unit": repr(unit)[:300]}


def _child(fn, unit, path):
    import pickle
    r = _call((fn, unit))
    with open(path, "wb") as f:
        pickle.dump(r, f)


def run_units(fn, units, jobs=None, unit_timeout=None):
    """Runs every unit in its own forked process (at most `jobs` at a time) with a hard
    per-unit timeout; a worker that dies or hangs yields a harness error for that unit
    instead of blocking the check."""
    import pickle
    import tempfile
    units = list(units)
    jobs = jobs or NCPU
    unit_timeout = unit_timeout or float(os.environ.get("VERIF_UNIT_TIMEOUT", "1500"))
    if jobs <= 1 and len(units) <= 1:
        return [_call((fn, u)) for u in units]
    ctx = mp.get_context("fork")
    tmp = tempfile.mkdtemp(prefix="pgverif-")
    results = [None] * len(units)
    pending = list(range(len(units)))
    running = {}
    try:
        while pending or running:
            while pending and len(running) < jobs:
                i = pending.pop(0)
                path = os.path.join(tmp, "%d.pkl" % i)
                pr = ctx.Process(target=_child, args=(fn, units[i], path))
                pr.start()
                running[i] = (pr, path, time.time())
            time.sleep(0.02)
            for i, (pr, path, t0) in list(running.items()):
                if not pr.is_alive():
                    pr.join()
                    if os.path.exists(path):
                        with open(path, "rb") as f:
                            results[i] = pickle.load(f)
                        os.unlink(path)
                    else:
                        results[i] = {"harness_error": "worker for unit %d died with exit code %s" % (i, pr.exitcode),
                                      "unit": repr(units[i])[:300]}
                    del running[i]
                elif time.time() - t0 > unit_timeout:
                    pr.kill()
                    pr.join()
                    results[i] = {"harness_error": "worker for unit %d exceeded %ds" % (i, unit_timeout),
                                  "unit": repr(units[i])[:300], "timeout": True}
                    del running[i]
    finally:
        for pr, _, _ in running.values():
            pr.kill()
        import shutil
        shutil.rmtree(tmp, ignore_errors=True)
    return results


def chunks(lst, n):
    lst = list(lst)
    k = max(1, (len(lst) + n - 1) // n)
    return [lst[i:i + k] for i in range(0, len(lst), k)]


# ---------------------------------------------------------------- results

class Result:
    """Aggregated outcome of the correspondence + oracle legs."""

    def __init__(self):
        self.evaluations = 0
        self.nontrivial = set()
        self.samples = []
        self.violations = []      # dicts: {kind, case, observed, expected, ...}
        self.disagreements = []   # model != implementation (oracle satisfied)
        self.stats = {}
        self.harness_errors = []
        self.traces = 0

    def merge(self, d):
        if "harness_error" in d:
            self.harness_errors.append(d)
            return
        self.evaluations += d.get("evaluations", 0)
        self.nontrivial.update(d.get("nontrivial", []))
        for s in d.get("samples", []):
            if len(self.samples) < 6:
                self.samples.append(s)
        self.violations.extend(d.get("violations", []))
        self.disagreements.extend(d.get("disagreements", []))
        self.traces += d.get("traces", 0)
        for k, v in d.get("stats", {}).items():
            if isinstance(v, dict):
                dd = self.stats.setdefault(k, {})
                for kk, vv in v.items():
                    dd[kk] = dd.get(kk, 0) + vv
            else:
                self.stats[k] = self.stats.get(k, 0) + v


def write_replay(prop, payload):
    os.makedirs(REPLAY_DIR, exist_ok=True)
    name = "%s-%s.json" % (prop, h16(payload))
    path = os.path.join(REPLAY_DIR, name)
    json.dump(payload, open(path, "w"), indent=1, sort_keys=True, default=str)
    return os.path.relpath(path, VERIF)


def match_known(prop, violation, known):
    """A violation is a listed finding only if an open entry for this property
    lists exactly this witness (by `fingerprint`) or its attribution predicate
    (a named, decidable predicate on the case and the observed deviation) holds."""
    fp = violation.get("fingerprint")
    for k in known:
        if k.get("status") != "open" or prop not in k.get("properties", []):
            continue
        if fp is not None and fp in k.get("_fps", ()):
            return k
        attr = k.get("attribution")
        if attr and violation.get("attribution") == attr:
            return k
    return None


def finish(prop, tier, level, proof, result, t0, meta):
    """Verdict, evidence, exit code."""
    known = load_known()
    new_violations = []
    seen_known = {}
    for v in result.violations:
        k = match_known(prop, v, known)
        if k is not None:
            seen_known.setdefault(k["id"], [k, 0])[1] += 1
        else:
            new_violations.append(v)
    lines = []
    exit_code = 0
    for kid, (k, cnt) in sorted(seen_known.items()):
        lines.append("KNOWN-FINDING: property=%s %s: %s (re-observed on %d case(s))" %
                     (prop, kid, k["what"], cnt))
    if result.harness_errors:
        print("HARNESS ERROR (check machinery failed, not a verdict):", file=sys.stderr)
        print(result.harness_errors[0]["harness_error"], file=sys.stderr)
        exit_code = 2
    if new_violations:
        # smallest case first
        new_violations.sort(key=lambda v: len(json.dumps(v.get("case", ""), default=str)))
        v = new_violations[0]
        path = write_replay(prop, {"property": prop, "kind": "failing-input", "violation": v,
                                   "others": len(new_violations) - 1,
                                   "replay_cmd": "./check %s --replay <this file>" % prop})
        lines.append("VIOLATION property=%s replay=%s" % (prop, path))
        exit_code = 1
    elif exit_code == 0 and (not proof["ok"] or result.disagreements):
        payload = {"property": prop, "kind": "broken-obligation",
                   "proof_failures": proof["failed"],
                   "correspondence_disagreements": result.disagreements[:20],
                   "note": "the property is no longer shown to hold: the named theorem(s) or "
                           "model/implementation correspondence no longer check; the search over "
                           "this run's scope found no input on which the property's oracle fails",
                   "lake_log": proof.get("log", "")[-1500:]}
        path = write_replay(prop, payload)
        lines.append("VIOLATION property=%s replay=%s no-failing-input-found" % (prop, path))
        exit_code = 1
    cov = {
        "obligations": proof["obligations"],
        "discharged": proof["discharged"],
        "checker_cmd": "cd lean && lake build PgVerif.Properties.%s && lake env lean .lake/audit_%s.lean  (#print axioms)%s"
                       % (prop, prop, " && lake env leanchecker PgVerif.Properties.%s" % prop if tier == "thorough" else ""),
        "trusted_base": meta.get("trusted_base", []) + [
            "Lean 4.33.0 kernel; axioms allowed: propext, Classical.choice, Quot.sound",
            "harness/enc.py serialisation and canonicalisation; pgmodel driver parsing"],
        "theorems": proof["axioms"],
        "proof_failures": proof["failed"],
        "evaluations": result.evaluations,
        "distinct_nontrivial": len(result.nontrivial),
        "rule": meta.get("rule", ""),
        "samples": result.samples or meta.get("samples", []),
        "traces_validated_against_impl": result.traces,
        "model_impl_disagreements": len(result.disagreements),
        "known_findings_reobserved": {k: c for k, (_, c) in seen_known.items()},
        "stats": result.stats,
        "explanation": meta.get("explanation", ""),
        "exhaustive": bool(meta.get("exhaustive", False)),
    }
    ev = {"property_id": prop, "tier": tier, "seed": seed(), "level": level, "coverage": cov,
          "assumptions": meta.get("assumptions", []), "wall_s": round(time.time() - t0, 2),
          "violations": len(new_violations)}
    os.makedirs(EVIDENCE_DIR, exist_ok=True)
    json.dump(ev, open(os.path.join(EVIDENCE_DIR, "%s.json" % prop), "w"), indent=1, sort_keys=True, default=str)
    for l in lines:
        print(l)
    print("%s %s: proofs %d/%d, %d evaluations, %d distinct non-trivial, %d model/impl disagreements, "
          "%d new violations, %.1fs" % (prop, tier, proof["discharged"], proof["obligations"],
                                        result.evaluations, len(result.nontrivial),
                                        len(result.disagreements), len(new_violations), time.time() - t0))
    return exit_code


def generic_replay(mod, path):
    """Re-runs the case of a replay file against the real code (and the model)."""
    payload = json.load(open(path))
    v = payload.get("violation")
    if not v or not hasattr(mod, "replay_case"):
        print(json.dumps(payload, indent=1)[:3000])
        return 0
    out = mod.replay_case(v)
    print(json.dumps(out, indent=1, default=str)[:4000])
    return 1 if out.get("violations") else 0

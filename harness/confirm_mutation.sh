#!/bin/bash
# usage: confirm_mutation.sh <PROP> <k> <srcdir>  -- verifies a candidate mutation in a scratch worktree and files it
# under /verif/seeded/<PROP>-m<k>/ (patch.diff, demo.py, notes.txt, confirm.txt)
set -u
PROP=$1; K=$2; SRC=$3
W=/tmp/confirm-$PROP-$K
rm -rf "$W"; git -C /repo worktree add -q --detach "$W" HEAD || exit 2
cd "$W"
OUT=/verif/seeded/$PROP-m$K; mkdir -p "$OUT"
cp "$SRC/patch.diff" "$OUT/patch.diff"; cp "$SRC/demo.py" "$OUT/demo.py"; cp "$SRC/notes.txt" "$OUT/notes.txt" 2>/dev/null
{
echo "base commit: $(git rev-parse --short HEAD)"
PYTHONPATH=$W /venv/bin/python "$OUT/demo.py" >/dev/null 2>&1; echo "demo on unchanged code: exit $?"
git apply "$OUT/patch.diff" && echo "patch applies: yes" || echo "patch applies: NO"
find "$W" -name '*.pgc' -not -path '*/compare_table/*' -delete
PYTHONPATH=$W env -u PARGLARE_VERIF /venv/bin/python -m pytest -q -p no:cacheprovider --timeout=900 2>&1 | grep -E "passed|failed" | tail -1 | sed 's/^/suite with change: /'
PYTHONPATH=$W /venv/bin/python "$OUT/demo.py" >/dev/null 2>&1; echo "demo with change: exit $?"
} > "$OUT/confirm.txt" 2>&1
cd /; git -C /repo worktree remove --force "$W"
cat "$OUT/confirm.txt"

"""Encoders: parglare objects -> the numeric line protocol of pgmodel.

The harness contains no second implementation of a parglare algorithm: it only
serialises what the implementation resolved/produced (grammar, table, match
table, trees, forests) and canonicalises outputs for comparison.
"""
from parglare.grammar import EMPTY, STOP, NonTerminal, Terminal
from parglare.tables import ACCEPT, REDUCE, SHIFT


class Numbering:
    """Stable numbering of a grammar's symbols. Nonterminal 0 = S', terminal 0 = STOP."""

    def __init__(self, grammar):
        self.grammar = grammar
        self.nts = [nt for nt in grammar.nonterminals.values()]
        aug = [n for n in self.nts if n.name == "S'"]
        self.nts = aug + [n for n in self.nts if n.name != "S'"]
        self.nt_id = {id(n): i for i, n in enumerate(self.nts)}
        terms = [t for t in grammar.terminals.values() if t is not STOP and t is not EMPTY]
        self.terms = [STOP] + terms
        self.t_id = {id(t): i for i, t in enumerate(self.terms)}

    def sym(self, s):
        if isinstance(s, NonTerminal):
            return 2 * self.nt_id[id(s)]
        return 2 * self.t_id[id(s)] + 1

    def term(self, t):
        return self.t_id[id(t)]

    def nt(self, n):
        return self.nt_id[id(n)]


def rhs_of(p):
    return [p.rhs[i] for i in range(len(p.rhs))]


def enc_grammar(num, start_production=1):
    g = num.grammar
    start_sym = g.productions[start_production].symbol
    out = [num.nt(start_sym), len(g.productions)]
    for p in g.productions:
        if p.prod_id == 0:
            rhs = [start_sym, STOP]
        else:
            rhs = rhs_of(p)
        out += [num.nt(p.symbol), len(rhs)] + [num.sym(s) for s in rhs]
    return out


def enc_action(a):
    if a.action == SHIFT:
        return [0, a.state.state_id]
    if a.action == REDUCE:
        return [1, a.prod.prod_id]
    return [2, 0]


def enc_table(num, table, finish_of=None):
    """`finish_of(terminal, flag)`: replaces the finish flag of a cell (reference tables)."""
    states = table.states
    # state ids must be list positions for the model
    assert all(s.state_id == i for i, s in enumerate(states)), "state ids are not positions"
    out = [len(states)]
    for s in states:
        out.append(num.sym(s.symbol))
        items = list(s.actions.items())
        ff = list(s.finish_flags)
        out.append(len(items))
        for (t, acts), fin in zip(items, ff):
            if finish_of is not None:
                fin = finish_of(t, fin)
            out += [num.term(t), 1 if fin else 0, len(acts)]
            for a in acts:
                out += enc_action(a)
        gl = list(s.gotos.items())
        out.append(len(gl))
        for nt, st in gl:
            out += [num.nt(nt), st.state_id]
    out.append(len(num.terms))
    for t in num.terms:
        out += [int(t.prior), 1 if t.prefer else 0]
    return out


class FakeHead:
    """Minimal stand-in for a parser head, for calling `_skipws` / recognizers."""

    def __init__(self, input_str, position):
        self.input_str = input_str
        self.position = position
        self.layout_content_ahead = ""
        self.file_name = None
        self.extra = {}


def skip_table(parser, text):
    """skip[p] = position after the implementation's own layout skipping from p."""
    out = []
    for p in range(len(text) + 1):
        h = FakeHead(text, p)
        parser._skipws(h, text)
        out.append(h.position)
    return out


def match_len(term, text, pos):
    rec = term.recognizer
    try:
        tok = rec(text, pos)
    except TypeError:
        tok = rec(FakeHead(text, pos), text, pos)
    if type(tok) is tuple:
        tok = tok[0]
    if tok:
        return len(tok)
    return None


def match_table(num, text):
    """Result of every real recognizer at every position (the regex engine and
    custom recognizers are never modelled: they are data)."""
    ms = []
    for t in num.terms[1:]:
        tid = num.term(t)
        for p in range(len(text)):
            l = match_len(t, text, p)
            if l:
                ms.append((tid, p, l))
    return ms


def enc_input(num, parser, text):
    sk = skip_table(parser, text)
    ms = match_table(num, text)
    out = [len(text), len(sk)] + sk + [len(ms)]
    for m in ms:
        out += list(m)
    return out


# ---- trees -------------------------------------------------------------

def tree_sexp(num, n, via_children=False):
    """Canonical s-expression of an implementation parse tree (LR build_tree
    nodes, GLR Tree/LazyTree proxies). Iterative: trees can be thousands of levels deep.
    `via_children`: walk through the `.children` attribute instead of iterating the node."""
    out = []
    # stack of (node, state): state 0 = open, 1 = close
    stack = [(n, 0)]
    while stack:
        x, st = stack.pop()
        if st == 1:
            out.append(")")
            continue
        if x.is_term():
            out.append(" (L %d %s %s)" % (num.term(x.symbol), x.start_position, x.end_position))
            continue
        out.append(" (N %d %s %s" % (x.production.prod_id, x.start_position, x.end_position))
        stack.append((x, 1))
        if via_children:
            kids = x.children
            if kids is None:
                out.append(" <children=None>")
                kids = []
        else:
            kids = list(x)
        for c in reversed(list(kids)):
            stack.append((c, 0))
    return "".join(out)[1:]


def enc_tree(num, n):
    if n.is_term():
        return [0, num.term(n.symbol), n.start_position, n.end_position]
    kids = list(n)
    out = [1, n.production.prod_id, n.start_position, n.end_position, len(kids)]
    for c in kids:
        out += enc_tree(num, c)
    return out


# ---- forests -----------------------------------------------------------

class ForestDump:
    """Walks `forest.result` and numbers the Parent objects in topological order
    (children first). `cyclic` is set when a Parent is reached again on the
    current path (then ids are in discovery order and the dump is a general
    graph)."""

    def __init__(self, num, root):
        self.num = num
        self.nodes = []      # list of alts lists
        self.ids = {}
        self.cyclic = False
        self.root = self._visit(root)

    def _visit(self, root):
        # iterative post-order
        order = []
        state = {}
        stack = [(root, False)]
        while stack:
            node, done = stack.pop()
            if done:
                state[id(node)] = 2
                order.append(node)
                continue
            st = state.get(id(node), 0)
            if st == 2:
                continue
            if st == 1:
                self.cyclic = True
                continue
            state[id(node)] = 1
            stack.append((node, True))
            for poss in node.possibilities:
                if poss.is_nonterm():
                    for ch in poss.children:
                        if state.get(id(ch), 0) == 0:
                            stack.append((ch, False))
                        elif state.get(id(ch)) == 1:
                            self.cyclic = True
        self._keep = order
        for i, n in enumerate(order):
            self.ids[id(n)] = i
        self.syms = [self.num.sym(n.head.state.symbol) for n in order]
        self.poss_ids = []   # per node: id() of each possibility object (for hook attribution)
        for n in order:
            alts = []
            self.poss_ids.append([id(poss) for poss in n.possibilities])
            for poss in n.possibilities:
                if poss.is_nonterm():
                    alts.append((1, poss.production.prod_id, poss.start_position, poss.end_position,
                                 [self.ids[id(c)] for c in poss.children]))
                else:
                    alts.append((0, self.num.term(poss.symbol), poss.start_position, poss.end_position))
            self.nodes.append(alts)
        return self.ids[id(root)]

    def encode(self):
        out = [len(self.nodes)]
        for alts in self.nodes:
            out.append(len(alts))
            for a in alts:
                if a[0] == 0:
                    out += [0, a[1], a[2], a[3]]
                else:
                    out += [1, a[1], a[2], a[3], len(a[4])] + a[4]
        return out


def forest_alt_keys(d):
    """Canonical keys of the packed alternatives of an acyclic dump:
    (node key, production, child node keys) with node key = (symbol, leaf span)
    where the leaf span is (first leaf start, last leaf end) or ('e', position)
    for an empty yield."""
    span = []       # span of a node when used as a child (its first alternative's)
    alt_span = []   # span of every alternative (differs inside the merged root of prefix forests)
    for alts in d.nodes:
        sps = []
        for a in alts:
            if a[0] == 0:
                sps.append((a[2], a[3]))
            else:
                ne = [span[c] for c in a[4] if span[c][0] != "e"]
                sps.append((ne[0][0], ne[-1][1]) if ne else ("e", a[2]))
        alt_span.append(sps)
        span.append(sps[0] if sps else None)
    keys = set()
    for i, alts in enumerate(d.nodes):
        for a, sp in zip(alts, alt_span[i]):
            if a[0] == 1:
                keys.add(((d.syms[i], sp), a[1], tuple((d.syms[c], span[c]) for c in a[4])))
    return keys, span


def oracle_alt_keys(num, skip, flat):
    """Keys (same shape) from the Lean oracle's `sppf` reply."""
    g = num.grammar
    keys = set()
    i = 0

    def nk(sym, a, b):
        return (sym, ("e", skip[a]) if a == b else (skip[a], b))

    while i < len(flat):
        A, s, e, p, n = flat[i:i + 5]
        ks = flat[i + 5:i + 5 + n]
        i += 5 + n
        rhs = rhs_of(g.productions[p])
        pos = [s] + ks
        keys.add((nk(2 * A, s, e), p, tuple(nk(num.sym(X), pos[m], pos[m + 1]) for m, X in enumerate(rhs))))
    return keys


def enc_ggrammar(num, kw_corr=4):
    """Grammar with the attributes table construction and action sorting consult."""
    from parglare.grammar import StringRecognizer, RegExRecognizer
    g = num.grammar
    out = [len(num.nts), len(g.productions)]
    for p in g.productions:
        if p.prod_id == 0:
            rhs = [g.productions[1].symbol, STOP]
        else:
            rhs = rhs_of(p)
        out += [num.nt(p.symbol), len(rhs)] + [num.sym(s) for s in rhs]
        out += [int(p.prior), int(p.assoc), 1 if p.nops else 0, 1 if p.nopse else 0]
    out.append(len(num.terms))
    for t in num.terms:
        rec = t.recognizer
        weight = 0
        if type(rec) is StringRecognizer:
            weight = len(rec.value)
        elif type(rec) is RegExRecognizer and t.keyword:
            weight = len(rec._regex) - kw_corr
        strlike = type(rec) is StringRecognizer or bool(t.keyword)
        fin = 0 if t.finish is None else (1 if t.finish else 2)
        fqn = [ord(c) for c in t.fqn]
        out += [int(t.prior), weight, 1 if strlike else 0, fin, len(fqn)] + fqn
    return out


def enc_items(num, table, lalr, start_production=1):
    """Item sets and FIRST data of an implementation table for the completeness validator
    (`lrvalid`): per state the items (production, dot, lookahead terminals) -- the item's own
    lookahead set for LALR, FOLLOW of its left-hand side for SLR -- and per nonterminal
    (nullable, FIRST)."""
    from parglare.grammar import AUGSYMBOL, Production, ProductionRHS
    from parglare.tables import first, follow
    g = num.grammar
    fs = first(g)
    fo = None
    if not lalr:
        old = g.productions[0]
        try:
            aug = Production(AUGSYMBOL, ProductionRHS([g.productions[start_production].symbol, STOP]))
            aug.prod_id = 0
            g.productions[0] = aug
            fo = follow(g, fs)
        finally:
            g.productions[0] = old
    out = [len(table.states)]
    for s in table.states:
        out.append(len(s.items))
        for it in s.items:
            if it.production.prod_id == 0:
                la = []
            elif lalr:
                la = sorted(num.term(t) for t in (it.follow or ()) if t is not EMPTY)
            else:
                la = sorted(num.term(t) for t in fo[it.production.symbol] if t is not EMPTY)
            out += [it.production.prod_id, it.position, len(la)] + la
    out.append(len(num.nts))
    start_sym = g.productions[start_production].symbol
    for nt in num.nts:
        f = fs.get(nt, set())
        if nt.name == "S'":
            # FIRST of the augmented symbol for the requested start production: S' -> start STOP
            f = set(fs[start_sym])
            if EMPTY in f:
                f = (f - {EMPTY}) | {STOP}
        ts = sorted(num.term(t) for t in f if t is not EMPTY)
        out += [1 if EMPTY in f else 0, len(ts)] + ts
    return out


def glr_alt_set(num, forest):
    """Packed alternatives of an implementation forest in the vocabulary of the GLR driver model:
    ((symbol, start, end) of the Parent, production, (symbol, start, end) of the children)."""
    out = set()
    seen = set()
    todo = [forest.result]

    def key(par):
        return (num.sym(par.head.state.symbol), par.start_position, par.end_position)
    while todo:
        par = todo.pop()
        if id(par) in seen:
            continue
        seen.add(id(par))
        for ps in par.possibilities:
            if ps.is_nonterm():
                out.add((key(par), ps.production.prod_id, tuple(key(c) for c in ps.children)))
                todo.extend(ps.children)
    return out


def parse_glr_reply(line):
    """Reply of the `glr` command: a set of alternatives as above, or 'syntax' | 'lexamb' | 'crash' | 'fuel'."""
    xs = line.split()
    if len(xs) < 2 or xs[0] != "glr":
        return "bad"
    if xs[1] != "forest":
        return xs[1]
    v = [int(x) for x in xs[2:]]
    i = 0
    out = set()
    while i < len(v):
        sym, s, e, p, n = v[i:i + 5]
        i += 5
        kids = []
        for _ in range(n):
            kids.append(tuple(v[i:i + 3]))
            i += 3
        out.add(((sym, s, e), p, tuple(kids)))
    return out

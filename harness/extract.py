"""Regenerates lean/PgVerif/Generated/Source.lean from /repo's current source.

Only literal data and call chains are translated (constants, sort-key weights,
str.replace chains, built-in action list composition); the algorithmic code is
modelled by hand and tied by the correspondence leg. Theorems that depend on
these values are re-checked by the kernel against what the code says now.
"""
import ast
import os

from common import LEAN_DIR, REPO

OUT = os.path.join(LEAN_DIR, "PgVerif", "Generated", "Source.lean")


def _src(rel):
    return open(os.path.join(REPO, rel)).read()


def _module_consts(tree, names):
    out = {}
    for node in tree.body:
        if isinstance(node, ast.Assign) and len(node.targets) == 1 and isinstance(node.targets[0], ast.Name):
            n = node.targets[0].id
            if n in names:
                out[n] = ast.literal_eval(node.value)
    return out


def _find_func(tree, name):
    for node in ast.walk(tree):
        if isinstance(node, ast.FunctionDef) and node.name == name:
            return node
    raise KeyError(name)


def _replace_chain(expr):
    """x.replace(a, b).replace(c, d)... -> [(a, b), (c, d), ...] in application order."""
    chain = []
    while isinstance(expr, ast.Call) and isinstance(expr.func, ast.Attribute) and expr.func.attr == "replace":
        a, b = (ast.literal_eval(x) for x in expr.args)
        chain.append((a, b))
        expr = expr.func.value
    chain.reverse()
    return chain


def lean_str(s):
    out = []
    for ch in s:
        o = ord(ch)
        if ch == "\\":
            out.append("\\\\")
        elif ch == '"':
            out.append('\\"')
        elif ch == "\n":
            out.append("\\n")
        elif ch == "\t":
            out.append("\\t")
        elif ch == "\r":
            out.append("\\r")
        elif o < 32 or o > 126:
            out.append("\\x%02x" % o if o < 256 else "\\u{%x}" % o)
        else:
            out.append(ch)
    return '"' + "".join(out) + '"'


def lean_pairs(ps):
    return "[" + ", ".join("(%s, %s)" % (lean_str(a), lean_str(b)) for a, b in ps) + "]"


def extract():
    g_tree = ast.parse(_src("parglare/grammar.py"))
    t_tree = ast.parse(_src("parglare/tables/__init__.py"))
    a_tree = ast.parse(_src("parglare/actions.py"))
    p_tree = ast.parse(_src("parglare/parser.py"))
    gc = _module_consts(g_tree, {"ASSOC_NONE", "ASSOC_LEFT", "ASSOC_RIGHT", "DEFAULT_PRIORITY",
                                 "MULT_ONE", "MULT_OPTIONAL", "MULT_ONE_OR_MORE", "MULT_ZERO_OR_MORE",
                                 "RESERVED_SYMBOL_NAMES", "SPECIAL_SYMBOL_NAMES"})
    tc = _module_consts(t_tree, {"SHIFT", "REDUCE", "ACCEPT", "SLR", "LALR"})
    # act_order: "{:010d}{:500s}".format(prior * W1 + (W2 + len ... + (len(regex) - K)), fqn)
    ao = _find_func(t_tree, "act_order")
    nums = [n.value for n in ast.walk(ao) if isinstance(n, ast.Constant) and isinstance(n.value, int)
            and not isinstance(n.value, bool)]
    fmt = [n.value for n in ast.walk(ao) if isinstance(n, ast.Constant) and isinstance(n.value, str)
           and "{" in n.value]
    w1, w2 = nums[0], nums[1]
    kw_corr = [n for n in nums[2:] if n not in (0,)][0]
    # sorted(..., reverse=True)?
    ssa = _find_func(t_tree, "sort_state_actions")
    reverse = any(isinstance(k, ast.keyword) and k.arg == "reverse" and ast.literal_eval(k.value)
                  for n in ast.walk(ssa) if isinstance(n, ast.Call) for k in n.keywords)
    # escape chains
    esc = _find_func(g_tree, "escape")
    esc_chain = _replace_chain(esc.body[-1].value)
    ast_term = _find_func(g_tree, "act_str_term")
    str_term_chain = []
    for n in ast.walk(ast_term):
        if isinstance(n, ast.Call) and isinstance(n.func, ast.Attribute) and n.func.attr == "replace":
            ch = _replace_chain(n)
            if len(ch) > len(str_term_chain):
                str_term_chain = ch
    rec_str = _find_func(g_tree, "act_recognizer_str")
    rec_chain = []
    for n in ast.walk(rec_str):
        if isinstance(n, ast.Call) and isinstance(n.func, ast.Attribute) and n.func.attr == "replace":
            ch = _replace_chain(n)
            if len(ch) > len(rec_chain):
                rec_chain = ch
    # keyword template: rf"\b{match}\b"
    fk = _find_func(g_tree, "_fix_keyword_terminals")
    kw_parts = []
    for n in ast.walk(fk):
        if isinstance(n, ast.JoinedStr):
            kw_parts = [v.value if isinstance(v, ast.Constant) else None for v in n.values]
    # built-in action lists
    acts = {}
    for node in a_tree.body:
        if isinstance(node, ast.Assign) and isinstance(node.value, ast.List):
            acts[node.targets[0].id] = [e.id for e in node.value.elts if isinstance(e, ast.Name)]
    # parser defaults
    pinit = None
    for node in ast.walk(p_tree):
        if isinstance(node, ast.ClassDef) and node.name == "Parser":
            pinit = [f for f in node.body if isinstance(f, ast.FunctionDef) and f.name == "__init__"][0]
    args = pinit.args
    defaults = dict(zip([a.arg for a in args.args][-len(args.defaults):], args.defaults))
    ws_default = ast.literal_eval(defaults["ws"])
    lexdis_default = ast.literal_eval(defaults["lexical_disambiguation"])
    # make_multiplicity_fqn suffixes
    mm = _find_func(g_tree, "make_multiplicity_fqn")
    mult_dict = {}
    for n in ast.walk(mm):
        if isinstance(n, ast.Dict):
            for k, v in zip(n.keys, n.values):
                kk = gc.get(k.id) if isinstance(k, ast.Name) else ast.literal_eval(k)
                mult_dict[kk] = ast.literal_eval(v)
    L = []
    L.append("/- GENERATED by harness/extract.py from /repo's working tree. Do not edit. -/")
    L.append("namespace Pg.Src")
    for k in ("ASSOC_NONE", "ASSOC_LEFT", "ASSOC_RIGHT", "DEFAULT_PRIORITY"):
        L.append("def %s : Nat := %d" % (k, gc[k]))
    for k in ("SHIFT", "REDUCE", "ACCEPT", "SLR", "LALR"):
        L.append("def %s : Nat := %d" % (k, tc[k]))
    L.append("/-- `act_order`: key = prior * sortW1 + (sortW2 + len(string) + (len(keyword regex) - kwCorr)). -/")
    L.append("def sortW1 : Nat := %d" % w1)
    L.append("def sortW2 : Nat := %d" % w2)
    L.append("def kwCorr : Nat := %d" % kw_corr)
    L.append("def sortFormat : String := %s" % lean_str(fmt[0] if fmt else ""))
    L.append("def sortReverse : Bool := %s" % ("true" if reverse else "false"))
    L.append("def escapeChain : List (String × String) := %s" % lean_pairs(esc_chain))
    L.append("def strTermChain : List (String × String) := %s" % lean_pairs(str_term_chain))
    L.append("def recognizerStrChain : List (String × String) := %s" % lean_pairs(rec_chain))
    L.append("def keywordPrefix : String := %s" % lean_str(kw_parts[0] if kw_parts and kw_parts[0] else ""))
    L.append("def keywordSuffix : String := %s" % lean_str(kw_parts[-1] if kw_parts and kw_parts[-1] else ""))
    L.append("def defaultWs : String := %s" % lean_str(ws_default))
    L.append("def defaultLexicalDisambiguation : Bool := %s" % ("true" if lexdis_default else "false"))
    L.append("def reservedSymbolNames : List String := [%s]" % ", ".join(lean_str(x) for x in gc["RESERVED_SYMBOL_NAMES"]))
    L.append("def multSuffix : List (String × String) := %s" % lean_pairs(sorted(mult_dict.items())))
    for name in sorted(acts):
        L.append("def action_%s : List String := [%s]" % (name, ", ".join(lean_str(x) for x in acts[name])))
    L.append("end Pg.Src")
    return "\n".join(L) + "\n"


def regenerate():
    try:
        txt = extract()
    except Exception as e:  # extraction failure is a broken obligation, reported by the caller
        return False, "%s: %s" % (type(e).__name__, e)
    os.makedirs(os.path.dirname(OUT), exist_ok=True)
    old = open(OUT).read() if os.path.exists(OUT) else None
    if old != txt:
        open(OUT, "w").write(txt)
    return True, ""


if __name__ == "__main__":
    print(extract())

"""Grammar and input generators. Every random choice derives from one
`random.Random(seed)` so that a case replays exactly."""
import itertools
import random

NT_NAMES = ["S", "A", "B", "C", "D"]


class GSpec:
    """A grammar as data: rules = [(lhs, [rhs symbols...]), ...] (first rule's lhs
    is the start symbol), terms = {name: ("str", text) | ("re", regex)}.
    Terminal symbols in rules are referenced by name."""

    def __init__(self, rules, terms, layout=None, meta=None):
        self.rules = rules
        self.terms = terms
        self.layout = layout          # optional extra text for LAYOUT rules
        self.meta = meta or {}        # production meta per rule index: "{left, 5}"
        self.exhaustive = False       # member of a deterministic (seed-independent) scope

    def nonterminals(self):
        out = []
        for l, _ in self.rules:
            if l not in out:
                out.append(l)
        return out

    def text(self):
        by = {}
        for i, (l, r) in enumerate(self.rules):
            alt = " ".join(r) if r else "EMPTY"
            if i in self.meta:
                alt += " " + self.meta[i]
            by.setdefault(l, []).append(alt)
        lines = ["%s: %s;" % (l, " | ".join(alts)) for l, alts in by.items()]
        if self.layout:
            lines.append(LAYOUTS[self.layout][0])
        lines.append("terminals")
        for n, (k, v) in self.terms.items():
            if k == "str":
                lines.append('%s: "%s";' % (n, v))
            else:
                lines.append("%s: /%s/;" % (n, v))
        if self.layout:
            lines.append(LAYOUTS[self.layout][1])
        return "\n".join(lines) + "\n"

    def key(self):
        return (tuple((l, tuple(r)) for l, r in self.rules), tuple(sorted(self.terms.items())),
                self.layout, tuple(sorted(self.meta.items())))

    def to_json(self):
        return {"rules": [[l, list(r)] for l, r in self.rules],
                "terms": {k: list(v) for k, v in self.terms.items()},
                "layout": self.layout, "meta": {str(k): v for k, v in self.meta.items()},
                "exh": self.exhaustive, "corpus_inputs": getattr(self, "corpus_inputs", [])}

    @staticmethod
    def from_json(d):
        s = GSpec([(l, list(r)) for l, r in d["rules"]],
                  {k: tuple(v) for k, v in d["terms"].items()},
                  d.get("layout"), {int(k): v for k, v in (d.get("meta") or {}).items()})
        s.exhaustive = bool(d.get("exh"))
        s.corpus_inputs = list(d.get("corpus_inputs") or [])
        return s


# LAYOUT rule variants: name -> (rules, terminals, fillers)
LAYOUTS = {
    "ws": ("LAYOUT: LayoutItem | LAYOUT LayoutItem | EMPTY;\nLayoutItem: WS;", "WS: /\\s+/;", [" ", "  ", "\n", "\t "]),
    "ws1": ("LAYOUT: WS | EMPTY;", "WS: /\\s+/;", [" ", "  ", "\n", "\t "]),
    "comment": ("LAYOUT: LayoutItem | LAYOUT LayoutItem | EMPTY;\nLayoutItem: WS | Comment;",
                "WS: /\\s+/;\nComment: /\\#[^\\n]*/;", [" ", "\n", "#x\n", " # y z\n ", "#\n"]),
    "block": ("LAYOUT: LayoutItem | LAYOUT LayoutItem | EMPTY;\nLayoutItem: WS | Comment;\n"
              "Comment: '/*' CorNCs '*/';\nCorNCs: CorNC | CorNCs CorNC | EMPTY;\nCorNC: Comment | NotComment | WS;",
              "WS: /\\s+/;\nNotComment: /((\\*[^\\/])|[^\\s*\\/]|\\/[^\\*])+/;",
              [" ", "\n", "/* x */", " /* /* n */ y */ ", "/**/"]),
}


# ---- analysis of specs (only used to *select* cases, never as an oracle) ----

def nullable_set(rules):
    nul = set()
    ch = True
    while ch:
        ch = False
        for l, r in rules:
            if l not in nul and all(x in nul for x in r):
                nul.add(l)
                ch = True
    return nul


def productive_reachable(rules, nts):
    prod = set()
    ch = True
    while ch:
        ch = False
        for l, r in rules:
            if l not in prod and all((x not in nts) or (x in prod) for x in r):
                prod.add(l)
                ch = True
    if set(nts) - prod:
        return False
    reach = {rules[0][0]}
    ch = True
    while ch:
        ch = False
        for l, r in rules:
            if l in reach:
                for x in r:
                    if x in nts and x not in reach:
                        reach.add(x)
                        ch = True
    return not (set(nts) - reach)


def is_cyclic(rules, nts):
    """Does some nonterminal derive itself (A =>+ A)?"""
    nul = nullable_set(rules)
    unit = {n: set() for n in nts}
    for l, r in rules:
        for i, x in enumerate(r):
            if x in nts and all((y in nul) for j, y in enumerate(r) if j != i):
                unit[l].add(x)
    for n in nts:
        seen = set()
        todo = list(unit[n])
        while todo:
            x = todo.pop()
            if x == n:
                return True
            if x not in seen:
                seen.add(x)
                todo.extend(unit[x])
    return False


# ---- exhaustive small scope ---------------------------------------------------

def enum_grammars(n_nt, n_t, max_prods, max_rhs, allow_cyclic=True, term_texts=None):
    """All productive, reachable grammars with exactly n_nt nonterminals, up to
    n_t terminals, up to max_prods productions, rhs length <= max_rhs; symbols
    are introduced in canonical order (a cheap quotient by renaming)."""
    nts = NT_NAMES[:n_nt]
    tnames = ["a", "b", "c", "d"][:n_t]
    term_texts = term_texts or {t: ("str", t) for t in tnames}
    syms = nts + tnames
    rhss = []
    for k in range(max_rhs + 1):
        rhss.extend(itertools.product(syms, repeat=k))
    seen = set()

    def canonical(rules):
        # symbols must first occur in index order (S first by construction)
        order_nt, order_t = [nts[0]], []
        for l, r in rules:
            for x in [l] + list(r):
                if x in nts:
                    if x not in order_nt:
                        order_nt.append(x)
                elif x not in order_t:
                    order_t.append(x)
        return order_nt == nts[:len(order_nt)] and order_t == tnames[:len(order_t)]

    def rec(nt_idx, rules, remaining):
        if nt_idx == n_nt:
            yield list(rules)
            return
        need_after = n_nt - nt_idx - 1
        for k in range(1, remaining - need_after + 1):
            for alts in itertools.combinations(rhss, k):
                new = rules + [(nts[nt_idx], list(a)) for a in alts]
                yield from rec(nt_idx + 1, new, remaining - k)

    for rules in rec(0, [], max_prods):
        if not productive_reachable(rules, nts):
            continue
        if not canonical(rules):
            continue
        if not allow_cyclic and is_cyclic(rules, nts):
            continue
        used = {x for _, r in rules for x in r if x not in nts}
        if not used:
            continue
        spec = GSpec(rules, {t: term_texts[t] for t in tnames if t in used})
        k = spec.key()
        if k in seen:
            continue
        seen.add(k)
        yield spec


# ---- random larger scope ------------------------------------------------------

OVERLAP_TERMS = [
    {"a": ("str", "a"), "b": ("str", "b"), "c": ("str", "c"), "d": ("str", "d")},
    {"a": ("str", "a"), "aa": ("str", "aa"), "b": ("str", "b"), "ab": ("str", "ab")},
    {"a": ("str", "a"), "as": ("re", "a+"), "b": ("str", "b"), "ab": ("str", "ab")},
    {"a": ("str", "a"), "x": ("re", "[ab]"), "b": ("str", "b"), "bb": ("re", "bb?")},
]


def random_grammar(rng, max_nt=5, max_t=4, max_prods=9, max_rhs=3, allow_cyclic=True,
                   overlap=False, p_empty=0.2, tries=200):
    for _ in range(tries):
        n_nt = rng.randint(1, max_nt)
        nts = NT_NAMES[:n_nt]
        terms = dict(rng.choice(OVERLAP_TERMS[1:]) if overlap else OVERLAP_TERMS[0])
        tn = list(terms)[:rng.randint(1, max_t)]
        n_prods = rng.randint(n_nt, max_prods)
        lhss = nts + [rng.choice(nts) for _ in range(n_prods - n_nt)]
        rules = []
        for l in sorted(lhss, key=nts.index):
            if rng.random() < p_empty:
                r = []
            else:
                k = rng.randint(1, max_rhs)
                r = [rng.choice(nts) if rng.random() < 0.5 else rng.choice(tn) for _ in range(k)]
            if (l, r) not in rules:
                rules.append((l, r))
        if not productive_reachable(rules, nts):
            continue
        if not allow_cyclic and is_cyclic(rules, nts):
            continue
        used = [t for t in tn if any(t in r for _, r in rules)]
        if not used:
            continue
        return GSpec(rules, {t: terms[t] for t in used})
    return None


def chain_family(depth=2, sizes=(3, 4), limit=None, rng=None):
    """Nullable unit chains reached from several contexts with different followers
    (the shape on which LALR lookahead propagation and merging matter):
    C0: C1; C1: C2; ... Cd: 't' | EMPTY;  S: [pre] C_level post | ...  (+ optional wrapper G: C_l post)."""
    chain = ["C%d" % i for i in range(depth + 1)]
    alts = []
    for pre in ("", "p", "q"):
        for lvl in range(depth + 1):
            for post in ("x", "y"):
                alts.append([a for a in (pre, chain[lvl], post) if a])
    # wrapper alternatives: S: pre G ; G: C_l post
    wrappers = [("p", 0, "y"), ("q", 1, "x")]
    combos = []
    for k in sizes:
        combos.extend(itertools.combinations(range(len(alts)), k))
    # nested selections: one fixed shuffle, the first `limit` combinations
    (rng or random.Random(20260926)).shuffle(combos)
    if limit is not None and len(combos) > limit:
        combos = combos[:limit]
    for ci, combo in enumerate(combos):
        rules = [("S", alts[i]) for i in combo]
        w = wrappers[ci % 3] if ci % 3 < 2 else None
        if w:
            rules.append(("S", [w[0], "G"]))
        for i in range(depth):
            rules.append((chain[i], [chain[i + 1]]))
        rules.append((chain[depth], ["t"]))
        rules.append((chain[depth], []))
        if w:
            rules.append(("G", [chain[w[1]], w[2]]))
        used = sorted({x for _, r in rules for x in r if x.islower()})
        nts = [l for l, _ in rules]
        if not productive_reachable(rules, list(dict.fromkeys(nts))):
            continue
        yield GSpec(rules, {t: ("str", t) for t in used})


def juxta_family(stride=1):
    """Grammars without empty productions built from juxtaposition and unit productions over three
    nonterminals: several reductions on one lookahead in one state, links added to the head that is
    reducing, heads revisited -- what the GLR reducer's re-reduction machinery is there for."""
    import itertools
    terms = {"a": ("str", "a"), "b": ("str", "b")}
    a_alts = [["b"], ["A", "B"], ["A", "A"], ["a"], ["B", "A"]]
    b_alts = [["A"], ["b"], ["B", "B"]]
    out = []
    k = 0
    for s_rhs in (["A", "b"], ["A"]):
        for am in range(1, 2 ** len(a_alts)):
            asel = [a_alts[i] for i in range(len(a_alts)) if am >> i & 1]
            if not any(x in (["b"], ["a"]) for x in asel):
                continue
            for bm in range(1, 2 ** len(b_alts)):
                bsel = [b_alts[i] for i in range(len(b_alts)) if bm >> i & 1]
                if not any(x in (["A"], ["b"]) for x in bsel):
                    continue
                k += 1
                # the densest members always, the others every `stride`-th
                dense = ["A", "B"] in asel and ["A", "A"] in asel and ["A"] in bsel
                if not dense and k % stride:
                    continue
                rules = [("S", s_rhs)] + [("A", r) for r in asel] + [("B", r) for r in bsel]
                used = {x for _, r in rules for x in r}
                out.append(GSpec(rules, {t: v for t, v in terms.items() if t in used}))
    return out


def idiom_family():
    """Common grammar idioms in varying contexts: nullable / non-empty, left / right
    recursive lists, optionals and separated lists placed after a terminal, after a
    nonterminal, at the start and at the end of a rule, alone and in pairs."""
    lists = {
        "lrec0": [("L", ["L", "x"]), ("L", [])],
        "rrec0": [("L", ["x", "L"]), ("L", [])],
        "lrec1": [("L", ["L", "x"]), ("L", ["x"])],
        "opt": [("L", ["x"]), ("L", [])],
        "lrecX": [("L", ["L", "X"]), ("L", []), ("X", ["x"])],
        "sep": [("L", ["L", "c", "x"]), ("L", ["x"]), ("L", [])],
    }
    lists2 = {
        "lrec0": [("M", ["M", "y"]), ("M", [])],
        "opt": [("M", ["y"]), ("M", [])],
    }
    contexts = [
        (["H", "L", "e"], True, False), (["h", "L", "e"], False, False), (["L", "e"], False, False),
        (["H", "L"], True, False), (["L"], False, False), (["H", "L", "M", "e"], True, True),
        (["L", "M"], False, True), (["h", "L", "M"], False, True),
    ]
    for lname, lrules in lists.items():
        for ctx, needs_h, needs_m in contexts:
            for mname, mrules in (lists2.items() if needs_m else [(None, [])]):
                rules = [("S", list(ctx))]
                if needs_h:
                    rules.append(("H", ["h"]))
                rules += [(l, list(r)) for l, r in lrules] + [(l, list(r)) for l, r in mrules]
                used = sorted({x for _, r in rules for x in r if x.islower()})
                yield GSpec(rules, {t: ("str", t) for t in used})


def fixed_stream(n, kind="nullable", seed0=20260925):
    """A seed-INDEPENDENT pseudo-random stream (deterministic scope): small grammars
    rich in empty productions, hidden recursion and (every third) lexical overlap."""
    rng = random.Random(seed0)
    out = []
    tries = 0
    while len(out) < n and tries < 20 * n:
        tries += 1
        s = random_grammar(rng, max_nt=3, max_t=3, max_prods=7, max_rhs=3, allow_cyclic=False,
                           overlap=(tries % 3 == 0), p_empty=0.3)
        if s is not None:
            out.append(s)
    return out


def features(spec):
    nts = spec.nonterminals()
    nul = nullable_set(spec.rules)
    f = set()
    if nul:
        f.add("nullable")
    if is_cyclic(spec.rules, nts):
        f.add("cyclic")
    for l, r in spec.rules:
        if r and r[0] == l:
            f.add("left-rec")
        if r and r[-1] == l:
            f.add("right-rec")
        for i, x in enumerate(r):
            if x == l and 0 < i and all(y in nul for y in r[:i]):
                f.add("hidden-left-rec")
            if x == l and i < len(r) - 1 and all(y in nul for y in r[i + 1:]):
                f.add("hidden-right-rec")
    texts = [v for k, v in spec.terms.values() if k == "str"]
    if any(k == "re" for k, _ in spec.terms.values()) or any(
            a != b and a.startswith(b) for a in texts for b in texts):
        f.add("lex-overlap")
    return f


# ---- inputs -------------------------------------------------------------------

def token_strings(spec, max_tokens):
    """All concatenations of up to max_tokens terminal sample texts."""
    samples = []
    for n, (k, v) in spec.terms.items():
        if k == "str":
            samples.append(v)
        else:
            samples.extend(SAMPLES_FOR_RE.get(v, []))
    samples = sorted(set(samples))
    seen = set()
    for k in range(max_tokens + 1):
        for combo in itertools.product(samples, repeat=k):
            s = "".join(combo)
            if s not in seen:
                seen.add(s)
                yield s


SAMPLES_FOR_RE = {"a+": ["a", "aa"], "[ab]": ["a", "b"], "bb?": ["b", "bb"], r"\d+": ["1", "23"],
                  r"[a-z]+": ["x", "ab"]}


def with_layout(rng, text, fillers=(" ", "  ", "\n", "\t ")):
    fillers = list(fillers)
    """Insert layout at random character boundaries (used for grammars with
    single-character terminals, where every boundary is a token boundary)."""
    out = []
    for ch in text:
        if rng.random() < 0.4:
            out.append(rng.choice(fillers))
        out.append(ch)
    if rng.random() < 0.5:
        out.append(rng.choice(fillers))
    return "".join(out)

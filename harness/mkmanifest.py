"""Writes MANIFEST.json from the property modules (kept in one place so that the
manifest stays valid and in step with what is implemented)."""
import importlib
import json
import os
import sys

HERE = os.path.dirname(os.path.abspath(__file__))
sys.path.insert(0, HERE)
VERIF = os.path.dirname(HERE)

ALL = ["C%02d" % i for i in range(1, 21)]


def main():
    checks = []
    na = []
    for pid in ALL:
        path = os.path.join(HERE, "props", pid.lower() + ".py")
        if not os.path.exists(path):
            na.append({"property_id": pid, "reason": "check not built yet in this round (the technique applies; see DESIGN.md section 6)"})
            continue
        src = open(path).read()
        ns = {}
        # read MANIFEST_ENTRY literal without importing parglare
        start = src.index("MANIFEST_ENTRY = ")
        import ast
        node = ast.parse(src[start:]).body[0]
        entry = ast.literal_eval(node.value)
        checks.append({
            "property_id": pid,
            "quick_cmd": "./check %s --tier quick" % pid,
            "thorough_cmd": "./check %s --tier thorough" % pid,
            "evidence_file": "evidence/%s.json" % pid,
            "replay_cmd_template": "./check %s --replay {path}" % pid,
            "engine": "lean4+correspondence",
            "level_claimed": {"category": entry["category"], "text": entry["text"],
                              "design_ref": "DESIGN.md section 6, %s" % pid},
            "level_note": entry["note"],
            "technique": entry["technique"],
        })
    m = {
        "version": 1,
        "setup_cmd": "cd lean && lake build PgVerif pgmodel",
        "hooks": {
            "guard": "PARGLARE_VERIF",
            "enable": "checks import parglare from /repo's working tree with PARGLARE_VERIF=1 in the environment (set by ./check)",
            "baseline_off_cmd": "cd /repo && env -u PARGLARE_VERIF /venv/bin/python -m pytest -ra -q -p no:cacheprovider --timeout=900 --continue-on-collection-errors",
            "source_commits": json.load(open(os.path.join(VERIF, "hooks.json")))["commits"],
            "add_only": True,
        },
        "engines": [{"name": "lean4+correspondence", "path": "lean/ (Lake project PgVerif, driver pgmodel) + harness/",
                     "serves_properties": [c["property_id"] for c in checks],
                     "kind_free_text": "Lean 4 theorems about hand-written executable models and verified oracles; "
                                       "models tied to /repo by a regenerated constants file and by differential "
                                       "correspondence through a line protocol"}],
        "checks": checks,
        "not_applicable": na,
        "notes": "Every check: (1) regenerates lean/PgVerif/Generated/Source.lean from /repo, (2) builds the property's "
                 "Lean module and audits #print axioms, (3) runs model vs implementation and verified oracles on "
                 "implementation output over an exhaustive small scope plus a seeded random scope. Exit 2 = the "
                 "check's own machinery failed (never a verdict).",
    }
    json.dump(m, open(os.path.join(VERIF, "MANIFEST.json"), "w"), indent=1)
    print("MANIFEST.json: %d checks, %d not yet claimed" % (len(checks), len(na)))


if __name__ == "__main__":
    main()

"""Writes seeded/<id>/meta.json from notes.txt, confirm.txt and the table of which checks catch the change."""
import json
import os

HERE = os.path.dirname(os.path.dirname(os.path.abspath(__file__)))
CAUGHT = {
    "C01-m1": ["C02 quick (forest misses derivations outside the fingerprinted set)", "C01: not caught in quick/thorough scope as a rejected sentence; same change is C02-m1"],
    "C01-m2": ["C01 quick", "C02 quick", "C04 quick", "C05 quick"], "C01-m3": ["C01 quick", "C02 quick", "C08 quick"],
    "C02-m1": ["C02 quick"], "C02-m2": ["C02 quick", "C01 quick"], "C02-m3": ["C02 quick", "C01 quick", "C04 quick", "C05 quick"],
    "C03-m1": ["C03 quick"], "C03-m2": ["C03 quick"], "C03-m3": ["C03 quick"],
    "C04-m1": ["C04 quick", "C05 quick"], "C04-m2": ["C04 quick", "C05 quick"], "C04-m3": ["C04 quick", "C05 quick"],
    "C05-m1": ["C05 quick"], "C05-m2": ["C05 quick (corpus grammar exceeds the state budget)"], "C05-m3": ["C05 quick"],
    "C06-m1": ["C06 quick"], "C06-m2": ["C06 quick"], "C06-m3": ["C06 quick"],
    "C07-m1": ["C07 quick"], "C07-m2": ["C07 quick"], "C07-m3": ["C07 quick"],
    "C08-m1": ["C08 quick"], "C08-m2": ["C08 quick"], "C08-m3": ["C08 quick"],
    "C09-m1": ["C09 quick"], "C09-m2": ["C09 quick"], "C09-m3": ["C09 quick"],
    "C10-m1": ["C10 quick"], "C10-m2": ["C10 quick"], "C10-m3": ["C10 quick"],
    "C11-m1": ["C11 quick"], "C11-m2": ["C11 quick"], "C11-m3": ["C11 quick"],
    "C12-m1": ["C12 quick"], "C12-m2": ["C12 quick"], "C12-m3": ["C12 quick"],
    "C16-m1": ["C16 quick"], "C16-m2": ["C16 quick"], "C16-m3": ["C12 quick (loaded table differs from saved table); C16 does not load tables across processes"],
    "C13-m1": ["C13 quick (after the expansion side got independent list actions)"], "C13-m2": ["C13 quick (structural comparison of rule actions; results)"],
    "C13-m3": ["C13 quick (production flags; S: x* x under prefer-shifts)"],
    "C14-m1": ["C14 quick"], "C14-m2": ["C14 quick (after SLR variants were added)"],
    "C14-m3": ["C14 quick (custom-ws unit: skip table differs from the character-set model; ws with a backslash rejected at construction)"],
    "C15-m1": ["C15 quick (FIRST/FOLLOW of the used grammar vs an untouched one)"], "C15-m2": ["C15 quick"],
    "C15-m3": ["C15 quick (actions keep a counter in context.extra)"],
    "C18-m1": ["C18 quick (unary-sign family with a marked EMPTY production)"], "C18-m2": ["C18 quick"],
    "C18-m3": ["C18 quick (LAYOUT family: initialisation call repeated)"],
    "C19-m1": ["C19 quick"], "C19-m2": ["C19 quick (keyword precedence unit)", "C07 quick (lexSortedB fails on the implementation's table; impl differs from R1-R5)"],
    "C19-m3": ["C19 quick"],
    "C20-m1": ["C20 quick (layered family; exact F-IMP-1 prediction does not mask it)"], "C20-m2": ["C20 quick"],
    "C20-m3": ["C20 quick (ignore_case variants)"],
    "C06-m4": ["C06 quick (after alternatives inheriting rule-level priority/associativity were generated)"],
    "C06-m5": ["C06 quick"], "C06-m6": ["C06 quick"],
    "C08-m4": ["C08 quick (after the F-POS-4 attribution was narrowed to tokens of different extent; it reverts fix 062657e)"],
    "C08-m5": ["C08 quick"], "C08-m6": ["C08 quick"],
    "C01-m4": ["C01 quick (sentence rejected)", "C05 quick (validator)"], "C01-m5": ["C01 quick (GLR model differs from GLRParser; no failing input inside the quick scope)", "C02 quick"],
    "C01-m6": ["C01 quick (tree not covering the input; non-sentence accepted)"],
    "C02-m4": ["C02 quick (GLR model differs; derivations missing outside the fingerprinted set)"], "C02-m5": ["C02 quick"], "C02-m6": ["C02 quick (SLR tables)", "C05 quick"],
    "C03-m4": ["C03 quick"], "C03-m5": ["C03 quick (top indices of forests with more than 2^53 trees)"],
    "C03-m6": ["C03 quick (after deep list forests were added to the big unit)"],
    "C05-m4": ["C05 quick"], "C05-m5": ["C05 quick"], "C05-m6": ["C05 quick"], "C05-m7": ["C05 quick (state budget)"],
    "C07-m4": ["C07 quick"], "C07-m5": ["C07 quick (table correspondence; failing positions found by scanning over the model's own table)"],
    "C07-m6": ["C07 quick"],
    "C10-m4": ["C10 quick"], "C10-m5": ["C10 quick"], "C10-m6": ["C10 quick (custom recognizers at the end of the input)"],
    "C11-m4": ["C11 quick (after the multi-head GLR recovery unit was added)"],
    "C11-m5": ["C11 quick (after the injecting strategy learnt to notice a dropped injection: same LR configuration met again)"],
    "C11-m6": ["C11 quick"],
    "C12-m4": ["C12 quick (after the history clock got sub-second steps)"], "C12-m5": ["C12 quick"], "C12-m6": ["C12 quick"],
    "C13-m4": ["C13 quick"], "C13-m5": ["C13 quick"],
    "C13-m6": ["C13 quick (after shapes with an operator on a single-reference group carrying an operator were added)"],
    "C04-m4": ["C04 quick", "C05 quick"], "C04-m5": ["C04 quick", "C05 quick"], "C04-m6": ["C04 quick (SLR)", "C05 quick"],
    "C09-m4": ["C09 quick"], "C09-m5": ["C09 quick"], "C09-m6": ["C09 quick"],
    "C14-m4": ["C14 quick (after the default ws was compared, as a character set, on texts with white space outside it; before: only the source extraction broke, no-failing-input-found)"],
    "C14-m5": ["C14 quick"],
    "C14-m6": ["C14 quick (after the family with comments opening like the division operator was added)"],
    "C15-m4": ["C15 quick"], "C15-m5": ["C15 quick (after histories with GLR parses aborted inside a forked frontier were added)"],
    "C15-m6": ["C15 quick"],
    "C16-m4": ["C16 quick"], "C16-m5": ["C16 quick (after the conflict report was hashed in report order instead of sorted)"],
    "C16-m6": ["C16 quick (after forests of GLRParser(consume_input=False) -- several accepted heads -- were hashed)"],
    "C18-m4": ["C18 quick"], "C18-m5": ["C18 quick"],
    "C18-m6": ["C18 quick (after both sides were built with default arguments and an operator without static associativity was added)"],
    "C19-m4": ["C19 quick (after texts with letters outside ASCII were added)"], "C19-m5": ["C19 quick"], "C19-m6": ["C19 quick", "C07 quick"],
    "C20-m4": ["C20 quick (after import paths were spelled with ./ and sub/../ segments)"], "C20-m5": ["C20 quick"],
    "C20-m6": ["C20 quick (after the unit with actions bound by name in files imported up to three levels deep was added)"],
    "C08-m7": ["C08 quick"], "C08-m8": ["C08 quick"],
    "C08-m9": ["C14 quick (relayout of an earlier input on the same GLRParser); not C08 itself: the stale layout makes the inputs of its scope unparsable, and C08 judges trees"],
    "C03-m7": ["C03 quick"], "C03-m8": ["C03 quick"],
    "C03-m9": ["C03 quick (after lazy and non-lazy trees were also walked through the .children attribute)"],
    "C17-m4": ["C17 quick"], "C17-m5": ["C17 quick (after the first trees of a prefix forest were checked as positioned objects: derivation of a prefix, root ends at its last token)"],
    "C17-m6": ["C17 quick"],
    "C06-m7": ["C06 quick (after operator texts one of which begins another were added -- and after the variant cycling was fixed to run over the whole family instead of per unit)"],
    "C06-m8": ["C06 quick (after operators declared as terminals with lexical priorities were added)"],
    "C06-m9": ["C06 quick (after priority numberings around the default 10 were added)"],
    "C02-m7": ["C02 quick (after the juxtaposition family / corpus witness was added)"],
    "C02-m8": ["C02 quick (after corpus grammars whose longer token swallows the trailing blank were added)"],
    "C02-m9": ["C02 quick (corpus witnesses)", "C05 quick"],
    "C05-m8": ["C05 quick"], "C05-m9": ["C05 quick (SLR)"], "C05-m10": ["C05 quick (after the corpus witness with two refused merges widened in one run was added)"],
    "C16-m7": ["C16 quick (SLR tables)"],
    "C16-m8": ["NOT CAUGHT and not claimed: the order of SyntaxError.tokens_ahead is not among the observables the property names (serialised tables, forest order, conflict reports, cached tables)"],
    "C16-m9": ["C16 quick (after the text of the conflict exception was hashed)"],
    "C18-m7": ["C18 quick (after the grammar with a cell of two marked reductions of different lengths was added)"],
    "C18-m8": ["C18 quick (after the marking written on the rule was added as a variant)"],
    "C18-m9": ["C18 quick (after the trace check learnt that the decision shown must be one of the cell of from_state)"],
    "C13-m7": ["C13 quick (after greedy repetitions with a separator were added)"], "C13-m8": ["C13 quick"],
    "C01-m7": ["C01 quick (SLR)", "C05 quick"], "C01-m8": ["C01 quick (sentence rejected under lexical ambiguity; GLR model differs)"],
    "C01-m9": ["C01 quick (after the unit with user recognizers and list inputs was added)", "C10 quick"],
    "C17-m1": ["C17 quick"], "C17-m2": ["C07 quick (scanner with consume_input=False); not C17 itself (its scope has no terminal priorities)"], "C17-m3": ["C17 quick"],
}


def main():
    sd = os.path.join(HERE, "seeded")
    for name in sorted(os.listdir(sd)):
        d = os.path.join(sd, name)
        if not os.path.isdir(d):
            continue
        notes = open(os.path.join(d, "notes.txt")).read() if os.path.exists(os.path.join(d, "notes.txt")) else ""
        conf = open(os.path.join(d, "confirm.txt")).read() if os.path.exists(os.path.join(d, "confirm.txt")) else ""
        meta_path = os.path.join(d, "meta.json")
        old = json.load(open(meta_path)) if os.path.exists(meta_path) else {}
        meta = {
            "property": name.split("-")[0],
            "breaks": notes.strip().split("\n\n")[0][:1200],
            "needs_to_manifest": notes.strip()[:2500],
            "confirmed_by_us": conf.strip().split("\n"),
            "what_we_ran": ["harness/confirm_mutation.sh (fresh worktree of /repo HEAD: demo.py unchanged -> exit 0; "
                            "git apply patch.diff; unedited suite -> 264 passed, 2 pglr failures as in BASELINE; "
                            "demo.py -> exit 1)",
                            "harness/try_mutation.sh <property> patch.diff (check against a scratch worktree via "
                            "PARGLARE_REPO; /repo untouched)"],
            "caught_by": CAUGHT.get(name, old.get("caught_by", ["not yet evaluated"])),
        }
        json.dump(meta, open(meta_path, "w"), indent=1)
    print("meta.json written for", len(os.listdir(sd)), "seeded changes")


if __name__ == "__main__":
    main()

"""Client for the Lean model driver `pgmodel` (line protocol)."""
import os
import subprocess

VERIF = os.path.dirname(os.path.dirname(os.path.abspath(__file__)))
LEAN_DIR = os.path.join(VERIF, "lean")
PGMODEL = os.path.join(LEAN_DIR, ".lake", "build", "bin", "pgmodel")


class ModelError(Exception):
    pass


def ensure_built(targets=("pgmodel",)):
    """Build the Lake targets (incremental). Returns (ok, output)."""
    r = subprocess.run(["lake", "build", *targets], cwd=LEAN_DIR,
                       capture_output=True, text=True)
    return r.returncode == 0, r.stdout + r.stderr


class Batch:
    """Collects request lines; `run` pipes them to pgmodel and returns replies."""

    def __init__(self):
        self.lines = []

    def add(self, cmd, *nums):
        self.lines.append(cmd + "".join(" %d" % n for n in flatten(nums)))
        return len(self.lines) - 1

    def run(self):
        if not self.lines:
            return []
        data = "\n".join(self.lines) + "\n"
        r = subprocess.run([PGMODEL], input=data, capture_output=True, text=True)
        if r.returncode != 0:
            raise ModelError("pgmodel exit %d: %s" % (r.returncode, r.stderr[:500]))
        out = r.stdout.split("\n")
        if out and out[-1] == "":
            out.pop()
        if len(out) != len(self.lines):
            raise ModelError("pgmodel replied %d lines to %d requests" % (len(out), len(self.lines)))
        return out


def flatten(xs):
    for x in xs:
        if isinstance(x, (list, tuple)):
            yield from flatten(x)
        else:
            yield int(x)

"""Helpers shared by the parser-level property checks."""
import random

import parglare
from parglare import Grammar, Parser, GLRParser
from parglare.exceptions import DisambiguationError, SRConflicts, RRConflicts, GrammarError

import gen
from enc import Numbering, enc_grammar, enc_table, enc_input, tree_sexp, enc_tree, skip_table
from model import Batch
from common import budget, BudgetExceeded, h16, chunks, seed

FUEL = 3000
CHART_FUEL = 200

TABLES = {"LALR": parglare.LALR, "SLR": parglare.SLR}


def corpus_specs(name="parsing", late=False):
    """Minimised past failures and witnesses of recorded findings; always run first. Entries marked
    `late` were added after fingerprints of deterministic scopes had been recorded by position: they are
    appended at the end of the deterministic scope so that the positions of the older members stay."""
    import json, os
    from common import VERIF
    path = os.path.join(VERIF, "corpus", name + ".json")
    out = []
    if os.path.exists(path):
        for e in json.load(open(path)):
            if bool(e.get("late")) != late:
                continue
            s = gen.GSpec.from_json(e["spec"])
            s.exhaustive = True
            s.corpus_inputs = e["inputs"]
            out.append(s)
    return out


def small_specs(tier, rng, allow_cyclic=True, overlap_rate=3, nrand_quick=120, nrand_thorough=1500,
                chains=True, chains_quick=150, chains_thorough=3000,
                fixed=True, fixed_quick=600, fixed_thorough=8000,
                exhaustive_quick=((1, 1, 3, 2), (2, 1, 3, 2)),
                exhaustive_thorough=((1, 1, 3, 3), (2, 1, 3, 2), (2, 2, 3, 2), (2, 1, 4, 2))):
    specs = [s for s in corpus_specs() if allow_cyclic or not gen.is_cyclic(s.rules, s.nonterminals())]
    for n_nt, n_t, p, r in (exhaustive_quick if tier == "quick" else exhaustive_thorough):
        specs.extend(gen.enum_grammars(n_nt, n_t, p, r, allow_cyclic=allow_cyclic))
    if chains:
        specs.extend(gen.idiom_family())
        specs.extend(gen.chain_family(depth=2, sizes=(3, 4), limit=(chains_quick if tier == "quick" else chains_thorough)))
    if fixed:
        specs.extend(gen.fixed_stream(fixed_quick if tier == "quick" else fixed_thorough))
    # later additions to the deterministic scope go last (see corpus_specs)
    specs.extend(s for s in corpus_specs(late=True) if allow_cyclic or not gen.is_cyclic(s.rules, s.nonterminals()))
    if chains:
        specs.extend(gen.juxta_family(stride=(6 if tier == "quick" else 1)))
    n_exh = len(specs)
    for s in specs:
        s.exhaustive = True     # deterministic (seed-independent) scope
    for i in range(nrand_quick if tier == "quick" else nrand_thorough):
        s = gen.random_grammar(rng, overlap=(overlap_rate and i % overlap_rate == 0),
                               allow_cyclic=allow_cyclic and (i % 5 == 0))
        if s:
            specs.append(s)
    return specs, n_exh


def inputs_for(spec, maxtok, rng, layout=True, cap=400):
    if len(spec.terms) >= 5:
        maxtok = min(maxtok, 3)      # many terminals (chain family): sentences are short
    base = list(gen.token_strings(spec, maxtok))
    for t in getattr(spec, "corpus_inputs", []):
        if t not in base:
            base.insert(0, t)
    if len(base) > cap:
        if getattr(spec, "exhaustive", False):
            base = base[:cap]      # deterministic scope: no seed-dependent choice
        else:
            base = base[:cap // 2] + rng.sample(base[cap // 2:], cap // 2)
    out = list(base)
    single = all(k == "str" and len(v) == 1 for k, v in spec.terms.values())
    if layout and single:
        for t in base[::3]:
            out.append(gen.with_layout(rng, t))
    elif layout:
        for t in base[::4]:
            out.append(" " + t + " ")
    return out


def has_priorities(g):
    return any(p.prior != 10 or p.assoc != 0 for p in g.productions) or \
        any(t.prior != 10 for t in g.terminals.values())


def all_cells_single(table):
    return all(len(acts) == 1 for s in table.states for acts in s.actions.values())


def err_pos(e):
    return e.location.start_position


def bump(d, k, n=1):
    d[k] = d.get(k, 0) + n


LAYOUT_CHARS = " \n\t\r"


def strip_layout(text):
    return "".join(ch for ch in text if ch not in LAYOUT_CHARS)


def canon_keys(keys, text):
    """Packed-alternative keys with every position replaced by the number of
    non-layout characters before it, so that a case and its layout variants have
    the same fingerprint."""
    pre = [0]
    for ch in text:
        pre.append(pre[-1] + (0 if ch in LAYOUT_CHARS else 1))

    def f(q):
        return pre[q] if 0 <= q < len(pre) else q

    def span(sp):
        return ("e", f(sp[1])) if sp[0] == "e" else (f(sp[0]), f(sp[1]))

    def node(nk):
        return (nk[0], span(nk[1]))

    return sorted(repr((node(k[0]), k[1], tuple(node(c) for c in k[2]))) for k in keys)

"""C01 — GLR accepts exactly the language and returns only valid derivations."""
import random

import parglare
from parglare import Grammar, GLRParser

import gen
from pcommon import *
from enc import ForestDump, glr_alt_set, parse_glr_reply

MANIFEST_ENTRY = {
    "category": "proof",
    "text": "Lean 4 theorems: the chart oracle decides sentencehood for every CFG (ambiguous, nullable, cyclic) once "
            "saturated; the tree checker decides the derivation relation; every run of the nondeterministic LR "
            "automaton over a wf table (which is what each GSS path of the GLR driver is) yields only derivation "
            "trees. An executable Lean model of the GLR driver itself (Model/GLR.lean: GSS, path search, limited "
            "re-reductions, revisits, shifts) is proved sound for every wf table, input and fuel (C01_glr_model_sound: "
            "a forest answer implies the input is a sentence; C01_glr_model_forest_sound: every tree of its packed "
            "forest — one possibility per link below a root link — is a parse tree of the input, and every tree taken from "
            "the implementation's forest is looked up in the model's packed forest by the driver (forestHasTree, "
            "C01_tree_found_in_glr_model_forest_is_parse); GSS invariant "
            "'every node reachable, every link replayable, every packed possibility locally right'; hypotheses wf "
            "and idempotent layout skipping evaluated per table and input) and is run on every input (lexical ambiguity included; inputs whose revisit sets have an order the model does not determine are flagged and left to the oracles) and must "
            "give the implementation's acceptance and exact set of packed alternatives. Per case the "
            "implementation's accept/reject is also compared with the verified oracle, every tree "
            "taken from the forest (all up to a cap, sampled beyond) is checked by the verified checker, and only "
            "parglare.SyntaxError may be raised",
    "note": "trusted: Lean kernel; match/skip tables from the real recognizers; the GLR driver model is tied to "
            "glr.py by exact correspondence; soundness of its acceptance and of every tree of its packed forest are "
            "theorems, completeness is not (and fails: F-GLR-1/2): the implementation's outputs are judged "
            "by verified checkers on the explored scope (translation-validation style); "
            "rejected sentences on nullable hidden-recursive grammars are the recorded finding F-GLR-1",
    "technique": "Lean 4 proofs of oracle/checker correctness and LR-path soundness + executable GLR driver model in "
                 "exact correspondence + verified checkers run on implementation output",
}

PROP = "C01"
LEVEL = "proof"
THEOREMS = ["C01_sentence_oracle_correct", "C01_tree_checker_correct", "C01_path_sound", "C01_accept_sound",
            "C01_glr_model_sound", "C01_glr_model_sound_on_decoded_data", "C01_glr_model_forest_sound",
            "C01_tree_found_in_glr_model_forest_is_parse"]
META = {
    "rule": "cases = (grammar, LALR|SLR, input incl. layout variants); grammars: exhaustive small scope + seeded "
            "random (nullable, hidden recursion, cyclic, lexical overlap at forced rates); non-trivial = sentence "
            "with >= 2 trees or a rejected non-empty input; distinct by (grammar, tables, input)",
    "explanation": "accept/reject vs verified chart oracle; every forest tree (cap 60 + samples) vs verified tree "
                   "checker; exception type; termination within a wall-clock budget",
    "trusted_base": ["glr.py's GSS driver: modelled (Model/GLR.lean), tied by exact correspondence of packed forests; "
                     "its outputs are also validated through verified checkers"],
    "assumptions": ["completeness of acceptance is bounded (explored scope)"],
}

TREE_CAP = 60


def units(tier):
    rng = random.Random(seed())
    specs, n_exh = small_specs(tier, rng, chains_quick=60, chains_thorough=1500, fixed_quick=300, fixed_thorough=5000)
    maxtok = 4 if tier == "quick" else 5
    us = [{"specs": [s.to_json() for s in ch], "maxtok": maxtok, "seed": seed() * 1000 + i}
          for i, ch in enumerate(chunks(specs, 48))]
    us.append({"kind": "deep"})
    us.append({"kind": "custom"})
    return us


# user recognizers and list (non-string) inputs: membership is known by construction
def _rec_int(input, pos):
    return input[pos:pos + 1] if isinstance(input[pos], int) else None


def _rec_str(input, pos):
    return input[pos:pos + 1] if isinstance(input[pos], str) else None


def _rec_letter(input, pos):
    return input[pos] if input[pos].isalpha() else None


CUSTOM = [
    # (grammar, recognizers, ws, is_sentence, inputs)
    ("S: INT STRING+ INT | INT;\nterminals\nINT: ;\nSTRING: ;\n", {"INT": _rec_int, "STRING": _rec_str}, None,
     lambda x: len(x) >= 1 and isinstance(x[0], int) and not isinstance(x[0], bool) and
     (len(x) == 1 or (len(x) >= 3 and isinstance(x[-1], int) and all(isinstance(e, str) for e in x[1:-1]))),
     [[], [1], [1, "a"], [1, "a", "b"], [1, "a", 2, 3], ["a"], [1, 2], [1, "a", "b", 2], [1, "a", 2], [1, "a", None]]),
    ("S: L '+' L | L;\nterminals\nL: ;\n", {"L": _rec_letter}, " ",
     lambda x: x.replace(" ", "") != "" and all(c.isalpha() for c in x.replace(" ", "").split("+")) and
     all(len(c) == 1 for c in x.replace(" ", "").split("+")) and x.count("+") <= 1 and
     " ".join(x.split()) .replace(" + ", "+").replace("+ ", "+").replace(" +", "+").count(" ") == 0,
     ["", "a", "a+b", "a +", "a + b", "+", "a+", " a ", "a+b+c", "a b", "1"]),
]


def run_custom(res):
    st = res["stats"]
    for gtxt, recs, ws, is_sentence, inputs in CUSTOM:
        g = Grammar.from_string(gtxt, recognizers=recs)
        p = GLRParser(g, ws=ws)
        st["parsers"] += 1
        for inp in inputs:
            case = {"grammar": gtxt, "recognizers": "user functions reading input[pos]", "input": repr(inp)}
            res["evaluations"] += 1
            try:
                p.parse(inp)
                got = True
            except parglare.SyntaxError:
                got = False
            except Exception as e:
                res["violations"].append({"kind": "foreign-exception", "case": case,
                                          "observed": type(e).__name__ + ": " + str(e)[:100]})
                continue
            st["accepted" if got else "rejected"] += 1
            res["nontrivial"].append(h16(case))
            if got != bool(is_sentence(inp)):
                res["violations"].append({"kind": "glr-accepts-non-sentence" if got else "glr-rejects-sentence",
                                          "case": case})
    return res


# long inputs: the depth of the derivation must not matter (sentence, unambiguous list grammars)
DEEP = [("L: L 'x' | 'x';", [50, 400, 1500]), ("R: 'x' R | 'x';", [50, 400, 1200]),
        ("L: L I | I; I: 'x' | 'x' 'x';", [60, 300])]


def run_deep(res):
    st = res["stats"]
    for gtxt, sizes in DEEP:
        g = Grammar.from_string(gtxt)
        p = GLRParser(g)
        for k in sizes:
            text = "x" * k
            case = {"grammar": gtxt, "input_length": k, "tables": "LALR"}
            res["evaluations"] += 1
            try:
                with budget(20):
                    f = p.parse(text)
                    f.solutions
                st["accepted"] += 1
                res["nontrivial"].append(h16(case))
            except parglare.SyntaxError:
                res["violations"].append({"kind": "glr-rejects-sentence", "case": case})
            except BudgetExceeded:
                res["violations"].append({"kind": "glr-parse-timeout", "case": case})
            except Exception as e:
                v = {"kind": "foreign-exception", "case": case,
                     "observed": type(e).__name__ + ": " + str(e)[:80]}
                # F-GLR-4: _reduce/_do_reductions (and the reductions cascading after the last shift of a right
                # recursive list) recurse once per pending reduction level: CPython's recursion limit is hit on
                # long right-recursive inputs
                if isinstance(e, RecursionError) and k > 450 and gtxt.startswith("R:"):
                    v["attribution"] = "glr-recursion-depth"
                res["violations"].append(v)
    return res


def run_unit(u):
    res = {"evaluations": 0, "nontrivial": [], "samples": [], "violations": [], "disagreements": [],
           "stats": {"parsers": 0, "accepted": 0, "rejected": 0, "trees_checked": 0, "ambiguous": 0,
                     "traces": 0, "build_errors": {}, "features": {}}}
    st = res["stats"]
    if u.get("kind") == "deep":
        return run_deep(res)
    if u.get("kind") == "custom":
        return run_custom(res)
    rng = random.Random(u["seed"])
    for sj in u["specs"]:
        spec = gen.GSpec.from_json(sj)
        gtxt = spec.text()
        feats = sorted(gen.features(spec))
        for f in feats:
            bump(st["features"], f)
        try:
            g = Grammar.from_string(gtxt)
        except Exception as e:
            bump(st["build_errors"], type(e).__name__)
            continue
        num = Numbering(g)
        inputs = inputs_for(spec, u["maxtok"], rng)
        for tname, tables in TABLES.items():
            try:
                with budget(10):
                    p = GLRParser(g, tables=tables)
            except (Exception, BudgetExceeded) as e:
                bump(st["build_errors"], type(e).__name__)
                continue
            st["parsers"] += 1
            b = Batch()
            b.add("grammar", enc_grammar(num))
            b.add("table", enc_table(num, p.table))
            qwf = b.add("wf")
            checks = []
            for text in inputs:
                case = {"grammar": gtxt, "tables": tname, "input": text, "features": feats}
                res["evaluations"] += 1
                trees = []
                try:
                    with budget(5):
                        f = p.parse(text)
                        cyc = ForestDump(num, f.result).cyclic
                        n = None if cyc else f.solutions      # len() cannot exceed sys.maxsize in CPython
                        idxs = [] if cyc else list(range(min(n, TREE_CAP)))
                        if n and n > TREE_CAP:
                            idxs += sorted({rng.randrange(n) for _ in range(10)} | {n - 1})
                        trees = [f[i] for i in idxs]
                    impl = ("forest", n)
                    impl_glr = glr_alt_set(num, f)
                except parglare.SyntaxError as e:
                    impl = ("syntax", err_pos(e))
                    impl_glr = "syntax"
                except BudgetExceeded:
                    res["violations"].append({"kind": "glr-parse-timeout", "case": case})
                    continue
                except Exception as e:
                    res["violations"].append({"kind": "foreign-exception", "case": case,
                                              "observed": type(e).__name__ + ": " + str(e)[:100]})
                    continue
                b.add("input", enc_input(num, p, text))
                qs = b.add("sentence", CHART_FUEL)
                qd = [b.add("derives", 1, enc_tree(num, t)) for t in trees]
                qg = b.add("glr", 4000, 1, 0)
                # every tree taken from the implementation's forest must be found in the packed forest of the
                # model's run (hypothesis of C01_tree_found_in_glr_model_forest_is_parse)
                qt = [b.add("glrtree", enc_tree(num, t)) for t in trees]
                checks.append((case, impl, qs, qd, trees, qg, impl_glr, b.add("skipidem"), qt))
            out = b.run()
            st["traces"] += len(checks)
            if out[qwf] != "wf 1":
                res["violations"].append({"kind": "table-not-wf", "case": {"grammar": gtxt, "tables": tname},
                                          "observed": out[qwf]})
            for case, impl, qs, qd, trees, qg, impl_glr, qi, qt in checks:
                sent = out[qs]
                for q, t in zip(qt, trees):
                    if out[q] == "glrtree 1":
                        bump(st, "impl_trees_found_in_model_forest")
                    elif out[q] == "glrtree 0":
                        res["disagreements"].append({"case": case, "what": "a tree of the implementation's forest is not "
                                                     "in the packed forest of the GLR driver model",
                                                     "impl": tree_sexp(num, t)[:300], "model": "not found"})
                        break
                # hypothesis of C01_glr_model_sound on this input
                bump(st, "glr_sound_hyp_" + ("met" if out[qi] == "skipidem 1" and out[qwf] == "wf 1" else "unmet"))
                # the GLR driver model (Model/GLR.lean): acceptance and the exact set of packed alternatives
                mg = parse_glr_reply(out[qg])
                if isinstance(mg, str) and mg in ("ordersens", "fuel"):
                    bump(st, "glr_model_" + mg)
                    model_agrees = True
                else:
                    st["glr_model_compared"] = st.get("glr_model_compared", 0) + 1
                    model_agrees = (mg == impl_glr)
                    if not model_agrees:
                        res["disagreements"].append({"case": case, "what": "GLR driver model differs from GLRParser",
                                                     "impl": (impl_glr if isinstance(impl_glr, str) else "forest of %d alternatives" % len(impl_glr)),
                                                     "model": (mg if isinstance(mg, str) else "forest of %d alternatives" % len(mg))})
                if impl[0] == "forest":
                    st["accepted"] += 1
                    if sent == "sentence 0":
                        res["violations"].append({"kind": "glr-accepts-non-sentence", "case": case})
                    for q, t in zip(qd, trees):
                        st["trees_checked"] += 1
                        if out[q] != "derives 1":
                            res["violations"].append({"kind": "forest-tree-not-a-derivation", "case": case,
                                                      "observed": tree_sexp(num, t)})
                            break
                    if impl[1] is None or impl[1] >= 2:
                        st["ambiguous"] += 1
                        res["nontrivial"].append(h16(case))
                    if len(res["samples"]) < 2 and impl[1] and impl[1] >= 2:
                        res["samples"].append({"case": case, "trees": str(impl[1]),
                                               "first": tree_sexp(num, trees[0])})
                else:
                    st["rejected"] += 1
                    if sent == "sentence 1":
                        v = {"kind": "glr-rejects-sentence", "case": case,
                             "observed": "SyntaxError at %s" % impl[1]}
                        # F-GLR-1: listed (grammar, tables, input) fingerprints inside the deterministic
                        # exhaustive scope; in the seeded random scope the structural predicate
                        # "the grammar has an empty production"
                        if spec.exhaustive:
                            v["fingerprint"] = h16(["F-GLR-1", gtxt, tname, strip_layout(case["input"])])
                        elif "nullable" in feats and model_agrees:
                            # the rejection is the one the model of the pinned reducer predicts
                            v["attribution"] = "glr-nullable-loss"
                        res["violations"].append(v)
                    if case["input"]:
                        res["nontrivial"].append(h16(case))
    res["traces"] = st["traces"]
    return res

"""C02 — the GLR forest contains every derivation."""
import random

import parglare
from parglare import Grammar, GLRParser

import gen
from pcommon import *
from enc import ForestDump, forest_alt_keys, oracle_alt_keys, skip_table, glr_alt_set, parse_glr_reply

MANIFEST_ENTRY = {
    "category": "proof",
    "text": "The complete SPPF of an input (every production of every useful span with every derivable split) is "
            "computed by the Lean spec from the chart; the spec is proved EXACT for every CFG and input "
            "(C02_reference_sppf_exact: whenever it answers, its list holds exactly the packed alternatives -- span, "
            "production, split into derivable pieces -- of the spans occurring top-down in some parse; chart sound and "
            "complete once saturated); the implementation forest's packed alternatives are compared with it in both "
            "directions on every explored sentence; the sound half is also a theorem about the GLR driver model "
            "(C02_glr_model_forest_only_parses: its packed forest holds only parse trees), which is compared exactly "
            "with GLRParser",
    "note": "trusted: Lean kernel; glr.py's reducer is modelled executably (Model/GLR.lean) and compared exactly "
            "(acceptance and alternative sets) on every input except those with order-sensitive revisit sets; that the "
            "model's packed forest holds only parse trees is a theorem (C02_glr_model_forest_only_parses, every wf "
            "table, input, fuel); forest "
            "completeness is false of the pinned reducer and is decided by this verified-oracle comparison on the "
            "explored scope; lost derivations on "
            "hidden-left-recursive grammars are the recorded finding F-GLR-2",
    "technique": "Lean 4 proof (chart correctness, exactness of the reference SPPF) + verified-oracle comparison of packed alternatives",
}

PROP = "C02"
LEVEL = "proof"
THEOREMS = ["C02_chart_sound", "C02_chart_complete", "C02_split_pieces_derivable", "C02_reference_sppf_exact",
            "C02_glr_model_forest_only_parses", "C02_glr_model_emitted_alternatives_wellformed"]
META = {
    "rule": "cases = (acyclic grammar, LALR|SLR, sentence incl. layout variants); non-trivial = complete SPPF with "
            "an ambiguous span (>= 2 alternatives for one node); distinct by (grammar, tables, input)",
    "explanation": "set of packed alternatives (production, child symbols and spans) of the implementation forest "
                   "vs the complete SPPF computed by the Lean spec from the proved chart",
    "trusted_base": ["Spec/SPPF.lean usefulness closure (executable spec)"],
    "assumptions": ["forest completeness is bounded (explored scope)"],
}


def units(tier):
    rng = random.Random(seed())
    specs, n_exh = small_specs(tier, rng, allow_cyclic=False, chains_quick=60, chains_thorough=1500, fixed_quick=300, fixed_thorough=5000)
    maxtok = 4 if tier == "quick" else 5
    return [{"specs": [s.to_json() for s in ch], "maxtok": maxtok, "seed": seed() * 1000 + i}
            for i, ch in enumerate(chunks(specs, 48))]


def hidden_left_recursive(spec):
    """Some nonterminal reaches itself through left corners behind nullable
    (non-empty) prefixes: X -> alpha Y beta with alpha =>* eps, at least one step
    with alpha non-empty."""
    nts = spec.nonterminals()
    nul = gen.nullable_set(spec.rules)
    edges = {n: set() for n in nts}     # (target, hidden?)
    for l, r in spec.rules:
        for i, x in enumerate(r):
            if x in nts:
                edges[l].add((x, i > 0))
            if x not in nul:
                break
    for n in nts:
        seen = set()
        todo = [(y, h) for y, h in edges[n]]
        while todo:
            y, h = todo.pop()
            if y == n and h:
                return True
            if (y, h) in seen:
                continue
            seen.add((y, h))
            for z, hh in edges[y]:
                todo.append((z, h or hh))
    return False


GLR_FUEL = 4000


def run_unit(u):
    res = {"evaluations": 0, "nontrivial": [], "samples": [], "violations": [], "disagreements": [],
           "stats": {"parsers": 0, "sentences": 0, "ambiguous": 0, "alts_compared": 0,
                     "traces": 0, "build_errors": {}, "missing_cases": 0, "extra_cases": 0}}
    rng = random.Random(u["seed"])
    st = res["stats"]
    for sj in u["specs"]:
        spec = gen.GSpec.from_json(sj)
        gtxt = spec.text()
        feats = sorted(gen.features(spec))
        hlr = hidden_left_recursive(spec)
        try:
            g = Grammar.from_string(gtxt)
        except Exception as e:
            bump(st["build_errors"], type(e).__name__)
            continue
        num = Numbering(g)
        inputs = inputs_for(spec, u["maxtok"], rng)
        for tname, tables in TABLES.items():
            try:
                with budget(10):
                    p = GLRParser(g, tables=tables)
            except (Exception, BudgetExceeded) as e:
                bump(st["build_errors"], type(e).__name__)
                continue
            st["parsers"] += 1
            b = Batch()
            b.add("grammar", enc_grammar(num))
            b.add("table", enc_table(num, p.table))
            checks = []
            for text in inputs:
                case = {"grammar": gtxt, "tables": tname, "input": text, "features": feats}
                try:
                    with budget(5):
                        f = p.parse(text)
                        d = ForestDump(num, f.result)
                except parglare.SyntaxError:
                    # a rejected sentence has no forest at all: every derivation is missing
                    b.add("input", enc_input(num, p, text))
                    q = b.add("sentence", CHART_FUEL)
                    checks.append((case, None, q, None, b.add("glr", GLR_FUEL, 1, 0), "syntax"))
                    continue
                except BudgetExceeded:
                    continue        # termination is C01's
                except Exception:
                    continue        # exception type is C01's
                if d.cyclic:
                    res["violations"].append({"kind": "cyclic-forest-for-acyclic-grammar", "case": case})
                    continue
                res["evaluations"] += 1
                st["sentences"] += 1
                b.add("input", enc_input(num, p, text))
                q = b.add("sppf", CHART_FUEL, 1)
                checks.append((case, d, q, skip_table(p, text), b.add("glr", GLR_FUEL, 1, 0), glr_alt_set(num, f)))
            out = b.run()
            st["traces"] += len(checks)
            for case, d, q, skip, qg, impl_glr in checks:
                # the GLR driver model (Model/GLR.lean) against the implementation: acceptance and the exact
                # set of packed alternatives, on every input where the model applies
                mg = parse_glr_reply(out[qg])
                if isinstance(mg, str) and mg in ("ordersens", "fuel"):
                    bump(st, "glr_model_" + mg)
                    model_agrees = True          # no prediction
                else:
                    st["glr_model_compared"] = st.get("glr_model_compared", 0) + 1
                    model_agrees = (mg == impl_glr)
                    if not model_agrees:
                        only_i = sorted(impl_glr - mg)[:3] if isinstance(impl_glr, set) and isinstance(mg, set) else str(impl_glr)[:60]
                        only_m = sorted(mg - impl_glr)[:3] if isinstance(impl_glr, set) and isinstance(mg, set) else str(mg)[:60]
                        res["disagreements"].append({"case": case, "what": "GLR driver model differs from GLRParser",
                                                     "impl": str(only_i)[:300], "model": str(only_m)[:300]})
                if d is None:
                    if out[q] == "sentence 1":
                        v = {"kind": "sentence-rejected-no-forest", "case": case}
                        if spec.exhaustive:
                            v["fingerprint"] = h16(["F-GLR-1", gtxt, tname, strip_layout(case["input"])])
                        elif "nullable" in feats and model_agrees:
                            # the loss is the one the model of the pinned reducer predicts
                            v["attribution"] = "glr-nullable-loss"
                        res["violations"].append(v)
                    continue
                if not out[q].startswith("sppf") or out[q] == "sppf fuel":
                    continue
                flat = [int(x) for x in out[q].split()[1:]]
                want = oracle_alt_keys(num, skip, flat)
                got, _ = forest_alt_keys(d)
                st["alts_compared"] += len(want)
                nodes = {}
                for k in want:
                    nodes[k[0]] = nodes.get(k[0], 0) + 1
                if any(c > 1 for c in nodes.values()):
                    st["ambiguous"] += 1
                    res["nontrivial"].append(h16(case))
                missing = want - got
                extra = got - want
                if missing:
                    st["missing_cases"] += 1
                    v = {"kind": "forest-misses-derivations", "case": case,
                         "observed": "%d of %d packed alternatives of the complete SPPF are absent" % (len(missing), len(want)),
                         "missing": sorted(map(repr, missing))[:5]}
                    # F-GLR-2: inside the deterministic exhaustive scope only the listed
                    # (case, exact missing set) fingerprints count; in the seeded random scope
                    # the structural predicate "the grammar has an empty production"
                    if spec.exhaustive:
                        v["fingerprint"] = h16(["F-GLR-2", gtxt, tname, strip_layout(case["input"]),
                                                canon_keys(missing, case["input"])])
                    elif "nullable" in feats and model_agrees:
                        v["attribution"] = "glr-nullable-loss"
                    res["violations"].append(v)
                if extra:
                    st["extra_cases"] += 1
                    res["violations"].append({"kind": "forest-has-underivable-alternative", "case": case,
                                              "observed": sorted(map(repr, extra))[:5]})
                if len(res["samples"]) < 2 and len(want) > 3:
                    res["samples"].append({"case": case, "complete_sppf_alternatives": len(want),
                                           "forest_alternatives": len(got)})
    res["traces"] = st["traces"]
    return res

"""C03 — forest packing, counting and indexing."""
import random

import parglare
from parglare import Grammar, GLRParser
from parglare.exceptions import LoopError

import gen
from enc import Numbering, ForestDump, tree_sexp
from model import Batch
from common import chunks, seed, h16, budget, BudgetExceeded

MANIFEST_ENTRY = {
    "category": "proof",
    "text": "Lean 4 theorems over all acyclic forests of any size (len = number of trees; forest[i] decodes to "
            "the i-th tree; bounds) about a model of trees.py, tied to the code by running model and "
            "implementation on every dumped implementation forest (count, ambiguities, every decoded tree, "
            "first tree, IndexError, LoopError) and by oracle checks for duplicate packing",
    "note": "trusted: Lean kernel, the hand-written forest model (validated by correspondence on the explored "
            "forests), the dump/serialisation; lazy proxies and object identity are compared, not proved; "
            "duplicate packing is the recorded finding F-GLR-3 (call-site attribution through the guarded hook)",
    "technique": "Lean 4 proof (induction over the forest fold) + model/implementation correspondence",
}

PROP = "C03"
LEVEL = "proof"
THEOREMS = ["C03_solutions_eq", "C03_treeAt_eq_get", "C03_index_in_range", "C03_index_oob",
            "C03_repeat_access", "C03_trees_pairwise_distinct", "C03_index_injective",
            "C03_first_tree_is_index_zero",
            "C03_parse_trees_pairwise_distinct", "C03_index_gives_distinct_parse_trees"]
META = {
    "rule": "cases = (grammar, table kind, input) whose GLR parse returns a forest; the forest is dumped "
            "(Parent objects numbered topologically) and the Lean forest model computes len, ambiguities, "
            "forest[i], first tree and LoopError on the same dump; non-trivial = forest with >= 2 trees or a "
            "cycle; distinct = distinct (grammar, input, tables)",
    "explanation": "Lean theorems over all acyclic forests (count = number of trees, index decoding = list "
                   "indexing, injective on choices, bounds) + correspondence of the model with trees.py on "
                   "dumped implementation forests + oracle checks (pairwise distinct trees, no duplicate "
                   "alternatives, IndexError out of range, LoopError iff cycle)",
    "trusted_base": ["Model/Forest.lean is hand-written from parglare/trees.py and glr.py::Parent; tied by "
                     "correspondence on every dumped forest"],
    "assumptions": ["lazy proxies/object identity are runtime behaviour: compared, not proved"],
}

BIG = [("E: E '+' E | 'n';", ["n" + "+n" * k for k in (3, 6, 10, 14, 20, 33, 40)]),
       ("E: E E | 'a';", ["a" * k for k in (2, 5, 9, 13)]),
       ("S: S S S | S S | 'b';", ["b" * k for k in (3, 6, 8)]),
       # deep forests (left- and right-recursive lists, unambiguous and ambiguous): depth must not matter
       ("L: L 'x' | 'x';", ["x" * k for k in (50, 400, 1100)]),
       ("R: 'x' R | 'x';", ["x" * k for k in (200, 400)]),      # (longer ones hit F-GLR-4, C01's subject)
       ("L: L I | I; I: 'x' | 'x' 'x';", ["x" * k for k in (60, 300)])]


def units(tier):
    rng = random.Random(seed())
    specs = []
    for n_nt, n_t, p, r in ([(1, 1, 3, 2), (2, 1, 3, 2)] if tier == "quick" else
                            [(1, 1, 3, 3), (2, 1, 3, 2), (2, 2, 3, 2), (2, 1, 4, 2)]):
        specs.extend(gen.enum_grammars(n_nt, n_t, p, r))
    nrand = 150 if tier == "quick" else 1500
    for i in range(nrand):
        s = gen.random_grammar(rng, overlap=(i % 3 == 0), allow_cyclic=(i % 5 == 0))
        if s:
            specs.append(s)
    maxtok = 4 if tier == "quick" else 5
    us = [{"kind": "specs", "specs": [s.to_json() for s in ch], "maxtok": maxtok, "seed": seed() + i}
          for i, ch in enumerate(chunks(specs, 64))]
    us.append({"kind": "big"})
    return us


def canon_ids(nodes):
    """Hash-consed canonical id per ambiguity node of an acyclic dump (ids are
    topological): two nodes get the same id iff they represent the same set of
    trees structurally. Returns (ids, per-node list of canonical alternatives)."""
    table = {}
    ids = []
    alts_c = []
    for alts in nodes:
        cs = []
        for a in alts:
            if a[0] == 0:
                cs.append(("t", a[1], a[2], a[3]))
            else:
                cs.append(("n", a[1], tuple(ids[c] for c in a[4])))
        alts_c.append(cs)
        key = frozenset(cs)
        ids.append(table.setdefault(key, len(table)))
    return ids, alts_c


def check_forest(res, case, num, forest, rng, idx_cap):
    """Model vs implementation on one forest + oracle checks. Returns batch
    continuation (list of (expectation, description))."""
    b = Batch()
    d = ForestDump(num, forest.result)
    b.add("forest", d.encode())
    exp = []   # (kind, impl value)
    if d.cyclic:
        q = b.add("loop", d.root)
        try:
            n = forest.solutions
            exp.append((q, "loop 0", "LoopError not raised on a cyclic forest (len=%d)" % n))
        except LoopError:
            exp.append((q, "loop 1", None))
        # index 0 must still be available lazily
        try:
            forest[0]
        except Exception as e:
            res["violations"].append({"kind": "cyclic-first-tree", "case": case,
                                      "observed": type(e).__name__, "expected": "tree"})
        return b, exp, d, None
    try:
        n = forest.solutions
        # len() cannot return more than sys.maxsize in CPython: compare it only below that
        if n < 2 ** 62 and len(forest) != n:
            res["violations"].append({"kind": "len-vs-solutions", "case": case,
                                      "observed": [len(forest), str(n)]})
    except LoopError:
        exp.append((b.add("loop", d.root), "loop 1", None))
        res["violations"].append({"kind": "loop-error-on-acyclic", "case": case,
                                  "observed": "LoopError", "expected": "count"})
        return b, exp, d, None
    exp.append((b.add("fwf"), "fwf 1", None))
    # hypothesis of C03_parse_trees_pairwise_distinct, evaluated on this forest (expectation filled in below)
    qkeyed = b.add("fkeyed", [num.nt(pr.symbol) for pr in num.grammar.productions])
    exp.append((b.add("loop", d.root), "loop 0", None))
    exp.append((b.add("sols", d.root), "sols %d" % n, None))
    exp.append((b.add("amb", d.root), "amb %d" % forest.ambiguities, None))
    impl_amb = forest.ambiguities
    dup_trees = []
    idxs = list(range(min(n, idx_cap)))
    if n > idx_cap:
        top = {n - k for k in range(1, 9)} | {n // 2, n // 3, n - n // 7, 2 ** 53 + 1, 2 ** 53 + 3, 2 ** 64 + 1}
        idxs += sorted(((set(rng.randrange(n) for _ in range(20)) | top) & set(range(n))) - set(idxs)) \
            if n < 10 ** 6 else sorted(x for x in (set(rng.randrange(n) for _ in range(20)) | top) if idx_cap <= x < n)
    if n > 10 ** 12:
        # tree extraction from huge forests is slow in the implementation: probe the top of the range
        idxs = list(range(3)) + sorted(x for x in {n - 1, n - 2, n // 2, 2 ** 53 + 1, rng.randrange(n)} if 3 <= x < n)
    strs = {}
    for i in idxs:
        try:
            t1 = tree_sexp(num, forest[i])
            t2 = tree_sexp(num, forest.get_nonlazy_tree(i))
            t3 = tree_sexp(num, forest[i])
        except Exception as e:
            v = {"kind": "in-range-index-raises", "case": dict(case, input=case["input"][:40] + ("..." if len(case["input"]) > 40 else ""),
                                                                input_length=len(case["input"])),
                 "index": str(i), "len": str(n), "observed": type(e).__name__ + ": " + str(e)[:80]}
            # F-IDX-2: non-lazy tree construction (Tree.__init__/_enumerate_children) and get_first_tree recurse
            # once per tree level: a forest deeper than CPython's recursion limit cannot be unpacked
            if isinstance(e, RecursionError) and len(case["input"]) > 250 and len(d.nodes) > 250:
                v["attribution"] = "tree-extraction-recursion-depth"
            res["violations"].append(v)
            continue
        if not (t1 == t2 == t3):
            res["violations"].append({"kind": "lazy-vs-nonlazy", "case": case, "index": i,
                                      "observed": [t1, t2, t3]})
        elif i < 6 and len(t1) < 4000:
            # the same trees through the `.children` attribute of the nodes
            try:
                c1 = tree_sexp(num, forest[i], via_children=True)
                c2 = tree_sexp(num, forest.get_nonlazy_tree(i), via_children=True)
            except Exception as e:
                c1, c2 = "raises", type(e).__name__
            if not (c1 == c2 == t1):
                res["violations"].append({"kind": "lazy-vs-nonlazy-through-children", "case": case, "index": i,
                                          "observed": [c1[:300], c2[:300]], "expected": t1[:300]})
        exp.append((b.add("treeat", d.root, i), "tree " + t1, None))
        if t1 in strs:
            dup_trees.append({"i": strs[t1], "j": i, "tree": t1})
        strs[t1] = i
    try:
        f0 = tree_sexp(num, forest.get_first_tree())
        exp.append((b.add("first", d.root), "tree " + f0, None))
        if idxs and f0 != tree_sexp(num, forest[0]):
            res["violations"].append({"kind": "first-vs-zero", "case": case})
    except RecursionError as e:
        v = {"kind": "in-range-index-raises", "case": dict(case, input=case["input"][:40] + "...", input_length=len(case["input"])),
             "index": "first", "len": str(n), "observed": "RecursionError"}
        if len(case["input"]) > 250 and len(d.nodes) > 250:
            v["attribution"] = "tree-extraction-recursion-depth"
        res["violations"].append(v)
    for i in (n, n + 1, 2 * n + 3, 10 ** 40 + n):
        for getter in (forest.get_tree, forest.get_nonlazy_tree):
            try:
                getter(i)
                res["violations"].append({"kind": "index-oob-no-error", "case": case, "index": str(i),
                                          "observed": "tree", "expected": "IndexError"})
            except IndexError:
                pass
            except Exception as e:
                res["violations"].append({"kind": "index-oob-wrong-exception", "case": case,
                                          "index": str(i), "observed": type(e).__name__})
        if i < 10 ** 18:
            exp.append((b.add("treeat", d.root, i), "indexerror", None))
    # duplicate alternatives (oracle on the dump)
    _, alts_c = canon_ids(d.nodes)
    revisit = getattr(forest.parser, "_verif_revisit_nodes", None)
    dups = {"nodes": 0, "unattributed": 0}
    for cs, pids in zip(alts_c, d.poss_ids):
        if len(set(cs)) == len(cs):
            continue
        dups["nodes"] += 1
        groups = {}
        for c, pid in zip(cs, pids):
            groups.setdefault(c, []).append(pid)
        for c, g in groups.items():
            # F-GLR-3: of k identical copies at least k-1 were appended while
            # revisiting processed heads (limited/update reduction)
            if len(g) > 1 and (revisit is None or sum(1 for pid in g if pid in revisit) < len(g) - 1):
                dups["unattributed"] += 1
    # oracle for the ambiguity count: reachable nodes with more than one *distinct* alternative
    # (every dumped node is reachable from the root by construction of the dump)
    want_amb = sum(1 for cs in alts_c if len(set(cs)) > 1)
    if not dups["nodes"] and impl_amb != want_amb:
        res["violations"].append({"kind": "ambiguities-count-wrong", "case": case,
                                  "observed": impl_amb, "expected": want_amb})
    if dup_trees and not dups["nodes"]:
        res["violations"].append({"kind": "duplicate-tree", "case": case, "observed": dup_trees[0]})
    # the forest is keyed like an SPPF exactly when no node lists an alternative twice
    exp.append((qkeyed, "fkeyed 0" if dups["nodes"] else "fkeyed 1", None))
    return b, exp, d, dups


def run_unit(u):
    res = {"evaluations": 0, "nontrivial": [], "samples": [], "violations": [], "disagreements": [],
           "stats": {"forests": 0, "cyclic": 0, "dup_alt_forests": 0, "max_trees_digits": {}, "traces": 0}}
    rng = random.Random(u.get("seed", 0))
    work = []
    if u["kind"] == "big":
        for gtxt, inputs in BIG:
            for tables in (parglare.LALR,):
                work.append((gtxt, None, tables, inputs))
    else:
        for sj in u["specs"]:
            spec = gen.GSpec.from_json(sj)
            inputs = list(gen.token_strings(spec, u["maxtok"]))
            for tables in (parglare.LALR, parglare.SLR):
                work.append((spec.text(), sj, tables, inputs))
    for gtxt, sj, tables, inputs in work:
        try:
            with budget(10):
                g = Grammar.from_string(gtxt)
                p = GLRParser(g, tables=tables)
        except (Exception, BudgetExceeded) as e:
            res["stats"].setdefault("build_errors", {})
            res["stats"]["build_errors"][type(e).__name__] = res["stats"]["build_errors"].get(type(e).__name__, 0) + 1
            continue
        num = Numbering(g)
        for text in inputs:
            case = {"grammar": gtxt, "tables": "LALR" if tables == parglare.LALR else "SLR", "input": text}
            try:
                with budget(5):
                    forest = p.parse(text)
            except parglare.SyntaxError:
                continue
            except BudgetExceeded:
                res["stats"]["parse_timeouts"] = res["stats"].get("parse_timeouts", 0) + 1
                if len(res["samples"]) < 3:
                    res["samples"].append({"parse_timeout": case})
                continue
            res["evaluations"] += 1
            res["stats"]["forests"] += 1
            b, exp, d, dups = check_forest(res, case, num, forest, rng, 40 if sj is not None else 10)
            if d.cyclic:
                res["stats"]["cyclic"] += 1
            if dups and dups["nodes"]:
                res["stats"]["dup_alt_forests"] += 1
                v = {"kind": "duplicate-alternative", "case": case,
                     "observed": "%d node(s) hold identical alternatives, %d group(s) not produced by a "
                                 "revisit (limited re-reduction)" % (dups["nodes"], dups["unattributed"])}
                if not dups["unattributed"]:
                    v["attribution"] = "glr-revisit-duplicate"
                res["violations"].append(v)
            out = b.run()
            res["stats"]["traces"] += 1
            ntrees = None
            for q, want, msg in exp:
                if out[q] != want:
                    if msg:
                        res["violations"].append({"kind": "loop-clause", "case": case, "observed": msg})
                    else:
                        res["disagreements"].append({"case": case, "query": b.lines[q][:80],
                                                     "model": out[q][:300], "impl": want[:300]})
                if want == "fkeyed 1" and out[q] == want:
                    res["stats"]["keyed_forests"] = res["stats"].get("keyed_forests", 0) + 1
                if want.startswith("sols "):
                    ntrees = int(want[5:])
            if d.cyclic or (ntrees or 0) >= 2:
                res["nontrivial"].append(h16(case))
            if ntrees:
                k = str(len(str(ntrees)))
                res["stats"]["max_trees_digits"][k] = res["stats"]["max_trees_digits"].get(k, 0) + 1
            if len(res["samples"]) < 2 and (ntrees or 0) >= 2:
                res["samples"].append({"case": case, "len": str(ntrees), "nodes": len(d.nodes)})
    res["traces"] = res["stats"]["traces"]
    return res

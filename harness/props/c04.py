"""C04 — LR parser is sound always and exact when its table is deterministic."""
import random

import parglare
from parglare import Grammar, Parser, GLRParser
from parglare.exceptions import DisambiguationError, SRConflicts, RRConflicts, GrammarError

import gen
from pcommon import *
from enc import enc_items, glr_alt_set, parse_glr_reply

MANIFEST_ENTRY = {
    "category": "proof",
    "text": "Lean 4 theorems. Soundness: for every table satisfying the decidable predicate Table.wf, every input "
            "and every recognizer behaviour, whatever the LR driver model accepts is a derivation tree of the input "
            "(C04_sound). Exactness: for every well-formed table that passes the completeness validator "
            "(Spec/LRValid.lean: FIRST data closed, item sets closed, every shift/goto/reduction/accept an item "
            "calls for present), whose cells hold at most one action and whose expected terminals are never "
            "lexically ambiguous on the input, the driver accepts EXACTLY the sentences "
            "(C04_exact_when_deterministic; simulation of the derivation by the abstract LR machine, then by the "
            "driver with its scanner), its tree has the shape of every parse tree and any two parse trees have the "
            "same shape -- the grammar is unambiguous there (C04_unambiguous_when_deterministic). Every implementation table is checked with Table.wf; every deterministic "
            "strategy-free table is run through the validator with the implementation's own item sets and FIRST "
            "sets, and detTableB/lexDetB are evaluated per table and input; the model driver is run against "
            "Parser.parse on the same table/input (outcome, tree, error position); the chart oracle and the tree "
            "checker are proved correct. GLR: every tree of the packed forest of the GLR driver model has the shape "
            "of the LR driver's tree and any two of them have the same shape (C04_glr_model_trees_are_the_parser_tree, "
            "C04_glr_model_single_tree: forest soundness + unambiguity); the GLR model is run against GLRParser on "
            "every deterministic table and input (exact packed alternatives); that GLR answers with a forest for "
            "every sentence is compared with Parser on the explored scope",
    "note": "trusted: Lean kernel; Model/LR.lean, Model/Lex.lean are hand-written from parser.py and validated by "
            "correspondence; recognizers and layout skipping enter as data (match table, skip table computed by the "
            "real code); the theorem's side conditions on the decoded data (table empty beyond its n states, matches "
            "inside the text) are theorems about the driver's decoder (Model/Decode.lean, "
            "C04_exact_on_decoded_data); 'shape' ignores the spans recorded in interior nodes (C08's subject); "
            "GLR's acceptance of every sentence over a deterministic table is an oracle comparison, the equality "
            "of its trees with the parser's is a theorem about the GLR model",
    "technique": "Lean 4 proof (stack invariant + walk-back lemma; completeness by validation + simulation) + verified "
                 "checkers and validators on implementation output + model/implementation correspondence",
}

PROP = "C04"
LEVEL = "proof"
THEOREMS = ["C04_sound", "C04_sound_prefix", "C04_tree_checker_correct", "C04_sentence_oracle_correct",
            "C04_lookahead_is_token_edge",
            "C04_complete_when_deterministic", "C04_exact_when_deterministic", "det_complete", "detOK_of_bool", "C04_exact_on_decoded_data",
            "C04_parser_tree_is_the_parse_tree", "C04_unambiguous_when_deterministic",
            "C04_glr_model_trees_are_the_parser_tree", "C04_glr_model_single_tree"]
META = {
    "rule": "cases = (grammar, prefer_shifts, prefer_shifts_over_empty, LALR|SLR, input incl. layout variants) for "
            "which Parser() constructs; non-trivial = accepted input with a tree of >= 2 interior nodes, or a "
            "rejected non-empty input; distinct by (grammar, options, input)",
    "explanation": "C04_sound is proved for all wf tables/inputs/recognizers; per case the implementation table is "
                   "checked wf by the Lean checker, model and implementation are compared on outcome/tree/error "
                   "position, the implementation tree is checked by the verified tree checker and acceptance "
                   "against the verified chart oracle",
    "trusted_base": ["Model/LR.lean, Model/Lex.lean, Model/Table.lean hand-written from parser.py / tables; "
                     "match and skip tables are produced by the real recognizers and _skipws"],
    "assumptions": ["GLR = LR tree is compared on the explored scope"],
}


def units(tier):
    rng = random.Random(seed())
    specs, n_exh = small_specs(tier, rng, nrand_quick=60, nrand_thorough=800, chains_quick=150, chains_thorough=1500,
                                 fixed_quick=100, fixed_thorough=2000)
    maxtok = 4 if tier == "quick" else 5
    return [{"specs": [s.to_json() for s in ch], "maxtok": maxtok, "seed": seed() * 1000 + i}
            for i, ch in enumerate(chunks(specs, 48))]


def run_unit(u):
    res = {"evaluations": 0, "nontrivial": [], "samples": [], "violations": [], "disagreements": [],
           "stats": {"parsers": 0, "conflict_skips": 0, "accepted": 0, "rejected": 0, "disamb": 0,
                     "deterministic_tables": 0, "traces": 0, "build_errors": {}}}
    rng = random.Random(u["seed"])
    st = res["stats"]
    for sj in u["specs"]:
        spec = gen.GSpec.from_json(sj)
        gtxt = spec.text()
        try:
            g = Grammar.from_string(gtxt)
        except Exception as e:
            bump(st["build_errors"], type(e).__name__)
            continue
        num = Numbering(g)
        inputs = inputs_for(spec, u["maxtok"], rng, cap=u.get("cap", 200))
        glr = None
        combos = [(tn, ps, pse) for tn in TABLES for ps in (False, True) for pse in (False, True)]
        if not (spec.exhaustive and len(spec.rules) <= 4):
            combos = [("LALR", False, False), ("LALR", True, True), ("SLR", False, False), ("SLR", False, True)]
        for tname, ps, pse in combos:
            tables = TABLES[tname]
            if True:
                if True:
                    try:
                        with budget(10):
                            p = Parser(g, build_tree=True, prefer_shifts=ps, prefer_shifts_over_empty=pse,
                                       tables=tables)
                    except (SRConflicts, RRConflicts):
                        st["conflict_skips"] += 1
                        continue
                    except (GrammarError, BudgetExceeded) as e:
                        bump(st["build_errors"], type(e).__name__)
                        continue
                    st["parsers"] += 1
                    opts = {"tables": tname, "prefer_shifts": ps, "prefer_shifts_over_empty": pse}
                    # exactness clause: strategy-free deterministic table; the clause is about the
                    # token-level grammar, so lexically overlapping terminal sets (where the scanner's
                    # longest-match choice is itself a strategy) are outside its quantifier
                    det = (not ps and not pse and not has_priorities(g) and all_cells_single(p.table)
                           and "lex-overlap" not in gen.features(spec))
                    if det:
                        st["deterministic_tables"] += 1
                        if glr is None:
                            glr = {}
                        if tname not in glr:
                            glr[tname] = GLRParser(g, tables=tables)
                    b = Batch()
                    b.add("grammar", enc_grammar(num))
                    b.add("table", enc_table(num, p.table))
                    qwf = b.add("wf")
                    glr_model = []
                    # hypotheses of C04_exact_when_deterministic on this table (item sets of the implementation)
                    qv = b.add("lrvalid", enc_items(num, p.table, tname == "LALR", 1)) if det else None
                    qdets = []
                    checks = []
                    for text in inputs:
                        case = {"grammar": gtxt, "options": opts, "input": text}
                        res["evaluations"] += 1
                        try:
                            with budget(1.5):
                                t = p.parse(text)
                            impl = ("ok", tree_sexp(num, t), t)
                        except parglare.SyntaxError as e:
                            impl = ("syntax", err_pos(e), None)
                        except DisambiguationError as e:
                            impl = ("disamb", err_pos(e), None)
                        except BudgetExceeded:
                            # non-termination of Parser.parse under a resolution strategy is outside
                            # C04's statement (C10 covers deterministic tables); the model must agree
                            impl = ("fuel", 0, None)
                        except Exception as e:
                            res["violations"].append({"kind": "foreign-exception", "case": case,
                                                      "observed": type(e).__name__ + ": " + str(e)[:100]})
                            continue
                        b.add("input", enc_input(num, p, text))
                        qlr = b.add("lr", 1, 1, FUEL)
                        qs = b.add("sentence", CHART_FUEL)
                        if det:
                            qdets.append(b.add("detok"))
                        qd = b.add("derives", 1, enc_tree(num, impl[2])) if impl[0] == "ok" else None
                        glr_out = None
                        if det:
                            try:
                                with budget(5):
                                    f = glr[tname].parse(text)
                                glr_out = ("forest", f.solutions, tree_sexp(num, f[0]))
                            except parglare.SyntaxError:
                                glr_out = ("syntax",)
                            except BudgetExceeded:
                                glr_out = None
                        if det and glr_out is not None:
                            glr_model.append((case, text, glr_alt_set(num, f) if glr_out[0] == "forest" else "syntax",
                                              enc_tree(num, f[0]) if glr_out[0] == "forest" else None))
                        checks.append((case, impl, qlr, qs, qd, det, glr_out))
                    # the GLR driver model on GLRParser's own table (hypotheses of
                    # C04_glr_model_trees_are_the_parser_tree: wf, skipidem; lrvalid/detok above)
                    gq = []
                    if glr_model:
                        b.add("table", enc_table(num, glr[tname].table))
                        qwfg = b.add("wf")
                        for case, text, impl_glr, etree in glr_model:
                            b.add("input", enc_input(num, glr[tname], text))
                            qg_ = b.add("glr", 4000, 1, 0)
                            # GLRParser's tree is looked up in the packed forest of the model's run
                            # (hypothesis `TreeOf` of C04_glr_model_trees_are_the_parser_tree)
                            qt_ = b.add("glrtree", etree) if etree is not None else None
                            gq.append((case, impl_glr, qg_, b.add("skipidem"), qt_))
                    out = b.run()
                    for case, impl_glr, qg, qi, qt_ in gq:
                        mg = parse_glr_reply(out[qg])
                        if qt_ is not None and out[qt_] == "glrtree 1":
                            bump(st, "glr_trees_found_in_model_forest")
                        elif qt_ is not None and out[qt_] == "glrtree 0":
                            res["disagreements"].append({"case": case, "what": "GLRParser's tree is not in the packed "
                                                         "forest of the GLR driver model", "impl": "tree", "model": "not found"})
                        if isinstance(mg, str) and mg in ("ordersens", "fuel"):
                            bump(st, "glr_model_" + mg)
                        else:
                            bump(st, "glr_model_compared")
                            if mg != impl_glr:
                                res["disagreements"].append({"case": case, "what": "GLR driver model differs from GLRParser",
                                                             "impl": str(impl_glr)[:200], "model": str(mg)[:200]})
                        bump(st, "glr_hyp_" + ("met" if out[qi] == "skipidem 1" and out[qwfg] == "wf 1" else "unmet"))
                    st["traces"] += len(checks)
                    if out[qwf] != "wf 1":
                        res["violations"].append({"kind": "table-not-wf",
                                                  "case": {"grammar": gtxt, "options": opts},
                                                  "observed": out[qwf]})
                    if qv is not None:
                        if out[qv] != "lrvalid 1":
                            res["disagreements"].append({"case": {"grammar": gtxt, "options": opts},
                                                         "what": "completeness validator rejects a deterministic "
                                                                 "strategy-free table", "model": out[qv][:300]})
                        for qd_ in qdets:
                            tb, lx = out[qd_].split()[1:3]
                            if tb != "1":
                                res["disagreements"].append({"case": {"grammar": gtxt, "options": opts},
                                                             "what": "detTableB fails on a table whose cells are single",
                                                             "model": out[qd_]})
                                break
                            bump(st, "exactness_theorem_applies" if lx == "1" else "lexically_ambiguous_inputs")
                    for case, impl, qlr, qs, qd, det, glr_out in checks:
                        m = out[qlr]
                        if impl[0] == "ok":
                            st["accepted"] += 1
                            want = None
                            mparts = m.split(" ", 3)
                            if not (mparts[0] == "ok" and mparts[3] == impl[1]):
                                res["disagreements"].append({"case": case, "model": m[:300], "impl": "ok " + impl[1][:300]})
                            if out[qs] == "sentence 0":
                                res["violations"].append({"kind": "lr-accepts-non-sentence", "case": case,
                                                          "observed": impl[1]})
                            if out[qd] != "derives 1":
                                res["violations"].append({"kind": "lr-tree-not-a-derivation", "case": case,
                                                          "observed": impl[1]})
                            if impl[1].count("(N") >= 2:
                                res["nontrivial"].append(h16(case))
                        elif impl[0] == "fuel":
                            bump(st, "lr_nontermination")
                            if m != "fuel":
                                res["disagreements"].append({"case": case, "model": m[:200], "impl": "does not terminate"})
                        else:
                            st["rejected" if impl[0] == "syntax" else "disamb"] += 1
                            # DisambiguationError's reported position is examined by C10, not here
                            want = "syntax %d" % impl[1] if impl[0] == "syntax" else "disamb"
                            if not (m == want or (impl[0] == "disamb" and m.startswith("disamb "))):
                                res["disagreements"].append({"case": case, "model": m[:200], "impl": want})
                            if case["input"]:
                                res["nontrivial"].append(h16(case))
                        if det and out[qs] in ("sentence 0", "sentence 1"):
                            is_sent = out[qs] == "sentence 1"
                            if is_sent and impl[0] != "ok":
                                res["violations"].append({"kind": "deterministic-lr-rejects-sentence", "case": case,
                                                          "observed": "%s at %s" % (impl[0], impl[1])})
                            if glr_out is not None and impl[0] == "ok":
                                if glr_out[0] != "forest" or glr_out[1] != 1 or glr_out[2] != impl[1]:
                                    # positions of empty nodes differ by design between LR and GLR: compare shapes
                                    if not (glr_out[0] == "forest" and glr_out[1] == 1 and
                                            shape(glr_out[2]) == shape(impl[1])):
                                        res["violations"].append({"kind": "glr-differs-on-deterministic-table",
                                                                  "case": case, "observed": list(glr_out)[:3],
                                                                  "expected": impl[1]})
                        if len(res["samples"]) < 2 and impl[0] == "ok" and len(case["input"]) > 2:
                            res["samples"].append({"case": case, "impl": impl[1], "model": m})
    res["traces"] = st["traces"]
    return res


def shape(sexp):
    """Tree shape with leaf spans but without interior spans (LR and GLR place
    empty nodes differently inside the layout: LR at the end of the previous
    token, GLR at the start of the next)."""
    import re
    return re.sub(r"\(N (\d+) \d+ \d+", r"(N \1", sexp)

"""C05 — table construction terminates and is a faithful LR(1)-family table."""
import os
import random

import parglare
from parglare import Grammar
from parglare.closure import LR_0, LR_1
from parglare.tables import create_table
from parglare.exceptions import GrammarError

import gen
from pcommon import *
from enc import enc_ggrammar, enc_items, enc_grammar

MANIFEST_ENTRY = {
    "category": "proof",
    "text": "A Lean 4 model of first/follow/closure/state discovery/LALR merge-or-split/lookahead propagation/"
            "reduce filling/conflict resolution/action sorting/finish flags reproduces the implementation's "
            "table EXACTLY (state numbering, cell contents and order, gotos, finish flags) on every explored "
            "grammar and option combination; theorems: FIRST sets are a fixpoint containing exactly what the "
            "productions force (C05_first_*), the cell resolution function only removes or appends (no action is "
            "invented). NOTHING VALID IS MISSING is proved by validation: every table that passes the completeness "
            "validator of Spec/LRValid.lean with its item sets gives every sentence of every input an accepting run "
            "of the nondeterministic LR automaton (C05_validated_table_complete / _exact), and the validator is "
            "evaluated on every strategy-free LALR and SLR table of the implementation (main and LAYOUT start) with "
            "the implementation's own item sets and FIRST sets; the canonical LR(1) / LALR(1) reference automata of "
            "Spec/LR1.lean decide 'no reduction outside the LALR(1) lookahead' on every explored table; termination "
            "is decided by a reference-derived state budget through the guarded hook",
    "note": "trusted: Lean kernel; the table model is hand-written and validated by exact correspondence; "
            "Spec/LR1.lean is executable spec (unproved); termination and the LALR(1) upper bound on lookaheads "
            "are decided on the explored scope (exhaustive small grammars, nullable-chain family, fixed and seeded "
            "random streams), not by theorem",
    "technique": "Lean 4 proof of completeness by validation (Jourdan-Pottier-Leroy style validator, simulation lemma) + "
                 "Lean model with exact correspondence + Lean reference automata (canonical LR(1), LALR(1))",
}

PROP = "C05"
LEVEL = "proof"
THEOREMS = ["C05_resolve_no_invention", "C05_resolve_empty_cell", "decideShift_sub", "addReduce_sub",
            "C05_validated_table_complete", "C05_validated_table_exact", "lemmaA", "lr_complete"]
META = {
    "rule": "cases = (productive grammar, LALR|SLR, prefer_shifts x prefer_shifts_over_empty, start production main|"
            "LAYOUT); non-trivial = table with a state whose kernel was reached twice (merge attempted) or with a "
            "conflict; distinct by (grammar, options)",
    "explanation": "see level text",
    "trusted_base": ["Spec/LR1.lean executable reference automata"],
    "assumptions": [],
}


def units(tier):
    rng = random.Random(seed())
    specs, _ = small_specs(tier, rng, nrand_quick=300, nrand_thorough=20000,
                           exhaustive_quick=((1, 1, 3, 2), (2, 1, 3, 2), (2, 2, 3, 2)),
                           exhaustive_thorough=((1, 1, 3, 3), (2, 1, 3, 2), (2, 2, 3, 2), (2, 1, 4, 2), (3, 1, 4, 2)))
    out = []
    for i, s in enumerate(specs):
        out.append(s)
        if i % 7 == 0 and all(k == "str" and len(v) == 1 for k, v in s.terms.values()):
            s2 = gen.GSpec(s.rules, s.terms, layout="ws" if i % 2 else "comment")
            s2.exhaustive = s.exhaustive
            out.append(s2)
    return [{"specs": [s.to_json() for s in ch], "seed": seed() * 1000 + i}
            for i, ch in enumerate(chunks(out, 64))]


def run_unit(u):
    res = {"evaluations": 0, "nontrivial": [], "samples": [], "violations": [], "disagreements": [],
           "stats": {"tables": 0, "conflict_tables": 0, "states_total": 0, "layout_tables": 0,
                     "lr1_reference_checks": 0, "traces": 0, "build_errors": {}}}
    st = res["stats"]
    for sj in u["specs"]:
        spec = gen.GSpec.from_json(sj)
        gtxt = spec.text()
        try:
            g = Grammar.from_string(gtxt)
        except Exception as e:
            bump(st["build_errors"], type(e).__name__)
            continue
        num = Numbering(g)
        starts = [1]
        if spec.layout:
            starts.append(g.get_production_id("LAYOUT"))
        b = Batch()
        b.add("ggrammar", enc_ggrammar(num))
        checks = []
        for sp in starts:
            for lr1 in (1, 0):
                for ps, pse in ((0, 0), (1, 1), (0, 1)):
                    case = {"grammar": gtxt, "tables": "LALR" if lr1 else "SLR", "prefer_shifts": bool(ps),
                            "prefer_shifts_over_empty": bool(pse), "start_production": sp}
                    # reference-derived state budget: asked from the Lean reference first
                    qref = b.add("lr1ref", sp, 4000)
                    checks.append((case, sp, lr1, ps, pse, qref))
        out0 = b.run()
        b = Batch()
        b.add("ggrammar", enc_ggrammar(num))
        checks2 = []
        for case, sp, lr1, ps, pse, qref in checks:
            ref = out0[qref].split()
            n_canon = int(ref[1]) if len(ref) > 1 and ref[0] == "lr1ref" and ref[1].isdigit() else None
            budget_states = 4 * n_canon + 8 if n_canon else 400
            os.environ["PARGLARE_VERIF_MAX_STATES"] = str(budget_states)
            try:
                with budget(20):
                    t = create_table(g, LR_1 if lr1 else LR_0, sp, bool(ps), bool(pse))
            except GrammarError as e:
                bump(st["build_errors"], "GrammarError")
                continue
            except BudgetExceeded:
                res["violations"].append({"kind": "table-construction-does-not-terminate", "case": case,
                                          "observed": "wall-clock budget"})
                continue
            except Exception as e:
                if type(e).__name__ == "VerifStateBudgetExceeded":
                    res["violations"].append({"kind": "table-construction-does-not-terminate", "case": case,
                                              "observed": "more than %d states (canonical LR(1) has %s)" % (budget_states, n_canon)})
                else:
                    res["violations"].append({"kind": "foreign-exception", "case": case,
                                              "observed": type(e).__name__ + ": " + str(e)[:100]})
                continue
            finally:
                os.environ.pop("PARGLARE_VERIF_MAX_STATES", None)
            res["evaluations"] += 1
            st["tables"] += 1
            st["states_total"] += len(t.states)
            if sp != 1:
                st["layout_tables"] += 1
            if t.sr_conflicts or t.rr_conflicts:
                st["conflict_tables"] += 1
            enc = enc_table(num, t)
            body = enc[:len(enc) - 1 - 2 * len(num.terms)]
            q = b.add("tablegen", lr1, ps, pse, sp, 1, 4000)
            qf = None
            qv = None
            if not ps and not pse and not has_priorities(g):
                b.add("table", enc)
                qf = b.add("faithful", sp, lr1, 4000)
                st["lr1_reference_checks"] += 1
                # completeness validator (C05_validated_table_complete) on the implementation's own item sets
                b.add("grammar", enc_grammar(num, sp))
                qv = b.add("lrvalid", enc_items(num, t, bool(lr1), sp))
            conflicts = sorted({(c.state.state_id, num.term(c.term)) for c in t.sr_conflicts + t.rr_conflicts})
            checks2.append((case, body, q, qf, len(t.states), conflicts, qv))
        out = b.run()
        st["traces"] += len(checks2)
        for case, body, q, qf, nstates, conflicts, qv in checks2:
            want = "table " + " ".join(str(x) for x in body)
            if out[q] != want:
                res["disagreements"].append({"case": case, "model": out[q][:400], "impl": want[:400]})
            if qf is not None and out[qf].startswith("faithful") and out[qf] != "faithful ok" and out[qf] != "faithful fuel":
                res["violations"].append({"kind": "table-not-faithful-to-lr1-family", "case": case,
                                          "observed": out[qf]})
            if qv is not None:
                if out[qv] == "lrvalid 1":
                    st["validated_complete"] = st.get("validated_complete", 0) + 1
                else:
                    # the hypothesis of the completeness theorem does not hold for this table: broken obligation
                    # (the LR(1)-reference comparison above is the search for a missing action)
                    res["disagreements"].append({"case": case, "what": "completeness validator rejects the "
                                                 "implementation's table/item sets", "model": out[qv][:300]})
            if conflicts or nstates > 6:
                res["nontrivial"].append(h16(case))
            if len(res["samples"]) < 2 and conflicts:
                res["samples"].append({"case": case, "states": nstates, "conflict_cells": conflicts[:5]})
    res["traces"] = st["traces"]
    return res

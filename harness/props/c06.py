"""C06 — priorities and associativity give the conventional operator-precedence parse."""
import itertools
import random

import parglare
from parglare import Grammar, Parser, GLRParser
from parglare.exceptions import SRConflicts, RRConflicts

import gen
from pcommon import *
from enc import enc_ggrammar

MANIFEST_ENTRY = {
    "category": "proof",
    "text": "Lean 4 theorems about the model of the resolution code (resolveCell): for a cell holding the shift of "
            "the next operator and the reduction of an operator production with declared priority and left/right "
            "associativity the result is exactly [REDUCE] (higher, or equal and left) or exactly [SHIFT] (lower, or "
            "equal and right), independent of prefer_shifts*; a reduction entering a free cell is added unchanged. "
            "Per operator table and expression: Parser constructs without conflicts, its tree and the single GLR "
            "tree equal the precedence-climbing oracle of Spec/Prec.lean (which also checks its own result "
            "conventional); table model = implementation table; priorities added to conflict-free grammars leave "
            "the table unchanged",
    "note": "trusted: Lean kernel; resolveCell is hand-written from create_table and validated by exact table "
            "correspondence; that shift-reduce parsing with the proved cell decisions yields the conventional tree "
            "for every expression is compared against the executable spec `climb` on the explored scope, not proved",
    "technique": "Lean 4 proof (case analysis of the resolution function) + executable-spec oracle comparison",
}

PROP = "C06"
LEVEL = "proof"
THEOREMS = ["C06_cell_decision_reduce", "C06_cell_decision_shift", "C06_no_conflict_remains",
            "C06_static_noop_on_free_cell"]
META = {
    "rule": "cases = (operator table: 1..k operators over 1..k priority levels, left/right per level, shuffled "
            "alternative order, LALR|SLR; expression with up to m operands and parentheses); non-trivial = "
            "expression with >= 2 operators; distinct by (grammar, tables, expression)",
    "explanation": "see level text",
    "trusted_base": ["Spec/Prec.lean `climb` is the reference for 'conventional'"],
    "assumptions": [],
}

OPS = ["+", "-", "*", "/", "^", "%"]
# operator texts one of which begins another: the scanner's choice between them must not depend on the
# priorities of the productions
OPS_OVERLAP = ["|", "||", "&", "&&", "+", "+="]


def op_tables(tier, rng):
    out = []
    kmax = 3 if tier == "quick" else 4
    for k in range(1, kmax + 1):
        for levels in itertools.product(range(1, k + 1), repeat=k):
            if sorted(set(levels)) != list(range(1, len(set(levels)) + 1)):
                continue
            nl = len(set(levels))
            for assoc in itertools.product((True, False), repeat=nl):
                out.append([(levels[i] * 3, assoc[levels[i] - 1]) for i in range(k)])
    n_exh = len(out)
    for _ in range(40 if tier == "quick" else 1500):
        k = rng.randint(4, 6)
        nl = rng.randint(1, k)
        lv = [rng.randint(1, nl) for _ in range(k)]
        assoc = [rng.random() < 0.5 for _ in range(nl + 1)]
        out.append([(lv[i] * 2 + 1, assoc[lv[i]]) for i in range(k)])
    return out, n_exh


def grammar_text(table, order, rule_meta=None, inherit=None, ops=OPS, named=None):
    """`inherit`: (left, prio) declared on the rule; alternatives with exactly these values leave them out
    and inherit them (those with only one of the two equal leave out that one)."""
    alts = []
    for i, (prio, left) in enumerate(table):
        meta = ["left" if left else "right", str(prio)]
        if inherit is not None:
            if left == inherit[0]:
                meta.remove("left" if left else "right")
            if prio == inherit[1]:
                meta.remove(str(prio))
        opref = ('"%s"' % ops[i]) if named is None else "OP%d" % i
        alts.append('E %s E%s' % (opref, (" {%s}" % ", ".join(meta)) if meta else ""))
    alts += ['"(" E ")"', '"n"']
    alts = [alts[i] for i in order]
    head = "E" if rule_meta is None else "E {%s}" % rule_meta
    out = head + ": " + " | ".join(alts) + ";\n"
    if named is not None:
        # operators as declared terminals with lexical priorities of their own (these order the scanner's
        # candidates; they say nothing about the grouping)
        out += "terminals\n" + "".join('OP%d: "%s" {%d};\n' % (i, ops[i], named[i]) for i in range(len(table)))
    return out


# priority values matter as values too: 0, small, beyond CPython's small-int cache, large
PRIO_MAPS = [lambda l: l * 3, lambda l: l - 1, lambda l: 250 + l * 5, lambda l: 1000 * l + 7,
             # around the default priority 10
             lambda l: 9 + l, lambda l: 8 + l, lambda l: 10 * l]


def expressions(k, m, rng, cap):
    """Token lists: all operator sequences with up to m operands + parenthesised variants."""
    out = []
    for n in range(1, m + 1):
        for ops in itertools.product(range(k), repeat=n - 1):
            toks = [0]
            for o in ops:
                toks += [3 + o, 0]
            out.append(toks)
    if len(out) > cap:
        out = out[:cap // 2] + rng.sample(out[cap // 2:], cap // 2)
    extra = []
    for toks in out[::3]:
        if len(toks) >= 5:
            i = rng.randrange(0, len(toks) - 2, 2)
            j = rng.randrange(i + 2, len(toks), 2)
            extra.append(toks[:i] + [1] + toks[i:j + 1] + [2] + toks[j + 1:])
    return out + extra


def units(tier):
    rng = random.Random(seed())
    tables, n_exh = op_tables(tier, rng)
    us, base = [], 0
    for i, ch in enumerate(chunks(tables, 48)):       # 48 units; `base` = index of the unit's first table
        us.append({"kind": "ops", "tables": ch, "seed": seed() * 1000 + i, "m": 4 if tier == "quick" else 6,
                   "base": base})
        base += len(ch)
    specs = [s for s in gen.enum_grammars(2, 2, 3, 2, allow_cyclic=False)][:: (6 if tier == "quick" else 1)]
    us += [{"kind": "noop", "specs": [s.to_json() for s in ch], "seed": seed() * 1000 + 500 + i}
           for i, ch in enumerate(chunks(specs, 12))]
    return us


def etree(g, opmap, n):
    if n.is_term():
        return "n"
    kids = list(n)
    if len(kids) == 1:
        return etree(g, opmap, kids[0])
    if kids[0].is_term() and kids[0].value == "(":
        return "[" + etree(g, opmap, kids[1]) + "]"
    return "(%d %s %s)" % (opmap[kids[1].value], etree(g, opmap, kids[0]), etree(g, opmap, kids[2]))


def run_unit(u):
    res = {"evaluations": 0, "nontrivial": [], "samples": [], "violations": [], "disagreements": [],
           "stats": {"grammars": 0, "expressions": 0, "noop_grammars": 0, "traces": 0}}
    rng = random.Random(u["seed"])
    st = res["stats"]
    if u["kind"] == "noop":
        return run_noop(u, res, rng)
    for ti, table0 in enumerate(u["tables"], start=u.get("base", 0)):   # variants cycle over the whole family
        k = len(table0)
        order = list(range(k + 2))
        rng.shuffle(order)
        # same table under another numbering of the priority levels (order preserving)
        levels = sorted({pr for pr, _ in table0})
        pm = PRIO_MAPS[ti % len(PRIO_MAPS)]
        table = [(pm(levels.index(pr) + 1), lf) for pr, lf in table0]
        # every production declares its own priority/associativity; a rule-level default must not override it
        rule_meta = None
        if ti % 3 == 1:
            rule_meta = "%s, %d" % (rng.choice(["left", "right"]), rng.choice([pr for pr, _ in table] + [5]))
        inherit = None
        if ti % 3 == 2:
            # the rule declares the values of one operator; that operator's alternative (and every alternative
            # sharing a value) inherits instead of declaring: the effective table is unchanged
            pr_i, lf_i = table[rng.randrange(k)]
            inherit = (lf_i, pr_i)
            rule_meta = "%s, %d" % ("left" if lf_i else "right", pr_i)
        ops = OPS_OVERLAP if ti % 4 == 3 else OPS
        # (lexical priorities do decide between overlapping texts, by design: not combined with them)
        named = [rng.choice([1, 5, 10, 12, 15, 20]) for _ in range(k)] if (ti % 5 == 4 and ops is OPS) else None
        gtxt = grammar_text(table, order, rule_meta, inherit, ops=ops, named=named)
        opmap = {ops[i]: i for i in range(k)}
        g = Grammar.from_string(gtxt)
        num = Numbering(g)
        exprs = expressions(k, u["m"], rng, 120)
        for tname, tables in TABLES.items():
            case0 = {"grammar": gtxt, "tables": tname}
            try:
                p = Parser(g, build_tree=True, tables=tables, prefer_shifts=False, prefer_shifts_over_empty=False)
            except (SRConflicts, RRConflicts) as e:
                res["violations"].append({"kind": "conflict-remains-with-declared-priorities", "case": case0,
                                          "observed": type(e).__name__})
                continue
            gp = GLRParser(g, tables=tables)
            st["grammars"] += 1
            b = Batch()
            # table model correspondence
            b.add("ggrammar", enc_ggrammar(num))
            qt = b.add("tablegen", 1 if tname == "LALR" else 0, 0, 0, 1, 1, 4000)
            enc = enc_table(num, p.table)
            want_t = "table " + " ".join(str(x) for x in enc[:len(enc) - 1 - 2 * len(num.terms)])
            checks = []
            for toks in exprs:
                text = " ".join("n" if t == 0 else "(" if t == 1 else ")" if t == 2 else ops[t - 3] for t in toks)
                case = dict(case0, input=text)
                res["evaluations"] += 1
                st["expressions"] += 1
                try:
                    lt = etree(g, opmap, p.parse(text))
                except Exception as e:
                    res["violations"].append({"kind": "expression-rejected", "case": case,
                                              "observed": type(e).__name__})
                    continue
                try:
                    f = gp.parse(text)
                    gl = (f.solutions, etree(g, opmap, f[0]))
                except Exception as e:
                    gl = (0, type(e).__name__)
                q = b.add("climb", len(table), [[pr, 1 if lf else 0] for pr, lf in table], len(toks), toks)
                checks.append((case, lt, gl, q, len(toks)))
            out = b.run()
            st["traces"] += len(checks)
            if out[qt] != want_t:
                res["disagreements"].append({"case": case0, "model": out[qt][:300], "impl": want_t[:300]})
            for case, lt, gl, q, n in checks:
                want = out[q]
                if want != "climb %s conv" % lt:
                    res["violations"].append({"kind": "lr-tree-is-not-the-conventional-parse", "case": case,
                                              "observed": lt, "expected": want})
                if gl != (1, lt):
                    res["violations"].append({"kind": "glr-differs-from-conventional-parse", "case": case,
                                              "observed": list(gl), "expected": lt})
                if n >= 5:
                    res["nontrivial"].append(h16(case))
                if len(res["samples"]) < 2 and n >= 7:
                    res["samples"].append({"case": case, "tree": lt})
    res["traces"] = st["traces"]
    return res


def run_noop(u, res, rng):
    """Adding priorities/associativities to a grammar that builds without conflicts
    changes neither the table nor (hence) any parse."""
    st = res["stats"]
    for sj in u["specs"]:
        spec = gen.GSpec.from_json(sj)
        try:
            g0 = Grammar.from_string(spec.text())
            p0 = Parser(g0, build_tree=True, prefer_shifts=False, prefer_shifts_over_empty=False)
        except Exception:
            continue
        if not all_cells_single(p0.table):
            continue
        meta = {i: "{%s, %d}" % (rng.choice(["left", "right"]), rng.randint(1, 20))
                for i in range(len(spec.rules)) if rng.random() < 0.7}
        spec2 = gen.GSpec(spec.rules, spec.terms, meta=meta)
        case = {"grammar": spec2.text(), "base_grammar": spec.text()}
        res["evaluations"] += 1
        st["noop_grammars"] += 1
        try:
            g1 = Grammar.from_string(spec2.text())
            p1 = Parser(g1, build_tree=True, prefer_shifts=False, prefer_shifts_over_empty=False)
        except Exception as e:
            res["violations"].append({"kind": "priorities-break-a-conflict-free-grammar", "case": case,
                                      "observed": type(e).__name__})
            continue
        n0, n1 = Numbering(g0), Numbering(g1)
        if enc_table(n0, p0.table) != enc_table(n1, p1.table):
            res["violations"].append({"kind": "priorities-change-a-conflict-free-table", "case": case})
        for text in list(gen.token_strings(spec, 4))[:60]:
            def run(p, num):
                try:
                    return tree_sexp(num, p.parse(text))
                except parglare.SyntaxError as e:
                    return "syntax %d" % err_pos(e)
            if run(p0, n0) != run(p1, n1):
                res["violations"].append({"kind": "priorities-change-a-parse", "case": dict(case, input=text)})
        res["nontrivial"].append(h16(case))
    return res

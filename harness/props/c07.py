"""C07 — token choice follows the documented lexical disambiguation order."""
import itertools
import random

import parglare
from parglare import Grammar, Parser, GLRParser
from parglare.parser import LRStackNode
from parglare.grammar import StringRecognizer
from parglare.exceptions import SRConflicts, RRConflicts, GrammarError

from pcommon import *
from enc import enc_ggrammar

MANIFEST_ENTRY = {
    "category": "proof",
    "text": "Lean 4 theorems, for every table, recognizer behaviour, state and position: if a state's expected list "
            "is sorted by non-increasing priority with string-like terminals first inside a priority group and carries "
            "finish flags consistent with calc_finish_flags (two decidable conditions), then _next_tokens -- with its "
            "candidate order, finish flags and early exit on priority drop -- returns exactly the order-free rule set "
            "R1-R5 of Spec/LexRules.lean on the candidates, STOP only when admissible and nothing else matches "
            "(C07_next_tokens_eq_rules); with lexical disambiguation off it returns every candidate of the highest "
            "matching priority (C07_next_tokens_nolex); every scanned token is an expected terminal whose recognizer "
            "matches with that length. The two conditions are EVALUATED by the compiled model on every state of every "
            "table the implementation builds for the generated terminal sets (strings incl. prefixes of each other, "
            "regexes, custom recognizers, keywords, priorities, prefer, ignore_case); the scanner model is compared "
            "with Parser._next_tokens in every state at every position; the implementation's outcome is compared "
            "with R1-R5 directly; sorting and flags are also covered by exact table correspondence",
    "note": "trusted: Lean kernel; Spec/LexRules.lean is the reading of the documented order; the input-dependent "
            "side condition strDecB (no two expected string-like terminals of one priority match the same position "
            "with the same length) is evaluated per position and counted; explicit finish/nofinish marks change the "
            "outcome by documented design: for them only the model (characterisation) is compared, not R1-R5; "
            "recognizers are data",
    "technique": "Lean 4 proof (induction over the sorted candidate list) + hypotheses evaluated on the implementation's tables + model/implementation correspondence",
}

PROP = "C07"
LEVEL = "proof"
THEOREMS = ["C07_tokens_are_matching_expected", "C07_disamb_sublist", "C07_disamb_longest",
            "C07_disamb_prefer", "C07_scan_only_expected", "C07_next_tokens_eq_rules", "C07_next_tokens_nolex",
            "scan_eq_rules", "recognize_eq_scanSpec", "lexSortedB_sound", "flagsOKB_sound", "strDecB_sound"]
META = {
    "rule": "cases = (terminal set with attributes, grammar making different states expect different subsets, "
            "ignore_case, lexical_disambiguation, state, input, position); non-trivial = position where >= 2 "
            "expected terminals match; distinct by (grammar, options, state, input, position)",
    "explanation": "see level text",
    "trusted_base": ["Spec/LexRules.lean is the reading of the documented order"],
    "assumptions": ["explicit finish/nofinish marks change the outcome by documented design: for them only the "
                    "model (characterisation) is compared, not R1-R5"],
}

STR_POOL = ["a", "ab", "abc", "b", "bc", "i", "if", "A", "1", "a1"]
RE_POOL = ["a+", "[a-c]+", "ab?", r"\w+", r"\d+", "[ab]", "i[a-z]*", "a|ab"]


def rec_ab(input_str, pos):
    return "ab" if input_str[pos:pos + 2] == "ab" else None


def rec_word(input_str, pos):
    j = pos
    while j < len(input_str) and input_str[j].isalpha():
        j += 1
    return input_str[pos:j] if j > pos else None


CUSTOM = {"ab": rec_ab, "word": rec_word}


def gen_termset(rng):
    n = rng.randint(2, 6)
    terms = []
    used = set()
    for i in range(n):
        r = rng.random()
        if r < 0.5:
            v = rng.choice(STR_POOL)
            kind = "str"
        elif r < 0.9:
            v = rng.choice(RE_POOL)
            kind = "re"
        else:
            v = rng.choice(list(CUSTOM))
            kind = "custom"
        if (kind, v) in used:
            continue
        used.add((kind, v))
        attrs = []
        pr = rng.choice([None, None, 5, 15, 15, 20])
        if pr is not None:
            attrs.append(str(pr))
        if rng.random() < 0.35:
            attrs.append("prefer")
        fr = rng.random()
        if fr < 0.12:
            attrs.append("finish")
        elif fr < 0.24:
            attrs.append("nofinish")
        terms.append({"name": "T%d" % i, "kind": kind, "value": v, "attrs": attrs})
    return terms


NAME_POOL = ["T%d", "name%d", "ID%d", "Zed%d", "a%d", "Kw%d"]


def grammar_of(terms, rng):
    # terminal names decide the final tie-break of the action sort: vary them
    for i, t in enumerate(terms):
        t["name"] = rng.choice(NAME_POOL) % i
    names = [t["name"] for t in terms]
    k = len(names)
    s1 = [n for n in names if rng.random() < 0.7] or names[:1]
    s2 = [n for n in names if rng.random() < 0.6] or names[-1:]
    s3 = [n for n in names if rng.random() < 0.4]
    rules = ["S: A B C;", "A: %s;" % " | ".join(s1), "B: %s | EMPTY;" % " | ".join(s2),
             "C: %s;" % (" | ".join(s3 + ["EMPTY"]))]
    lines = rules + ["terminals"]
    for t in terms:
        a = (" {%s}" % ", ".join(t["attrs"])) if t["attrs"] else ""
        if t["kind"] == "str":
            lines.append('%s: "%s"%s;' % (t["name"], t["value"], a))
        elif t["kind"] == "re":
            lines.append("%s: /%s/%s;" % (t["name"], t["value"], a))
        else:
            lines.append("%s: %s;" % (t["name"], a.strip()))
    if rng.random() < 0.3:
        # string terminals fully matched by KEYWORD become whole-word keyword regexes
        lines.append("KEYWORD: /%s/;" % rng.choice(["\\w+", "[a-z]+", "i\\w*"]))
    return "\n".join(lines) + "\n"


def units(tier):
    rng = random.Random(seed())
    fixed = random.Random(20260927)
    cases = []
    for i in range(1600 if tier == "quick" else 12000):
        r = fixed if i % 2 == 0 else rng
        terms = gen_termset(r)
        cases.append({"terms": terms, "grammar": grammar_of(terms, r), "ignore_case": i % 5 == 0})
    return [{"cases": ch, "seed": seed() * 1000 + i, "maxlen": 3 if tier == "quick" else 4}
            for i, ch in enumerate(chunks(cases, 16))]


ALPHABET = "ab1icfA "


def run_unit(u):
    res = {"evaluations": 0, "nontrivial": [], "samples": [], "violations": [], "disagreements": [],
           "stats": {"grammars": 0, "positions": 0, "multi_match": 0, "with_marks": 0, "ignore_case": 0,
                     "disamb_errors": 0, "rule_checks": 0, "traces": 0, "build_errors": {}}}
    rng = random.Random(u["seed"])
    st = res["stats"]
    inputs = ["".join(c) for n in range(1, u["maxlen"] + 1) for c in itertools.product(ALPHABET[:6], repeat=n)]
    inputs = inputs[::3] + ["ab ab", "if a", "aab1", "abc", "Ab", "aB", "IF", "a1a", "iff"]
    for c in u["cases"]:
        gtxt = c["grammar"]
        recs = {t["name"]: CUSTOM[t["value"]] for t in c["terms"] if t["kind"] == "custom"}
        if "KEYWORD" in gtxt:
            bump(st, "with_keyword_rule")
        try:
            g = Grammar.from_string(gtxt, recognizers=recs, ignore_case=c["ignore_case"])
        except Exception as e:
            bump(st["build_errors"], type(e).__name__)
            continue
        num = Numbering(g)
        marks = any(a in ("finish", "nofinish") for t in c["terms"] for a in t["attrs"])
        strlike = [0] + [1 if (type(t.recognizer) is StringRecognizer or t.keyword) else 0 for t in num.terms[1:]]
        for lexdis, consume in ((True, True), (False, True), (True, False), (False, False)):
            try:
                p = (Parser(g, lexical_disambiguation=True, consume_input=consume) if lexdis
                     else GLRParser(g, consume_input=consume))
            except (SRConflicts, RRConflicts):
                continue
            except Exception as e:
                bump(st["build_errors"], type(e).__name__)
                continue
            st["grammars"] += 1
            if marks:
                st["with_marks"] += 1
            if c["ignore_case"]:
                st["ignore_case"] += 1
            b = Batch()
            b.add("ggrammar", enc_ggrammar(num))
            enc = enc_table(num, p.table)
            qt = b.add("tablegen", 1, 1 if lexdis else 0, 1 if lexdis else 0, 1, 1 if lexdis else 0, 4000)
            want_t = "table " + " ".join(str(x) for x in enc[:len(enc) - 1 - 2 * len(num.terms)])
            b.add("table", enc)
            checks = []
            sample_inputs = rng.sample(inputs, min(len(inputs), 24 if consume else 8))
            for text in sample_inputs:
                b.add("input", enc_input(num, p, text))
                for state in p.table.states:
                    if len(state.actions) < 2:
                        continue
                    for pos in range(len(text) + 1):
                        head = LRStackNode(None, text, state, 0, pos, {})
                        case = {"grammar": gtxt, "ignore_case": c["ignore_case"], "lexical_disambiguation": lexdis,
                                "consume_input": consume, "state": state.state_id, "input": text, "position": pos}
                        try:
                            toks = p._next_tokens(head)
                        except Exception as e:
                            res["violations"].append({"kind": "scanner-raises", "case": case,
                                                      "observed": type(e).__name__ + ": " + str(e)[:80]})
                            continue
                        impl = sorted((num.term(t.symbol), len(t.value) if t.symbol.name != "STOP" else 0)
                                      for t in toks)
                        res["evaluations"] += 1
                        st["positions"] += 1
                        qm = b.add("tokens", state.state_id, pos, 1 if consume else 0, 1 if lexdis else 0)
                        qr = b.add("rules", state.state_id, pos, 1 if lexdis else 0, strlike) \
                            if (not marks and pos < len(text)) else None
                        qh = b.add("lexhyp", state.state_id, pos, strlike) if qr is not None else None
                        checks.append((case, impl, qm, qr, qh))
            out = b.run()
            if out[qt] != want_t and out[qt].startswith("table ") and out[qt] != "table fuel":
                # the implementation's sorted action lists / finish flags differ from the documented
                # construction (model): search for a position where that changes the token choice -- the scan
                # over the model's own table is the reference
                tail = enc[len(enc) - 1 - 2 * len(num.terms):]
                b2 = Batch()
                b2.add("ggrammar", enc_ggrammar(num))
                b2.add("table", [int(x) for x in out[qt].split()[1:]] + tail)
                refs = []
                cur = None
                for case, impl, qm, qr, qh in checks:
                    if case["input"] != cur:
                        cur = case["input"]
                        b2.add("input", enc_input(num, p, cur))
                    refs.append(b2.add("tokens", case["state"], case["position"], 1 if consume else 0,
                                       1 if lexdis else 0))
                out2 = b2.run()
                for (case, impl, qm, qr, qh), q2 in zip(checks, refs):
                    xs = [int(x) for x in out2[q2].split()[1:]]
                    ref = sorted(zip(xs[0::2], xs[1::2]))
                    if ref != impl:
                        res["violations"].append({"kind": "token-choice-differs-from-the-scan-over-the-documented-table",
                                                  "case": case, "observed": impl, "expected": ref})
            broken_states = set()
            st["traces"] += len(checks)
            if out[qt] != want_t:
                res["disagreements"].append({"case": {"grammar": gtxt, "lexical_disambiguation": lexdis},
                                             "model": out[qt][:300], "impl": want_t[:300], "what": "sorted table"})
            for case, impl, qm, qr, qh in checks:
                def pairs(line):
                    xs = [int(x) for x in line.split()[1:]]
                    return sorted(zip(xs[0::2], xs[1::2]))
                m = pairs(out[qm])
                if m != impl:
                    res["disagreements"].append({"case": case, "model": m, "impl": impl})
                if qh is not None:
                    # hypotheses of C07_next_tokens_eq_rules / C07_next_tokens_nolex on the implementation's own
                    # sorted action list and finish flags: where they hold the theorem gives model = R1-R5
                    lenok, srt, flg, dec, allfalse = [int(x) for x in out[qh].split()[1:]]
                    table_ok = lenok and srt and (flg if case["lexical_disambiguation"] else allfalse)
                    if table_ok and (dec or not case["lexical_disambiguation"]):
                        st["theorem_applies"] = st.get("theorem_applies", 0) + 1
                    elif table_ok:
                        st["tie_between_equal_strings"] = st.get("tie_between_equal_strings", 0) + 1
                    else:
                        key = (case["grammar"], case["lexical_disambiguation"], case["state"])
                        if key not in broken_states:
                            broken_states.add(key)
                            res["disagreements"].append({
                                "case": {k: case[k] for k in ("grammar", "ignore_case", "lexical_disambiguation", "state")},
                                "what": "the sorted action list / finish flags of this state do not satisfy the hypotheses "
                                        "of C07_next_tokens_eq_rules (lenok, sorted, flags, all-false) = %s"
                                        % [lenok, srt, flg, allfalse]})
                if qr is not None:
                    st["rule_checks"] += 1
                    r = pairs(out[qr])
                    real = [x for x in impl if x[0] != 0]
                    if r and sorted(r) != real:
                        res["violations"].append({"kind": "token-choice-differs-from-documented-rules",
                                                  "case": case, "observed": impl, "expected": r})
                    if len(r) >= 1 and len(real) == 0 and not any(x[0] == 0 for x in impl):
                        res["violations"].append({"kind": "matching-expected-terminal-not-considered",
                                                  "case": case, "observed": impl, "expected": r})
                if len(impl) >= 2:
                    st["disamb_errors"] += 1
                    res["nontrivial"].append(h16(case))
                if len(res["samples"]) < 2 and len(impl) >= 2:
                    res["samples"].append({"case": case, "tokens": impl})
    res["traces"] = st["traces"]
    return res

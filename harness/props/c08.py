"""C08 — parse trees are positionally faithful and lossless."""
import random

import parglare
from parglare import Grammar, Parser, GLRParser
from parglare.exceptions import SRConflicts, RRConflicts, DisambiguationError

import gen
from pcommon import *

MANIFEST_ENTRY = {
    "category": "proof",
    "text": "Lean 4 theorems for the LR driver model over all tables/inputs/recognizers: every accepted tree is "
            "positionally well formed (ordered spans, children inside the parent, siblings ordered and disjoint, "
            "in bounds) and its leaves chained through layout skipping tile the input; for the GLR driver model every "
            "tree of the packed forest has that leaf chain too (C08_glr_model_lossless, from forest soundness); the same verified checkers "
            "run on every LR and GLR implementation tree, together with value == input[start:end], layout+value "
            "reconstruction and the positions handed to actions",
    "note": "trusted: Lean kernel; LR model validated by correspondence (C04); the spans of interior GLR nodes are validated by the "
            "checker on output (not by a model theorem; finding F-POS-3), the leaf chain of GLR trees is a theorem about the GLR model (tied by C01/C02's correspondence); token values of regex recognizers are compared as strings "
            "by the harness; ignore_case values are outside the explored scope",
    "technique": "Lean 4 proof (position invariant of the LR stack) + verified checkers on implementation trees",
}

PROP = "C08"
LEVEL = "proof"
THEOREMS = ["C08_lr_posOK", "C08_lr_in_bounds", "C08_lr_lossless", "C08_glr_model_lossless"]
META = {
    "rule": "cases = (grammar incl. empty productions at start/middle/end, layout mode ws | LAYOUT rule variants, "
            "LR|GLR, sentence with layout injected before/between/after tokens); non-trivial = tree containing an "
            "empty node or input containing layout; distinct by (grammar, layout mode, parser, input)",
    "explanation": "Tree.posOK + in-bounds (Lean checker) on every implementation tree; Python-side checks of "
                   "value == input[start:end], layout_content + value reconstruction, action context positions",
    "trusted_base": ["string comparison of token values and layout_content is done by the harness"],
    "assumptions": [],
}

TREE_CAP = 12


def units(tier):
    rng = random.Random(seed())
    specs, _ = small_specs(tier, rng, allow_cyclic=False, nrand_quick=80, nrand_thorough=800, chains_quick=30, chains_thorough=300, fixed_quick=100, fixed_thorough=1000)
    out = []
    for i, s in enumerate(specs):
        out.append(s)
        single = all(k == "str" and len(v) == 1 for k, v in s.terms.values())
        if single and i % 3 == 0:
            for lay in (("ws", "comment") if tier == "quick" else ("ws", "ws1", "comment", "block")):
                s2 = gen.GSpec(s.rules, s.terms, layout=lay)
                s2.exhaustive = s.exhaustive
                out.append(s2)
    maxtok = 4 if tier == "quick" else 5
    return [{"specs": [s.to_json() for s in ch], "maxtok": maxtok, "seed": seed() * 1000 + i}
            for i, ch in enumerate(chunks(out, 48))]


def terminals_of(n):
    out = []
    stack = [n]
    while stack:
        x = stack.pop()
        if x.is_term():
            out.append(x)
        else:
            stack.extend(reversed(list(x)))
    return out


def postorder_spans(n, acc):
    if n.is_term():
        return
    for c in n:
        postorder_spans(c, acc)
    acc.append((n.production.prod_id, n.start_position, n.end_position))


_TERMS = {}


def t_terminals(case):
    """Real terminals of the case's grammar (cached)."""
    gtxt = case["grammar"]
    if gtxt not in _TERMS:
        g_ = Grammar.from_string(gtxt)
        _TERMS.clear()
        _TERMS[gtxt] = [tm for tm in g_.terminals.values() if tm.name not in ("STOP", "EMPTY")]
    return _TERMS[gtxt]


def py_checks(res, case, t, text, skip):
    terms = terminals_of(t)
    rebuilt = []
    for x in terms:
        if not (isinstance(x.start_position, int) and isinstance(x.end_position, int)):
            res["violations"].append({"kind": "non-integer-position", "case": case})
            return
        if x.value != text[x.start_position:x.end_position]:
            res["violations"].append({"kind": "value-not-input-slice", "case": case,
                                      "observed": [x.value, text[x.start_position:x.end_position]]})
            return
        rebuilt.append(x.layout_content + x.value)
    last = terms[-1].end_position if terms else 0
    if "".join(rebuilt) != text[:last]:
        v = {"kind": "layout-plus-values-do-not-rebuild-input", "case": case,
             "observed": ["".join(rebuilt), text[:last]]}
        # F-POS-4: layout_content lives on the GSS head, which links carrying different tokens
        # (lexical ambiguity, different token starts) share: attributable only for GLR on a
        # lexically overlapping terminal set when nothing but layout characters is lost
        strip = lambda s_: "".join(ch for ch in s_ if ch not in " \n\t")
        # ... and only where tokens of DIFFERENT extent meet: at the first leaf whose layout is wrong, some
        # terminal also matches with another length at its start, or another match ends where it ends but
        # starts elsewhere (a head cloned for a second token of the SAME extent must keep its layout)
        different_extent = False
        prev_end = 0
        for x in terms:
            if x.layout_content != text[prev_end:x.start_position]:
                lens_here = set()
                for tm in t_terminals(case):
                    for st_ in range(0, x.end_position):
                        try:
                            m = tm.recognizer(text, st_)
                        except Exception:
                            m = None
                        if not m:
                            continue
                        if st_ == x.start_position:
                            lens_here.add(len(m))
                        elif st_ + len(m) == x.end_position:
                            different_extent = True
                if len(lens_here) >= 2:
                    different_extent = True
                break
            prev_end = x.end_position
        if case["parser"] == "GLR" and case.get("lex_overlap") and different_extent and \
                strip("".join(rebuilt)) == strip(text[:last]) and \
                "".join(x.value for x in terms) == strip(text[:last]):
            v["attribution"] = "glr-layout-on-shared-head"
        res["violations"].append(v)
    elif skip[last] != len(text):
        res["violations"].append({"kind": "trailing-text-is-not-layout", "case": case, "observed": text[last:]})


def run_unit(u):
    res = {"evaluations": 0, "nontrivial": [], "samples": [], "violations": [], "disagreements": [],
           "stats": {"lr_trees": 0, "glr_trees": 0, "with_empty_nodes": 0, "with_layout": 0,
                     "layout_modes": {}, "action_context_checks": 0, "traces": 0, "build_errors": {}}}
    rng = random.Random(u["seed"])
    st = res["stats"]
    for sj in u["specs"]:
        spec = gen.GSpec.from_json(sj)
        gtxt = spec.text()
        try:
            g = Grammar.from_string(gtxt)
        except Exception as e:
            bump(st["build_errors"], type(e).__name__)
            continue
        num = Numbering(g)
        fillers = gen.LAYOUTS[spec.layout][2] if spec.layout else [" ", "  ", "\n", "\t "]
        base = [t for t in gen.token_strings(spec, u["maxtok"])]
        single = all(k == "str" and len(v) == 1 for k, v in spec.terms.values())
        inputs = list(base)
        # deterministic scope: the layout variants must not depend on VERIF_SEED (fingerprints)
        lrng = random.Random(h16(gtxt)) if spec.exhaustive else rng
        if single:
            inputs += [gen.with_layout(lrng, t, fillers) for t in base for _ in range(2)]
        else:
            inputs += [lrng.choice(fillers) + t + lrng.choice(fillers) for t in base[::2]]
        bump(st["layout_modes"], spec.layout or "ws-param")
        parsers = []
        try:
            with budget(10):
                parsers.append(("LR", Parser(g, build_tree=True)))
        except (SRConflicts, RRConflicts):
            pass
        except (Exception, BudgetExceeded) as e:
            bump(st["build_errors"], type(e).__name__)
        try:
            with budget(10):
                parsers.append(("GLR", GLRParser(g)))
        except (Exception, BudgetExceeded) as e:
            bump(st["build_errors"], type(e).__name__)
        for pname, p in parsers:
            b = Batch()
            checks = []
            recorder = None
            if pname == "LR":
                # same parser without tree building, actions record the context positions
                log = []

                def mk(nt):
                    def act(context, nodes):
                        log.append((context.production.prod_id, context.start_position, context.end_position))
                        return None
                    return act
                try:
                    recorder = Parser(g, actions={name: mk(name) for name in spec.nonterminals()})
                except Exception:
                    recorder = None
            for text in inputs:
                case = {"grammar": gtxt, "parser": pname, "input": text, "layout": spec.layout or "ws-param",
                        "lex_overlap": "lex-overlap" in gen.features(spec), "deterministic": spec.exhaustive}
                trees = []
                try:
                    with budget(5):
                        if pname == "LR":
                            trees = [p.parse(text)]
                        else:
                            f = p.parse(text)
                            n = f.solutions
                            idxs = list(range(min(n, TREE_CAP)))
                            if n > TREE_CAP:
                                idxs.append(n - 1)
                            trees = [f[i] for i in idxs]
                except (parglare.SyntaxError, DisambiguationError, BudgetExceeded):
                    continue
                except Exception as e:
                    continue
                res["evaluations"] += 1
                skip = skip_table(p, text)
                has_layout = any(ch in " \n\t#/*" for ch in text)
                if has_layout:
                    st["with_layout"] += 1
                for t in trees:
                    sx = tree_sexp(num, t)
                    if "None" in sx:
                        res["violations"].append({"kind": "non-integer-position", "case": case, "observed": sx})
                        continue
                    py_checks(res, case, t, text, skip)
                    q = b.add("posok", len(text), enc_tree(num, t))
                    b.add("input", enc_input(num, p, text))
                    qr = b.add("posokr", enc_tree(num, t))
                    has_empty = any(len(g.productions[int(x.split()[0])].rhs) == 0 for x in sx.split("(N ")[1:])
                    checks.append((case, sx, q, qr, has_empty))
                    st["lr_trees" if pname == "LR" else "glr_trees"] += 1
                    if any(len(g.productions[int(x.split()[0])].rhs) == 0 for x in sx.split("(N ")[1:]):
                        st["with_empty_nodes"] += 1
                        res["nontrivial"].append(h16(case))
                    elif has_layout:
                        res["nontrivial"].append(h16(case))
                if pname == "LR" and recorder is not None:
                    del log[:]
                    try:
                        recorder.parse(text)
                        want = []
                        postorder_spans(trees[0], want)
                        st["action_context_checks"] += 1
                        if log != want:
                            res["violations"].append({"kind": "action-context-positions-differ-from-tree",
                                                      "case": case, "observed": log[:6], "expected": want[:6]})
                    except Exception:
                        pass
                if len(res["samples"]) < 2 and has_layout and trees:
                    res["samples"].append({"case": case, "tree": tree_sexp(num, trees[0])})
            out = b.run()
            st["traces"] += len(checks)
            for case, sx, q, qr, has_empty in checks:
                if out[q] != "posok 1":
                    v = {"kind": "tree-positions-not-well-formed", "case": case, "observed": sx}
                    # F-POS-3: GLR places empty nodes after the skipped layout and packs alternatives
                    # with different spans under one link: attributable only if the tree has an empty
                    # node, the parser is GLR, the input contains layout, and the positions are well
                    # formed once every position is moved to where layout skipping arrives
                    if case["parser"] == "GLR" and has_empty and out[qr] == "posokr 1" and \
                            any(ch in " \n\t#/*" for ch in case["input"]):
                        if case.get("deterministic"):
                            # deterministic scope: only the listed (grammar, layout mode, input, tree)
                            v["fingerprint"] = h16(["F-POS-3", case["grammar"], case["layout"], case["input"], sx])
                        else:
                            v["attribution"] = "glr-empty-node-in-layout"
                    res["violations"].append(v)
    res["traces"] = st["traces"]
    return res

"""C09 — all ways of running semantic actions give the same result."""
import random

import parglare
from parglare import Grammar, Parser, GLRParser
from parglare import actions as pa
from parglare.exceptions import SRConflicts, RRConflicts

import gen
from pcommon import *

MANIFEST_ENTRY = {
    "category": "proof",
    "text": "Lean 4 theorems: the LR driver with a stack of action results equals, for every table/input/recognizer/"
            "action environment/fuel, the evaluation of the tree the tree-building driver returns "
            "(C09_deferred_eq_onthefly); about the evaluation model (Model/Actions.lean): arguments in rhs order, named matches "
            "bound by rhs index ('=' the sub-result, '?=' its truthiness), the default result mirrors the tree, and "
            "for EVERY length the built-ins behind +, *, ?, separators return the flat list / empty list / None. "
            "Per case the three implementation routes (actions during parsing; build_tree then call_actions; GLR "
            "single tree then call_actions) are compared with each other and with the model's evaluation of the "
            "implementation tree, for random action tables (per-rule and per-alternative lists), named matches "
            "and repetition sugar",
    "note": "trusted: Lean kernel; user actions are free term constructors (pure); evaluation order and exceptions "
            "inside actions are runtime behaviour outside the model; the GLR route is compared, not proved",
    "technique": "Lean 4 proof (induction over repetition chains) + three-route differential + model correspondence",
}

PROP = "C09"
LEVEL = "proof"
THEOREMS = ["C09_collect_plus", "C09_zero_or_more", "C09_optional", "C09_collect_sep_step",
            "C09_user_action_args", "C09_default_mirrors_tree", "C09_deferred_eq_onthefly", "C09_onthefly_result"]
META = {
    "rule": "cases = (grammar incl. sugar and named matches, action table, sentence); non-trivial = sentence whose "
            "tree has >= 3 interior nodes; distinct by (grammar, action table, input)",
    "explanation": "see level text",
    "trusted_base": [],
    "assumptions": ["actions are pure"],
}

SUGAR = [
    ("S: x+;", ["x", "xx", "xxxx"]),
    ("S: x*;", ["", "x", "xxx"]),
    ("S: x?;", ["", "x"]),
    ("S: y x+[c] y;", ["yxy", "yxcxy", "yxcxcxy"]),
    ("S: x*[c] y;", ["y", "xy", "xcxcxy"]),
    ("S: A+ y; A: x | y x;", ["xy", "yxxy", "xyxyxy"]),
    ("S: (x y)+ c?;", ["xy", "xyxyc", "xyxyxy"]),
    ("S: first=x second=y* third?=c;", ["x", "xyy", "xyc", "xc"]),
    ("S: a=A b=A?; A: x+ | y;", ["y", "xxy", "xx", "yxx"]),
    ("S: items=Item+[c]; Item: k=x v?=y;", ["x", "xycx", "xcxycxy"]),
    ("S: x+! x*;", ["x", "xxx"]),
    ("S: first=x many?=y* opt?=c? x;", ["xx", "xyx", "xcx", "xyycx"]),
    ("S: a?=A* b?=A? c;\nA: x;", ["c", "xc", "xxxc"]),
    # a rule defined in several places with another rule in between (alternative indices run on)
    ("S: E+;\nE: x B;\nB: y;\nE: c;\nB: c y | c c;", ["xy", "c", "xcy", "xccc", "cxy"]),
    ("S: A B;\nA: x;\nB: y;\nA: c;\nB: c;\nA: y y;", ["xy", "cc", "yyy", "xc"]),
]
SUGAR_TERMS = '\nterminals\nx: "x";\ny: "y";\nc: "c";\n'

BUILTINS = {pa.pass_none: 0, pa.pass_nochange: 1, pa.pass_empty: 2, pa.pass_single: 3, pa.pass_inner: 4,
            pa.collect_first: 5, pa.collect_first_sep: 6, pa.collect_right_first: 7,
            pa.collect_right_first_sep: 8}


def render(v):
    if isinstance(v, str):
        return v
    if isinstance(v, bool):
        return "True" if v else "False"
    if v is None:
        return "None"
    if isinstance(v, (list, tuple)):
        return "[" + ",".join(render(x) for x in v) + "]"
    if hasattr(v, "_pg_children"):
        return "O(%s;%s-%s)" % (",".join(render(x) for x in v._pg_children),
                                v._pg_start_position, v._pg_end_position)
    return repr(v)


def units(tier):
    rng = random.Random(seed())
    specs = []
    for n_nt, n_t, p, r in ([(1, 1, 3, 2), (2, 1, 3, 2)] if tier == "quick" else
                            [(1, 1, 3, 3), (2, 1, 3, 2), (2, 2, 3, 2)]):
        specs.extend(gen.enum_grammars(n_nt, n_t, p, r, allow_cyclic=False))
    specs = specs[:: (3 if tier == "quick" else 1)]
    for i in range(60 if tier == "quick" else 4000):
        s = gen.random_grammar(rng, allow_cyclic=False)
        if s:
            specs.append(s)
    us = [{"kind": "specs", "specs": [s.to_json() for s in ch], "seed": seed() * 1000 + i}
          for i, ch in enumerate(chunks(specs, 32))]
    us.append({"kind": "sugar", "seed": seed()})
    return us


def make_actions(g, names, rng, mode):
    """mode per nonterminal: 0 none, 1 single recorder, 2 list of recorders (one per alternative)."""
    def rec(context, nodes, **kw):
        prod = context.production
        named = []
        if prod.assignments:
            for name, a in prod.assignments.items():
                if name in kw:
                    named.append((a.index, kw[name]))
        named.sort()
        return "A%d(%s;%s)" % (prod.prod_id, ",".join(render(n) for n in nodes),
                               ",".join("%d=%s" % (i, render(v)) for i, v in named))
    def rec_k(k):
        def r(context, nodes, **kw):
            return rec(context, nodes, **kw).replace("(", "#%d(" % k, 1)
        return r
    acts = {}
    for name in names:
        m = mode[name]
        if m == 1:
            acts[name] = rec
        elif m == 2:
            k = len(g.get_productions(name))
            acts[name] = [rec_k(i) for i in range(k)]
    return acts


ALT = __import__("re").compile(r"A(\d+)#(\d+)\(")


def check_alternatives(res, case, g, rendered):
    """The action called for production p must be element `ordinal of p among the productions of its
    symbol` of the action list (computed here from the production order, not from prod_symbol_id)."""
    ordinal = {}
    seen = {}
    for p in g.productions:
        ordinal[p.prod_id] = seen.get(p.symbol.fqn, 0)
        seen[p.symbol.fqn] = ordinal[p.prod_id] + 1
    for m in ALT.finditer(rendered):
        p, k = int(m.group(1)), int(m.group(2))
        if ordinal[p] != k:
            res["violations"].append({"kind": "wrong-alternative-action-called", "case": case,
                                      "observed": "production %d handled by list element %d" % (p, k),
                                      "expected": ordinal[p]})
            return
    return ALT.sub(lambda m: "A%s(" % m.group(1), rendered)


class FalsyStr(str):
    """A result that is falsy but not None (like 0, '' or [])."""

    def __bool__(self):
        return False


def term_action(num, falsy=False):
    def mk(t):
        tid = num.term(t)

        def act(context, value):
            s_ = "U%d:%d-%d" % (tid, context.start_position, context.end_position)
            return FalsyStr(s_) if falsy else s_
        return act
    return {t.name: mk(t) for t in num.terms[1:]}


def enc_actenv(g, num, with_term_actions=True):
    out = [len(g.productions)]
    for p in g.productions:
        act = p.symbol.action
        if isinstance(act, list):
            act = act[p.prod_symbol_id] if p.prod_symbol_id < len(act) else None
        if act is None:
            k = 0
        elif act is pa.obj:
            k = 20
        elif act in BUILTINS:
            k = 2 + BUILTINS[act]
        elif getattr(act, "__name__", "") == "action" and act.__module__ == "parglare.grammar":
            k = 2 + 9
        else:
            k = 1
        named = []
        if p.assignments and k in (1, 20):
            named = sorted((a.index, 0 if a.op == "=" else 1) for a in p.assignments.values())
        out += [k, len(named)] + [x for pair in named for x in pair]
    out.append(len(num.terms))
    out += [0] + [1 if with_term_actions else 0] * (len(num.terms) - 1)
    return out


def run_unit(u):
    res = {"evaluations": 0, "nontrivial": [], "samples": [], "violations": [], "disagreements": [],
           "stats": {"grammars": 0, "sentences": 0, "glr_route": 0, "with_named": 0, "sugar": 0, "traces": 0,
                     "build_errors": {}}}
    rng = random.Random(u["seed"])
    st = res["stats"]
    work = []
    if u["kind"] == "sugar":
        for rules, inputs in SUGAR:
            work.append((rules + SUGAR_TERMS, None, inputs))
    else:
        for sj in u["specs"]:
            spec = gen.GSpec.from_json(sj)
            work.append((spec.text(), spec, list(gen.token_strings(spec, 4))[:60]))
    for gtxt, spec, inputs in work:
        for variant in range(2 if spec is not None else 3):
            try:
                g = Grammar.from_string(gtxt)
                num = Numbering(g)
                if spec is not None:
                    names = spec.nonterminals()
                else:
                    names = [n.name for n in g.nonterminals.values()
                             if n.name in ("S", "A", "Item", "E", "B")]
                mode = {n: rng.choice([0, 1, 1, 2]) if variant else 1 for n in names}
                if spec is None and variant == 2:
                    mode = {n: 0 for n in names}
                if spec is None and variant == 1:
                    mode = {n: 2 for n in names}      # per-alternative action lists everywhere
                acts = make_actions(g, names, rng, mode)
                # sugar variant 0: element results are falsy but not None (the built-ins must keep them);
                # not combined with ?= (whose documented meaning is the truthiness)
                falsy = spec is None and variant == 0 and "?=" not in gtxt
                acts.update(term_action(num, falsy))
                p1 = Parser(g, actions=acts)
                p2 = Parser(g, actions=acts, build_tree=True)
                gp = GLRParser(g, actions=acts)
            except (SRConflicts, RRConflicts):
                continue
            except Exception as e:
                bump(st["build_errors"], type(e).__name__ + ":" + str(e)[:40])
                continue
            st["grammars"] += 1
            if spec is None:
                st["sugar"] += 1
            b = Batch()
            b.add("actenv", enc_actenv(g, num))
            checks = []
            for text in inputs:
                case = {"grammar": gtxt, "action_modes": mode, "input": text}
                try:
                    with budget(2):
                        r1 = render(p1.parse(text))
                except (parglare.SyntaxError, parglare.exceptions.DisambiguationError):
                    continue
                except BudgetExceeded:
                    bump(st, "lr_timeouts")
                    continue
                except Exception as e:
                    res["violations"].append({"kind": "on-the-fly-actions-raise", "case": case,
                                              "observed": type(e).__name__ + ": " + str(e)[:100]})
                    continue
                res["evaluations"] += 1
                st["sentences"] += 1
                r1n = check_alternatives(res, case, g, r1)
                if r1n is None:
                    continue
                try:
                    with budget(4):
                        tree = p2.parse(text)
                        r2 = render(p2.call_actions(tree))
                except BudgetExceeded:
                    bump(st, "lr_timeouts")
                    continue
                except Exception as e:
                    res["violations"].append({"kind": "deferred-actions-raise", "case": case,
                                              "observed": type(e).__name__ + ": " + str(e)[:100]})
                    continue
                if r1 != r2:
                    res["violations"].append({"kind": "deferred-differs-from-on-the-fly", "case": case,
                                              "observed": r2, "expected": r1})
                try:
                    with budget(2):
                        f = gp.parse(text)
                        nsol = f.solutions
                    if nsol == 1:
                        st["glr_route"] += 1
                        r3 = render(gp.call_actions(f[0]))
                        if r3 != r1:
                            res["violations"].append({"kind": "glr-route-differs", "case": case,
                                                      "observed": r3, "expected": r1})
                except BudgetExceeded:
                    bump(st, "glr_timeouts")
                except Exception as e:
                    res["violations"].append({"kind": "glr-route-raises", "case": case,
                                              "observed": type(e).__name__ + ": " + str(e)[:100]})
                q = b.add("eval", enc_tree(num, tree))
                checks.append((case, r1n, q, tree_sexp(num, tree)))
            out = b.run()
            st["traces"] += len(checks)
            for case, r1, q, sx in checks:
                if out[q] != "eval " + r1:
                    if spec is None:
                        # the model's built-ins are the documented semantics (proved for every length):
                        # all routes agreeing on something else is a failure of the property itself
                        res["violations"].append({"kind": "built-in-action-result-differs-from-documented",
                                                  "case": case, "observed": r1[:300], "expected": out[q][5:305]})
                    else:
                        res["disagreements"].append({"case": case, "model": out[q][:300], "impl": r1[:300]})
                if sx.count("(N") >= 3:
                    res["nontrivial"].append(h16(case))
                if ";" in r1 and "=" in r1:
                    st["with_named"] += 1
                if len(res["samples"]) < 2 and sx.count("(N") >= 3:
                    res["samples"].append({"case": case, "result": r1})
    res["traces"] = st["traces"]
    return res

"""C10 — rejections are SyntaxErrors at the first offending token."""
import random

import parglare
from parglare import Grammar, Parser, GLRParser
from parglare.exceptions import SRConflicts, RRConflicts, DisambiguationError

import gen
from pcommon import *
from enc import enc_items

MANIFEST_ENTRY = {
    "category": "proof",
    "text": "Lean 4 theorems: the LR model reports a syntax error exactly where layout skipping from the end of the "
            "shifted tokens arrives and the shifted tokens are token edges deriving the stack symbols "
            "(C10_lr_error_position, all wf tables/inputs/recognizers); (line, column) is inverted by "
            "lineColToPos for every text and position (C10_linecol_inverse); the viable-prefix oracle lists exactly "
            "the positions that end a token path beginning a sentential form of the start symbol, for every grammar "
            "and input once its charts saturate (C10_viable_ends_correct); over a validated conflict-free table the "
            "deterministic driver never reports an error at a token that could extend a sentence prefix "
            "(C10_not_early_when_deterministic), and over every table with sound item sets what the LR driver -- and every "
            "path of the nondeterministic automaton -- has read begins a sentential form (C10_not_late); the GLR driver "
            "model never meets an unknown production or a missing goto over a wf table "
            "(C10_glr_model_never_fails_internally: its only answers are forest, syntax error, order-sensitive, out of fuel). "
            "Per non-sentence: exception type, "
            "position vs that verified oracle (end of the longest viable token prefix + layout), "
            "LR = GLR and LALR = SLR positions, line/column vs the model, end-of-file wording, rendering, "
            "symbols_expected vs the spec's next-terminal set",
    "note": "trusted: Lean kernel; GLR's reported position and the expected set are decided on the explored scope "
            "against the verified oracle; 'begins a sentential form' becomes 'begins a sentence' under the property's "
            "productivity assumption (informal); the "
            "next-terminal oracle applies the verified prefix oracle to an extended input whose well-formedness is "
            "not proved; LR/scanner models validated by correspondence",
    "technique": "Lean 4 proof (driver invariant, line/column inverse, verified viable-prefix oracle) + oracle comparison on implementation output",
}

PROP = "C10"
LEVEL = "proof"
THEOREMS = ["C10_lr_error_position", "C10_linecol_inverse", "C10_viable_ends_correct", "C10_viable_ends_correct_on_decoded_data", "C10_not_early_when_deterministic", "C10_not_late", "C10_every_path_reads_viable_prefixes",
            "C10_glr_model_never_fails_internally"]
META = {
    "rule": "cases = (productive grammar, LR|GLR, LALR|SLR, non-sentence input incl. empty string, trailing layout, "
            "multi-line); non-trivial = rejected input with error position > 0 or at end of input after >= 1 "
            "token; distinct by (grammar, parser, tables, input)",
    "explanation": "see level text",
    "trusted_base": ["Spec/Viable.lean executable spec (unproved)"],
    "assumptions": ["all nonterminals productive (generator guarantees it)"],
}


def items_prefix_len(enc):
    """Length of the item-set part of an `enc_items` encoding (without the FIRST data)."""
    i = 0
    nstates = enc[i]
    i += 1
    for _ in range(nstates):
        k = enc[i]
        i += 1
        for _ in range(k):
            nla = enc[i + 2]
            i += 3 + nla
    return i


def units(tier):
    rng = random.Random(seed())
    specs, _ = small_specs(tier, rng, nrand_quick=60, nrand_thorough=600, chains_quick=40, chains_thorough=500, fixed_quick=150, fixed_thorough=2000)
    maxtok = 4 if tier == "quick" else 5
    us = [{"specs": [s.to_json() for s in ch], "maxtok": maxtok, "seed": seed() * 1000 + i}
          for i, ch in enumerate(chunks(specs, 48))]
    us.append({"special": True, "seed": seed()})
    return us


LINE_GRAMMARS = [
    ('S: Line+;\nLine: "a" "=" "1" NL | "b" NL;\nterminals\nNL: /\\n/;\n',
     ["a = 1\nb\n", "a = 1\nb =\na = 1\n", "a =\n", "\n", "a = 1\n\nb\n", "b\na 1\n", "a = 1", "b\n\n"]),
    ('S: "x" S | "x";\n', ["x\nx y", "x\n\n", "xx\n?", "x \ny"]),
]


def rec_int(input, pos):
    return input[pos:pos + 1] if isinstance(input[pos], int) else None


def rec_str(input, pos):
    return input[pos:pos + 1] if isinstance(input[pos], str) else None


LIST_GRAMMAR = "S: INT STRING+ INT | INT;\nterminals\nINT: ;\nSTRING: ;\n"
LIST_INPUTS = [[], [1], [1, "a"], [1, "a", "b"], [1, "a", 2, 3], ["a"], [1, 2], [1, "a", "b", 2], [1, "a", None]]


def run_special(u, res):
    """Line-oriented grammars with layout that excludes the newline (ws=' \\t', ws=None) and list inputs
    with user recognizers: exception type, position, line/column, end-of-file wording, rendering."""
    st = res["stats"]
    for gtxt, inputs in LINE_GRAMMARS:
        g = Grammar.from_string(gtxt)
        num = Numbering(g)
        for ws in (" \t", None, "\n\r\t "):
            for cls in (Parser, GLRParser):
                try:
                    p = cls(g, ws=ws)
                except Exception:
                    continue
                b = Batch()
                b.add("grammar", enc_grammar(num))
                checks = []
                for text in inputs:
                    case = {"grammar": gtxt, "parser": cls.__name__, "ws": ws, "input": text}
                    try:
                        p.parse(text)
                        continue
                    except parglare.SyntaxError as e:
                        err = e
                    except Exception as e:
                        res["violations"].append({"kind": "foreign-exception", "case": case,
                                                  "observed": type(e).__name__ + ": " + str(e)[:100]})
                        continue
                    res["evaluations"] += 1
                    pos = err.location.start_position
                    try:
                        msg = str(err)
                        line, col = err.location.line, err.location.column
                    except Exception as ex:
                        res["violations"].append({"kind": "rendering-fails", "case": case,
                                                  "observed": type(ex).__name__})
                        continue
                    if ("unexpected end of file" in msg) != (pos == len(text)):
                        res["violations"].append({"kind": "end-of-file-wording", "case": case,
                                                  "observed": [pos, len(text), msg[:80]]})
                    b.add("input", enc_input(num, p, text))
                    qv = b.add("viable", CHART_FUEL)
                    ql = b.add("linecol", pos, [ord(c) for c in text])
                    checks.append((case, pos, line, col, qv, ql, skip_table(p, text)))
                out = b.run()
                st["traces"] += len(checks)
                for case, pos, line, col, qv, ql, skip in checks:
                    if out[ql] != "linecol %d %d" % (line, col):
                        res["violations"].append({"kind": "line-column-do-not-match-position", "case": case,
                                                  "observed": [line, col], "expected": out[ql]})
                    if out[qv].startswith("viable ") and out[qv] != "viable fuel":
                        ends = [int(x) for x in out[qv].split()[1:]]
                        if pos != skip[max(ends)]:
                            res["violations"].append({"kind": "error-not-at-first-offending-token", "case": case,
                                                      "observed": pos, "expected": skip[max(ends)]})
                    res["nontrivial"].append(h16(case))
    # list (non-string) inputs
    g = Grammar.from_string(LIST_GRAMMAR, recognizers={"INT": rec_int, "STRING": rec_str})
    for cls in (Parser, GLRParser):
        p = cls(g, ws=None)
        for inp in LIST_INPUTS:
            case = {"grammar": LIST_GRAMMAR, "parser": cls.__name__, "input": repr(inp)}
            try:
                p.parse(inp)
                continue
            except parglare.SyntaxError as e:
                err = e
            except Exception as e:
                res["violations"].append({"kind": "foreign-exception", "case": case,
                                          "observed": type(e).__name__ + ": " + str(e)[:100]})
                continue
            res["evaluations"] += 1
            bump(st, "list_input_errors")
            try:
                msg = str(err)
                line, col = err.location.line, err.location.column
            except Exception as ex:
                res["violations"].append({"kind": "rendering-fails", "case": case,
                                          "observed": type(ex).__name__ + ": " + str(ex)[:80]})
                continue
            pos = err.location.start_position
            if ("unexpected end of file" in msg) != (pos == len(inp)):
                res["violations"].append({"kind": "end-of-file-wording", "case": case,
                                          "observed": [pos, len(inp), msg[:80]]})
            if (line, col) != (1, pos):
                res["violations"].append({"kind": "line-column-do-not-match-position", "case": case,
                                          "observed": [line, col], "expected": [1, pos]})
            res["nontrivial"].append(h16(case))
    return res


def run_unit(u):
    res = {"evaluations": 0, "nontrivial": [], "samples": [], "violations": [], "disagreements": [],
           "stats": {"glr_errors": 0, "lr_errors": 0, "lr_disamb": 0, "eof_errors": 0, "multiline": 0,
                     "expected_sets_compared": 0, "traces": 0, "build_errors": {}}}
    rng = random.Random(u["seed"])
    st = res["stats"]
    if u.get("special"):
        return run_special(u, res)
    for sj in u["specs"]:
        spec = gen.GSpec.from_json(sj)
        gtxt = spec.text()
        feats = sorted(gen.features(spec))
        overlap = "lex-overlap" in feats
        try:
            g = Grammar.from_string(gtxt)
        except Exception as e:
            bump(st["build_errors"], type(e).__name__)
            continue
        num = Numbering(g)
        base = list(gen.token_strings(spec, u["maxtok"]))[:(120 if u["maxtok"] <= 4 else 400)]
        single = all(k == "str" and len(v) == 1 for k, v in spec.terms.values())
        inputs = list(base) + [t + " " for t in base[::3]] + [t + "?" for t in base[::4]]
        if single:
            inputs += [gen.with_layout(rng, t, [" ", "\n", "\n\n ", "\t"]) for t in base[::2]]
        real_terms = [num.term(t) for t in num.terms[1:]]
        results = {}   # (text) -> {parser key: position}
        for tname, tables in TABLES.items():
            parsers = []
            try:
                with budget(10):
                    parsers.append(("GLR", GLRParser(g, tables=tables), False))
            except (Exception, BudgetExceeded) as e:
                bump(st["build_errors"], type(e).__name__)
            try:
                with budget(10):
                    lp = Parser(g, tables=tables, prefer_shifts=False, prefer_shifts_over_empty=False)
                    parsers.append(("LR", lp, not has_priorities(g) and all_cells_single(lp.table) and not overlap))
            except (SRConflicts, RRConflicts):
                try:
                    with budget(10):
                        parsers.append(("LR", Parser(g, tables=tables), False))
                except (SRConflicts, RRConflicts):
                    pass
                except (Exception, BudgetExceeded) as e:
                    bump(st["build_errors"], type(e).__name__)
            except (Exception, BudgetExceeded) as e:
                bump(st["build_errors"], type(e).__name__)
            for pname, p, det in parsers:
                b = Batch()
                b.add("grammar", enc_grammar(num))
                # hypotheses of C10_not_early_when_deterministic on the deterministic LR tables
                qval = None
                qdets = []
                b.add("table", enc_table(num, p.table))
                # hypothesis of C10_not_late / C10_every_path_reads_viable_prefixes: sound item sets, every table
                items_enc = enc_items(num, p.table, tname == "LALR", 1)
                qsound = (b.add("wf"), b.add("lrsound", items_enc[:items_prefix_len(items_enc)]))
                if det and pname == "LR":
                    qval = (b.add("wf"), b.add("lrvalid", items_enc))
                checks = []
                timeouts = 0
                for text in inputs:
                    case = {"grammar": gtxt, "parser": pname, "tables": tname, "input": text,
                            "deterministic": det}
                    if timeouts >= 3:
                        break      # a parser that keeps diverging is reported once; do not burn the budget
                    try:
                        with budget(1.0):
                            p.parse(text)
                        continue
                    except parglare.SyntaxError as e:
                        err = e
                    except DisambiguationError as e:
                        st["lr_disamb"] += 1
                        if pname == "GLR":
                            res["violations"].append({"kind": "glr-raises-disambiguation-error", "case": case})
                        else:
                            try:
                                str(e)
                            except Exception as ex:
                                res["violations"].append({"kind": "rendering-fails", "case": case,
                                                          "observed": type(ex).__name__})
                            tp = {t.position for t in e.tokens}
                            if e.location.start_position not in tp:
                                res["violations"].append({
                                    "kind": "disambiguation-error-not-at-ambiguous-token", "case": case,
                                    "observed": e.location.start_position, "expected": sorted(tp)})
                        continue
                    except BudgetExceeded:
                        timeouts += 1
                        bump(st, "parse_timeouts")
                        if pname == "GLR" or det:
                            res["violations"].append({"kind": "parse-does-not-terminate", "case": case})
                        continue
                    except Exception as e:
                        res["violations"].append({"kind": "foreign-exception", "case": case,
                                                  "observed": type(e).__name__ + ": " + str(e)[:100]})
                        continue
                    res["evaluations"] += 1
                    st["glr_errors" if pname == "GLR" else "lr_errors"] += 1
                    pos = err.location.start_position
                    try:
                        msg = str(err)
                        line, col = err.location.line, err.location.column
                    except Exception as ex:
                        res["violations"].append({"kind": "rendering-fails", "case": case,
                                                  "observed": type(ex).__name__ + ": " + str(ex)[:80]})
                        continue
                    eof = "unexpected end of file" in msg
                    if eof != (pos == len(text)):
                        res["violations"].append({"kind": "end-of-file-wording", "case": case,
                                                  "observed": [pos, len(text), msg[:80]]})
                    if eof:
                        st["eof_errors"] += 1
                    if "\n" in text:
                        st["multiline"] += 1
                    b.add("input", enc_input(num, p, text))
                    if qval is not None:
                        qdets.append(b.add("detok"))
                    qv = b.add("viable", CHART_FUEL)
                    ql = b.add("linecol", pos, [ord(c) for c in text])
                    exp = None
                    if pname == "GLR":
                        exp = sorted(num.term(s) for s in err.symbols_expected if s.name != "STOP")
                    checks.append((case, pos, line, col, qv, ql, exp, skip_table(p, text)))
                out = b.run()
                st["traces"] += len(checks)
                if out[qsound[0]] != "wf 1" or out[qsound[1]] != "lrsound 1":
                    res["disagreements"].append({"case": {"grammar": gtxt, "tables": tname, "parser": pname},
                                                 "what": "hypotheses of C10_not_late fail (wf / sound item sets)",
                                                 "model": (out[qsound[0]] + " / " + out[qsound[1]])[:300]})
                else:
                    bump(st, "tables_with_sound_items")
                if qval is not None:
                    if out[qval[0]] != "wf 1" or out[qval[1]] != "lrvalid 1":
                        res["disagreements"].append({"case": {"grammar": gtxt, "tables": tname},
                                                     "what": "hypotheses of C10_not_early_when_deterministic fail on a "
                                                             "deterministic strategy-free table",
                                                     "model": (out[qval[0]] + " / " + out[qval[1]])[:300]})
                    for qd_ in qdets:
                        tb, lx = out[qd_].split()[1:3]
                        if tb != "1":
                            res["disagreements"].append({"case": {"grammar": gtxt, "tables": tname},
                                                         "what": "detTableB fails on a table whose cells are single",
                                                         "model": out[qd_]})
                            break
                        bump(st, "not_early_theorem_applies" if lx == "1" else "lexically_ambiguous_inputs")
                b2 = Batch()
                b2.add("grammar", enc_grammar(num))
                checks2 = []
                for case, pos, line, col, qv, ql, exp, skip in checks:
                    if out[ql] != "linecol %d %d" % (line, col):
                        res["violations"].append({"kind": "line-column-do-not-match-position", "case": case,
                                                  "observed": [line, col], "expected": out[ql]})
                    if not out[qv].startswith("viable") or out[qv] == "viable fuel":
                        continue
                    ends = [int(x) for x in out[qv].split()[1:]]
                    rmax = max(ends)
                    want = skip[rmax]
                    results.setdefault(case["input"], {})[(case["parser"], case["tables"])] = pos
                    if case["parser"] == "GLR" or case["deterministic"]:
                        if pos != want:
                            res["violations"].append({
                                "kind": "error-not-at-first-offending-token", "case": case, "observed": pos,
                                "expected": want, "viable_raw_ends": ends})
                    if pos > 0:
                        res["nontrivial"].append(h16(case))
                    if exp is not None and pos == want and not overlap and len(checks2) < 40:
                        b2.add("input", enc_input(num, GLRParser.__new__(GLRParser) if False else p_for(case, parsers), case["input"]))
                        q = b2.add("nextterms", CHART_FUEL, rmax, real_terms)
                        checks2.append((case, exp, q))
                    if len(res["samples"]) < 2 and pos > 0:
                        res["samples"].append({"case": case, "position": pos, "viable_raw_ends": ends})
                out2 = b2.run()
                for case, exp, q in checks2:
                    if not out2[q].startswith("nextterms") or out2[q] == "nextterms fuel":
                        continue
                    want = sorted(int(x) for x in out2[q].split()[1:])
                    st["expected_sets_compared"] += 1
                    if exp != want:
                        res["violations"].append({"kind": "symbols-expected-differ", "case": case,
                                                  "observed": exp, "expected": want})
    res["traces"] = st["traces"]
    return res


def p_for(case, parsers):
    for pname, p, det in parsers:
        if pname == case["parser"]:
            return p
    return parsers[0][1]

"""C11 — error recovery terminates, reports disjoint spans and parses the rest."""
import random

import parglare
from parglare import Grammar, Parser, GLRParser
from parglare.exceptions import SRConflicts, RRConflicts, DisambiguationError

import gen
from pcommon import *
from enc import match_len

MANIFEST_ENTRY = {
    "category": "proof",
    "text": "Lean 4 theorems about the LR recovery model (all tables, inputs, recognizers): a successful default "
            "recovery moves strictly forward inside the input; the reported spans are ordered, pairwise disjoint, "
            "start <= end; on a run without syntax error the recovery-enabled driver equals the plain one and "
            "records nothing. The model is run against Parser(error_recovery=True) (outcome, tree, error spans); "
            "oracles on implementation output (LR and GLR): spans in bounds/ordered/disjoint, returned tree's "
            "leaves are token edges in input order, every non-layout character lies in exactly one leaf or one "
            "span (LR), sentences give no errors and the plain result; termination within a budget; custom "
            "strategies (skip, wrap-default) exercised",
    "note": "trusted: Lean kernel; LR recovery model validated by correspondence; GLR recovery and custom "
            "strategies are checked by oracles on output only; termination of the Python loop is decided by a "
            "wall-clock budget",
    "technique": "Lean 4 proof (monotone front invariant) + model/implementation correspondence + output oracles",
}

PROP = "C11"
LEVEL = "proof"
THEOREMS = ["C11_progress", "C11_spans_ordered_disjoint", "C11_clean_input_noop"]
META = {
    "rule": "cases = (grammar, LR|GLR, default|custom strategy, input = sentence corrupted by insertion/deletion/"
            "substitution/junk or arbitrary string); non-trivial = run with >= 1 successful recovery; distinct by "
            "(grammar, parser, strategy, input)",
    "explanation": "see level text",
    "trusted_base": [],
    "assumptions": [],
}

JUNK = "?!#"


def corrupt(rng, s, alphabet):
    out = {s}
    for _ in range(3):
        t = list(s)
        op = rng.choice("idsj")
        pos = rng.randint(0, len(t))
        if op == "i":
            t.insert(pos, rng.choice(alphabet))
        elif op == "d" and t:
            del t[min(pos, len(t) - 1)]
        elif op == "s" and t:
            t[min(pos, len(t) - 1)] = rng.choice(alphabet + JUNK)
        else:
            t.insert(pos, rng.choice(JUNK))
        out.add("".join(t))
    return out


def units(tier):
    rng = random.Random(seed())
    specs, _ = small_specs(tier, rng, allow_cyclic=False, nrand_quick=60, nrand_thorough=4000,
                           chains_quick=20, chains_thorough=300, fixed_quick=100, fixed_thorough=4000)
    us = [{"specs": [s.to_json() for s in ch], "seed": seed() * 1000 + i, "maxtok": 3 if tier == "quick" else 4}
          for i, ch in enumerate(chunks(specs, 40))]
    parts = 2 if tier == "quick" else 8
    for fam, (_, sentences) in enumerate(MULTIHEAD):
        for si in range(len(sentences)):
            us += [{"kind": "multihead", "family": fam, "sentence": si, "part": k, "parts": parts, "tier": tier}
                   for k in range(parts)]
    return us


def skip_strategy(head, error, default):
    """Custom strategy: skip exactly one character and let the parser look again."""
    if head.position < len(head.input_str):
        head.position += 1
        head.token_ahead = None
        return True
    return False


def wrap_strategy(head, error, default):
    return default(head)


def skip3_then_default(head, error, default):
    """The documented pattern: skip a fixed number of characters, then let the default strategy search
    (the skip may overshoot the end of the input)."""
    head.position += 3
    return default(head)


def make_inject_strategy(g):
    """Fill in a missing token: inject a zero-length token of the first expected real terminal."""
    from parglare.parser import Token

    def inject(head, error, default):
        # the LR configuration: an injected token that is shifted moves the frontier on, so meeting the
        # configuration of an earlier injection again means that injection was dropped (the parser would
        # call a pure-insertion strategy forever)
        cp = getattr(inject, "parser", None)
        if cp is not None:
            cfg = (tuple(n.state.state_id for n in cp.parse_stack), head.position, head.frontier)
            if cfg in inject.seen:
                inject.loop = cfg
                return default(head)
        for sym in head.state.actions:
            if sym.name not in ("STOP", "EMPTY") and getattr(inject, "budget", 0) < 3:
                inject.budget = getattr(inject, "budget", 0) + 1
                rec = sym.recognizer
                value = getattr(rec, "value", None) or "?"
                head.token_ahead = Token(sym, value, head.position, length=0)
                if cp is not None:
                    inject.seen.add(cfg)
                return True
        return default(head)
    inject.seen = set()
    inject.loop = None
    return inject


def leaves(n, acc):
    if n.is_term():
        acc.append(n)
    else:
        for c in n:
            leaves(c, acc)
    return acc


def check_output(res, case, num, p, text, result, errors, is_lr):
    spans = [(e.location.start_position, e.location.end_position) for e in errors]
    last = 0
    for a, b in spans:
        if not (isinstance(a, int) and isinstance(b, int) and 0 <= a <= b <= len(text)):
            res["violations"].append({"kind": "error-span-out-of-bounds", "case": case, "observed": spans})
            return
        if a < last:
            res["violations"].append({"kind": "error-spans-overlap-or-unordered", "case": case, "observed": spans})
            return
        last = b
    if result is None:
        return
    trees = result
    for t in trees:
        ls = leaves(t, [])
        prev = 0
        covered = set()
        for x in ls:
            s, e = x.start_position, x.end_position
            if not (prev <= s <= e <= len(text)) or match_len(x.symbol, text, s) != e - s:
                res["violations"].append({"kind": "recovered-tree-leaf-is-not-a-token-of-the-input",
                                          "case": case, "observed": [x.symbol.name, s, e]})
                return
            prev = e
            covered.update(range(s, e))
        if is_lr:
            inspan = set()
            for a, b in spans:
                inspan.update(range(a, b))
            if covered & inspan:
                res["violations"].append({"kind": "character-both-in-a-leaf-and-an-error-span", "case": case,
                                          "observed": sorted(covered & inspan)})
                return
            for i, ch in enumerate(text):
                if ch not in " \n\t\r" and i not in covered and i not in inspan:
                    res["violations"].append({"kind": "character-neither-parsed-nor-reported", "case": case,
                                              "observed": i, "spans": spans})
                    return


def check_injected(res, case, t, text):
    """With an injecting strategy the real (non-injected) leaves are still tokens of the input in input
    order and an injected zero-length token consumes nothing: every non-layout character before the end
    of the last real leaf lies in a real leaf or was skipped by a later recovery, never silently dropped
    by the shift of an injected token."""
    ls = leaves(t, [])
    prev = 0
    for x in ls:
        s, e = x.start_position, x.end_position
        if e == s:
            continue                      # injected token
        if not (prev <= s <= e <= len(text)) or text[s:e] != x.value:
            res["violations"].append({"kind": "leaf-after-injection-is-not-the-input-text", "case": case,
                                      "observed": [x.symbol.name, s, e, x.value, text[s:e]]})
            return
        prev = e
    for x in ls:
        if x.end_position != x.start_position and False:
            pass
    for x in ls:
        s, e = x.start_position, x.end_position
        if e < s or (e > s and e - s != len(x.value)):
            res["violations"].append({"kind": "injected-token-consumed-input", "case": case,
                                      "observed": [x.symbol.name, s, e, x.value]})
            return
        if e > s and x.value != text[s:e]:
            return
    # an injected token must have zero width
    for x in ls:
        if x.token.length == 0 and x.end_position != x.start_position:
            res["violations"].append({"kind": "injected-token-consumed-input", "case": case,
                                      "observed": [x.symbol.name, x.start_position, x.end_position]})
            return


# GLR with several live heads at an error: the heads diverge after a reduce/reduce conflict (or an ambiguity)
# and resume at different places
MULTIHEAD = [
    ("S: T 'd' | 'z' T 'e' | U;\nT: Q 'x';\nU: P 'x' 'c' 'c';\nP: 'a';\nQ: 'a';\n", ["axd", "zaxe", "axcc"]),
    ("S: A 'b' 'c' | B 'b' 'd' 'd' | 'z' A 'b' 'e';\nA: 'a';\nB: 'a';\n", ["abc", "abdd", "zabe"]),
    ("E: E '+' E | E '*' E | 'n';\n", ["n+n*n", "n*n"]),
    ("S: X 'p' 'q' 'r' | Y 'p' 's';\nX: 'a' 'a';\nY: 'a' 'a';\n", ["aapqr", "aaps"]),
]


def multihead_inputs(sentence, alphabet, tier):
    """All insertions of up to two symbols (alphabet + junk) and of three symbols two of which are junk
    (all triples in the thorough tier)."""
    syms = alphabet + "?"
    out = {sentence}
    one = set()
    for i in range(len(sentence) + 1):
        for c in syms:
            one.add(sentence[:i] + c + sentence[i:])
    two = set()
    for t in one:
        for i in range(len(t) + 1):
            for c in syms:
                two.add(t[:i] + c + t[i:])
    three = set()
    for t in two:
        for i in range(len(t) + 1):
            for c in syms:
                x = t[:i] + c + t[i:]
                if tier != "quick" or x.count("?") >= 2:
                    three.add(x)
    return sorted(out | one | two | three)


def run_multihead(u, res):
    st = res["stats"]
    gtxt, sentences = MULTIHEAD[u["family"]]
    g = Grammar.from_string(gtxt)
    num = Numbering(g)
    alphabet = "".join(sorted({c for s_ in sentences for c in s_}))
    gp = GLRParser(g, error_recovery=True)
    inputs = multihead_inputs(sentences[u["sentence"]], alphabet, u["tier"])
    for text in inputs[u["part"]::u["parts"]]:
        case = {"grammar": gtxt, "parser": "GLR", "strategy": "default", "input": text}
        try:
            with budget(2):
                f = gp.parse(text)
                errs = list(gp.errors)
                n = f.solutions
                trees = [f[i] for i in range(min(n, 4))]
            st["glr_runs"] += 1
            res["evaluations"] += 1
            check_output(res, case, num, gp, text, trees, errs, False)
            if len(errs) >= 2:
                res["nontrivial"].append(h16(case))
        except parglare.SyntaxError:
            st["glr_runs"] += 1
        except BudgetExceeded:
            st["timeouts"] += 1
            res["violations"].append({"kind": "glr-recovery-does-not-terminate", "case": case})
        except Exception as e:
            res["violations"].append({"kind": "foreign-exception", "case": case,
                                      "observed": type(e).__name__ + ": " + str(e)[:100]})
    res["traces"] = st["traces"]
    return res


def run_unit(u):
    res = {"evaluations": 0, "nontrivial": [], "samples": [], "violations": [], "disagreements": [],
           "stats": {"lr_runs": 0, "glr_runs": 0, "recoveries": 0, "custom_runs": 0, "raised_last_error": 0,
                     "timeouts": 0, "traces": 0, "build_errors": {}}}
    if u.get("kind") == "multihead":
        return run_multihead(u, res)
    rng = random.Random(u["seed"])
    st = res["stats"]
    for sj in u["specs"]:
        spec = gen.GSpec.from_json(sj)
        gtxt = spec.text()
        try:
            g = Grammar.from_string(gtxt)
        except Exception as e:
            bump(st["build_errors"], type(e).__name__)
            continue
        num = Numbering(g)
        alphabet = "".join(sorted({c for k, v in spec.terms.values() if k == "str" for c in v})) or "ab"
        base = list(gen.token_strings(spec, u["maxtok"]))[:40]
        inputs = set()
        for s in base:
            inputs |= corrupt(rng, s, alphabet)
        inputs = sorted(inputs)[:120]
        try:
            with budget(10):
                plain = Parser(g, build_tree=True)
                lr = Parser(g, build_tree=True, error_recovery=True)
        except (SRConflicts, RRConflicts):
            lr = None
        except (Exception, BudgetExceeded) as e:
            bump(st["build_errors"], type(e).__name__)
            lr = None
        if lr is not None:
            b = Batch()
            b.add("grammar", enc_grammar(num))
            b.add("table", enc_table(num, lr.table))
            checks = []
            for text in inputs:
                case = {"grammar": gtxt, "parser": "LR", "strategy": "default", "input": text}
                try:
                    with budget(2):
                        t = lr.parse(text)
                        errs = list(lr.errors)
                    impl = ("ok", tree_sexp(num, t), [(e.location.start_position, e.location.end_position) for e in errs])
                    check_output(res, case, num, lr, text, [t], errs, True)
                except parglare.SyntaxError as e:
                    impl = ("syntax", err_pos(e), None)
                    st["raised_last_error"] += 1
                except DisambiguationError:
                    impl = ("disamb", 0, None)
                except BudgetExceeded:
                    st["timeouts"] += 1
                    impl = ("fuel", 0, None)
                except Exception as e:
                    res["violations"].append({"kind": "foreign-exception", "case": case,
                                              "observed": type(e).__name__ + ": " + str(e)[:100]})
                    continue
                res["evaluations"] += 1
                st["lr_runs"] += 1
                # clean input: no error, same result as without recovery
                try:
                    with budget(2):
                        pt = tree_sexp(num, plain.parse(text))
                    if not (impl[0] == "ok" and impl[1] == pt and impl[2] == []):
                        res["violations"].append({"kind": "recovery-changes-the-parse-of-a-sentence", "case": case,
                                                  "observed": list(impl)[:3], "expected": pt})
                except Exception:
                    pass
                b.add("input", enc_input(num, lr, text))
                q = b.add("lrrec", 1, 1, FUEL)
                checks.append((case, impl, q))
            out = b.run()
            st["traces"] += len(checks)
            for case, impl, q in checks:
                m = out[q]
                mo, _, me = m.partition(" | ")
                mspans = [int(x) for x in me.split()]
                mspans = list(zip(mspans[0::2], mspans[1::2]))
                if impl[0] == "ok":
                    parts = mo.split(" ", 3)
                    if not (parts[0] == "ok" and parts[3] == impl[1] and mspans == impl[2]):
                        res["disagreements"].append({"case": case, "model": m[:300],
                                                     "impl": "ok %s | %s" % (impl[1][:200], impl[2])})
                    if impl[2]:
                        st["recoveries"] += 1
                        res["nontrivial"].append(h16(case))
                        if len(res["samples"]) < 2:
                            res["samples"].append({"case": case, "tree": impl[1], "error_spans": impl[2]})
                elif impl[0] == "syntax":
                    if mo != "syntax %d" % impl[1]:
                        res["disagreements"].append({"case": case, "model": m[:200], "impl": "syntax %d" % impl[1]})
                elif impl[0] == "disamb":
                    if not mo.startswith("disamb"):
                        res["disagreements"].append({"case": case, "model": m[:200], "impl": "disamb"})
                elif impl[0] == "fuel" and mo != "fuel":
                    res["disagreements"].append({"case": case, "model": m[:200], "impl": "does not terminate"})
            # custom strategies on the LR parser
            inject = make_inject_strategy(g)
            for sname, strat in (("skip", skip_strategy), ("wrap-default", wrap_strategy),
                                 ("skip3-then-default", skip3_then_default), ("inject", inject)):
                try:
                    cp = Parser(g, build_tree=True, error_recovery=strat)
                except Exception:
                    continue
                nto = 0
                for text in inputs[::4]:
                    case = {"grammar": gtxt, "parser": "LR", "strategy": sname, "input": text}
                    inject.budget = 0
                    inject.seen = set()
                    inject.loop = None
                    inject.parser = cp if sname == "inject" else None
                    if nto >= 2 or st["timeouts"] > 12:
                        break          # a diverging strategy is reported; do not burn the budget
                    try:
                        with budget(2):
                            t = cp.parse(text)
                            errs = list(cp.errors)
                        st["custom_runs"] += 1
                        res["evaluations"] += 1
                        if sname == "inject":
                            check_injected(res, case, t, text)
                            if inject.loop is not None:
                                res["violations"].append({
                                    "kind": "injected-token-dropped-recovery-reenters-the-same-configuration",
                                    "case": case, "observed": [list(inject.loop[0]), inject.loop[1], inject.loop[2]]})
                        else:
                            check_output(res, case, num, cp, text, [t], errs, sname == "wrap-default")
                    except (parglare.SyntaxError, DisambiguationError):
                        st["custom_runs"] += 1
                        if sname == "inject" and inject.loop is not None:
                            res["violations"].append({
                                "kind": "injected-token-dropped-recovery-reenters-the-same-configuration",
                                "case": case, "observed": [list(inject.loop[0]), inject.loop[1], inject.loop[2]]})
                    except BudgetExceeded:
                        st["timeouts"] += 1
                        nto += 1
                        if sname in ("skip3-then-default", "wrap-default"):
                            res["violations"].append({"kind": "recovery-does-not-terminate", "case": case})
                    except Exception as e:
                        res["violations"].append({"kind": "foreign-exception", "case": case,
                                                  "observed": type(e).__name__ + ": " + str(e)[:100]})
        # GLR
        try:
            with budget(10):
                gplain = GLRParser(g)
                gp = GLRParser(g, error_recovery=True)
        except (Exception, BudgetExceeded) as e:
            bump(st["build_errors"], type(e).__name__)
            continue
        for text in inputs[::2]:
            case = {"grammar": gtxt, "parser": "GLR", "strategy": "default", "input": text}
            try:
                with budget(2):
                    f = gp.parse(text)
                    errs = list(gp.errors)
                    n = f.solutions      # len() cannot exceed sys.maxsize in CPython
                    trees = [f[i] for i in range(min(n, 4))]
                st["glr_runs"] += 1
                res["evaluations"] += 1
                check_output(res, case, num, gp, text, trees, errs, False)
                try:
                    with budget(2):
                        f0 = gplain.parse(text)
                    if errs or f0.solutions != n:
                        res["violations"].append({"kind": "recovery-changes-the-parse-of-a-sentence", "case": case,
                                                  "observed": [len(errs), str(n)], "expected": str(f0.solutions)})
                except Exception:
                    pass
            except parglare.SyntaxError:
                st["glr_runs"] += 1
            except parglare.exceptions.LoopError:
                pass
            except DisambiguationError:
                pass
            except BudgetExceeded:
                st["timeouts"] += 1
                res["violations"].append({"kind": "glr-recovery-does-not-terminate", "case": case})
            except Exception as e:
                res["violations"].append({"kind": "foreign-exception", "case": case,
                                          "observed": type(e).__name__ + ": " + str(e)[:100]})
    res["traces"] = st["traces"]
    return res

"""C12 — the table cache is transparent."""
import os
import random
import shutil
import tempfile

import parglare
from parglare import Grammar, Parser, GLRParser
from parglare.exceptions import SRConflicts, RRConflicts
from parglare.tables import create_load_table
from parglare.tables.persist import load_table, save_table

import gen
from pcommon import *

MANIFEST_ENTRY = {
    "category": "proof",
    "text": "Lean 4 theorems: load(dump(T)) = T and dump(load(dump(T))) = dump(T) for every table (C12_roundtrip, "
            "C12_resave_stable); over EVERY history of edits, touches, truncating crashes, removals and "
            "constructions with one set of table-affecting options, each construction obtains the table of the "
            "current grammar text (C12_transparent_same_options, model of create_load_table with a monotone "
            "clock). Correspondence: the bytes of every written .pgc equal the model's rendering of the "
            "implementation table; load/save round trip on real files (actions, gotos, finish flags, conflicts, "
            "dynamic marks, byte-identical re-save); random histories over a temp directory (explicit mtimes, "
            "import graph, option changes, every byte-prefix truncation, pglr compile path) probed against a "
            "cache-free build of the same text",
    "note": "trusted: Lean kernel; the store model abstracts the file system (strictly increasing clock, no mtime "
            "granularity); json parsing is Python's; histories mixing different options are the recorded finding "
            "F-CACHE-1 (the on-disk format, pinned byte for byte by test_compare_table, has no place for options)",
    "technique": "Lean 4 proof (invariant over operation histories; round trip) + byte-level and history correspondence",
}

PROP = "C12"
LEVEL = "proof"
THEOREMS = ["C12_roundtrip", "C12_resave_stable", "C12_transparent_same_options", "C12_initial_inv"]
META = {
    "rule": "round-trip cases = (grammar, parser kind/options); history cases = sequences of <= 6 operations over one "
            "grammar directory followed by probes; non-trivial = history in which the cache was both written and "
            "later loaded, or truncated; distinct by (grammar versions, operation sequence)",
    "explanation": "see level text",
    "trusted_base": ["Python's json module"],
    "assumptions": ["file system mtime granularity below the 0.25 s steps used is outside the model"],
}

VERSIONS = [
    ("S: 'a' S | 'a';\n", "S: 'a' 'b' | 'b' S;\n"),
    ("import 'sub.pg' as s;\nS: s.X S | s.X;\n", "import 'sub.pg' as s;\nS: 'c' s.X | s.X;\n"),
    ("E: E '+' E | E '*' E | 'n';\n", "E: E '+' E | 'n' | '(' E ')';\n"),
    # lexically ambiguous terminals: the table-affecting option lexical_disambiguation matters
    ("S: Tok+;\nTok: 'let' | ID;\nterminals\nID: /[a-z]+/;\n", "S: Tok+;\nTok: 'let' ID | ID;\nterminals\nID: /[a-z]+/;\n"),
]
# sub.pg imports leaf.pg: a file the root does not import itself
SUB_VERSIONS = ("import 'leaf.pg' as l;\nX: 'x' | l.Y;\n", "import 'leaf.pg' as l;\nX: 'x' 'x' | l.Y;\n")
LEAF_VERSIONS = ("Y: 'y';\n", "Y: 'y' 'y' | 'z';\n")
PROBES = ["a", "aa", "ab", "b", "bab", "x", "xx", "xy", "y", "yy", "z", "cx", "cxx", "cz", "n+n", "n+n*n", "n+n+n",
          "(n)", "n*n*n", "", "let", "let x", "letx let", "x let"]


def units(tier):
    rng = random.Random(seed())
    specs, _ = small_specs(tier, rng, allow_cyclic=False, nrand_quick=40, nrand_thorough=600,
                           chains_quick=20, chains_thorough=300, fixed_quick=80, fixed_thorough=1200)
    us = [{"kind": "roundtrip", "specs": [s.to_json() for s in ch], "seed": seed() * 1000 + i}
          for i, ch in enumerate(chunks(specs, 40))]
    nh = 120 if tier == "quick" else 2000
    us += [{"kind": "history", "n": nh // 12, "seed": seed() * 1000 + 500 + i, "maxops": 6} for i in range(12)]
    us.append({"kind": "truncate", "seed": seed(), "step": 7 if tier == "quick" else 1})
    return us


def conflicts_of(t, num):
    return (sorted((c.state.state_id, num.term(c.term), tuple(p.prod_id for p in c.productions)) for c in t.sr_conflicts),
            sorted((c.state.state_id, num.term(c.term), tuple(p.prod_id for p in c.productions)) for c in t.rr_conflicts),
            sorted((s.state_id, num.term(x)) for s in t.states for x in s.dynamic))


def enc_names(num):
    nts = [[ord(c) for c in n.fqn] for n in num.nts]
    ts = [[ord(c) for c in t.fqn] for t in num.terms]
    out = [len(nts)]
    for n in nts:
        out += [len(n)] + n
    out.append(len(ts))
    for t in ts:
        out += [len(t)] + t
    return out


def run_roundtrip(u, res):
    st = res["stats"]
    d = tempfile.mkdtemp(prefix="pgverif-c12-")
    try:
        for k, sj in enumerate(u["specs"]):
            spec = gen.GSpec.from_json(sj)
            gtxt = spec.text()
            path = os.path.join(d, "g%d.pg" % k)
            open(path, "w").write(gtxt)
            for kind, kw in (("Parser", {}), ("GLRParser", {}), ("Parser", {"tables": parglare.SLR})):
                case = {"grammar": gtxt, "parser": kind, "options": {k_: str(v) for k_, v in kw.items()}}
                pgc = path[:-3] + ".pgc"
                if os.path.exists(pgc):
                    os.remove(pgc)
                try:
                    g = Grammar.from_file(path)
                    p = (Parser if kind == "Parser" else GLRParser)(g, **kw)
                except (SRConflicts, RRConflicts):
                    # the table file is written before the conflict check
                    g = Grammar.from_file(path)
                    p = None
                except Exception as e:
                    bump(st["build_errors"], type(e).__name__)
                    continue
                if not os.path.exists(pgc):
                    res["violations"].append({"kind": "table-file-not-written", "case": case})
                    continue
                res["evaluations"] += 1
                st["roundtrips"] += 1
                data = open(pgc, "rb").read()
                num = Numbering(g)
                t1 = load_table(pgc, g)
                if p is not None:
                    t0 = p.table
                    if enc_table(num, t0) != enc_table(num, t1) or conflicts_of(t0, num) != conflicts_of(t1, num):
                        res["violations"].append({"kind": "loaded-table-differs-from-saved-table", "case": case})
                    b = Batch()
                    b.add("table", enc_table(num, t0))
                    b.add("names", enc_names(num))
                    q = b.add("pgcjson")
                    out = b.run()
                    st["traces"] += 1
                    if out[q] != "pgc " + data.decode():
                        res["disagreements"].append({"case": case, "model": out[q][:200], "impl": data.decode()[:200],
                                                     "what": "bytes of the table file"})
                pgc2 = pgc + ".again"
                save_table(pgc2, t1)
                if open(pgc2, "rb").read() != data:
                    res["violations"].append({"kind": "re-saved-table-bytes-differ", "case": case})
                os.remove(pgc2)
                if len(data) > 400:
                    res["nontrivial"].append(h16(case))
    finally:
        shutil.rmtree(d, ignore_errors=True)
    return res


class Dir:
    """One grammar directory with an explicit, strictly increasing clock."""

    def __init__(self, fam):
        self.d = tempfile.mkdtemp(prefix="pgverif-c12h-")
        self.fam = fam
        self.ver = {"root": 0, "sub": 0, "leaf": 0}
        self.clock = 1_000_000_000
        self.root = os.path.join(self.d, "root.pg")
        self.sub = os.path.join(self.d, "sub.pg")
        self.leaf = os.path.join(self.d, "leaf.pg")
        self.pgc = os.path.join(self.d, "root.pgc")
        self.writer_opts = None
        self.write("root")
        self.write("sub")
        self.write("leaf")

    def tick(self):
        # strictly increasing; every other step stays inside the same whole second (a file a quarter of a
        # second newer than the cache is newer)
        self.nticks = getattr(self, "nticks", 0) + 1
        self.clock += 0.25 if self.nticks % 2 == 0 else 10
        return self.clock

    def write(self, which):
        path = {"root": self.root, "sub": self.sub, "leaf": self.leaf}[which]
        text = {"root": VERSIONS[self.fam][self.ver["root"]], "sub": SUB_VERSIONS[self.ver["sub"]],
                "leaf": LEAF_VERSIONS[self.ver["leaf"]]}[which]
        open(path, "w").write(text)
        t = self.tick()
        os.utime(path, (t, t))

    def stamp_pgc_if_new(self, before):
        if os.path.exists(self.pgc):
            now = os.stat(self.pgc)
            if before is None or (now.st_mtime_ns, now.st_size) != before or now.st_mtime > 1_500_000_000:
                t = self.tick()
                os.utime(self.pgc, (t, t))
                return True
        return False

    def pgc_sig(self):
        if os.path.exists(self.pgc):
            s = os.stat(self.pgc)
            return (s.st_mtime_ns, s.st_size)
        return None

    def close(self):
        shutil.rmtree(self.d, ignore_errors=True)


OPTS = [("Parser", {}), ("GLRParser", {}), ("Parser", {"prefer_shifts": False, "prefer_shifts_over_empty": False}),
        ("Parser", {"tables": parglare.SLR}), ("GLRParser", {"lexical_disambiguation": True})]


def build(kind, kw, path):
    g = Grammar.from_file(path)
    return (Parser if kind == "Parser" else GLRParser)(g, **kw)


def probe(p):
    out = []
    for text in PROBES:
        try:
            r = p.parse(text)
            out.append(("ok", len(r) if isinstance(p, GLRParser) else repr(r)))
        except parglare.SyntaxError as e:
            out.append(("syntax", e.location.start_position))
        except Exception as e:
            out.append((type(e).__name__,))
    return out


def fresh_reference(dr, kind, kw):
    """The same grammar text built in a new directory without any cache."""
    d2 = tempfile.mkdtemp(prefix="pgverif-c12r-")
    try:
        shutil.copy(dr.root, os.path.join(d2, "root.pg"))
        shutil.copy(dr.sub, os.path.join(d2, "sub.pg"))
        shutil.copy(dr.leaf, os.path.join(d2, "leaf.pg"))
        try:
            return probe(build(kind, kw, os.path.join(d2, "root.pg")))
        except (SRConflicts, RRConflicts) as e:
            return [("raises", type(e).__name__)]
    finally:
        shutil.rmtree(d2, ignore_errors=True)


def run_history(u, res):
    rng = random.Random(u["seed"])
    st = res["stats"]
    for h in range(u["n"]):
        fam = rng.randrange(len(VERSIONS))
        same_opts = rng.random() < 0.5
        fixed_opt = rng.choice(OPTS)
        dr = Dir(fam)
        ops = []
        try:
            for step in range(rng.randint(2, u["maxops"])):
                op = rng.choice(["construct", "construct", "construct", "edit", "edit-sub", "edit-leaf", "touch",
                                 "touch-sub", "touch-leaf", "crash", "remove", "compile"])
                if op == "edit":
                    dr.ver["root"] ^= 1
                    dr.write("root")
                    ops.append("edit root")
                elif op == "edit-sub":
                    dr.ver["sub"] ^= 1
                    dr.write("sub")
                    ops.append("edit sub")
                elif op == "edit-leaf":
                    dr.ver["leaf"] ^= 1
                    dr.write("leaf")
                    ops.append("edit leaf")
                elif op in ("touch", "touch-sub", "touch-leaf"):
                    path = {"touch": dr.root, "touch-sub": dr.sub, "touch-leaf": dr.leaf}[op]
                    t = dr.tick()
                    os.utime(path, (t, t))
                    ops.append(op)
                elif op == "crash":
                    if os.path.exists(dr.pgc):
                        data = open(dr.pgc, "rb").read()
                        k = rng.randrange(0, max(1, len(data)))
                        sig = os.stat(dr.pgc).st_mtime
                        open(dr.pgc, "wb").write(data[:k])
                        os.utime(dr.pgc, (sig, sig))
                        st["truncations"] += 1
                        ops.append("crash after %d of %d bytes" % (k, len(data)))
                elif op == "remove":
                    if os.path.exists(dr.pgc):
                        os.remove(dr.pgc)
                    ops.append("remove pgc")
                elif op == "compile":
                    before = dr.pgc_sig()
                    try:
                        g = Grammar.from_file(dr.root)
                        create_load_table(g, prefer_shifts=False, prefer_shifts_over_empty=False, force_create=True)
                        dr.writer_opts = ("compile", "{}")
                    except Exception as e:
                        pass
                    dr.stamp_pgc_if_new(before)
                    ops.append("pglr compile")
                else:
                    kind, kw = fixed_opt if same_opts else rng.choice(OPTS)
                    before = dr.pgc_sig()
                    case = {"family": VERSIONS[fam][dr.ver["root"]], "sub": SUB_VERSIONS[dr.ver["sub"]],
                            "leaf": LEAF_VERSIONS[dr.ver["leaf"]],
                            "history": list(ops), "construct": [kind, {k: str(v) for k, v in kw.items()}]}
                    ops.append("construct %s %s" % (kind, {k: str(v) for k, v in kw.items()}))
                    try:
                        p = build(kind, kw, dr.root)
                        got = probe(p)
                    except (SRConflicts, RRConflicts) as e:
                        got = [("raises", type(e).__name__)]
                    except Exception as e:
                        got = [("raises", type(e).__name__ + ": " + str(e)[:60])]
                    wrote = dr.stamp_pgc_if_new(before)
                    reader = (kind, repr(sorted(kw.items())))
                    if wrote:
                        dr.writer_opts = reader
                    else:
                        st["cache_loads"] += 1
                    want = fresh_reference(dr, kind, kw)
                    res["evaluations"] += 1
                    st["constructions"] += 1
                    if got != want:
                        v = {"kind": "cached-parser-differs-from-cache-free-parser", "case": case,
                             "observed": [x for x, y in zip(got, want) if x != y][:3],
                             "expected": [y for x, y in zip(got, want) if x != y][:3]}
                        # F-CACHE-1: attributable only if the table file in use was written under other
                        # table-affecting options than the reader's
                        if not wrote and dr.writer_opts is not None and dr.writer_opts != reader:
                            v["attribution"] = "cache-writer-options-differ"
                        res["violations"].append(v)
                    if not wrote or any(o.startswith("crash") for o in ops):
                        res["nontrivial"].append(h16(case))
                    if len(res["samples"]) < 2 and len(ops) >= 4:
                        res["samples"].append({"history": list(ops)})
        finally:
            dr.close()
    return res


def run_truncate(u, res):
    st = res["stats"]
    for fam, (kind, kw) in [(f, o) for f in range(len(VERSIONS)) for o in (OPTS[0], OPTS[1], OPTS[2])]:
        dr = Dir(fam)
        try:
            try:
                p = build(kind, kw, dr.root)
            except (SRConflicts, RRConflicts):
                continue
            want = probe(p)
            data = open(dr.pgc, "rb").read()
            for k in range(0, len(data), u["step"] * 3):
                open(dr.pgc, "wb").write(data[:k])
                t = dr.clock + 1000
                os.utime(dr.pgc, (t, t))
                case = {"family": VERSIONS[fam][0], "parser": kind, "options": {a: str(b) for a, b in kw.items()},
                        "truncated_to": k, "of": len(data)}
                res["evaluations"] += 1
                st["truncations"] += 1
                try:
                    got = probe(build(kind, kw, dr.root))
                    # the rewritten table file must be right too: a second construction loads it
                    got2 = probe(build(kind, kw, dr.root))
                    if got2 != got:
                        got = got2
                except Exception as e:
                    got = [("raises", type(e).__name__)]
                if got != want:
                    res["violations"].append({"kind": "truncated-table-file-is-not-transparent", "case": case,
                                              "observed": got[:2], "expected": want[:2]})
                res["nontrivial"].append(h16(case))
        finally:
            dr.close()
    return res


def run_unit(u):
    res = {"evaluations": 0, "nontrivial": [], "samples": [], "violations": [], "disagreements": [],
           "stats": {"roundtrips": 0, "constructions": 0, "cache_loads": 0, "truncations": 0, "traces": 0,
                     "build_errors": {}}}
    if u["kind"] == "roundtrip":
        r = run_roundtrip(u, res)
    elif u["kind"] == "history":
        r = run_history(u, res)
    else:
        r = run_truncate(u, res)
    r["traces"] = r["stats"]["traces"]
    return r

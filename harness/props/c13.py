"""C13 — repetition, optional, separator, group and greedy syntax mean what the docs say."""
import itertools
import random

import parglare
from parglare import Grammar, Parser, GLRParser
from parglare.exceptions import SRConflicts, RRConflicts, DisambiguationError

from pcommon import *

MANIFEST_ENTRY = {
    "category": "proof",
    "text": "Lean 4 theorems: for every length the helper rules behind +, *, ?, separators evaluate to the flat list "
            "/ empty list / None (via C09), the multiplicity suffixes regenerated from the source are pairwise "
            "distinct and the helper name determines suffix and separator (C13_helper_name_injective). "
            "Differential leg: each sugared grammar is compared with its documented plain-BNF expansion written "
            "out by hand (helper rule per use, @collect/@collect_sep/@optional actions, anonymous group rules): "
            "language on all inputs up to a bound and results, LR and GLR, operators on terminals, nonterminals "
            "and groups, string and rule separators, nested groups, inside imported files; greedy variants: same "
            "language and a single GLR tree in which the greedy repetition is maximal",
    "note": "trusted: Lean kernel; the hand-written expansions are the reading of the documentation; helper-name "
            "collisions with user symbols and the shared helper of `x*` and `x*!` are excluded regions (recorded "
            "findings F-SUGAR-1/2)",
    "technique": "Lean 4 proof (list semantics by induction, naming injectivity) + differential against the expansion",
}

PROP = "C13"
LEVEL = "proof"
THEOREMS = ["C13_suffixes_distinct", "C13_multiplicities_distinct", "C13_helper_name_injective", "C13_plus_result"]
META = {
    "rule": "cases = (rule shape, sugared grammar, documented expansion, parser kind, input); non-trivial = accepted "
            "input with >= 2 repeated elements; distinct by (shape, parser, input)",
    "explanation": "see level text",
    "trusted_base": ["hand-written expansions"],
    "assumptions": [],
}

T = '\nterminals\nx: "x";\ny: "y";\nc: "c";\nz: "z";\n'

# (sugared rules, documented expansion rules)
SHAPES = [
    ("S: x+;", "S: x_1;\n@collect\nx_1: x_1 x | x;"),
    ("S: x*;", "S: x_0;\nx_0: x_1 {nops} | EMPTY;\n@collect\nx_1: x_1 x | x;"),
    ("S: x?;", "S: x_opt;\n@optional\nx_opt: x | EMPTY;"),
    ("S: y x+ y;", "S: y x_1 y;\n@collect\nx_1: x_1 x | x;"),
    ("S: y x* z;", "S: y x_0 z;\nx_0: x_1 {nops} | EMPTY;\n@collect\nx_1: x_1 x | x;"),
    ("S: x? y x?;", "S: x_opt y x_opt;\n@optional\nx_opt: x | EMPTY;"),
    ("S: x+[c];", "S: x_1_c;\n@collect_sep\nx_1_c: x_1_c c x | x;"),
    ("S: y x*[c] z;", "S: y x_0_c z;\nx_0_c: x_1_c {nops} | EMPTY;\n@collect_sep\nx_1_c: x_1_c c x | x;"),
    ("S: A+;\nA: x y | z;", "S: A_1;\n@collect\nA_1: A_1 A | A;\nA: x y | z;"),
    ("S: A*[Sep] y;\nA: x | z z;\nSep: c | y c;",
     "S: A_0_Sep y;\nA_0_Sep: A_1_Sep {nops} | EMPTY;\n@collect_sep\nA_1_Sep: A_1_Sep Sep A | A;\nA: x | z z;\nSep: c | y c;"),
    ("S: (x y)+;", "S: S_g1_1;\n@collect\nS_g1_1: S_g1_1 S_g1 | S_g1;\nS_g1: x y;"),
    ("S: (x | y z)* c;", "S: S_g1_0 c;\nS_g1_0: S_g1_1 {nops} | EMPTY;\n@collect\nS_g1_1: S_g1_1 S_g1 | S_g1;\nS_g1: x | y z;"),
    ("S: ((x y)? c)+;", "S: S_g1_1;\n@collect\nS_g1_1: S_g1_1 S_g1 | S_g1;\nS_g1: S_g2_opt c;\n@optional\nS_g2_opt: S_g2 | EMPTY;\nS_g2: x y;"),
    ("S: x+ y*;", "S: x_1 y_0;\n@collect\nx_1: x_1 x | x;\ny_0: y_1 {nops} | EMPTY;\n@collect\ny_1: y_1 y | y;"),
    ("S: A? B?;\nA: x+;\nB: y | x c;", "S: A_opt B_opt;\n@optional\nA_opt: A | EMPTY;\n@optional\nB_opt: B | EMPTY;\nA: x_1;\n@collect\nx_1: x_1 x | x;\nB: y | x c;"),
]

# greedy: same language as the non-greedy form; GLR returns one tree with the greedy repetition maximal
GREEDY = [
    ("S: x*! x*;", "S: x* x*;", 0),
    ("S: x+! x*;", "S: x+ x*;", 0),
    ("S: y x*! x? z;", "S: y x* x? z;", 1),
    ("S: A*! A*;\nA: x | y;", "S: A* A*;\nA: x | y;", 0),
]

IMPORT_CASE = {
    "root.pg": "import 'lib.pg' as l;\nS: l.Item+[c] l.Tail?;\nterminals\nc: \"c\";\n",
    "lib.pg": "Item: x y* | z;\nTail: y+;\nterminals\nx: \"x\";\ny: \"y\";\nz: \"z\";\n",
    "flat": "S: Item_1_c Tail_opt;\n@collect_sep\nItem_1_c: Item_1_c c Item | Item;\n@optional\nTail_opt: Tail | EMPTY;\n"
            "Item: x y_0 | z;\ny_0: y_1 {nops} | EMPTY;\n@collect\ny_1: y_1 y | y;\nTail: y_1;" + T,
}


def units(tier):
    n = 5 if tier == "quick" else 7
    us = [{"kind": "shapes", "idx": list(range(i, len(SHAPES), 4)), "maxlen": n} for i in range(4)]
    us.append({"kind": "greedy", "maxlen": n})
    us.append({"kind": "import", "maxlen": n})
    return us


def all_inputs(maxlen, alphabet="xyzc"):
    for n in range(maxlen + 1):
        for c in itertools.product(alphabet, repeat=n):
            yield "".join(c)


def run(p, text):
    try:
        r = p.parse(text)
        if isinstance(p, GLRParser):
            n = r.solutions
            return ("ok", n, repr(p.call_actions(r[0])) if n == 1 else None)
        return ("ok", 1, repr(r))
    except parglare.SyntaxError:
        return ("syntax",)
    except DisambiguationError:
        return ("disamb",)
    except Exception as e:
        return ("raises", type(e).__name__)


def compare(res, st, name, ga, gb, inputs, kinds=("LR", "GLR"), before_build=None):
    for kind in kinds:
        try:
            if before_build:
                before_build()      # e.g. remove the table cache another parser kind wrote (finding F-CACHE-1)
            pa = Parser(ga) if kind == "LR" else GLRParser(ga)
            pb = Parser(gb) if kind == "LR" else GLRParser(gb)
        except (SRConflicts, RRConflicts):
            continue
        for text in inputs:
            case = {"shape": name, "parser": kind, "input": text}
            ra, rb = run(pa, text), run(pb, text)
            res["evaluations"] += 1
            st["comparisons"] += 1
            if ra != rb:
                res["violations"].append({"kind": "sugared-grammar-differs-from-documented-expansion",
                                          "case": case, "observed": list(ra), "expected": list(rb)})
            if ra[0] == "ok" and len(text) >= 2:
                res["nontrivial"].append(h16(case))
            if len(res["samples"]) < 2 and ra[0] == "ok" and len(text) >= 3:
                res["samples"].append({"case": case, "result": ra[2]})


def run_unit(u):
    res = {"evaluations": 0, "nontrivial": [], "samples": [], "violations": [], "disagreements": [],
           "stats": {"shapes": 0, "comparisons": 0, "greedy_checks": 0, "traces": 0}}
    st = res["stats"]
    inputs = list(all_inputs(u["maxlen"]))
    if u["kind"] == "shapes":
        for i in u["idx"]:
            sug, exp = SHAPES[i]
            st["shapes"] += 1
            try:
                ga = Grammar.from_string(sug + T)
                gb = Grammar.from_string(exp + T)
            except Exception as e:
                res["violations"].append({"kind": "grammar-rejected", "case": {"shape": sug},
                                          "observed": type(e).__name__ + ": " + str(e)[:100]})
                continue
            compare(res, st, sug, ga, gb, inputs)
    elif u["kind"] == "greedy":
        for sug, plain, which in GREEDY:
            st["shapes"] += 1
            ga = Grammar.from_string(sug + T)
            gb = Grammar.from_string(plain + T)
            pa, pb = GLRParser(ga), GLRParser(gb)
            for text in inputs:
                case = {"shape": sug, "parser": "GLR", "input": text}
                ra, rb = run(pa, text), run(pb, text)
                res["evaluations"] += 1
                st["greedy_checks"] += 1
                if (ra[0] == "ok") != (rb[0] == "ok"):
                    res["violations"].append({"kind": "greedy-changes-the-language", "case": case,
                                              "observed": list(ra), "expected": list(rb)})
                elif ra[0] == "ok":
                    if ra[1] != 1:
                        res["violations"].append({"kind": "greedy-repetition-still-ambiguous", "case": case,
                                                  "observed": ra[1]})
                    else:
                        # the greedy repetition took as much as any tree of the non-greedy forest gives it
                        f = pb.parse(text)
                        best = max(len(pb.call_actions(f[i])[which] or []) for i in range(min(f.solutions, 50)))
                        got = len(pa.call_actions(pa.parse(text)[0])[which] or [])
                        if got != best:
                            res["violations"].append({"kind": "greedy-repetition-not-maximal", "case": case,
                                                      "observed": got, "expected": best})
                    res["nontrivial"].append(h16(case))
    else:
        import os, tempfile, shutil
        d = tempfile.mkdtemp(prefix="pgverif-c13-")
        try:
            for name in ("root.pg", "lib.pg"):
                open(os.path.join(d, name), "w").write(IMPORT_CASE[name])
            ga = Grammar.from_file(os.path.join(d, "root.pg"))
            gb = Grammar.from_string(IMPORT_CASE["flat"])
            st["shapes"] += 1
            def drop_cache():
                for f in os.listdir(d):
                    if f.endswith(".pgc"):
                        os.remove(os.path.join(d, f))
            compare(res, st, "imported: " + IMPORT_CASE["root.pg"], ga, gb, inputs, before_build=drop_cache)
        finally:
            shutil.rmtree(d, ignore_errors=True)
    return res

"""C13 — repetition, optional, separator, group and greedy syntax mean what the docs say."""
import itertools
import random

import parglare
from parglare import Grammar, Parser, GLRParser
from parglare.exceptions import SRConflicts, RRConflicts, DisambiguationError

from pcommon import *

MANIFEST_ENTRY = {
    "category": "proof",
    "text": "Lean 4 theorems: for every length the helper rules behind +, *, ?, separators evaluate to the flat list "
            "/ empty list / None (via C09), the multiplicity suffixes regenerated from the source are pairwise "
            "distinct and the helper name determines suffix and separator (C13_helper_name_injective). "
            "Differential leg: each sugared grammar is compared with its documented plain-BNF expansion written "
            "out by hand (helper rule per use, @collect/@collect_sep/@optional actions, anonymous group rules): "
            "language on all inputs up to a bound and results, LR and GLR, operators on terminals, nonterminals "
            "and groups, string and rule separators, nested groups, inside imported files; greedy variants: same "
            "language and a single GLR tree in which the greedy repetition is maximal",
    "note": "trusted: Lean kernel; the hand-written expansions are the reading of the documentation; helper-name "
            "collisions with user symbols and the shared helper of `x*` and `x*!` are excluded regions (recorded "
            "findings F-SUGAR-1/2)",
    "technique": "Lean 4 proof (list semantics by induction, naming injectivity) + differential against the expansion",
}

PROP = "C13"
LEVEL = "proof"
THEOREMS = ["C13_suffixes_distinct", "C13_multiplicities_distinct", "C13_helper_name_injective", "C13_plus_result"]
META = {
    "rule": "cases = (rule shape, sugared grammar, documented expansion, parser kind, input); non-trivial = accepted "
            "input with >= 2 repeated elements; distinct by (shape, parser, input)",
    "explanation": "see level text",
    "trusted_base": ["hand-written expansions"],
    "assumptions": [],
}

T = '\nterminals\nx: "x";\ny: "y";\nc: "c";\nz: "z";\n'

# (sugared rules, documented expansion rules)
SHAPES = [
    ("S: x+;", "S: x_1;\n@collect\nx_1: x_1 x | x;"),
    ("S: x*;", "S: x_0;\nx_0: x_1 {nops} | EMPTY;\n@collect\nx_1: x_1 x | x;"),
    ("S: x?;", "S: x_opt;\n@optional\nx_opt: x | EMPTY;"),
    ("S: y x+ y;", "S: y x_1 y;\n@collect\nx_1: x_1 x | x;"),
    ("S: y x* z;", "S: y x_0 z;\nx_0: x_1 {nops} | EMPTY;\n@collect\nx_1: x_1 x | x;"),
    ("S: x? y x?;", "S: x_opt y x_opt;\n@optional\nx_opt: x | EMPTY;"),
    ("S: x+[c];", "S: x_1_c;\n@collect_sep\nx_1_c: x_1_c c x | x;"),
    ("S: y x*[c] z;", "S: y x_0_c z;\nx_0_c: x_1_c {nops} | EMPTY;\n@collect_sep\nx_1_c: x_1_c c x | x;"),
    ("S: A+;\nA: x y | z;", "S: A_1;\n@collect\nA_1: A_1 A | A;\nA: x y | z;"),
    ("S: A*[Sep] y;\nA: x | z z;\nSep: c | y c;",
     "S: A_0_Sep y;\nA_0_Sep: A_1_Sep {nops} | EMPTY;\n@collect_sep\nA_1_Sep: A_1_Sep Sep A | A;\nA: x | z z;\nSep: c | y c;"),
    ("S: (x y)+;", "S: S_g1_1;\n@collect\nS_g1_1: S_g1_1 S_g1 | S_g1;\nS_g1: x y;"),
    ("S: (x | y z)* c;", "S: S_g1_0 c;\nS_g1_0: S_g1_1 {nops} | EMPTY;\n@collect\nS_g1_1: S_g1_1 S_g1 | S_g1;\nS_g1: x | y z;"),
    ("S: ((x y)? c)+;", "S: S_g1_1;\n@collect\nS_g1_1: S_g1_1 S_g1 | S_g1;\nS_g1: S_g2_opt c;\n@optional\nS_g2_opt: S_g2 | EMPTY;\nS_g2: x y;"),
    ("S: x+ y*;", "S: x_1 y_0;\n@collect\nx_1: x_1 x | x;\ny_0: y_1 {nops} | EMPTY;\n@collect\ny_1: y_1 y | y;"),
    # elements that are falsy values (empty lists, None) must stay in the list
    ("S: R+[c];\nR: x*;", "S: R_1_c;\n@collect_sep\nR_1_c: R_1_c c R | R;\nR: x_0;\nx_0: x_1 {nops} | EMPTY;\n@collect\nx_1: x_1 x | x;"),
    ("S: R+ z;\nR: y x?;", "S: R_1 z;\n@collect\nR_1: R_1 R | R;\nR: y x_opt;\n@optional\nx_opt: x | EMPTY;"),
    ("S: (x? c)+;", "S: S_g1_1;\n@collect\nS_g1_1: S_g1_1 S_g1 | S_g1;\nS_g1: x_opt c;\n@optional\nx_opt: x | EMPTY;"),
    # an explicit action on the enclosing rule is not the group's action
    ("@wrap\nS: x (c y)?;", "@wrap\nS: x S_g1_opt;\n@optional\nS_g1_opt: S_g1 | EMPTY;\nS_g1: c y;"),
    ("@wrap\nS: (x y)+ z | z;", "@wrap\nS: S_g1_1 z | z;\n@collect\nS_g1_1: S_g1_1 S_g1 | S_g1;\nS_g1: x y;"),
    ("S: A+;\n@wrap\nA: x (y | z)*;", "S: A_1;\n@collect\nA_1: A_1 A | A;\n@wrap\nA: x A_g1_0;\nA_g1_0: A_g1_1 {nops} | EMPTY;\n@collect\nA_g1_1: A_g1_1 A_g1 | A_g1;\nA_g1: y | z;"),
    # what follows the repetition starts like its element: {nops} on x_0: x_1 decides
    ("S: x* x;", "S: x_0 x;\nx_0: x_1 {nops} | EMPTY;\n@collect\nx_1: x_1 x | x;"),
    ("S: A* B;\nA: x y;\nB: x | z;", "S: A_0 B;\nA_0: A_1 {nops} | EMPTY;\n@collect\nA_1: A_1 A | A;\nA: x y;\nB: x | z;"),
    # a group around a single reference that carries its own operator, with an operator on the group
    ("S: y (x+)? z;", "S: y S_g1_opt z;\n@optional\nS_g1_opt: S_g1 | EMPTY;\nS_g1: x_1;\n@collect\nx_1: x_1 x | x;"),
    ("S: (x+[c])+ z;", "S: S_g1_1 z;\n@collect\nS_g1_1: S_g1_1 S_g1 | S_g1;\nS_g1: x_1_c;\n@collect_sep\nx_1_c: x_1_c c x | x;"),
    ("S: ((x y)+)? z;", "S: S_g1_opt z;\n@optional\nS_g1_opt: S_g1 | EMPTY;\nS_g1: S_g2_1;\n@collect\nS_g2_1: S_g2_1 S_g2 | S_g2;\nS_g2: x y;"),
    ("S: y (x?)+ z;", "S: y S_g1_1 z;\n@collect\nS_g1_1: S_g1_1 S_g1 | S_g1;\nS_g1: x_opt;\n@optional\nx_opt: x | EMPTY;"),
    ("S: A? B?;\nA: x+;\nB: y | x c;", "S: A_opt B_opt;\n@optional\nA_opt: A | EMPTY;\n@optional\nB_opt: B | EMPTY;\nA: x_1;\n@collect\nx_1: x_1 x | x;\nB: y | x c;"),
]

# greedy: same language as the non-greedy form; GLR returns one tree with the greedy repetition maximal
GREEDY = [
    ("S: x*! x*;", "S: x* x*;", 0),
    ("S: x+! x*;", "S: x+ x*;", 0),
    ("S: y x*! x? z;", "S: y x* x? z;", 1),
    ("S: A*! A*;\nA: x | y;", "S: A* A*;\nA: x | y;", 0),
    # greedy repetitions with a separator, followed by something that starts with the separator
    ("S: x+![c] R*;\nR: c x;", "S: x+[c] R*;\nR: c x;", 0),
    ("S: y x*![c] R* z;\nR: c x;", "S: y x*[c] R* z;\nR: c x;", 1),
]

IMPORT_CASE = {
    "root.pg": "import 'lib.pg' as l;\nS: l.Item+[c] l.Tail?;\nterminals\nc: \"c\";\n",
    "lib.pg": "Item: x y* | z;\nTail: y+;\nterminals\nx: \"x\";\ny: \"y\";\nz: \"z\";\n",
    "flat": "S: Item_1_c Tail_opt;\n@collect_sep\nItem_1_c: Item_1_c c Item | Item;\n@optional\nTail_opt: Tail | EMPTY;\n"
            "Item: x y_0 | z;\ny_0: y_1 {nops} | EMPTY;\n@collect\ny_1: y_1 y | y;\nTail: y_1;" + T,
}


def wrap(_, nodes):
    return ("wrap", nodes)


USER_ACTIONS = {"wrap": wrap}
# The documented list/option semantics written independently of parglare.actions: the expansion side of
# the comparison uses these, so that a change to the built-in collect/optional actions does not move both sides.
INDEP_ACTIONS = {
    "wrap": wrap,
    "vcollect": [lambda _, n: n[0] + [n[1]], lambda _, n: [n[0]]],
    "vcollect_sep": [lambda _, n: n[0] + [n[2]], lambda _, n: [n[0]]],
    "voptional": [lambda _, n: n[0], lambda _, n: None],
    "vstar": [lambda _, n: n[0], lambda _, n: []],
}


def indep(expansion):
    """The expansion with its built-in action names replaced by the independent ones."""
    import re
    out = []
    for line in expansion.split("\n"):
        if re.match(r"^\w+_0(_\w+)?: ", line):
            out.append("@vstar")
        out.append({"@collect": "@vcollect", "@collect_sep": "@vcollect_sep", "@optional": "@voptional"}.get(line, line))
    return "\n".join(out)


def structure(g):
    """Productions and rule actions of a grammar, as the table construction and the action call see them."""
    prods = []
    for pr in g.productions[1:]:
        rhs = tuple(pr.rhs[i].name for i in range(len(pr.rhs)))
        prods.append((pr.symbol.name, rhs, pr.assoc, pr.prior, bool(pr.nops), bool(pr.nopse), bool(pr.dynamic)))
    acts = {}
    for nt in g.nonterminals.values():
        a = nt.action_name
        a = {"vcollect": "collect", "vcollect_sep": "collect_sep", "voptional": "optional", "vstar": None}.get(a, a)
        acts[nt.name] = a
    return sorted(prods), sorted((k, str(v)) for k, v in acts.items() if k != "S'")


def units(tier):
    n = 5 if tier == "quick" else 8
    k = 4 if tier == "quick" else len(SHAPES)
    us = [{"kind": "shapes", "idx": list(range(i, len(SHAPES), k)), "maxlen": n} for i in range(k)]
    us.append({"kind": "greedy", "maxlen": n})
    us.append({"kind": "import", "maxlen": n})
    return us


def all_inputs(maxlen, alphabet="xyzc"):
    for n in range(maxlen + 1):
        for c in itertools.product(alphabet, repeat=n):
            yield "".join(c)


def run(p, text):
    try:
        r = p.parse(text)
        if isinstance(p, GLRParser):
            n = r.solutions
            return ("ok", n, repr(p.call_actions(r[0])) if n == 1 else None)
        return ("ok", 1, repr(r))
    except parglare.SyntaxError:
        return ("syntax",)
    except DisambiguationError:
        return ("disamb",)
    except Exception as e:
        return ("raises", type(e).__name__)


def build(kind, g, actions):
    try:
        if kind == "LR":
            return Parser(g, actions=actions)
        if kind == "GLR":
            return GLRParser(g, actions=actions)
        if kind == "GLR-ps":
            return GLRParser(g, actions=actions, prefer_shifts=True)
        if kind == "LR-nops":
            return Parser(g, actions=actions, prefer_shifts=False, prefer_shifts_over_empty=False)
    except (SRConflicts, RRConflicts) as e:
        return type(e).__name__


def compare(res, st, name, ga, gb, inputs, kinds=("LR", "GLR", "GLR-ps", "LR-nops"), before_build=None,
            check_structure=True):
    if check_structure:
        sa, sb = structure(ga), structure(gb)
        res["evaluations"] += 1
        if sa != sb:
            da = [x for x in sa[0] + sa[1] if x not in sb[0] + sb[1]]
            db = [x for x in sb[0] + sb[1] if x not in sa[0] + sa[1]]
            res["violations"].append({"kind": "sugared-grammar-productions-differ-from-documented-expansion",
                                      "case": {"shape": name}, "observed": str(da)[:300], "expected": str(db)[:300]})
    for kind in kinds:
        if before_build:
            before_build()      # e.g. remove the table cache another parser kind wrote (finding F-CACHE-1)
        pa = build(kind, ga, USER_ACTIONS)
        pb = build(kind, gb, INDEP_ACTIONS)
        if isinstance(pa, str) or isinstance(pb, str):
            res["evaluations"] += 1
            if pa != pb and (isinstance(pa, str) != isinstance(pb, str)):
                res["violations"].append({"kind": "conflict-status-differs-from-documented-expansion",
                                          "case": {"shape": name, "parser": kind},
                                          "observed": pa if isinstance(pa, str) else "builds",
                                          "expected": pb if isinstance(pb, str) else "builds"})
            continue
        for text in inputs:
            case = {"shape": name, "parser": kind, "input": text}
            ra, rb = run(pa, text), run(pb, text)
            res["evaluations"] += 1
            st["comparisons"] += 1
            if ra != rb:
                res["violations"].append({"kind": "sugared-grammar-differs-from-documented-expansion",
                                          "case": case, "observed": list(ra), "expected": list(rb)})
            if ra[0] == "ok" and len(text) >= 2:
                res["nontrivial"].append(h16(case))
            if len(res["samples"]) < 2 and ra[0] == "ok" and len(text) >= 3:
                res["samples"].append({"case": case, "result": ra[2]})


def run_unit(u):
    res = {"evaluations": 0, "nontrivial": [], "samples": [], "violations": [], "disagreements": [],
           "stats": {"shapes": 0, "comparisons": 0, "greedy_checks": 0, "traces": 0}}
    st = res["stats"]
    inputs = list(all_inputs(u["maxlen"]))
    if u["kind"] == "shapes":
        for i in u["idx"]:
            sug, exp = SHAPES[i]
            st["shapes"] += 1
            try:
                ga = Grammar.from_string(sug + T)
                gb = Grammar.from_string(indep(exp) + T)
            except Exception as e:
                res["violations"].append({"kind": "grammar-rejected", "case": {"shape": sug},
                                          "observed": type(e).__name__ + ": " + str(e)[:100]})
                continue
            compare(res, st, sug, ga, gb, inputs)
    elif u["kind"] == "greedy":
        for sug, plain, which in GREEDY:
            st["shapes"] += 1
            ga = Grammar.from_string(sug + T)
            gb = Grammar.from_string(plain + T)
            pa, pb = GLRParser(ga), GLRParser(gb)
            for text in inputs:
                case = {"shape": sug, "parser": "GLR", "input": text}
                ra, rb = run(pa, text), run(pb, text)
                res["evaluations"] += 1
                st["greedy_checks"] += 1
                if (ra[0] == "ok") != (rb[0] == "ok"):
                    res["violations"].append({"kind": "greedy-changes-the-language", "case": case,
                                              "observed": list(ra), "expected": list(rb)})
                elif ra[0] == "ok":
                    if ra[1] != 1:
                        res["violations"].append({"kind": "greedy-repetition-still-ambiguous", "case": case,
                                                  "observed": ra[1]})
                    else:
                        # the greedy repetition took as much as any tree of the non-greedy forest gives it
                        f = pb.parse(text)
                        best = max(len(pb.call_actions(f[i])[which] or []) for i in range(min(f.solutions, 50)))
                        got = len(pa.call_actions(pa.parse(text)[0])[which] or [])
                        if got != best:
                            res["violations"].append({"kind": "greedy-repetition-not-maximal", "case": case,
                                                      "observed": got, "expected": best})
                    res["nontrivial"].append(h16(case))
    else:
        import os, tempfile, shutil
        d = tempfile.mkdtemp(prefix="pgverif-c13-")
        try:
            for name in ("root.pg", "lib.pg"):
                open(os.path.join(d, name), "w").write(IMPORT_CASE[name])
            ga = Grammar.from_file(os.path.join(d, "root.pg"))
            gb = Grammar.from_string(indep(IMPORT_CASE["flat"]))
            st["shapes"] += 1
            def drop_cache():
                for f in os.listdir(d):
                    if f.endswith(".pgc"):
                        os.remove(os.path.join(d, f))
            compare(res, st, "imported: " + IMPORT_CASE["root.pg"], ga, gb, inputs, before_build=drop_cache,
                    check_structure=False)
        finally:
            shutil.rmtree(d, ignore_errors=True)
    return res

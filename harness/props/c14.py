"""C14 — layout is invisible."""
import itertools
import random
import re

import parglare
from parglare import Grammar, Parser, GLRParser
from parglare.exceptions import SRConflicts, RRConflicts, DisambiguationError

import gen
from pcommon import *
from enc import skip_table

MANIFEST_ENTRY = {
    "category": "proof",
    "text": "Lean 4 theorems: the modelled ws skipping never moves backwards, stays inside the text, is idempotent, "
            "skips only ws characters and stops at the first other character (these are exactly the hypotheses the "
            "position/recovery theorems put on `skip`); the driver model and the oracles depend on the text only "
            "through len/skip/match. The model's skip table is compared with Parser._skipws at every position; "
            "metamorphic leg on LR and GLR: inserting/removing/replacing layout (ws characters, line comments, "
            "nested block comments) before, between and after tokens leaves acceptance, tree shape, token sequence, "
            "forest size and the token index of the error unchanged; a LAYOUT rule matching runs of ws characters "
            "gives the same trees, node positions, layout_content and error positions as the ws parameter",
    "note": "trusted: Lean kernel; the LAYOUT sub-parser is the LR driver (validated in C04) run on the LAYOUT rule; "
            "relayout invariance for ALL grammars/inputs is metamorphic testing on the explored scope, the theorem "
            "covers the ws skipping function and the drivers' interface to the text",
    "technique": "Lean 4 proof (properties of the skipping function) + metamorphic and ws/LAYOUT differential legs",
}

PROP = "C14"
LEVEL = "proof"
THEOREMS = ["C14_ws_skip_ge", "C14_ws_skip_le", "C14_ws_skip_idem", "C14_ws_skipped_is_ws",
            "C14_ws_stops_at_non_ws", "C14_ws_input_mono", "C14_drivers_see_only_skip_and_match"]
META = {
    "rule": "cases = (grammar with single-character terminals, layout mode ws | LAYOUT variants, LR|GLR, input, "
            "relayouted input); non-trivial = pair whose two texts differ and contain >= 2 tokens; distinct by "
            "(grammar, layout mode, parser, pair of inputs)",
    "explanation": "see level text",
    "trusted_base": [],
    "assumptions": ["token boundaries are layout independent (single-character terminals)"],
}


def units(tier):
    rng = random.Random(seed())
    specs, _ = small_specs(tier, rng, nrand_quick=60, nrand_thorough=800, chains_quick=20, chains_thorough=300,
                           fixed_quick=100, fixed_thorough=1500, overlap_rate=0)
    specs = [s for s in specs if all(k == "str" and len(v) == 1 for k, v in s.terms.values())]
    us = [{"specs": [s.to_json() for s in ch], "seed": seed() * 1000 + i, "maxtok": 4 if tier == "quick" else 5}
          for i, ch in enumerate(chunks(specs, 160))]
    us.append({"kind": "custom-ws", "seed": seed()})
    us.append({"kind": "slash", "seed": seed(), "n": 60 if tier == "quick" else 1500})
    return us[::-1]       # the seeded random grammars (slowest GLR parses) first


# comments whose opener begins like a terminal of the language: layout is skipped before tokens are looked for
SLASH_GRAMMAR = ('E: E "/" E {left} | "n" | "(" E ")";\n'
                 'LAYOUT: LayoutItem | LAYOUT LayoutItem | EMPTY;\nLayoutItem: WS | LineComment | BlockComment;\n'
                 'terminals\nWS: /\\s+/;\nLineComment: /\\/\\/[^\\n]*/;\nBlockComment: /\\/\\*[^*]*\\*\\//;\n')
SLASH_SENTENCES = [["n"], ["n", "/", "n"], ["n", "/", "n", "/", "n"], ["(", "n", ")", "/", "n"],
                   ["n", "/", "(", "n", "/", "n", ")"], ["(", "(", "n", ")", ")"]]
SLASH_FILLERS = ["", " ", "// c\n", "/* c */", " // c\n", "/* x */ ", "\n", "/**/", "// /\n"]


def run_slash(u, res):
    st = res["stats"]
    rng = random.Random(u["seed"])
    g = Grammar.from_string(SLASH_GRAMMAR)

    def shape(n):
        return n.value if n.is_term() else [shape(c) for c in n]

    for kind in ("LR", "GLR"):
        p = Parser(g, build_tree=True) if kind == "LR" else GLRParser(g)

        def run(text):
            try:
                with budget(2):
                    r = p.parse(text)
                return ("ok", shape(r if kind == "LR" else r[0]), 1 if kind == "LR" else r.solutions)
            except parglare.exceptions.ParglareError as e:
                return ("error", type(e).__name__)
        for toks in SLASH_SENTENCES:
            want = run(" ".join(toks))
            variants = []
            gaps = len(toks) + 1
            for gi in range(gaps):
                for f in SLASH_FILLERS:
                    variants.append([" " if k != gi else f for k in range(gaps)])
            for _ in range(u["n"]):
                variants.append([rng.choice(SLASH_FILLERS) for _ in range(gaps)])
            for fills in variants:
                # a comment opener directly after the "/" token would change the token boundary
                ok = all(not (fills[k + 1].startswith("/") and toks[k] == "/") for k in range(len(toks)))
                if not ok:
                    continue
                text = fills[0] + "".join(t + fills[k + 1] for k, t in enumerate(toks))
                case = {"grammar": SLASH_GRAMMAR, "parser": kind, "input": text, "tokens": toks}
                got = run(text)
                res["evaluations"] += 1
                st["pairs"] += 1
                res["nontrivial"].append(h16(case))
                if got != want:
                    res["violations"].append({"kind": "layout-changes-the-parse", "case": case,
                                              "observed": str(got)[:200], "expected": str(want)[:200]})
    return res


# ws parameters made of characters that are special elsewhere (regex classes, escapes, ranges)
DEFAULT_WS = object()      # construct without a ws argument: the documented default is '\n\r\t '
CUSTOM_WS = [DEFAULT_WS, " \t\\\n", " -_", "_- ", "^ ", " ^", "] ", " [", "\\", ".", " .*+?", "a-c ", "\t|", " \r\n\t\f\v", "()", "{}$"]
CUSTOM_GRAMMARS = ['S: "x" S | "y";', 'S: "(" S ")" | "x";', 'S: S "+" S | "x" | "yy";', 'S: "ab" "b"* "a"?;']


def run_custom_ws(u, res):
    """`ws` is a set of characters, whatever the characters are: the skip table of the implementation is
    the model's for every ws string, and sentences stay sentences when ws characters are put between tokens."""
    st = res["stats"]
    rng = random.Random(u["seed"])
    # every special character, and white space that is not in the default ws (form feed, vertical tab,
    # file separator, next line, no-break space, line separator)
    alphabet = "xy()+ab \t\n\\-_^].*|[?{}$c\r\x0c\x0b\x1c\x85\u00a0\u2028"
    for gtxt in CUSTOM_GRAMMARS:
        g = Grammar.from_string(gtxt)
        num = Numbering(g)
        toks = sorted({t.recognizer.value for t in g.terminals.values() if hasattr(t.recognizer, "value")})
        for ws in CUSTOM_WS:
            default = ws is DEFAULT_WS
            if default:
                ws = "\n\r\t "
            fill = [c for c in ws if c not in "".join(toks)]
            if not fill:
                continue
            for kind in ("LR", "GLR"):
                try:
                    if default:
                        p = Parser(g, build_tree=True) if kind == "LR" else GLRParser(g)
                    else:
                        p = Parser(g, ws=ws, build_tree=True) if kind == "LR" else GLRParser(g, ws=ws)
                except (SRConflicts, RRConflicts):
                    continue
                except Exception as e:
                    res["evaluations"] += 1
                    res["violations"].append({"kind": "ws-parameter-rejected", "case": {"grammar": gtxt, "ws": ws, "parser": kind},
                                              "observed": type(e).__name__ + ": " + str(e)[:100]})
                    continue
                # skip tables on texts over an alphabet containing every special character
                b = Batch()
                checks = []
                for k in range(40 if default else 12):
                    text = "".join(rng.choice(alphabet + ws) for _ in range(rng.randint(0, 9)))
                    q = b.add("skipws", len(ws), [ord(c) for c in ws], len(text), [ord(c) for c in text])
                    checks.append((text, q, skip_table(p, text)))
                out = b.run()
                for text, q, sk in checks:
                    st["skip_tables"] += 1
                    res["evaluations"] += 1
                    if out[q] != "skipws " + " ".join(map(str, sk)):
                        res["disagreements"].append({"case": {"input": text, "ws": ws}, "model": out[q][:200],
                                                     "impl": " ".join(map(str, sk))[:200], "what": "skip table"})
                        res["violations"].append({"kind": "ws-parameter-not-skipped-as-a-character-set",
                                                  "case": {"grammar": gtxt, "ws": ws, "input": text, "parser": kind},
                                                  "observed": sk, "expected": out[q]})
                # sentences with ws characters between the tokens (only when no token contains a ws character)
                if any(c in "".join(toks) for c in ws):
                    continue
                for n in range(1, 5):
                    for combo in itertools.product(toks, repeat=n):
                        plain = p0_accepts(g, kind, "".join(combo), combo)
                        if plain is None:
                            continue
                        text = rng.choice(fill).join(combo) + rng.choice(fill + [""])
                        case = {"grammar": gtxt, "ws": ws, "parser": kind, "input": text,
                                "tokens": list(combo)}
                        try:
                            with budget(1):
                                p.parse(text)
                            got = True
                        except parglare.exceptions.ParglareError:
                            got = False
                        except BudgetExceeded:
                            continue
                        res["evaluations"] += 1
                        st["pairs"] += 1
                        res["nontrivial"].append(h16(case))
                        if got != plain:
                            res["violations"].append({"kind": "layout-changes-acceptance", "case": case,
                                                      "observed": got, "expected": plain})
    return res


_P0 = {}


def p0_accepts(g, kind, text, combo):
    """Is the token sequence a sentence (same grammar, ws=None, tokens separated by nothing)? None if the
    concatenation would tokenise differently (then the comparison says nothing)."""
    key = (id(g), kind)
    if key not in _P0:
        _P0[key] = Parser(g, ws=None, build_tree=True) if kind == "LR" else GLRParser(g, ws=None)
    p0 = _P0[key]
    try:
        with budget(1):
            r = p0.parse(text)
    except parglare.exceptions.ParglareError:
        return False
    except BudgetExceeded:
        return None
    t = r if kind == "LR" else r[0]
    leaves = []

    def walk(n):
        if n.is_term():
            leaves.append(n.value)
        else:
            for c in n.children:
                walk(c)
    walk(t)
    return True if leaves == list(combo) else None


def observe(p, num, text, is_glr):
    """(kind, shape, token sequence / token index of the error)."""
    try:
        with budget(0.5):
            r = p.parse(text)
            if is_glr:
                n = r.solutions
                t = r[0]
                shape = (n, re.sub(r"\((N|L) (\d+) \d+ \d+", r"(\1 \2", tree_sexp(num, t)))
            else:
                shape = (1, re.sub(r"\((N|L) (\d+) \d+ \d+", r"(\1 \2", tree_sexp(num, r)))
        return ("ok", shape)
    except parglare.SyntaxError as e:
        pos = e.location.start_position
        # token index = number of non-layout characters before the error position
        return ("syntax", pos)
    except DisambiguationError:
        return ("disamb", 0)
    except parglare.exceptions.LoopError:
        return ("loop", 0)
    except BudgetExceeded:
        return ("timeout", 0)


def token_index(text, pos, layout_spans):
    """Number of token characters before `pos` (layout removed)."""
    return sum(1 for i in range(min(pos, len(text))) if not layout_spans[i])


def mark_layout(text, mode):
    """Which characters are layout, for inputs we generated ourselves (single-char tokens a-z)."""
    return [not ch.isalpha() or False for ch in text] if mode != "comment" and mode != "block" else None


def run_unit(u):
    res = {"evaluations": 0, "nontrivial": [], "samples": [], "violations": [], "disagreements": [],
           "stats": {"pairs": 0, "ws_vs_layout": 0, "skip_tables": 0, "modes": {}, "traces": 0, "build_errors": {}}}
    rng = random.Random(u["seed"])
    st = res["stats"]
    if u.get("kind") == "custom-ws":
        return run_custom_ws(u, res)
    if u.get("kind") == "slash":
        return run_slash(u, res)
    for sj in u["specs"]:
        spec = gen.GSpec.from_json(sj)
        base = list(gen.token_strings(spec, u["maxtok"]))[:60]
        for mode in (None, "ws", "ws1", "comment", "block")[: (5 if len(base) < 40 else 3)]:
            s2 = gen.GSpec(spec.rules, spec.terms, layout=mode)
            gtxt = s2.text()
            try:
                g = Grammar.from_string(gtxt)
            except Exception as e:
                bump(st["build_errors"], type(e).__name__)
                continue
            num = Numbering(g)
            fillers = gen.LAYOUTS[mode][2] if mode else [" ", "  ", "\n", "\t "]
            bump(st["modes"], mode or "ws-param")
            parsers = []
            try:
                parsers.append(("LR", Parser(g, build_tree=True), False))
            except (SRConflicts, RRConflicts):
                pass
            except Exception as e:
                bump(st["build_errors"], type(e).__name__)
            try:
                parsers.append(("GLR", GLRParser(g), True))
            except Exception as e:
                bump(st["build_errors"], type(e).__name__)
            # SLR tables: FOLLOW-based reductions (the layout sub-parser's table is built first)
            try:
                parsers.append(("LR-SLR", Parser(g, build_tree=True, tables=parglare.SLR), False))
            except (SRConflicts, RRConflicts):
                pass
            except Exception as e:
                bump(st["build_errors"], type(e).__name__)
            try:
                parsers.append(("GLR-SLR", GLRParser(g, tables=parglare.SLR), True))
            except Exception as e:
                bump(st["build_errors"], type(e).__name__)
            for pname, p, is_glr in parsers:
                # model skip table vs implementation (ws parameter only)
                if mode is None and pname == "LR":
                    b = Batch()
                    checks = []
                    for t in base[::6]:
                        text = gen.with_layout(rng, t, fillers)
                        q = b.add("skipws", len(p.ws), [ord(c) for c in p.ws], len(text), [ord(c) for c in text])
                        checks.append((text, q, skip_table(p, text)))
                    out = b.run()
                    for text, q, sk in checks:
                        st["skip_tables"] += 1
                        if out[q] != "skipws " + " ".join(map(str, sk)):
                            res["disagreements"].append({"case": {"input": text, "ws": p.ws}, "model": out[q][:200],
                                                         "impl": " ".join(map(str, sk))[:200], "what": "skip table"})
                n_timeouts = 0
                for t in base:
                    if n_timeouts >= 3:
                        bump(st, "parsers_dropped_after_timeouts")
                        break           # diverging parser (cyclic grammar): not this property's subject
                    a = t
                    b_ = gen.with_layout(rng, t, fillers)
                    c_ = gen.with_layout(rng, t, fillers)
                    oa = observe(p, num, a, is_glr)
                    for other in (b_, c_):
                        if other == a:
                            continue
                        case = {"grammar": gtxt, "parser": pname, "layout": mode or "ws-param",
                                "input": a, "relayout": other}
                        ob = observe(p, num, other, is_glr)
                        res["evaluations"] += 1
                        st["pairs"] += 1
                        if "timeout" in (oa[0], ob[0]):
                            n_timeouts += 1
                            continue
                        if oa[0] != ob[0]:
                            res["violations"].append({"kind": "layout-changes-acceptance", "case": case,
                                                      "observed": [oa[0], ob[0]]})
                        elif oa[0] == "ok" and oa[1] != ob[1]:
                            res["violations"].append({"kind": "layout-changes-the-parse", "case": case,
                                                      "observed": [str(oa[1])[:150], str(ob[1])[:150]]})
                        elif oa[0] == "syntax":
                            # error at the same token index: map both positions to "token characters before"
                            ia = sum(1 for ch in a[:oa[1]] if ch.isalpha() and ch.islower())
                            ib = count_tokens_before(other, ob[1], mode)
                            if ia != ib:
                                res["violations"].append({"kind": "layout-moves-the-error", "case": case,
                                                          "observed": [oa[1], ob[1], ia, ib]})
                        if len(t) >= 2:
                            res["nontrivial"].append(h16(case))
                        if len(res["samples"]) < 2 and len(t) >= 3:
                            res["samples"].append({"case": case, "observed": str(ob)[:120]})
        # ws parameter vs LAYOUT rule matching runs of ws characters
        try:
            g0 = Grammar.from_string(spec.text())
            n0 = Numbering(g0)
        except Exception:
            continue
        for lay in ("ws", "ws1"):
            try:
                g1 = Grammar.from_string(gen.GSpec(spec.rules, spec.terms, layout=lay).text())
                n1 = Numbering(g1)
                pairs = [(Parser(g0, build_tree=True), Parser(g1, build_tree=True), False)]
            except (SRConflicts, RRConflicts):
                pairs = []
            except Exception as e:
                bump(st["build_errors"], type(e).__name__)
                continue
            try:
                pairs.append((GLRParser(g0), GLRParser(g1), True))
            except Exception:
                pass
            try:
                pairs.append((Parser(g0, build_tree=True, tables=parglare.SLR),
                              Parser(g1, build_tree=True, tables=parglare.SLR), False))
            except (SRConflicts, RRConflicts):
                pass
            except Exception as e:
                bump(st["build_errors"], type(e).__name__)
            try:
                pairs.append((GLRParser(g0, tables=parglare.SLR), GLRParser(g1, tables=parglare.SLR), True))
            except Exception:
                pass
            for p0, p1, is_glr in pairs:
                n_timeouts = 0
                for t in base[::2]:
                    if n_timeouts >= 3:
                        break
                    text = gen.with_layout(rng, t, [" ", "  ", "\n", "\t "])
                    case = {"grammar": spec.text(), "layout_rule": lay, "parser": "GLR" if is_glr else "LR",
                            "input": text}
                    r0 = full_observe(p0, n0, text, is_glr)
                    r1 = full_observe(p1, n1, text, is_glr)
                    res["evaluations"] += 1
                    st["ws_vs_layout"] += 1
                    if "timeout" in (r0[0], r1[0]):
                        n_timeouts += 1
                    if r0 != r1 and "timeout" not in (r0[0], r1[0]):
                        res["violations"].append({"kind": "layout-rule-differs-from-ws-parameter", "case": case,
                                                  "observed": [str(r1)[:200]], "expected": [str(r0)[:200]]})
    res["traces"] = st["skip_tables"]
    return res


def count_tokens_before(text, pos, mode):
    """Token characters (lower-case letters outside comments) before `pos`."""
    n = 0
    i = 0
    depth = 0
    while i < min(pos, len(text)):
        ch = text[i]
        if mode == "comment" and ch == "#":
            j = text.find("\n", i)
            i = len(text) if j < 0 else j
            continue
        if mode == "block" and text.startswith("/*", i):
            depth += 1
            i += 2
            continue
        if mode == "block" and depth and text.startswith("*/", i):
            depth -= 1
            i += 2
            continue
        if depth == 0 and ch.isalpha() and ch.islower():
            n += 1
        i += 1
    return n


def full_observe(p, num, text, is_glr):
    """Result including node positions and layout_content (names of the LAYOUT symbols differ, so
    trees are rendered through terminal/production ids of the main grammar, which coincide)."""
    def walk(n):
        if n.is_term():
            return ("L", n.symbol.name, n.start_position, n.end_position, n.layout_content)
        return ("N", n.production.symbol.name, n.start_position, n.end_position,
                tuple(walk(c) for c in n))
    try:
        with budget(0.5):
            r = p.parse(text)
            if is_glr:
                return ("ok", r.solutions, walk(r[0]))
            return ("ok", 1, walk(r))
    except parglare.SyntaxError as e:
        return ("syntax", e.location.start_position)
    except DisambiguationError:
        return ("disamb",)
    except parglare.exceptions.LoopError:
        return ("loop",)
    except BudgetExceeded:
        return ("timeout",)

"""C15 — parsers are reusable and grammars are not corrupted by building parsers."""
import random

import parglare
from parglare import Grammar, Parser, GLRParser
from parglare.exceptions import SRConflicts, RRConflicts, DisambiguationError, GrammarError

import gen
from pcommon import *

MANIFEST_ENTRY = {
    "category": "proof",
    "text": "Lean 4 theorems about a model of the mutable footprint: parse assigns every per-parse field before "
            "reading it; a build swaps production 0, computes (or fails) and restores it, and caches FIRST as a "
            "function of the grammar; hence after ANY history of parses and builds the probe parse/build equal "
            "those on fresh objects (C15_history_independent). Harness: random histories (<= 6 operations) on live "
            "Grammar/Parser/GLRParser objects over {parse sentence, parse non-sentence, parse with recovery, parse "
            "raising inside an action or a recognizer, build another parser (LR|GLR, LALR|SLR, with or without a "
            "LAYOUT rule, other start of layout), failed build (conflicts)} followed by probes compared with "
            "fresh objects built from the same text, options and actions; grammar.productions[0].rhs and the tables "
            "of later builds compared as well",
    "note": "trusted: Lean kernel; the footprint model is an abstraction of the code (which fields exist and where "
            "they are written is read off the source, not extracted); exceptions thrown by callbacks in the middle "
            "of a parse and module-level globals are exercised by the harness only",
    "technique": "Lean 4 proof (history induction over the footprint model) + live-object history differential",
}

PROP = "C15"
LEVEL = "proof"
THEOREMS = ["C15_parse_reinit", "C15_build_restores", "C15_build_result_independent", "C15_history_independent"]
META = {
    "rule": "cases = (grammar, history of <= 6 operations on live objects, probe inputs); non-trivial = history with "
            "a failed parse, a recovery, a raising callback or a failed build; distinct by (grammar, history)",
    "explanation": "see level text",
    "trusted_base": [],
    "assumptions": [],
}


class Boom(Exception):
    pass


def units(tier):
    rng = random.Random(seed())
    specs, _ = small_specs(tier, rng, allow_cyclic=False, nrand_quick=60, nrand_thorough=800,
                           chains_quick=10, chains_thorough=150, fixed_quick=80, fixed_thorough=1200)
    specs = specs[:: (2 if tier == "quick" else 1)]
    us = [{"specs": [s.to_json() for s in ch], "seed": seed() * 1000 + i, "nhist": 3 if tier == "quick" else 6}
          for i, ch in enumerate(chunks(specs, 30))]
    us += [{"kind": "forked", "seed": seed() * 1000 + 900 + i, "nhist": 40 if tier == "quick" else 400}
           for i in range(2 if tier == "quick" else 8)]
    return us


def make_actions(spec, state):
    """Recording actions; when state['boom'] is set the action of the start symbol raises."""
    def mk(name):
        def act(context, nodes):
            if state.get("boom") == name:
                raise Boom()
            # per-parse state kept where the documentation says to keep it: `extra` is a fresh dict
            # for every parse() that is not given one
            ex = getattr(context, "extra", None)
            n = None
            if isinstance(ex, dict):
                n = ex.get("count", 0)
                ex["count"] = n + 1
            return [name, nodes, n]
        return act
    return {n: mk(n) for n in spec.nonterminals()}


def outcome(p, text):
    try:
        with budget(2):
            r = p.parse(text)
            if isinstance(p, GLRParser):
                n = r.solutions
                return ("ok", n, repr(p.call_actions(r[0])) if n >= 1 and n < 50 else None)
            return ("ok", repr(r))
    except parglare.SyntaxError as e:
        return ("syntax", e.location.start_position)
    except DisambiguationError:
        return ("disamb",)
    except Boom:
        return ("boom",)
    except parglare.exceptions.LoopError:
        return ("loop",)
    except BudgetExceeded:
        return ("timeout",)
    except Exception as e:
        return ("raises", type(e).__name__)


def table_sig(num, p):
    return tuple(enc_table(num, p.table))


def build(kind, g, tables, acts, recovery=False):
    cls = Parser if kind == "LR" else GLRParser
    return cls(g, tables=tables, actions=acts, error_recovery=recovery)


# GLR parses aborted in the middle of a forked frontier: the heads diverge after a reduce/reduce conflict and
# expect different custom terminals; a recognizer (or an action, or the dynamic filter) raises for some values
# only, so the exception comes while other heads of the frontier have already been looked at
FORKED = [
    ("S: A 'b' dec | B 'b' byte;\nA: 'a';\nB: 'a';\nterminals\ndec: ;\nbyte: ;\n",
     ["a b 7", "a b 300", "a b 0", "a b 999 ", "a b", "a b x", "a b 12 3"]),
    ("S: A x 'c' | B y 'd' | A y 'e';\nA: 'a';\nB: 'a';\nterminals\nx: ;\ny: ;\n",
     ["a 1 c", "a 1 d", "a 1 e", "a 777 c", "a 777 d", "a 5", "a 777"]),
]


def forked_recognizers(raise_above):
    import re
    num_re = re.compile(r"\d+")

    def plain(inp, pos):
        m = num_re.match(inp, pos)
        return m.group() if m else None

    def strict(inp, pos):
        m = num_re.match(inp, pos)
        if m and int(m.group()) > raise_above:
            raise Boom()
        return m.group() if m else None
    return plain, strict


def run_forked(u, res):
    st = res["stats"]
    rng = random.Random(u["seed"])
    for gtxt, pool in FORKED:
        names = [ln.split(":")[0] for ln in gtxt.split("terminals\n")[1].split("\n") if ln.endswith(": ;")]
        for h in range(u["nhist"]):
            plain, strict = forked_recognizers(255)
            for kind in ("GLR", "LR"):
                def mk():
                    g = Grammar.from_string(gtxt, recognizers={names[0]: plain, names[1]: strict})
                    return GLRParser(g) if kind == "GLR" else Parser(g)
                try:
                    p, fresh = mk(), mk()
                except (SRConflicts, RRConflicts):
                    continue
                ops = [rng.choice(pool) for _ in range(rng.randint(1, 5))]
                for text in ops:
                    outcome(p, text)
                st["histories"] += 1
                case = {"grammar": gtxt, "parser": kind, "history": ["parse %r" % t for t in ops],
                        "recognizers": "%s: digits; %s: digits, raises above 255" % (names[0], names[1])}
                for text in pool:
                    a, b = outcome(p, text), outcome(fresh, text)
                    res["evaluations"] += 1
                    st["probes"] += 1
                    if a != b:
                        res["violations"].append({"kind": "used-parser-differs-from-fresh-parser",
                                                  "case": dict(case, input=text), "observed": list(a), "expected": list(b)})
                        break
                res["nontrivial"].append(h16(case))
    return res


def run_unit(u):
    res = {"evaluations": 0, "nontrivial": [], "samples": [], "violations": [], "disagreements": [],
           "stats": {"histories": 0, "ops": {}, "probes": 0, "failed_builds": 0, "build_errors": {}}}
    if u.get("kind") == "forked":
        return run_forked(u, res)
    rng = random.Random(u["seed"])
    st = res["stats"]
    for sj in u["specs"]:
        spec0 = gen.GSpec.from_json(sj)
        single = all(k == "str" and len(v) == 1 for k, v in spec0.terms.values())
        for h in range(u["nhist"]):
            layout = rng.choice([None, None, "ws", "comment"]) if single else None
            spec = gen.GSpec(spec0.rules, spec0.terms, layout=layout)
            gtxt = spec.text()
            inputs = list(gen.token_strings(spec0, 3))[:30]
            if not inputs:
                continue
            kind = rng.choice(["LR", "GLR"])
            tables = rng.choice([parglare.LALR, parglare.SLR])
            state, fstate = {}, {}
            try:
                g = Grammar.from_string(gtxt)
                p = build(kind, g, tables, make_actions(spec0, state))
                fresh_g = Grammar.from_string(gtxt)
                fresh = build(kind, fresh_g, tables, make_actions(spec0, fstate))
            except (SRConflicts, RRConflicts):
                continue
            except Exception as e:
                bump(st["build_errors"], type(e).__name__)
                continue
            num = Numbering(g)
            rhs0 = [s.name for s in g.productions[0].rhs]
            ops = []
            interesting = False
            for step in range(rng.randint(1, 6)):
                op = rng.choice(["parse", "parse", "parse-bad", "recover", "boom", "build", "build-other",
                                 "failed-build", "rec-boom"])
                bump(st["ops"], op)
                try:
                    if op == "parse":
                        outcome(p, rng.choice(inputs))
                    elif op == "parse-bad":
                        outcome(p, rng.choice(inputs) + "?")
                        interesting = True
                    elif op == "recover":
                        rp = build(kind, g, tables, make_actions(spec0, state), recovery=True)
                        outcome(rp, rng.choice(inputs) + "?" + rng.choice(inputs))
                        interesting = True
                    elif op == "boom":
                        state["boom"] = rng.choice(spec0.nonterminals())
                        outcome(p, rng.choice(inputs))
                        state.pop("boom", None)
                        interesting = True
                    elif op == "rec-boom":
                        # a recognizer that raises in the middle of a parse (custom recognizer via override)
                        t = rng.choice([t for t in g.terminals.values() if t.name not in ("STOP", "EMPTY")])
                        old = t.recognizer

                        def bad(inp, pos, _old=old):
                            raise Boom()
                        t.recognizer = bad
                        outcome(p, rng.choice(inputs))
                        t.recognizer = old
                        interesting = True
                    elif op == "build":
                        build(rng.choice(["LR", "GLR"]), g, rng.choice([parglare.LALR, parglare.SLR]),
                              make_actions(spec0, state))
                    elif op == "build-other":
                        # other options (and, with a LAYOUT rule, the layout sub-parser built first)
                        GLRParser(g, tables=rng.choice([parglare.LALR, parglare.SLR]),
                                  actions=make_actions(spec0, state), prefer_shifts=True,
                                  lexical_disambiguation=True)
                    elif op == "failed-build":
                        try:
                            Parser(g, prefer_shifts=False, prefer_shifts_over_empty=False, tables=tables,
                                   actions=make_actions(spec0, state))
                        except (SRConflicts, RRConflicts):
                            st["failed_builds"] += 1
                            interesting = True
                except (SRConflicts, RRConflicts):
                    pass
                except Exception as e:
                    res["violations"].append({"kind": "history-operation-raises", "case": {"grammar": gtxt, "history": ops + [op]},
                                              "observed": type(e).__name__ + ": " + str(e)[:100]})
                ops.append(op)
            st["histories"] += 1
            case = {"grammar": gtxt, "parser": kind, "tables": "LALR" if tables == parglare.LALR else "SLR",
                    "history": ops}
            if [s.name for s in g.productions[0].rhs] != rhs0:
                res["violations"].append({"kind": "augmented-production-not-restored", "case": case,
                                          "observed": [s.name for s in g.productions[0].rhs], "expected": rhs0})
            # probes on the used instance vs fresh objects
            for text in inputs[:12] + [inputs[0] + "?"]:
                a, b = outcome(p, text), outcome(fresh, text)
                res["evaluations"] += 1
                st["probes"] += 1
                if a != b and "timeout" not in (a[0], b[0]):
                    res["violations"].append({"kind": "used-parser-differs-from-fresh-parser",
                                              "case": dict(case, input=text), "observed": list(a), "expected": list(b)})
                    break
            # FIRST/FOLLOW as a later construction would see them on the used grammar equal those of a
            # grammar object nothing has been built from
            try:
                from parglare.tables import first as first_of, follow as follow_of

                def setsig(gr):
                    f = first_of(gr)
                    fo = follow_of(gr, f)
                    return (sorted((k.name, sorted(x.name for x in v)) for k, v in f.items()),
                            sorted((k.name, sorted(x.name for x in v)) for k, v in fo.items()))
                a, b = setsig(g), setsig(Grammar.from_string(gtxt))
                res["evaluations"] += 1
                if a != b:
                    diff = [(x, y) for x, y in zip(a[0] + a[1], b[0] + b[1]) if x != y][:3]
                    res["violations"].append({"kind": "first-follow-sets-of-used-grammar-differ-from-fresh-grammar",
                                              "case": case, "observed": str([d[0] for d in diff])[:300],
                                              "expected": str([d[1] for d in diff])[:300]})
            except ImportError:
                pass
            # a later build on the used grammar -- either table kind, either parser kind -- gives the same
            # table, or the same failure, as on a fresh grammar
            for kind2, tables2 in ((kind, tables), ("LR", parglare.SLR), ("LR", parglare.LALR), ("GLR", parglare.SLR)):
                def sig(gr):
                    try:
                        pp = build(kind2, gr, tables2, make_actions(spec0, {}))
                        return table_sig(Numbering(pp.grammar), pp)
                    except (SRConflicts, RRConflicts) as e:
                        return type(e).__name__
                a, b = sig(g), sig(Grammar.from_string(gtxt))
                res["evaluations"] += 1
                if a != b:
                    res["violations"].append({"kind": "table-built-after-history-differs-from-fresh-table",
                                              "case": dict(case, later_build=[kind2, "LALR" if tables2 == parglare.LALR else "SLR"]),
                                              "observed": a if isinstance(a, str) else "table", "expected": b if isinstance(b, str) else "table"})
                    break
            if interesting:
                res["nontrivial"].append(h16(case))
            if len(res["samples"]) < 2 and interesting:
                res["samples"].append(case)
    return res

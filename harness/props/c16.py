"""C16 — tables and forests are deterministic across processes and hash seeds."""
import json
import os
import random
import subprocess
import sys
import tempfile

import parglare
from parglare import Grammar
from parglare.closure import LR_0, LR_1
from parglare.tables import create_table

import gen
from pcommon import *
from enc import enc_ggrammar
from common import REPO, VERIF

MANIFEST_ENTRY = {
    "category": "proof",
    "text": "The table model computes with canonical sets (bit masks) and is a function of the grammar and options; "
            "Lean 4 theorem: the action sort of the model is invariant under every permutation of its input "
            "(C16_sort_perm_invariant: any insertion order of the dict produces the same sorted list when keys are "
            "totally ordered), and the per-grammar key order is checked total by the driver. Correspondence: the "
            "implementation table equals the model table in-process, and in fresh interpreters under several "
            "PYTHONHASHSEED values the sha256 of the serialised table + conflict report and of the ordered tree "
            "list (first 40 trees, count, error attributes) are identical, for grammars with reordered/colliding "
            "symbol names and ambiguous inputs",
    "note": "trusted: Lean kernel; CPython's hash-seeded iteration is runtime behaviour: sampled over seeds, not "
            "proved; the GSS driver's iteration orders are not modelled",
    "technique": "Lean 4 proof (permutation invariance of the sort) + exact model correspondence + cross-process hashes",
}

PROP = "C16"
LEVEL = "proof"
THEOREMS = ["C16_sort_perm_invariant", "C16_sort_sorted", "C16_sort_perm"]
META = {
    "rule": "cases = (grammar with shuffled/renamed symbols, 4 option combinations, inputs with ambiguous forests) x "
            "PYTHONHASHSEED values in fresh processes; non-trivial = grammar with a multi-action cell or an input "
            "with >= 2 trees; distinct by grammar text",
    "explanation": "see level text",
    "trusted_base": ["sha256 comparison across subprocesses"],
    "assumptions": [],
}

NAMES = ["S", "Aa", "BB", "Ab", "aB", "x1", "Zz", "q", "Expr", "T_0"]


def rename(spec, rng):
    """Same grammar with other symbol names (different hashes, different sort order)."""
    nts = spec.nonterminals()
    pool = rng.sample(NAMES[1:], len(nts) - 1)
    m = {nts[0]: "S"}
    for n, nn in zip(nts[1:], pool):
        m[n] = nn
    tn = list(spec.terms)
    tpool = rng.sample(["t_a", "TB", "c9", "dd", "e"], len(tn))
    tm = dict(zip(tn, tpool))
    rules = [(m[l], [m.get(x, tm.get(x, x)) for x in r]) for l, r in spec.rules]
    return gen.GSpec(rules, {tm[k]: v for k, v in spec.terms.items()})


# grammars split over files whose terminals have the same local names (the fully qualified name is the
# only thing that distinguishes them in the final tie-break of the action sort)
MODULAR = [
    {"root": "main.pg", "inputs": ["q,x", "q;y", "q.", "q!", "q"],
     "files": {"main.pg": "import 'l.pg' as l;\nimport 'r.pg' as r;\nS: X l.SEP 'x' | X r.SEP 'y' | X l.END | X r.END;\nX: 'q';\n",
               "l.pg": "L: SEP END;\nterminals\nSEP: ',';\nEND: /\\./;\n",
               "r.pg": "R: SEP END;\nterminals\nSEP: ';';\nEND: /!/;\n"}},
    {"root": "main.pg", "inputs": ["a+b", "a-b", "a", "ab"],
     "files": {"main.pg": "import 'm1.pg' as m1;\nimport 'm2.pg' as m2;\nS: A m1.OP A | A m2.OP A | A;\nA: m1.ID | m2.ID;\n",
               "m1.pg": "X: ID OP;\nterminals\nOP: '+';\nID: /a/;\n",
               "m2.pg": "X: ID OP;\nterminals\nOP: '-';\nID: /b/;\n"}},
    {"root": "main.pg", "inputs": ["kxk", "kyk", "kk"],
     "files": {"main.pg": "import 'p.pg' as p;\nimport 'q.pg' as q;\nS: K p.T K | K q.T K | K K;\nK: 'k';\n",
               "p.pg": "P: T;\nterminals\nT: 'x';\n", "q.pg": "Q: T;\nterminals\nT: 'y';\n"}},
]


def units(tier):
    rng = random.Random(seed())
    specs = list(gen.enum_grammars(2, 2, 3, 2))[:: (12 if tier == "quick" else 2)]
    specs += gen.fixed_stream(40 if tier == "quick" else 400)
    for i in range(30 if tier == "quick" else 300):
        s = gen.random_grammar(rng, overlap=(i % 4 == 0))
        if s:
            specs.append(s)
    out = []
    for s in specs:
        out.append(s)
        if len(s.nonterminals()) <= len(NAMES) - 1 and len(s.terms) <= 5:
            out.append(rename(s, rng))
    seeds = [0, 1, 2, 3, 17, 4242] if tier == "quick" else list(range(0, 32))
    us = [{"specs": [s.to_json() for s in ch], "seeds": seeds, "seed": seed() * 1000 + i}
          for i, ch in enumerate(chunks(out, 24))]
    us.append({"specs": [], "modular": True, "seeds": list(range(12)) if tier == "quick" else list(range(32)),
               "seed": seed()})
    return us


def run_unit(u):
    res = {"evaluations": 0, "nontrivial": [], "samples": [], "violations": [], "disagreements": [],
           "stats": {"grammars": 0, "processes": 0, "hash_lines": 0, "traces": 0, "build_errors": {}}}
    st = res["stats"]
    cases = []
    for sj in u["specs"]:
        spec = gen.GSpec.from_json(sj)
        cases.append({"grammar": spec.text(), "inputs": list(gen.token_strings(spec, 4))[:25]})
    if u.get("modular"):
        cases = [dict(c, grammar=json.dumps(c["files"], sort_keys=True)) for c in MODULAR]
    # in-process: implementation table == model table (the model is a function of the grammar)
    for c in ([] if u.get("modular") else cases):
        try:
            g = Grammar.from_string(c["grammar"])
        except Exception as e:
            bump(st["build_errors"], type(e).__name__)
            continue
        num = Numbering(g)
        b = Batch()
        b.add("ggrammar", enc_ggrammar(num))
        qk = b.add("keysok")
        checks = []
        for lr1 in (1, 0):
            for ps in (0, 1):
                t = create_table(g, LR_1 if lr1 else LR_0, 1, bool(ps), bool(ps))
                enc = enc_table(num, t)
                want = "table " + " ".join(str(x) for x in enc[:len(enc) - 1 - 2 * len(num.terms)])
                checks.append((b.add("tablegen", lr1, ps, ps, 1, 1, 4000), want, lr1, ps))
        out = b.run()
        st["traces"] += len(checks)
        if out[qk] != "keysok 1":
            res["violations"].append({"kind": "action-sort-keys-not-totally-ordered",
                                      "case": {"grammar": c["grammar"]}, "observed": out[qk]})
        for q, want, lr1, ps in checks:
            if out[q] != want:
                res["disagreements"].append({"case": {"grammar": c["grammar"], "lr1": lr1, "prefer_shifts": ps},
                                             "model": out[q][:300], "impl": want[:300]})
    # fresh processes under several hash seeds
    fd, path = tempfile.mkstemp(prefix="pgverif-c16-", suffix=".json")
    os.close(fd)
    try:
        json.dump(cases, open(path, "w"))
        outs = {}
        for hs in u["seeds"]:
            env = dict(os.environ, PYTHONHASHSEED=str(hs))
            r = subprocess.run([sys.executable, os.path.join(VERIF, "harness", "c16_worker.py"), REPO, path],
                               capture_output=True, text=True, env=env, timeout=600)
            st["processes"] += 1
            outs[hs] = r.stdout.strip().split("\n")
        base = outs[u["seeds"][0]]
        for i, c in enumerate(cases):
            res["evaluations"] += 1
            st["grammars"] += 1
            lines = {hs: (outs[hs][i] if i < len(outs[hs]) else "missing") for hs in u["seeds"]}
            st["hash_lines"] += len(lines)
            if len(set(lines.values())) != 1:
                diff = [hs for hs in u["seeds"] if lines[hs] != lines[u["seeds"][0]]]
                res["violations"].append({"kind": "result-depends-on-hash-seed", "case": {"grammar": c["grammar"]},
                                          "observed": {"seeds_differing_from_first": diff,
                                                       "first": lines[u["seeds"][0]][:120],
                                                       "other": lines[diff[0]][:120]}})
            res["nontrivial"].append(h16(c["grammar"]))
            if len(res["samples"]) < 1:
                res["samples"].append({"grammar": c["grammar"], "hashes": lines[u["seeds"][0]][:100]})
    finally:
        os.unlink(path)
    res["traces"] = st["traces"]
    return res

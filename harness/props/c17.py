"""C17 — with consume_input off, results parse sentence prefixes; GLR finds them all."""
import random

import parglare
from parglare import Grammar, Parser, GLRParser
from parglare.exceptions import SRConflicts, RRConflicts, DisambiguationError

import gen
from pcommon import *
from enc import ForestDump, forest_alt_keys, oracle_alt_keys, glr_alt_set, parse_glr_reply, enc_tree

MANIFEST_ENTRY = {
    "category": "proof",
    "text": "Lean 4 theorem C17_lr_prefix_sound (for every wf table, input, recognizer behaviour: whatever the LR "
            "model returns with consume_input off derives a prefix ending at a token boundary) + verified prefix "
            "oracle; C17_glr_model_prefix_sound / C17_glr_model_forest_prefix_sound: the same for the GLR driver model (a forest answer "
            "implies a sentence prefix and every tree of its packed forest derives a prefix; the implementation's first "
            "trees are looked up in that forest by the driver, "
            "for every wf table, input with idempotent layout skipping, fuel); the LR model is run against "
            "Parser(consume_input=False) and the GLR model against GLRParser(consume_input=False); GLR forests are compared with the "
            "complete SPPF over all sentence prefixes computed by the Lean spec, and SyntaxError is allowed only "
            "when the verified oracle finds no sentence prefix",
    "note": "trusted: Lean kernel, LR/scanner models validated by correspondence, SPPF usefulness closure is "
            "executable spec; GLR completeness over prefixes is decided on the explored scope; inherits findings "
            "F-GLR-1/F-GLR-2",
    "technique": "Lean 4 proof (LR soundness invariant) + verified-oracle comparison",
}

PROP = "C17"
LEVEL = "proof"
THEOREMS = ["C17_lr_prefix_sound", "C17_prefix_oracle_correct", "C17_path_prefix_sound", "C17_reference_prefix_sppf_exact",
            "C17_glr_model_prefix_sound", "C17_glr_model_forest_prefix_sound",
            "C17_tree_found_in_glr_model_forest_is_prefix_parse"]
META = {
    "rule": "cases = (acyclic grammar, LR or GLR with lexical_disambiguation on/off, consume_input=False, input = "
            "sentence followed by arbitrary continuation); non-trivial = input with >= 2 sentence prefixes or a "
            "non-sentence with a sentence prefix; distinct by (grammar, parser, input)",
    "explanation": "LR: model vs implementation + verified prefix-derivation checker on the implementation tree; "
                   "GLR: packed alternatives vs complete SPPF over all sentence prefixes",
    "trusted_base": [],
    "assumptions": [],
}


def units(tier):
    rng = random.Random(seed())
    specs, _ = small_specs(tier, rng, allow_cyclic=False, nrand_quick=60, nrand_thorough=500, chains_quick=30, chains_thorough=300, fixed_quick=150, fixed_thorough=1500)
    maxtok = 4 if tier == "quick" else 5
    return [{"specs": [s.to_json() for s in ch], "maxtok": maxtok, "seed": seed() * 1000 + i}
            for i, ch in enumerate(chunks(specs, 48))]


def run_unit(u):
    res = {"evaluations": 0, "nontrivial": [], "samples": [], "violations": [], "disagreements": [],
           "stats": {"lr_results": 0, "glr_forests": 0, "glr_rejects": 0, "multi_prefix": 0, "traces": 0,
                     "build_errors": {}}}
    rng = random.Random(u["seed"])
    st = res["stats"]
    for sj in u["specs"]:
        spec = gen.GSpec.from_json(sj)
        gtxt = spec.text()
        feats = sorted(gen.features(spec))
        try:
            g = Grammar.from_string(gtxt)
        except Exception as e:
            bump(st["build_errors"], type(e).__name__)
            continue
        num = Numbering(g)
        inputs = inputs_for(spec, u["maxtok"], rng)
        # ---- LR
        try:
            with budget(10):
                p = Parser(g, build_tree=True, consume_input=False)
        except (SRConflicts, RRConflicts):
            p = None
        except (Exception, BudgetExceeded) as e:
            bump(st["build_errors"], type(e).__name__)
            p = None
        if p is not None:
            b = Batch()
            b.add("grammar", enc_grammar(num))
            b.add("table", enc_table(num, p.table))
            checks = []
            for text in inputs:
                case = {"grammar": gtxt, "parser": "LR", "input": text}
                try:
                    with budget(5):
                        t = p.parse(text)
                    impl = ("ok", tree_sexp(num, t), t)
                except parglare.SyntaxError as e:
                    impl = ("syntax", err_pos(e), None)
                except DisambiguationError as e:
                    impl = ("disamb", 0, None)
                except BudgetExceeded:
                    impl = ("fuel", 0, None)
                except Exception as e:
                    res["violations"].append({"kind": "foreign-exception", "case": case,
                                              "observed": type(e).__name__})
                    continue
                res["evaluations"] += 1
                b.add("input", enc_input(num, p, text))
                qlr = b.add("lr", 0, 1, FUEL)
                qd = b.add("derives", 0, enc_tree(num, impl[2])) if impl[0] == "ok" else None
                checks.append((case, impl, qlr, qd))
            out = b.run()
            st["traces"] += len(checks)
            for case, impl, qlr, qd in checks:
                m = out[qlr]
                if impl[0] == "ok":
                    st["lr_results"] += 1
                    mp = m.split(" ", 3)
                    if not (mp[0] == "ok" and mp[3] == impl[1]):
                        res["disagreements"].append({"case": case, "model": m[:300], "impl": "ok " + impl[1][:300]})
                    if out[qd] != "derives 1":
                        res["violations"].append({"kind": "lr-result-is-not-a-prefix-derivation", "case": case,
                                                  "observed": impl[1]})
                elif impl[0] == "syntax":
                    if m != "syntax %d" % impl[1]:
                        res["disagreements"].append({"case": case, "model": m[:200], "impl": "syntax %d" % impl[1]})
                elif impl[0] == "fuel" and m != "fuel":
                    res["disagreements"].append({"case": case, "model": m[:200], "impl": "does not terminate"})
        # ---- GLR
        for lexdis in (False, True):
            try:
                with budget(10):
                    gp = GLRParser(g, consume_input=False, lexical_disambiguation=lexdis)
            except (Exception, BudgetExceeded) as e:
                bump(st["build_errors"], type(e).__name__)
                continue
            b = Batch()
            b.add("grammar", enc_grammar(num))
            b.add("table", enc_table(num, gp.table))
            checks = []
            for text in inputs:
                case = {"grammar": gtxt, "parser": "GLR", "lexical_disambiguation": lexdis, "input": text,
                        "features": feats}
                try:
                    with budget(5):
                        f = gp.parse(text)
                        d = ForestDump(num, f.result)
                    impl = ("forest", d)
                    impl_glr = glr_alt_set(num, f)
                    # the first trees as positioned objects: each derives a prefix (tree checker) and its root
                    # ends where its own last token ends (not where a longer sentence prefix ends)
                    ptrees = []
                    if not d.cyclic:
                        with budget(3):
                            ptrees = [f[i] for i in range(min(f.solutions, 6))]
                except parglare.SyntaxError as e:
                    impl = ("syntax", None)
                    impl_glr = "syntax"
                    ptrees = []
                except BudgetExceeded:
                    continue
                except Exception as e:
                    res["violations"].append({"kind": "foreign-exception", "case": case,
                                              "observed": type(e).__name__ + ": " + str(e)[:80]})
                    continue
                res["evaluations"] += 1
                b.add("input", enc_input(num, gp, text))
                qp = b.add("prefix", CHART_FUEL)
                qs = b.add("sppf", CHART_FUEL, 0)
                qf = b.add("sppf", CHART_FUEL, 1)
                for t in ptrees:
                    kids = [] if t.is_term() else list(t)
                    # trailing empty nodes are placed after the layout that follows (finding F-POS-3, C08):
                    # the extent of the root is compared on grammars without empty productions only
                    if not kids or "nullable" in feats:
                        continue
                    stack, ends = [kids[-1]], []
                    while stack:
                        x = stack.pop()
                        if x.is_term():
                            ends.append(x.end_position)
                        else:
                            stack.extend(list(x))
                    if ends and t.end_position != max(ends):
                        res["violations"].append({"kind": "prefix-tree-root-does-not-end-at-its-last-token",
                                                  "case": case, "observed": [t.start_position, t.end_position],
                                                  "expected": max(ends)})
                        break
                qpt = [b.add("derives", 0, enc_tree(num, t)) for t in ptrees]
                qg_ = b.add("glr", 4000, 0, 1 if lexdis else 0)
                # ... and is found in the packed forest of the model's run
                # (hypothesis of C17_tree_found_in_glr_model_forest_is_prefix_parse)
                qgt = [b.add("glrtree", enc_tree(num, t)) for t in ptrees]
                checks.append((case, impl, qp, qs, qf, skip_table(gp, text), qg_, impl_glr, qpt, qgt))
            out = b.run()
            st["traces"] += len(checks)
            for case, impl, qp, qs, qf, skip, qg, impl_glr, qpt, qgt in checks:
                lexdis_on = case["lexical_disambiguation"]
                for q in qgt:
                    if out[q] == "glrtree 1":
                        bump(st, "impl_trees_found_in_model_forest")
                    elif out[q] == "glrtree 0":
                        res["disagreements"].append({"case": case, "what": "a tree of the implementation's prefix forest "
                                                     "is not in the packed forest of the GLR driver model",
                                                     "impl": "tree", "model": "not found"})
                        break
                for q in qpt:
                    bump(st, "prefix_trees_checked")
                    if out[q] != "derives 1":
                        res["violations"].append({"kind": "prefix-forest-tree-is-not-a-derivation-of-a-prefix",
                                                  "case": case, "observed": out[q]})
                        break
                # the GLR driver model with consume_input off: acceptance and the exact set of packed alternatives
                mg = parse_glr_reply(out[qg])
                if isinstance(mg, str) and mg in ("ordersens", "fuel"):
                    bump(st, "glr_model_" + mg)
                    model_agrees = True
                else:
                    st["glr_model_compared"] = st.get("glr_model_compared", 0) + 1
                    model_agrees = (mg == impl_glr)
                    if not model_agrees:
                        res["disagreements"].append({"case": case, "what": "GLR driver model differs from GLRParser",
                                                     "impl": (impl_glr if isinstance(impl_glr, str) else "forest of %d alternatives" % len(impl_glr)),
                                                     "model": (mg if isinstance(mg, str) else "forest of %d alternatives" % len(mg))})
                full = oracle_alt_keys(num, skip, [int(x) for x in out[qf].split()[1:]]) \
                    if out[qf].startswith("sppf") and out[qf] != "sppf fuel" else set()
                if impl[0] == "syntax":
                    st["glr_rejects"] += 1
                    if out[qp] == "prefix 1":
                        v = {"kind": "glr-rejects-although-a-prefix-is-a-sentence", "case": case}
                        # F-PFX-1: with lexical disambiguation on, STOP loses against every matching
                        # real token (pinned by test_no_consume_input_multiple_trees); the whole input
                        # being a sentence is still required to be found
                        if lexdis_on and "lex-overlap" in case["features"]:
                            continue
                        if lexdis_on and not full:
                            v["attribution"] = "glr-prefix-lexdis-prefers-tokens"
                        elif spec.exhaustive:
                            v["fingerprint"] = h16(["F-GLR-1", gtxt, "prefix", case["lexical_disambiguation"],
                                                    strip_layout(case["input"])])
                        elif "nullable" in case["features"] and model_agrees:
                            v["attribution"] = "glr-nullable-loss"
                        res["violations"].append(v)
                    continue
                st["glr_forests"] += 1
                d = impl[1]
                if d.cyclic or not out[qs].startswith("sppf ") and out[qs] != "sppf":
                    continue
                flat = [int(x) for x in out[qs].split()[1:]]
                want = oracle_alt_keys(num, skip, flat)
                got, _ = forest_alt_keys(d)
                roots = {k[0] for k in want if k[0][0] == 2 * num.nt(g.productions[1].symbol)}
                missing, extra = want - got, got - want
                if len({k[0][1] for k in want if k[0][0] == 2 * num.nt(g.productions[1].symbol)
                        and k[0][1][0] != "e" and k[0][1][0] == skip[0]}) >= 2:
                    st["multi_prefix"] += 1
                    res["nontrivial"].append(h16(case))
                if lexdis_on and "lex-overlap" in case["features"]:
                    # lexical disambiguation prunes tokens by design on overlapping terminal sets:
                    # only the soundness direction is meaningful there
                    missing = set()
                if lexdis_on and missing and not (full - got):
                    res["violations"].append({"kind": "glr-misses-prefix-derivations", "case": case,
                                              "observed": "%d of %d packed alternatives absent" % (len(missing), len(want)),
                                              "attribution": "glr-prefix-lexdis-prefers-tokens"})
                    missing = set()
                if missing:
                    v = {"kind": "glr-misses-prefix-derivations", "case": case,
                         "observed": "%d of %d packed alternatives absent" % (len(missing), len(want)),
                         "missing": sorted(map(repr, missing))[:4]}
                    if spec.exhaustive:
                        v["fingerprint"] = h16(["F-GLR-2", gtxt, "prefix", case["lexical_disambiguation"],
                                                strip_layout(case["input"]), canon_keys(missing, case["input"])])
                    elif "nullable" in case["features"] and model_agrees:
                        v["attribution"] = "glr-nullable-loss"
                    res["violations"].append(v)
                if extra:
                    res["violations"].append({"kind": "glr-forest-has-non-prefix-derivation", "case": case,
                                              "observed": sorted(map(repr, extra))[:4]})
                if len(res["samples"]) < 2 and len(want) > 3:
                    res["samples"].append({"case": case, "complete": len(want), "forest": len(got)})
    res["traces"] = st["traces"]
    return res

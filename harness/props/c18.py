"""C18 — the dynamic disambiguation filter sees every marked decision and only those."""
import itertools
import random

import parglare
from parglare import Grammar, Parser, GLRParser, SHIFT, REDUCE
from parglare.exceptions import SRConflicts, RRConflicts, DynamicDisambiguationConflict

from pcommon import *

MANIFEST_ENTRY = {
    "category": "proof",
    "text": "Lean 4 theorems about the model of _dynamic_disambiguation for every cell, marking and filter: the "
            "filter is asked about exactly the marked decisions of the cell, a rejected action is not taken, an "
            "accepted or unmarked one is, an accept-all filter changes nothing, no marks means no calls. "
            "Harness: operator grammars with every subset of productions/operator terminals marked dynamic, "
            "filters {accept all, reject the reductions of one production, precedence-encoding}, LR and GLR: the "
            "recorded call trace (first call all None; later calls only SHIFT to a dynamic terminal or REDUCE of "
            "a dynamic production, with that production and len(rhs) sub-results), consequences of reject/accept "
            "on the result, accept-all = no filter, precedence filter = equivalent static priorities",
    "note": "trusted: Lean kernel; the model covers the per-cell filtering function, the drivers' use of it (LR "
            "stack results, GLR link creation and revisits) is checked through recorded traces on the explored "
            "scope",
    "technique": "Lean 4 proof (list induction over the cell) + recorded-trace oracle",
}

PROP = "C18"
LEVEL = "proof"
THEOREMS = ["C18_only_marked", "C18_every_marked", "C18_rejected_not_taken", "C18_accepted_taken",
            "C18_accept_all_identity", "C18_unmarked_untouched"]
META = {
    "rule": "cases = (operator grammar, subset of marks, filter, LR|GLR, expression); non-trivial = run in which "
            "the filter was called >= 2 times after initialisation; distinct by (grammar, filter, parser, input)",
    "explanation": "see level text",
    "trusted_base": [],
    "assumptions": [],
}

OPS = ["+", "*", "^"]
PRIO = {"+": 1, "*": 2, "^": 3}


def grammar(marks, k, static=False, rule_level=False):
    """marks: set of 'p<i>' (production i dynamic) and 't<i>' (operator terminal i dynamic).
    `rule_level`: the mark is written once on the rule (every production of the rule inherits it,
    the operand production too) instead of on every operator production."""
    alts = []
    for i in range(k):
        meta = []
        if static:
            meta = ["left", str(PRIO[OPS[i]])]
        if "p%d" % i in marks and not rule_level:
            meta.append("dynamic")
        alts.append("E op%d E%s" % (i, (" {%s}" % ", ".join(meta)) if meta else ""))
    alts.append("n")
    lines = [("E {dynamic}: " if rule_level else "E: ") + " | ".join(alts) + ";", "terminals", 'n: "n";']
    for i in range(k):
        lines.append('op%d: "%s"%s;' % (i, OPS[i], " {dynamic}" if "t%d" % i in marks else ""))
    return "\n".join(lines) + "\n"


def expressions(k, m):
    out = []
    for n in range(1, m + 1):
        for ops in itertools.product(range(k), repeat=n - 1):
            s = "n"
            for o in ops:
                s += OPS[o] + "n"
            out.append(s)
    return out


class Recorder:
    def __init__(self, decide):
        self.calls = []
        self.decide = decide

    def __call__(self, context, from_state, to_state, action, production, subresults):
        self.calls.append((from_state, to_state, action, production, subresults, context))
        if action is None:
            return None
        return self.decide(context, from_state, to_state, action, production, subresults)


def accept_all(*a):
    return True


def precedence_filter(context, from_state, to_state, action, production, subresults):
    """Fixed precedence + < * < ^, all left associative, decided dynamically."""
    op = context.token.symbol if action is SHIFT else context.token_ahead.symbol
    acts = from_state.actions[op]
    if action is SHIFT:
        reds = [a for a in acts if a.action is REDUCE]
        if not reds:
            return True
        red_op = reds[0].prod.rhs[1]
        return prio_of(op) > prio_of(red_op)
    red_op = production.rhs[1]
    return op.name == "STOP" or prio_of(op) <= prio_of(red_op)


def prio_of(sym):
    v = getattr(sym.recognizer, "value", None)
    return PRIO.get(v, 0)


def shape(n):
    if n.is_term():
        return "n"
    kids = list(n)
    if len(kids) == 1:
        return shape(kids[0])
    return "(%s %s %s)" % (kids[1].value, shape(kids[0]), shape(kids[2]))


def check_trace(res, case, rec):
    calls = rec.calls
    if not calls or any(x is not None for x in calls[0][:5]):
        res["violations"].append({"kind": "first-filter-call-is-not-all-none", "case": case})
        return False
    for fs, ts, action, production, sub, ctx in calls[1:]:
        if action is None:
            res["violations"].append({"kind": "initialisation-call-repeated-inside-a-parse", "case": case,
                                      "observed": [i for i, c in enumerate(calls) if c[2] is None][:8]})
            return False
        # the decision shown to the filter is one of the cell (from_state, lookahead) of the table
        la = getattr(ctx.token if action is SHIFT else ctx.token_ahead, "symbol", None)
        cell = fs.actions.get(la, []) if (la is not None and hasattr(fs, "actions")) else None
        if cell is not None:
            ok = any((a.action is SHIFT and a.state is ts) if action is SHIFT
                     else (a.action is REDUCE and a.prod is production) for a in cell)
            if not ok:
                res["violations"].append({"kind": "filter-arguments-are-not-a-decision-of-the-from-state", "case": case,
                                          "observed": [getattr(fs, "state_id", None), getattr(la, "name", None),
                                                       "SHIFT" if action is SHIFT else str(production)]})
                return False
        if action is SHIFT:
            if not ts.symbol.dynamic:
                res["violations"].append({"kind": "filter-called-for-unmarked-shift", "case": case,
                                          "observed": ts.symbol.name})
                return False
        elif action is REDUCE:
            if production is None or not production.dynamic:
                res["violations"].append({"kind": "filter-called-for-unmarked-reduction", "case": case,
                                          "observed": str(production)})
                return False
            if sub is None or len(sub) != len(production.rhs):
                res["violations"].append({"kind": "filter-called-without-the-reduction-sub-results", "case": case,
                                          "observed": [str(production), None if sub is None else len(sub)]})
                return False
            syms = [getattr(getattr(x, "symbol", None), "name", None) for x in sub]
            if all(x is not None for x in syms) and syms != [production.rhs[i].name for i in range(len(production.rhs))]:
                res["violations"].append({"kind": "filter-sub-results-are-not-those-of-the-reduction", "case": case,
                                          "observed": [str(production), syms]})
                return False
        else:
            res["violations"].append({"kind": "filter-called-with-unknown-action", "case": case,
                                      "observed": repr(action)})
            return False
    return True


def units(tier):
    k = 2 if tier == "quick" else 3
    names = ["p%d" % i for i in range(k)] + ["t%d" % i for i in range(k)]
    subsets = [set(c) for r in range(len(names) + 1) for c in itertools.combinations(names, r)]
    us = [{"k": k, "marks": [sorted(s) for s in ch], "m": 4 if tier == "quick" else 6}
          for ch in chunks(subsets, 64)]
    us.append({"kind": "unary", "m": 3 if tier == "quick" else 5})
    us.append({"kind": "rr"})
    return us


UNARY_LAYOUT = ("LAYOUT: LayoutItem | LAYOUT LayoutItem | EMPTY;\nLayoutItem: WS | Comment;\n", "WS: /\\s+/;\nComment: /\\/\\/.*/;\n")


def unary_grammar(marks, layout, assoc=True):
    """Optional unary sign: an EMPTY production that can be marked dynamic; optional LAYOUT rule.
    Without `assoc` the shift/reduce conflict of the operator is left to the prefer-shifts default."""
    def m(x):
        return " {dynamic}" if x in marks else ""
    meta = (["left"] if assoc else []) + (["dynamic"] if "p" in marks else [])
    return ("E: E op0 E%s | Neg n;\nNeg: minus%s | EMPTY%s;\n" % ((" {%s}" % ", ".join(meta)) if meta else "", m("m"), m("e"))
            + (UNARY_LAYOUT[0] if layout else "") + "terminals\nn: \"n\";\nop0: \"+\"%s;\nminus: \"-\";\n" % m("t")
            + (UNARY_LAYOUT[1] if layout else ""))


def run_unary(u, res):
    st = res["stats"]
    atoms = ["n", "-n"]
    exprs = []
    for n in range(1, u["m"] + 1):
        for c in itertools.product(atoms, repeat=n):
            exprs.append("+".join(c))
    for layout, assoc in ((False, True), (True, True), (False, False)):
        seps = ["", " "] + (["  // c\n "] if layout else [])
        for r in range(5):
            for marks in itertools.combinations(["p", "m", "e", "t"], r):
                marks = set(marks)
                gtxt = unary_grammar(marks, layout, assoc)
                g = Grammar.from_string(gtxt)
                st["grammars"] += 1
                for fname, decide in (("accept-all", accept_all),):
                    for kind in ("LR", "GLR"):
                        rec = Recorder(decide)
                        # default construction arguments on both sides
                        try:
                            p0 = Parser(g, build_tree=True) if kind == "LR" else GLRParser(g)
                        except (SRConflicts, RRConflicts):
                            st["lr_conflict_errors"] += 1
                            continue
                        try:
                            p = (Parser(g, build_tree=True, dynamic_filter=rec) if kind == "LR"
                                 else GLRParser(g, dynamic_filter=rec))
                        except (SRConflicts, RRConflicts) as ex:
                            if not marks:
                                res["violations"].append({
                                    "kind": "construction-fails-with-a-filter-where-it-succeeds-without",
                                    "case": {"grammar": gtxt, "filter": fname, "parser": kind},
                                    "observed": type(ex).__name__})
                            st["lr_conflict_errors"] += 1
                            continue
                        for e in exprs:
                            for sep in seps:
                                text = sep + sep.join(e) + sep
                                case = {"grammar": gtxt, "filter": fname, "parser": kind, "input": text}
                                rec.calls = []

                                def out_of(pp):
                                    try:
                                        r_ = pp.parse(text)
                                    except parglare.exceptions.ParglareError as ex:
                                        return type(ex).__name__
                                    if kind == "LR":
                                        return r_.to_str()
                                    return sorted(r_[i].to_str() for i in range(min(r_.solutions, 20)))
                                try:
                                    got = out_of(p)
                                except Exception as ex:
                                    res["violations"].append({"kind": "foreign-exception", "case": case,
                                                              "observed": type(ex).__name__ + ": " + str(ex)[:100]})
                                    continue
                                calls = list(rec.calls)
                                res["evaluations"] += 1
                                st["runs"] += 1
                                st["filter_calls"] += len(calls)
                                if not check_trace(res, case, rec):
                                    continue
                                if len(calls) >= 3:
                                    res["nontrivial"].append(h16(case))
                                want = out_of(p0)
                                if got != want:
                                    res["violations"].append({"kind": "accept-all-filter-changes-the-result",
                                                              "case": case, "observed": str(got)[:200],
                                                              "expected": str(want)[:200]})
                                # marked decisions that certainly occur: every reduction of a marked production
                                if kind == "LR" and isinstance(got, str) and "e" in marks:
                                    n_empty = sum(1 for c in calls[1:] if c[2] is REDUCE and len(c[3].rhs) == 0)
                                    want_empty = sum(1 for a in e.split("+") if a == "n")
                                    if n_empty != want_empty:
                                        res["violations"].append({"kind": "marked-empty-reduction-not-shown-to-the-filter",
                                                                  "case": case, "observed": n_empty,
                                                                  "expected": want_empty})
    return res


# a cell holding two marked reductions of different lengths (reduce/reduce left to the filter)
RR_GRAMMARS = [
    ('S: A | B;\nA: x y z {dynamic};\nB: x C;\nC: y z {dynamic};\nterminals\nx: "x";\ny: "y";\nz: "z";\n',
     ["x y z"], {"A": "[[x y z]]", "C": "[[x [y z]]]"}),
]


def run_rr(res):
    st = res["stats"]

    def shape_(n):
        return n.value if n.is_term() else "[" + " ".join(shape_(c) for c in n) + "]"
    for gtxt, inputs, want in RR_GRAMMARS:
        g = Grammar.from_string(gtxt)
        st["grammars"] += 1
        for keep in ("A", "C", None):
            def decide(context, fs, ts, action, production, sub, _k=keep):
                return True if (_k is None or action is not REDUCE) else production.symbol.name == _k
            for kind in ("LR", "GLR"):
                rec = Recorder(decide)
                try:
                    p = (Parser(g, build_tree=True, dynamic_filter=rec, prefer_shifts=False, prefer_shifts_over_empty=False)
                         if kind == "LR" else GLRParser(g, dynamic_filter=rec))
                except (SRConflicts, RRConflicts) as e:
                    res["violations"].append({"kind": "marked-conflict-not-left-to-the-filter",
                                              "case": {"grammar": gtxt, "parser": kind}, "observed": type(e).__name__})
                    continue
                for text in inputs:
                    case = {"grammar": gtxt, "filter": "keep-%s" % keep, "parser": kind, "input": text}
                    rec.calls = []
                    try:
                        r = p.parse(text)
                        got = sorted(shape_(r[i]) for i in range(r.solutions)) if kind == "GLR" else [shape_(r)]
                    except DynamicDisambiguationConflict:
                        got = "ddc"
                    except parglare.exceptions.ParglareError as e:
                        got = type(e).__name__
                    res["evaluations"] += 1
                    st["runs"] += 1
                    st["filter_calls"] += len(rec.calls)
                    if not check_trace(res, case, rec):
                        continue
                    res["nontrivial"].append(h16(case))
                    exp = ([want[keep]] if keep else ("ddc" if kind == "LR" else sorted(want.values())))
                    if got != exp:
                        res["violations"].append({"kind": "filter-decision-not-followed", "case": case,
                                                  "observed": got, "expected": exp})
    return res


def run_unit(u):
    res = {"evaluations": 0, "nontrivial": [], "samples": [], "violations": [], "disagreements": [],
           "stats": {"grammars": 0, "runs": 0, "filter_calls": 0, "lr_conflict_errors": 0, "traces": 0}}
    st = res["stats"]
    if u.get("kind") == "rr":
        return run_rr(res)
    if u.get("kind") == "unary":
        return run_unary(u, res)
    k = u["k"]
    exprs = expressions(k, u["m"])
    g_static = Grammar.from_string(grammar(set(), k, static=True))
    p_static = Parser(g_static, build_tree=True, prefer_shifts=False, prefer_shifts_over_empty=False)
    g_plain = Grammar.from_string(grammar(set(), k))
    glr_plain = GLRParser(g_plain)
    variants = []
    for marks in u["marks"]:
        marks = set(marks)
        variants.append((marks, False))
        if all("p%d" % i in marks for i in range(k)):
            variants.append((marks, True))        # the same marking written on the rule
    for marks, rule_level in variants:
        gtxt = grammar(marks, k, rule_level=rule_level)
        g = Grammar.from_string(gtxt)
        st["grammars"] += 1
        all_marked = all("p%d" % i in marks for i in range(k))
        for fname, decide0 in (("accept-all", accept_all), ("reject-prod-1", None), ("precedence", precedence_filter)):
            if fname == "reject-prod-1":
                def decide0(context, fs, ts, action, production, sub):
                    return not (action is REDUCE and production.prod_id == 1)

            def decide(context, fs, ts, action, production, sub, _d=decide0):
                # (with the mark on the rule the operand production is dynamic too: always accepted)
                if action is REDUCE and len(production.rhs) == 1:
                    return True
                return _d(context, fs, ts, action, production, sub)
            # ---------------- GLR
            rec = Recorder(decide)
            gp = GLRParser(g, dynamic_filter=rec)
            for text in exprs:
                case = {"grammar": gtxt, "filter": fname, "parser": "GLR", "input": text}
                rec.calls = []
                try:
                    f = gp.parse(text)
                    n = f.solutions
                    trees = sorted(shape(f[i]) for i in range(min(n, 60)))
                except parglare.SyntaxError:
                    n, trees = 0, []
                except Exception as e:
                    res["violations"].append({"kind": "foreign-exception", "case": case,
                                              "observed": type(e).__name__ + ": " + str(e)[:100]})
                    continue
                res["evaluations"] += 1
                st["runs"] += 1
                st["filter_calls"] += len(rec.calls)
                if not check_trace(res, case, rec):
                    continue
                if len(rec.calls) >= 3:
                    res["nontrivial"].append(h16(case))
                if fname == "accept-all":
                    f0 = glr_plain.parse(text)
                    want = sorted(shape(f0[i]) for i in range(min(f0.solutions, 60)))
                    if n != f0.solutions or trees != want:
                        res["violations"].append({"kind": "accept-all-filter-changes-the-result", "case": case,
                                                  "observed": [n, trees[:3]], "expected": [f0.solutions, want[:3]]})
                elif fname == "reject-prod-1" and "p0" in marks:
                    # production 1 (E op0 E) is dynamic and always rejected: no tree may contain it
                    if any("(%s " % OPS[0] in t for t in trees):
                        res["violations"].append({"kind": "rejected-reduction-was-taken", "case": case,
                                                  "observed": trees[:3]})
                elif fname == "precedence" and all_marked and all("t%d" % i in marks for i in range(k)):
                    want = shape(p_static.parse(text))
                    if trees != [want]:
                        res["violations"].append({"kind": "precedence-filter-differs-from-static-priorities",
                                                  "case": case, "observed": trees[:3], "expected": want})
                if len(res["samples"]) < 2 and len(rec.calls) >= 4:
                    res["samples"].append({"case": case, "calls": len(rec.calls), "trees": trees[:2]})
            # ---------------- LR (needs every conflict to be dynamic)
            rec = Recorder(decide)
            try:
                lp = Parser(g, build_tree=True, dynamic_filter=rec, prefer_shifts=False, prefer_shifts_over_empty=False)
            except (SRConflicts, RRConflicts):
                st["lr_conflict_errors"] += 1
                continue
            for text in exprs:
                case = {"grammar": gtxt, "filter": fname, "parser": "LR", "input": text}
                rec.calls = []
                try:
                    t = shape(lp.parse(text))
                except parglare.SyntaxError:
                    t = "syntax"
                except DynamicDisambiguationConflict:
                    t = "ddc"
                except Exception as e:
                    res["violations"].append({"kind": "foreign-exception", "case": case,
                                              "observed": type(e).__name__ + ": " + str(e)[:100]})
                    continue
                res["evaluations"] += 1
                st["runs"] += 1
                st["filter_calls"] += len(rec.calls)
                if not check_trace(res, case, rec):
                    continue
                if len(rec.calls) >= 3:
                    res["nontrivial"].append(h16(case))
                if fname == "precedence" and t not in ("ddc",):
                    want = shape(p_static.parse(text))
                    if t != want:
                        res["violations"].append({"kind": "precedence-filter-differs-from-static-priorities",
                                                  "case": case, "observed": t, "expected": want})
                if fname == "reject-prod-1" and "p0" in marks and t not in ("syntax", "ddc") and "(%s " % OPS[0] in t:
                    res["violations"].append({"kind": "rejected-reduction-was-taken", "case": case, "observed": t})
    return res

"""C19 — string terminals match their literal text; KEYWORD adds whole-word matching."""
import itertools
import random

import parglare
from parglare import Grammar, Parser, GLRParser
from parglare.exceptions import GrammarError

from pcommon import *

MANIFEST_ENTRY = {
    "category": "proof",
    "text": "Lean 4 theorems: the StringRecognizer model matches at a position iff the text occurs there literally "
            "(up to case under ignore_case); texts without a backslash are unchanged by every unescape chain whose "
            "patterns start with a backslash, and the chains regenerated from the source are such. Harness: for "
            "every text over letters, digits and . | + * ( ) [ ] \\ ' \" # blank (length <= 3, plus a curated "
            "list): the terminal built from the text written inline and declared in the terminals section is run "
            "at every position of every short input and compared with a literal reference scanner and with each "
            "other; KEYWORD grammars: keyword-like texts match only at word boundaries, others anywhere, keyword "
            "terminals keep string precedence in lexical disambiguation; ignore_case on/off",
    "note": "trusted: Lean kernel; the source-level escaping of a text (how the harness writes a text into grammar "
            "source) follows the documented escapes; deviations on special texts are recorded findings F-STR-1..5 "
            "with structural attribution on the text",
    "technique": "Lean 4 proof (literal match, unescape identity) + literal reference scanner differential",
}

PROP = "C19"
LEVEL = "proof"
THEOREMS = ["C19_literal_match", "C19_literal_match_ignore_case", "C19_unescape_identity", "C19_chain_patterns"]
META = {
    "rule": "cases = (text, inline|declared, ignore_case, input, position) and (KEYWORD regex, text, input, position); "
            "non-trivial = text containing a non-alphanumeric character or a keyword boundary case; distinct by "
            "(text, form, options, input)",
    "explanation": "see level text",
    "trusted_base": ["source-level escaping of texts done by the harness"],
    "assumptions": [],
}

CHARS = ["a", "B", "1", ".", "|", "+", "*", "(", ")", "[", "]", "\\", "'", '"', "#", " ", "S"]
CURATED = ["if", "for", "c++", "a b", "a.b", "\\n", "\\\\", "S", "T1", "EMPTY", "STOP", "x_1", "ab", "a\\b", "'", '"',
           "//", "/*", "a|b", "[a]", "(a)", ".*", "\\d", "a\nb", "\t",
           # letters outside ASCII, among them ones whose case folding is not their lower case
           "stra\u00dfe", "\u00b5m", "\u03bb\u03cc\u03b3\u03bf\u03c2", "\u00fcber", "\u00c9t\u00e9", "\u017ft", "\u0416\u0436"]


def esc(text, quote):
    """How a text is written inside `quote` in grammar source (documented escapes)."""
    out = text.replace("\\", "\\\\").replace(quote, "\\" + quote)
    return out.replace("\n", "\\n").replace("\t", "\\t")


def classify(text):
    """Structural attribution of the recorded string-constant findings."""
    if "\\" in text:
        return "F-STR-5"          # sequential unescape: backslash sequences are decoded twice
    if "." in text:
        return "F-STR-1"          # inline text with a dot is taken for a qualified name
    if "\n" in text or "\t" in text:
        return "F-STR-2"          # control characters in inline texts (terminal naming)
    if text in ("S", "T1", "EMPTY", "STOP", "x_1"):
        return "F-STR-3"          # text equal to the name of another symbol
    return None


def units(tier):
    texts = [c for c in CHARS] + ["".join(p) for p in itertools.product(CHARS, repeat=2)]
    if tier == "thorough":
        rng = random.Random(seed())
        texts += ["".join(rng.choice(CHARS) for _ in range(3)) for _ in range(8000)]
    texts = [t for t in texts if t.strip()] + CURATED
    texts = list(dict.fromkeys(texts))
    us = [{"kind": "literal", "texts": ch} for ch in chunks(texts, 14)]
    us.append({"kind": "keyword"})
    us.append({"kind": "kwprec"})
    return us


def positions_check(res, st, case, rec, text, ignore_case, inputs):
    for inp in inputs:
        for pos in range(len(inp)):
            try:
                m = rec(inp, pos)
            except Exception as e:
                res["violations"].append({"kind": "recognizer-raises", "case": dict(case, input=inp, position=pos),
                                          "observed": type(e).__name__})
                return False
            sl = inp[pos:pos + len(text)]
            want = (sl.lower() == text.lower()) if ignore_case else (sl == text)
            st["positions"] += 1
            if bool(m) != want or (m and len(m) != len(text)):
                v = {"kind": "string-terminal-is-not-literal", "case": dict(case, input=inp, position=pos),
                     "observed": m, "expected": text if want else None}
                a = classify(text)
                if a:
                    v["attribution"] = a
                res["violations"].append(v)
                return False
    return True


def run_unit(u):
    res = {"evaluations": 0, "nontrivial": [], "samples": [], "violations": [], "disagreements": [],
           "stats": {"texts": 0, "positions": 0, "inline_ok": 0, "declared_ok": 0, "keyword_cases": 0,
                     "rejected_grammars": {}}}
    st = res["stats"]
    if u["kind"] == "keyword":
        return run_keyword(res, st)
    if u["kind"] == "kwprec":
        return run_kwprec(res, st)
    for text in u["texts"]:
        st["texts"] += 1
        # inputs: the text in context, near misses, and all short strings over its characters
        alpha = sorted(set(text) | {"a", "x"})
        inputs = {text, "a" + text, text + "x", "a" + text + text + "b", text[:-1] + "x", text.upper(), text.lower()}
        inputs |= {"".join(c) for n in (1, 2, 3) for c in itertools.product(alpha[:4], repeat=n)}
        inputs = sorted(i for i in inputs if i)
        for ignore_case in (False, True):
            for form in ("inline", "declared"):
                for quote in ("'", '"'):
                    if form == "inline":
                        gtxt = "S: %s%s%s Z;\nterminals\nZ: /z/;\n" % (quote, esc(text, quote), quote)
                    else:
                        gtxt = "S: T1 Z;\nterminals\nT1: %s%s%s;\nZ: /z/;\n" % (quote, esc(text, quote), quote)
                    case = {"text": text, "form": form, "quote": quote, "ignore_case": ignore_case, "grammar": gtxt}
                    res["evaluations"] += 1
                    try:
                        g = Grammar.from_string(gtxt, ignore_case=ignore_case)
                    except Exception as e:
                        bump(st["rejected_grammars"], type(e).__name__)
                        v = {"kind": "string-terminal-text-rejected", "case": case,
                             "observed": type(e).__name__ + ": " + str(e)[:80]}
                        a = classify(text)
                        if a:
                            v["attribution"] = a
                        res["violations"].append(v)
                        continue
                    terms = [t for t in g.terminals.values() if t.name not in ("Z", "STOP", "EMPTY")]
                    if len(terms) != 1:
                        res["violations"].append({"kind": "unexpected-terminals", "case": case,
                                                  "observed": [t.name for t in terms]})
                        continue
                    rec = terms[0].recognizer
                    if positions_check(res, st, case, rec, text, ignore_case, inputs):
                        st["inline_ok" if form == "inline" else "declared_ok"] += 1
                        # end to end: the parser accepts exactly text + z
                        try:
                            Parser(g, ws=None).parse(text + "z")
                        except Exception as e:
                            v = {"kind": "sentence-with-string-terminal-rejected", "case": case,
                                 "observed": type(e).__name__}
                            a = classify(text)
                            if a:
                                v["attribution"] = a
                            res["violations"].append(v)
                    if not text.isalnum():
                        res["nontrivial"].append(h16(case))
                    if len(res["samples"]) < 2 and not text.isalnum():
                        res["samples"].append(case)
    return res


KW_CASES = [
    (r"\w+", ["if", "for", "a1", "+", "==", "a+"]),
    (r"[a-z]+", ["if", "x", "a1", "<=", "If"]),
    (r"[a-z+]+", ["if", "c++", "+", "a+b", "x"]),
    (r"\w[\w ]*", ["a b", "if"]),
]
KW_INPUTS = ["if", "iff", "aif", "if1", "_if", "if_", "if x", "x if", "(if)", "for", "form", "a1", "a11", "+", "++",
             "a+", "a+b", "==", "<=", "x", "xx", "c++", "ccc", "c+++", "xc++", "a b", "ab", "a  b", "If", "IF",
             "a+bx", "xa+b"]


def is_word(ch):
    return ch.isalnum() or ch == "_"


def run_keyword(res, st):
    import re
    for kw, texts in KW_CASES:
        for ignore_case in (False, True):
            for text in texts:
                gtxt = "S: T1 Z;\nterminals\nT1: '%s';\nZ: /z/;\nKEYWORD: /%s/;\n" % (esc(text, "'"), kw)
                case = {"keyword_regex": kw, "text": text, "ignore_case": ignore_case, "grammar": gtxt}
                res["evaluations"] += 1
                st["keyword_cases"] += 1
                try:
                    g = Grammar.from_string(gtxt, ignore_case=ignore_case)
                except Exception as e:
                    res["violations"].append({"kind": "keyword-grammar-rejected", "case": case,
                                              "observed": type(e).__name__ + ": " + str(e)[:80],
                                              "attribution": "F-STR-4" if not text.replace("_", "a").isalnum() else None})
                    continue
                term = g.get_terminal("T1")
                m0 = re.compile(kw, re.IGNORECASE if ignore_case else 0).fullmatch(text)
                is_kw = m0 is not None
                if bool(term.keyword) != is_kw:
                    res["violations"].append({"kind": "keyword-classification-wrong", "case": case,
                                              "observed": bool(term.keyword), "expected": is_kw})
                    continue
                for inp in KW_INPUTS:
                    for pos in range(len(inp)):
                        sl = inp[pos:pos + len(text)]
                        lit = (sl.lower() == text.lower()) if ignore_case else (sl == text)
                        if is_kw:
                            before = pos > 0 and is_word(inp[pos - 1])
                            after = pos + len(text) < len(inp) and is_word(inp[pos + len(text)])
                            want = lit and not before and not after
                        else:
                            want = lit
                        try:
                            m = term.recognizer(inp, pos)
                        except Exception as e:
                            m = "raises " + type(e).__name__
                        st["positions"] += 1
                        if bool(m) != want or (m and isinstance(m, str) and not m.startswith("raises") and
                                               len(m) != len(text)):
                            v = {"kind": "keyword-terminal-match-wrong", "case": dict(case, input=inp, position=pos),
                                 "observed": m, "expected": text if want else None}
                            # F-STR-4: the rewrite interpolates the raw text into a verbose-mode regex
                            if is_kw and not text.replace("_", "a").isalnum():
                                v["attribution"] = "F-STR-4"
                            res["violations"].append(v)
                            break
                    else:
                        continue
                    break
                res["nontrivial"].append(h16(case))
    return res


KWPREC_WORDS = ["if", "for", "begin", "a1", "x", "If", "FOR"]
KWPREC_NAMES = ["ID", "Word", "a", "ident", "name", "word", "zz", "_x"]


def run_kwprec(res, st):
    """Keyword terminals keep the precedence of string recognizers: where a keyword and an
    identifier-like regex terminal of the same priority are both expected and match the same
    text, the keyword is chosen -- whatever the regex terminal is called -- exactly as the
    plain string terminal is chosen in the same grammar without a KEYWORD rule."""
    from parglare import Parser
    from parglare.exceptions import ParglareError
    for word in KWPREC_WORDS:
        for name in KWPREC_NAMES:
            for ignore_case in (False, True):
                for extra in ("", "T2: 'zq';\n"):
                    body = "S: '%s' 'x' | %s 'y'%s;\nterminals\n%s: /[A-Za-z0-9_]+/;\n%s" % (
                        word, name, " | T2" if extra else "", name, extra)
                    outs = {}
                    for kwrule in ("", "KEYWORD: /\\w+/;\n"):
                        gtxt = body + kwrule
                        for text in (word + " x", word + "q y", word.swapcase() + " x"):
                            try:
                                p = Parser(Grammar.from_string(gtxt, ignore_case=ignore_case))
                                out = p.parse(text)
                            except ParglareError as e:
                                out = type(e).__name__
                            if ignore_case and isinstance(out, list):
                                # a string recognizer reports the grammar's spelling, a keyword
                                # regex the input's: which terminal was chosen is what is compared
                                out = [x.lower() for x in out]
                            outs[(bool(kwrule), text)] = out
                    case = {"word": word, "regex_terminal_name": name, "ignore_case": ignore_case,
                            "grammar": body + "KEYWORD: /\\w+/;\n"}
                    res["evaluations"] += 1
                    st["keyword_cases"] += 1
                    res["nontrivial"].append(h16(case))
                    # the keyword followed by a separator: same choice as the plain string terminal
                    for text in (word + " x", word.swapcase() + " x"):
                        if outs[(True, text)] != outs[(False, text)]:
                            res["violations"].append({"kind": "keyword-loses-string-precedence",
                                                      "case": dict(case, input=text),
                                                      "observed": outs[(True, text)],
                                                      "expected": outs[(False, text)]})
                            break
                    # glued to a word character the keyword must not match: the regex alternative is taken
                    want_q = [(word + "q").lower() if ignore_case else word + "q", "y"]
                    if outs[(True, word + "q y")] != want_q:
                        res["violations"].append({"kind": "keyword-matches-inside-word",
                                                  "case": dict(case, input=word + "q y"),
                                                  "observed": outs[(True, word + "q y")],
                                                  "expected": want_q})
    return res

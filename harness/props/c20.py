"""C20 — a grammar split over imported files means the same as the flattened grammar."""
import os
import random
import shutil
import tempfile

import parglare
from parglare import Grammar, Parser, GLRParser
from parglare.exceptions import SRConflicts, RRConflicts, DisambiguationError

import gen
from pcommon import *

MANIFEST_ENTRY = {
    "category": "proof",
    "text": "Lean 4 theorems about the file-registry model for EVERY import graph (chain, diamond, cycle, "
            "self-import): no file is loaded twice, the registry only grows, the root is loaded. Differential leg: "
            "small grammars are partitioned into 2..4 files over generated import graphs (needed edges plus extra "
            "ones giving diamonds and cycles, aliases, references through import paths a.b.X, overrides), written "
            "to a temp directory and compared with the flattened single-file grammar (rules inlined under "
            "qualified names, overridden rules replaced): number of productions, language on all inputs up to a "
            "bound, results, GLR tree counts; LR and GLR",
    "note": "trusted: Lean kernel; the flattening is done by the harness from the partition it generated; an "
            "override declared on a second import path of a diamond is the recorded finding F-IMP-1 (structural "
            "attribution)",
    "technique": "Lean 4 proof (depth-first registry invariant) + differential against the flattened grammar",
}

PROP = "C20"
LEVEL = "proof"
THEOREMS = ["C20_each_file_once", "C20_registry_grows", "C20_loaded_contains_start"]
META = {
    "rule": "cases = (grammar, partition into files, import graph, override or not, parser kind, input); non-trivial "
            "= modular grammar with a diamond, a cycle, a path reference or an override; distinct by (file texts, "
            "parser, input)",
    "explanation": "see level text",
    "trusted_base": ["flattening done by the harness"],
    "assumptions": [],
}

FILES = ["root", "fa", "fb", "fc"]


def units(tier):
    rng = random.Random(seed())
    specs = [s for s in gen.enum_grammars(2, 2, 3, 2, allow_cyclic=False)][:: (5 if tier == "quick" else 1)]
    specs += [s for s in gen.enum_grammars(3, 1, 4, 2, allow_cyclic=False)][:: (60 if tier == "quick" else 6)]
    for i in range(60 if tier == "quick" else 800):
        s = gen.random_grammar(rng, max_nt=4, allow_cyclic=False)
        if s and len(s.nonterminals()) >= 2:
            specs.append(s)
    return [{"specs": [s.to_json() for s in ch], "seed": seed() * 1000 + i, "maxtok": 4 if tier == "quick" else 5}
            for i, ch in enumerate(chunks(specs, 24))]


def modularise(spec, rng):
    """Returns (files: {name: text}, flattened spec, features, override_on_second_path)."""
    nts = spec.nonterminals()
    k = rng.randint(2, min(4, len(nts)))
    # partition: root holds the start symbol
    home = {nts[0]: "root"}
    others = FILES[1:k]
    for i, n in enumerate(nts[1:]):
        home[n] = others[i] if i < len(others) else rng.choice(FILES[:k])
    used_files = sorted(set(home.values()), key=FILES.index)
    rules_of = {f: [(l, r) for l, r in spec.rules if home[l] == f] for f in used_files}
    needs = {f: [] for f in used_files}
    for f in used_files:
        for l, r in rules_of[f]:
            for x in r:
                if x in home and home[x] != f and home[x] not in needs[f]:
                    needs[f].append(home[x])
    imports = {f: list(needs[f]) for f in used_files}
    feats = set()
    # extra edges: diamonds / cycles
    for f in used_files:
        for g_ in used_files:
            if g_ != f and g_ not in imports[f] and g_ != "root" and rng.random() < 0.3:
                imports[f].append(g_)
                feats.add("extra-import")
    # is there a cycle / diamond?
    def reach(a, seen=None):
        seen = seen or set()
        for b in imports[a]:
            if b not in seen:
                seen.add(b)
                reach(b, seen)
        return seen
    if any(f in reach(f) for f in used_files):
        feats.add("cycle")
    indeg = {f: sum(1 for g_ in used_files if f in imports[g_]) for f in used_files}
    if any(v >= 2 for v in indeg.values()):
        feats.add("diamond")

    path_users = set()     # nonterminals referred to through a longer import path somewhere

    def ref(f, x):
        """How file f refers to nonterminal x."""
        g_ = home[x]
        if g_ == f:
            return x
        # optionally through a path f -> h -> g
        for h in imports[f]:
            if h != g_ and g_ in imports.get(h, []) and rng.random() < 0.4:
                feats.add("path-reference")
                path_users.add(x)
                return "%s.%s.%s" % (h, g_, x)
        return "%s.%s" % (g_, x)

    # optional override: root redefines a rule of a directly imported file
    override = None
    second_path = False
    cands = [n for n in nts[1:] if home[n] in imports["root"]]
    if cands and rng.random() < 0.25:
        n = rng.choice(cands)
        new_rhs = [[t for t in list(spec.terms)[:1]]]
        override = (n, new_rhs)
        feats.add("override")
        # F-IMP-1: an override takes effect only for references whose qualified name ALONG THE FIRST IMPORT
        # PATH equals the override's name. That excludes (a) users in a third file, (b) the overridden
        # file's own rules when that file was first reached through another import of root.
        tgt = home[n]
        first_via_other = False
        for h in imports["root"]:
            if h == tgt:
                break
            if tgt in reach(h):
                first_via_other = True
        for f in used_files:
            if f == "root":
                continue
            uses = any(n in r for l, r in rules_of[f])
            if uses and (f != tgt or first_via_other):
                second_path = True
    files = {}
    for f in used_files:
        lines = ["import '%s.pg' as %s;" % (g_, g_) for g_ in imports[f]]
        by = {}
        for l, r in rules_of[f]:
            by.setdefault(l, []).append(" ".join(("'%s'" % spec.terms[x][1]) if x in spec.terms else ref(f, x)
                                                 for x in r) or "EMPTY")
        for l, alts in by.items():
            lines.append("%s: %s;" % (l, " | ".join(alts)))
        if f == "root" and override:
            n, rhss = override
            lines.append("%s.%s: %s;" % (home[n], n, " | ".join(" ".join("'%s'" % spec.terms[t][1] for t in rhs) or "EMPTY"
                                                               for rhs in rhss)))
        files[f + ".pg"] = "\n".join(lines) + "\n"
    if override and override[0] in path_users:
        second_path = True     # some reference reaches the overridden rule by another qualified name
    # flattened
    flat_rules = []
    for l, r in spec.rules:
        if override and l == override[0]:
            continue
        flat_rules.append((l, list(r)))
    if override:
        n, rhss = override
        idx = next(i for i, (l, _) in enumerate(spec.rules) if l == n)
        for rhs in rhss:
            flat_rules.insert(min(idx, len(flat_rules)), (n, list(rhs)))
    flat = gen.GSpec(flat_rules, dict(spec.terms))
    return files, flat, feats, second_path


def observe(p, text):
    try:
        with budget(2):
            r = p.parse(text)
            if isinstance(p, GLRParser):
                n = r.solutions
                return ("ok", n, repr(p.call_actions(r[0])) if n == 1 else None)
            return ("ok", 1, repr(r))
    except parglare.SyntaxError as e:
        return ("syntax", e.location.start_position)
    except DisambiguationError:
        return ("disamb",)
    except parglare.exceptions.LoopError:
        return ("loop",)
    except BudgetExceeded:
        return ("timeout",)


def run_unit(u):
    res = {"evaluations": 0, "nontrivial": [], "samples": [], "violations": [], "disagreements": [],
           "stats": {"modular_grammars": 0, "features": {}, "comparisons": 0, "build_errors": {}}}
    rng = random.Random(u["seed"])
    st = res["stats"]
    for sj in u["specs"]:
        spec = gen.GSpec.from_json(sj)
        if len(spec.nonterminals()) < 2:
            continue
        for variant in range(2):
            files, flat, feats, second_path = modularise(spec, rng)
            d = tempfile.mkdtemp(prefix="pgverif-c20-")
            try:
                for name, text in files.items():
                    open(os.path.join(d, name), "w").write(text)
                case0 = {"files": files, "flattened": flat.text(), "features": sorted(feats)}
                try:
                    gm = Grammar.from_file(os.path.join(d, "root.pg"))
                except Exception as e:
                    v = {"kind": "modular-grammar-rejected", "case": case0,
                         "observed": type(e).__name__ + ": " + str(e)[:120]}
                    if second_path:
                        v["attribution"] = "override-not-on-user-path"
                    res["violations"].append(v)
                    continue
                try:
                    gf = Grammar.from_string(flat.text())
                except Exception as e:
                    bump(st["build_errors"], type(e).__name__)
                    continue
                st["modular_grammars"] += 1
                for f in feats:
                    bump(st["features"], f)
                # parglare keeps only the rules reachable from the start rule of the root file
                reach_nt = {flat.rules[0][0]}
                changed = True
                while changed:
                    changed = False
                    for l, r in flat.rules:
                        if l in reach_nt:
                            for x in r:
                                if x not in flat.terms and x not in reach_nt:
                                    reach_nt.add(x)
                                    changed = True
                n_reach = 1 + sum(1 for l, r in flat.rules if l in reach_nt)
                if "override" not in feats and len(gm.productions) != n_reach:
                    v = {"kind": "number-of-productions-differs-from-flattened", "case": case0,
                         "observed": len(gm.productions), "expected": n_reach}
                    if second_path:
                        v["attribution"] = "override-not-on-user-path"
                    res["violations"].append(v)
                    continue
                inputs = list(gen.token_strings(spec, u["maxtok"]))[:80]
                for kind in ("GLR", "LR"):
                    for f in os.listdir(d):
                        if f.endswith(".pgc"):
                            os.remove(os.path.join(d, f))      # another kind's cache (finding F-CACHE-1)
                    try:
                        pf = GLRParser(gf) if kind == "GLR" else Parser(gf)
                    except (SRConflicts, RRConflicts):
                        continue
                    except Exception as e:
                        bump(st["build_errors"], type(e).__name__)
                        continue
                    try:
                        pm = GLRParser(gm) if kind == "GLR" else Parser(gm)
                    except (SRConflicts, RRConflicts):
                        continue
                    except Exception as e:
                        v = {"kind": "parser-construction-fails-on-modular-grammar", "case": dict(case0, parser=kind),
                             "observed": type(e).__name__ + ": " + str(e)[:100]}
                        if second_path:
                            v["attribution"] = "override-not-on-user-path"
                        res["violations"].append(v)
                        continue
                    for text in inputs:
                        case = dict(case0, parser=kind, input=text)
                        a, b = observe(pm, text), observe(pf, text)
                        res["evaluations"] += 1
                        st["comparisons"] += 1
                        if a != b and "timeout" not in (a[0], b[0]):
                            v = {"kind": "modular-grammar-differs-from-flattened", "case": case,
                                 "observed": list(a), "expected": list(b)}
                            if second_path:
                                v["attribution"] = "override-not-on-user-path"
                            res["violations"].append(v)
                            break
                        if feats:
                            res["nontrivial"].append(h16([files, kind, text]))
                if len(res["samples"]) < 2 and feats:
                    res["samples"].append(case0)
            finally:
                shutil.rmtree(d, ignore_errors=True)
    return res

"""C20 — a grammar split over imported files means the same as the flattened grammar."""
import os
import random
import shutil
import tempfile

import parglare
from parglare import Grammar, Parser, GLRParser
from parglare.exceptions import SRConflicts, RRConflicts, DisambiguationError

import gen
from pcommon import *

MANIFEST_ENTRY = {
    "category": "proof",
    "text": "Lean 4 theorems about the file-registry model for EVERY import graph (chain, diamond, cycle, "
            "self-import): no file is loaded twice, the registry only grows, the root is loaded. Differential leg: "
            "small grammars are partitioned into 2..4 files over generated import graphs (needed edges plus extra "
            "ones giving diamonds and cycles, aliases, references through import paths a.b.X, overrides), written "
            "to a temp directory and compared with the flattened single-file grammar (rules inlined under "
            "qualified names, overridden rules replaced): number of productions, language on all inputs up to a "
            "bound, results, GLR tree counts; LR and GLR",
    "note": "trusted: Lean kernel; the flattening is done by the harness from the partition it generated; an "
            "override declared on a second import path of a diamond is the recorded finding F-IMP-1 (structural "
            "attribution)",
    "technique": "Lean 4 proof (depth-first registry invariant) + differential against the flattened grammar",
}

PROP = "C20"
LEVEL = "proof"
THEOREMS = ["C20_each_file_once", "C20_registry_grows", "C20_loaded_contains_start"]
META = {
    "rule": "cases = (grammar, partition into files, import graph, override or not, parser kind, input); non-trivial "
            "= modular grammar with a diamond, a cycle, a path reference or an override; distinct by (file texts, "
            "parser, input)",
    "explanation": "see level text",
    "trusted_base": ["flattening done by the harness"],
    "assumptions": [],
}

FILES = ["root", "fa", "fb", "fc"]


def units(tier):
    rng = random.Random(seed())
    specs = [s for s in gen.enum_grammars(2, 2, 3, 2, allow_cyclic=False)][:: (5 if tier == "quick" else 1)]
    specs += [s for s in gen.enum_grammars(3, 1, 4, 2, allow_cyclic=False)][:: (60 if tier == "quick" else 6)]
    fixed = random.Random(20260928)
    for i in range(400 if tier == "quick" else 12000):
        s = gen.random_grammar(fixed if i % 2 else rng, max_nt=5, allow_cyclic=False)
        if s and len(s.nonterminals()) >= (2 if i % 4 == 0 else 4):
            specs.append(s)
    us = [{"specs": [s.to_json() for s in ch], "seed": seed() * 1000 + i, "maxtok": 4 if tier == "quick" else 5}
          for i, ch in enumerate(chunks(specs, 24))]
    lay = layered_specs()[:: (2 if tier == "quick" else 1)]
    us += [{"specs": [s.to_json() for s in ch], "layered": True, "seed": seed() * 1000 + 500 + i,
            "maxtok": 4 if tier == "quick" else 5} for i, ch in enumerate(chunks(lay, 18))]
    us.append({"kind": "named-actions", "specs": []})
    return us


def layered_specs():
    """Deterministic family: a leaf file with an entry rule B and a helper rule C it uses, reached through
    an intermediate file that may override the helper (root -> fa -> fb), optionally also imported by root."""
    import itertools
    terms = {"a": ("str", "a"), "b": ("str", "b"), "c": ("str", "c")}
    S_ALTS = [[["A", "a"]], [["a", "A"], ["b"]], [["A"], ["A", "B"]], [["A", "C"]]]
    A_ALTS = [[["B"]], [["B", "b"], ["a"]], [["b", "B", "C"]]]
    B_ALTS = [[["C", "a"]], [["C"], ["B", "c", "C"]], [["a", "C", "C"]]]
    C_ALTS = [[["c"]], [["b"], ["c", "C"]], [[], ["c"]]]
    out = []
    for sa, aa, ba, ca in itertools.product(S_ALTS, A_ALTS, B_ALTS, C_ALTS):
        rules = [("S", r) for r in sa] + [("A", r) for r in aa] + [("B", r) for r in ba] + [("C", r) for r in ca]
        sp = gen.GSpec(rules, dict(terms))
        sp.force = {"home": {"S": "root", "A": "fa", "B": "fb", "C": "fb"}}
        out.append(sp)
    return out


def modularise(spec, rng, force=None):
    """Returns (files: {name: text}, documented flattening, predicted flattening under the recorded
    finding F-IMP-1, features, deviates) where `deviates` says that some reference resolves, by the
    first-import-path rule, to something else than the documentation promises."""
    nts = spec.nonterminals()
    k = rng.randint(2, min(4, len(nts)))
    # partition: root holds the start symbol
    home = {nts[0]: "root"}
    others = FILES[1:k]
    for i, n in enumerate(nts[1:]):
        home[n] = others[i] if i < len(others) else rng.choice(FILES[:k])
    if force:
        home = dict(force["home"])
    used_files = sorted(set(home.values()), key=FILES.index)
    rules_of = {f: [(l, r) for l, r in spec.rules if home[l] == f] for f in used_files}
    needs = {f: [] for f in used_files}
    for f in used_files:
        for l, r in rules_of[f]:
            for x in r:
                if x in home and home[x] != f and home[x] not in needs[f]:
                    needs[f].append(home[x])
    imports = {f: list(needs[f]) for f in used_files}
    feats = set()
    # extra edges: diamonds / cycles
    for f in used_files:
        for g_ in used_files:
            if g_ != f and g_ not in imports[f] and g_ != "root" and rng.random() < 0.3:
                imports[f].append(g_)
                feats.add("extra-import")
    if rng.random() < 0.3:
        for f in used_files:
            rng.shuffle(imports[f])

    def reach(a, seen=None):
        seen = seen or set()
        for b in imports[a]:
            if b not in seen:
                seen.add(b)
                reach(b, seen)
        return seen
    if any(f in reach(f) for f in used_files):
        feats.add("cycle")
    indeg = {f: sum(1 for g_ in used_files if f in imports[g_]) for f in used_files}
    if any(v >= 2 for v in indeg.values()):
        feats.add("diamond")

    def ref(f, x):
        """How file f refers to nonterminal x."""
        g_ = home[x]
        if g_ == f:
            return x
        # optionally through a path f -> h -> g
        for h in imports[f]:
            if h != g_ and g_ in imports.get(h, []) and rng.random() < 0.4:
                feats.add("path-reference")
                return "%s.%s.%s" % (h, g_, x)
        return "%s.%s" % (g_, x)

    # file contents: per file a list of (lhs key, [("t", terminal) | ("r", reference text, nonterminal)])
    content = {f: [] for f in used_files}
    for f in used_files:
        for l, r in rules_of[f]:
            content[f].append((l, [("t", x) if x in spec.terms else ("r", ref(f, x), x) for x in r]))
    # optional override: some file redefines a rule of a file it imports directly
    override = None
    if rng.random() < (0.7 if force else 0.35):
        where = [f for f in used_files if f in reach("root") or f == "root"]
        rng.shuffle(where)
        for F in where:
            if F == "root" and rng.random() < 0.5:
                continue
            cands = [n for n in nts[1:] if home[n] in imports[F] and home[n] != F]
            # prefer rules that their own file uses too: those users must get the new rule as well
            local = [n for n in cands if any(n in r for l, r in rules_of[home[n]])]
            if local and rng.random() < 0.7:
                cands = local
            if cands:
                n = rng.choice(cands)
                override = (F, home[n], n, [list(spec.terms)[:1]])
                feats.add("override")
                if F != "root":
                    feats.add("override-in-imported-file")
                for rhs in override[3]:
                    content[F].append(("%s.%s" % (home[n], n), [("t", t) for t in rhs]))
                break
    files = {}
    prng = random.Random(rng.random())
    for f in used_files:
        # the same file spelled in different ways (a nested import path is relative to the importing file
        # and is canonicalised before the registry of loaded files is consulted)
        lines = ["import '%s%s.pg' as %s;" % (prng.choice(["", "", "./", "sub/../", "sub/./../"]), g_, g_)
                 for g_ in imports[f]]
        by = {}
        for l, items in content[f]:
            by.setdefault(l, []).append(" ".join(("'%s'" % spec.terms[it[1]][1]) if it[0] == "t" else it[1]
                                                 for it in items) or "EMPTY")
        for l, alts in by.items():
            lines.append("%s: %s;" % (l, " | ".join(alts)))
        files[f + ".pg"] = "\n".join(lines) + "\n"

    # documented flattening: the override replaces the rule for every user
    flat_rules = []
    for l, r in spec.rules:
        if override and l == override[2]:
            continue
        flat_rules.append((l, list(r)))
    if override:
        n, rhss = override[2], override[3]
        idx = next(i for i, (l, _) in enumerate(spec.rules) if l == n)
        for rhs in rhss:
            flat_rules.insert(min(idx, len(flat_rules)), (n, list(rhs)))
    flat = gen.GSpec(flat_rules, dict(spec.terms))

    # predicted flattening under F-IMP-1: files are loaded depth first in import-statement order, a symbol's
    # qualified name follows the FIRST import path of its file, and a reference is resolved from the root
    # down that name: at each file on the way the remaining suffix is looked up among the file's own rule
    # names (which include its overrides `x.N`)
    first = {"root": []}

    def load(f):
        for h in imports[f]:
            if h not in first:
                first[h] = first[f] + [h]
                load(h)
    load("root")
    defs = {f: set(l for l, _ in content[f]) for f in used_files}

    def resolve(u, text):
        parts = first[u] + text.split(".")
        cur = "root"
        while True:
            key = ".".join(parts)
            if key in defs[cur]:
                return (cur, key)
            if len(parts) == 1 or parts[0] not in imports[cur]:
                return None
            cur, parts = parts[0], parts[1:]

    def sym(fk):
        f, key = fk
        return key if "." not in key else key.split(".")[-1] + "_ov_" + f
    deviates = False
    act_rules = []
    unresolved = False
    used_syms = set(("root", l) for l, _ in content["root"])
    for f in used_files:
        if f not in first:
            continue
        for l, items in content[f]:
            rhs = []
            for it in items:
                if it[0] == "t":
                    rhs.append(it[1])
                else:
                    r_ = resolve(f, it[1])
                    if r_ is None:
                        unresolved = True
                        rhs.append(it[2])
                        continue
                    rhs.append(sym(r_))
                    used_syms.add(r_)
                    if override and it[2] == override[2] and "." not in r_[1]:
                        deviates = True        # a user of the overridden rule still gets the old rule
            act_rules.append((sym((f, l)), rhs))
    # Grammar._add_resolve_all_production_symbols registers nonterminals by qualified name: when the old
    # rule and its override are both in use and share the qualified name, one of them loses its
    # productions (dead nonterminal or KeyError in table construction). Same root cause; not predicted
    # exactly: any deviation of such a grammar is attributed to the finding.
    fqns = {}
    for fk in used_syms:
        if fk[0] in first:
            fqns.setdefault(".".join(first[fk[0]] + [fk[1]]), set()).add(fk)
    if any(len(v) > 1 for v in fqns.values()):
        feats.add("override-fqn-collision")
    # root's first rule is the start rule
    start = content["root"][0][0]
    act_rules.sort(key=lambda lr: 0 if lr[0] == start else 1)
    flat_act = gen.GSpec(act_rules, dict(spec.terms)) if not unresolved else None
    return files, flat, flat_act, feats, deviates


def observe(p, text):
    try:
        with budget(2):
            r = p.parse(text)
            if isinstance(p, GLRParser):
                n = r.solutions
                return ("ok", n, repr(p.call_actions(r[0])) if n == 1 else None)
            return ("ok", 1, repr(r))
    except parglare.SyntaxError as e:
        return ("syntax", e.location.start_position)
    except DisambiguationError:
        return ("disamb",)
    except parglare.exceptions.LoopError:
        return ("loop",)
    except BudgetExceeded:
        return ("timeout",)


def n_reachable(flat):
    reach_nt = {flat.rules[0][0]}
    changed = True
    while changed:
        changed = False
        for l, r in flat.rules:
            if l in reach_nt:
                for x in r:
                    if x not in flat.terms and x not in reach_nt:
                        reach_nt.add(x)
                        changed = True
    return 1 + sum(1 for l, r in flat.rules if l in reach_nt)


# actions bound by name (@name in the grammar, <file>_actions.py next to it) in files imported one, two and
# three levels deep, with and without aliases; the flattened grammar uses the same annotations and module
NAMED_ACTIONS_PY = ("from parglare import get_collector\naction = get_collector()\n\n\n@action\ndef toint(_, value):\n"
                    "    return int(value)\n\n\n@action\ndef tonum(_, nodes):\n"
                    "    return ('num', -nodes[1] if len(nodes) == 2 else nodes[0])\n\n\n@action\ndef tolist(_, nodes):\n"
                    "    return ('list', nodes[0])\n")
NAMED_LEAF = "@tonum\nNum: DIGITS | '-' DIGITS;\n\nterminals\n@toint\nDIGITS: /\\d+/;\n"
NAMED_CASES = [
    # (files, flattened grammar)
    ({"root.pg": "import 'leaf.pg' as lf;\nS: lf.Num+;\n", "leaf.pg": NAMED_LEAF},
     "S: lf_Num+;\n@tonum\nlf_Num: lf_DIGITS | '-' lf_DIGITS;\nterminals\n@toint\nlf_DIGITS: /\\d+/;\n"),
    ({"root.pg": "import 'mid.pg';\nS: mid.List;\n", "mid.pg": "import 'leaf.pg' as lf;\n@tolist\nList: lf.Num+;\n",
      "leaf.pg": NAMED_LEAF},
     "S: mid_List;\n@tolist\nmid_List: mid_lf_Num+;\n@tonum\nmid_lf_Num: mid_lf_DIGITS | '-' mid_lf_DIGITS;\n"
     "terminals\n@toint\nmid_lf_DIGITS: /\\d+/;\n"),
    ({"root.pg": "import 'top.pg' as t;\nS: t.Wrap;\n", "top.pg": "import 'mid.pg' as m;\nWrap: m.List;\n",
      "mid.pg": "import 'leaf.pg';\n@tolist\nList: leaf.Num+;\n", "leaf.pg": NAMED_LEAF},
     "S: t_Wrap;\nt_Wrap: t_m_List;\n@tolist\nt_m_List: t_m_leaf_Num+;\n"
     "@tonum\nt_m_leaf_Num: t_m_leaf_DIGITS | '-' t_m_leaf_DIGITS;\nterminals\n@toint\nt_m_leaf_DIGITS: /\\d+/;\n"),
]


def run_named_actions(res):
    import itertools
    st = res["stats"]
    for files, flat in NAMED_CASES:
        d = tempfile.mkdtemp(prefix="pgverif-c20a-")
        try:
            os.mkdir(os.path.join(d, "flat"))
            for name, text in files.items():
                open(os.path.join(d, name), "w").write(text)
                if name != "root.pg":
                    open(os.path.join(d, name[:-3] + "_actions.py"), "w").write(NAMED_ACTIONS_PY)
            open(os.path.join(d, "flat", "flat.pg"), "w").write(flat)
            open(os.path.join(d, "flat", "flat_actions.py"), "w").write(NAMED_ACTIONS_PY)
            case0 = {"files": files, "flattened": flat, "actions": "toint, tonum, tolist in <file>_actions.py"}
            try:
                pm = Parser(Grammar.from_file(os.path.join(d, "root.pg")))
                pf = Parser(Grammar.from_file(os.path.join(d, "flat", "flat.pg")))
            except Exception as e:
                res["violations"].append({"kind": "modular-grammar-with-named-actions-rejected", "case": case0,
                                          "observed": type(e).__name__ + ": " + str(e)[:120]})
                continue
            st["modular_grammars"] += 1
            for n in range(1, 5):
                for toks in itertools.product(["1", "23", "-"], repeat=n):
                    text = " ".join(toks)

                    def run(p):
                        try:
                            return ("ok", repr(p.parse(text)))
                        except parglare.exceptions.ParglareError as e:
                            return ("error", type(e).__name__)
                    a, b = run(pm), run(pf)
                    res["evaluations"] += 1
                    st["comparisons"] += 1
                    if a[0] == "ok":
                        res["nontrivial"].append(h16([sorted(files.items()), text]))
                    if a != b:
                        res["violations"].append({"kind": "imported-grammar-result-differs-from-flattened-grammar",
                                                  "case": dict(case0, input=text), "observed": list(a), "expected": list(b)})
                        break
        finally:
            shutil.rmtree(d, ignore_errors=True)
    return res


def run_unit(u):
    res = {"evaluations": 0, "nontrivial": [], "samples": [], "violations": [], "disagreements": [],
           "stats": {"modular_grammars": 0, "features": {}, "comparisons": 0, "build_errors": {},
                     "override_deviations_predicted": 0, "ignore_case": 0}}
    if u.get("kind") == "named-actions":
        return run_named_actions(res)
    rng = random.Random(u["seed"])
    st = res["stats"]
    for sj in u["specs"]:
        spec = gen.GSpec.from_json(sj)
        if len(spec.nonterminals()) < 2:
            continue
        for variant in range(2):
            files, flat, flat_act, feats, deviates = modularise(
                spec, rng, force={"home": {"S": "root", "A": "fa", "B": "fb", "C": "fb"}} if u.get("layered") else None)
            ic = rng.random() < 0.25
            d = tempfile.mkdtemp(prefix="pgverif-c20-")
            try:
                os.mkdir(os.path.join(d, "sub"))
                for name, text in files.items():
                    open(os.path.join(d, name), "w").write(text)
                case0 = {"files": files, "flattened": flat.text(), "features": sorted(feats), "ignore_case": ic}

                def report(v):
                    """A deviation is the recorded finding only where the first-import-path rule predicts it."""
                    if deviates and (v.pop("_as_predicted", False) or "override-fqn-collision" in feats):
                        v["attribution"] = "override-not-on-user-path"
                    v.pop("_as_predicted", None)
                    res["violations"].append(v)
                try:
                    gm = Grammar.from_file(os.path.join(d, "root.pg"), ignore_case=ic)
                except Exception as e:
                    report({"kind": "modular-grammar-rejected", "case": case0,
                            "observed": type(e).__name__ + ": " + str(e)[:120], "_as_predicted": True})
                    continue
                try:
                    gf = Grammar.from_string(flat.text(), ignore_case=ic)
                    ga = Grammar.from_string(flat_act.text(), ignore_case=ic) if (deviates and flat_act) else None
                except Exception as e:
                    bump(st["build_errors"], type(e).__name__)
                    continue
                st["modular_grammars"] += 1
                if deviates:
                    st["override_deviations_predicted"] += 1
                if ic:
                    st["ignore_case"] += 1
                for f in feats:
                    bump(st["features"], f)
                # parglare keeps only the rules reachable from the start rule of the root file
                n_doc = n_reachable(flat)
                n_act = n_reachable(flat_act) if flat_act else None
                res["evaluations"] += 1
                if "override" not in feats and len(gm.productions) != n_doc:
                    v = {"kind": "number-of-productions-differs-from-flattened", "case": case0,
                         "observed": len(gm.productions), "expected": n_doc,
                         "_as_predicted": n_act is not None and len(gm.productions) == n_act}
                    report(v)
                    if not v.get("attribution"):
                        continue
                inputs = list(gen.token_strings(spec, u["maxtok"]))[:80]
                if ic:
                    inputs = inputs[:50] + [t.upper() for t in inputs[:30]]
                for kind in ("GLR", "LR"):
                    for f in os.listdir(d):
                        if f.endswith(".pgc"):
                            os.remove(os.path.join(d, f))      # another kind's cache (finding F-CACHE-1)

                    def mk(gr):
                        try:
                            return GLRParser(gr) if kind == "GLR" else Parser(gr)
                        except (SRConflicts, RRConflicts) as e:
                            return type(e).__name__
                    try:
                        pf = mk(gf)
                        pa = mk(ga) if ga is not None else None
                    except Exception as e:
                        bump(st["build_errors"], type(e).__name__)
                        continue
                    try:
                        pm = mk(gm)
                    except Exception as e:
                        # where the first-import-path rule leaves the overriding or the overridden rule without
                        # users, table construction trips over the orphan (same root cause as F-IMP-1)
                        report({"kind": "parser-construction-fails-on-modular-grammar", "case": dict(case0, parser=kind),
                                "observed": type(e).__name__ + ": " + str(e)[:100], "_as_predicted": True})
                        continue
                    if isinstance(pm, str) or isinstance(pf, str):
                        res["evaluations"] += 1
                        if isinstance(pm, str) != isinstance(pf, str):
                            report({"kind": "conflict-status-differs-from-flattened", "case": dict(case0, parser=kind),
                                    "observed": pm if isinstance(pm, str) else "builds",
                                    "expected": pf if isinstance(pf, str) else "builds",
                                    "_as_predicted": pa is not None and isinstance(pa, str) == isinstance(pm, str)})
                        continue
                    for text in inputs:
                        case = dict(case0, parser=kind, input=text)
                        a, b = observe(pm, text), observe(pf, text)
                        res["evaluations"] += 1
                        st["comparisons"] += 1
                        if a != b and "timeout" not in (a[0], b[0]):
                            c = observe(pa, text) if (pa is not None and not isinstance(pa, str)) else None
                            report({"kind": "modular-grammar-differs-from-flattened", "case": case,
                                    "observed": list(a), "expected": list(b), "_as_predicted": c == a})
                            break
                        if feats:
                            res["nontrivial"].append(h16([files, kind, text]))
                if len(res["samples"]) < 2 and feats:
                    res["samples"].append(case0)
            finally:
                shutil.rmtree(d, ignore_errors=True)
    return res

"""MANUAL tool (never run by a check): regenerates known/<finding>.fingerprints from the
violations of the deterministic exhaustive scopes of both tiers on the current tree.
Run only after having established that the listed deviations are the recorded finding."""
import contextlib
import importlib
import io
import os
import sys

HERE = os.path.dirname(os.path.abspath(__file__))
sys.path.insert(0, HERE)
import common  # noqa


def main(prop, finding, kinds):
    mod = importlib.import_module("props." + prop.lower())
    fps = set()
    for tier in ("quick", "thorough"):
        with contextlib.redirect_stdout(io.StringIO()):
            rs = common.run_units(mod.run_unit, mod.units(tier))
        for r in rs:
            for v in r.get("violations", []):
                if v.get("fingerprint") and v["kind"] in kinds:
                    fps.add(v["fingerprint"])
    os.makedirs(os.path.join(common.VERIF, "known"), exist_ok=True)
    path = os.path.join(common.VERIF, "known", finding + ".fingerprints")
    if os.path.exists(path) and "--replace" not in sys.argv:
        fps.update(l.strip() for l in open(path) if l.strip())
    open(path, "w").write("\n".join(sorted(fps)) + "\n")
    print(path, len(fps))


if __name__ == "__main__":
    main(sys.argv[1], sys.argv[2], sys.argv[3].split(","))

#!/bin/bash
# usage: try_mutation.sh <PROP> <patch.diff> [tier]   -- applies the patch to /repo, runs the check, reverts
set -u
PROP=$1; PATCH=$2; TIER=${3:-quick}
cd /repo || exit 2
git apply "$PATCH" || { echo "PATCH DOES NOT APPLY"; exit 2; }
cd /verif
timeout 3600 ./check "$PROP" --tier "$TIER" 2>&1 | grep -E "VIOLATION|KNOWN-FINDING|^C[0-9]+ (quick|thorough)" | cut -c1-220
git -C /repo checkout -- .
git -C /repo status --short | grep -v "^??" | head -3

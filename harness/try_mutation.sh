#!/bin/bash
# usage: try_mutation.sh <PROP> <patch.diff> [tier]
# Runs the check against a scratch worktree of /repo's HEAD with the patch applied (PARGLARE_REPO),
# so that /repo itself is never touched; the worktree is removed afterwards.
set -u
PROP=$1; PATCH=$(readlink -f "$2"); TIER=${3:-quick}
W=/tmp/trymut-$$
git -C /repo worktree add -q --detach "$W" HEAD || exit 2
( cd "$W" && git apply "$PATCH" ) || { echo "PATCH DOES NOT APPLY"; git -C /repo worktree remove --force "$W"; exit 2; }
cd /verif
PARGLARE_REPO="$W" timeout 7200 ./check "$PROP" --tier "$TIER" 2>&1 | grep -E "VIOLATION|KNOWN-FINDING|HARNESS|^C[0-9]+ (quick|thorough)" | cut -c1-220
git -C /repo worktree remove --force "$W"

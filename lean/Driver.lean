import PgVerif.Model.LR
import PgVerif.Model.Decode
import PgVerif.Model.GLR
import PgVerif.Proofs.GLRSound
import PgVerif.Model.Forest
import PgVerif.Spec.SPPF
import PgVerif.Model.Pos
import PgVerif.Spec.Viable
import PgVerif.Model.LineCol
import PgVerif.Model.TableGen
import PgVerif.Spec.LR1
import PgVerif.Spec.LRValid
import PgVerif.Proofs.LRDet
import PgVerif.Spec.Prec
import PgVerif.Spec.LexRules
import PgVerif.Proofs.LexRules
import PgVerif.Proofs.ForestConcrete
import PgVerif.Model.Actions
import PgVerif.Model.Recovery
import PgVerif.Model.Cache
import PgVerif.Model.Layout
import PgVerif.Generated.Source
/-!
`pgmodel`: line-protocol driver. One request per line (a command word followed
by natural numbers), one reply line per request. Context commands (`grammar`,
`table`, `input`, `forest`) set the data the query commands work on.

Symbol encoding: nonterminal k ↦ 2k, terminal k ↦ 2k+1.
-/
open Pg

abbrev Rd := StateT (List Nat) Option

def rd : Rd Nat := do
  let s ← get
  match s with
  | [] => failure
  | x :: xs => set xs; pure x

def rdList {α : Type} (p : Rd α) : Rd (List α) := do
  let n ← rd
  let rec go : Nat → List α → Rd (List α)
    | 0, acc => pure acc.reverse
    | k + 1, acc => do let x ← p; go k (x :: acc)
  go n []

def decSym (n : Nat) : Sym := if n % 2 == 0 then .nt (n / 2) else .t (n / 2)
def encSym : Sym → Nat
  | .nt k => 2 * k
  | .t k => 2 * k + 1

def rdGrammar : Rd Grammar := do
  let start ← rd
  let prods ← rdList (do
    let lhs ← rd
    let rhs ← rdList (decSym <$> rd)
    pure ({ lhs := lhs, rhs := rhs } : Prod))
  pure { prods := prods, start := start }

def rdAction : Rd Action := do
  let k ← rd
  let a ← rd
  match k with
  | 0 => pure (.shift a)
  | 1 => pure (.reduce a)
  | _ => pure .accept

def rdTable : Rd Table := do
  let states ← rdList (do
    let sym ← decSym <$> rd
    let cells ← rdList (do
      let term ← rd
      let fin ← rd
      let acts ← rdList rdAction
      pure (term, fin != 0, acts))
    let gotos ← rdList (do let a ← rd; let s ← rd; pure (a, s))
    pure ({ sym := sym, cells := cells.map (fun c => (c.1, c.2.2)),
            finish := cells.map (fun c => c.2.1), gotoL := gotos } : StateData))
  let terms ← rdList (do let p ← rd; let f ← rd; pure (p, f != 0))
  -- `Table.ofStates` (Model/Decode.lean): empty beyond its states, proved there
  pure (Table.ofStates states.toArray terms.toArray)

def rdInput : Rd Input := do
  let len ← rd
  let skips ← rdList rd
  let ms ← rdList (do let t ← rd; let p ← rd; let l ← rd; pure (t, p, l))
  -- `Input.ofTables` (Model/Decode.lean): `InputOK` and `InputMono` are proved for every decoded input
  -- whose skip table has one entry per position
  if skips.length != len + 1 then failure
  pure (Input.ofTables len skips.toArray ms)

def rdForest : Rd Forest :=
  rdList (do
    let alts ← rdList (do
      let k ← rd
      if k == 0 then
        let t ← rd; let s ← rd; let e ← rd
        pure (Alt.term t s e)
      else
        let p ← rd; let s ← rd; let e ← rd
        let cs ← rdList rd
        pure (Alt.nonterm p s e cs))
    pure ({ alts := alts } : PNode))

partial def rdTree : Rd Tree := do
  let k ← rd
  if k == 0 then
    let t ← rd; let s ← rd; let e ← rd
    pure (.leaf t s e)
  else
    let p ← rd; let s ← rd; let e ← rd
    let cs ← rdList rdTree
    pure (.node p s e cs)

partial def showTree : Tree → String
  | .leaf t s e => s!"(L {t} {s} {e})"
  | .node p s e cs => s!"(N {p} {s} {e}" ++ String.join (cs.map (fun c => " " ++ showTree c)) ++ ")"

def showOutcome : Outcome → String
  | .ok t e p => s!"ok {e} {p} {showTree t}"
  | .syntaxError p => s!"syntax {p}"
  | .disambError p ts => s!"disamb {p} {ts}"
  | .crash => "crash"
  | .outOfFuel => "fuel"

def rdGGrammar : Rd GGrammar := do
  let nnt ← rd
  let prods ← rdList (do
    let lhs ← rd
    let rhs ← rdList (decSym <$> rd)
    let prior ← rd; let assoc ← rd; let nops ← rd; let nopse ← rd
    pure ({ lhs := lhs, rhs := rhs, prior := prior, assoc := assoc, nops := nops != 0, nopse := nopse != 0 } : ProdInfo))
  let terms ← rdList (do
    let prior ← rd; let weight ← rd; let strLike ← rd; let finish ← rd
    let fqn ← rdList rd
    pure ({ prior := prior, weight := weight, strLike := strLike != 0, finish := finish, fqn := fqn } : TermInfo))
  pure { prods := prods, nnt := nnt, nterm := terms.length, terms := terms }

def encAction : Action → List Nat
  | .shift s => [0, s]
  | .reduce p => [1, p]
  | .accept => [2, 0]

def encGenTable (t : GenTable) : List Nat :=
  [t.states.length] ++ (t.states.zip t.finish).flatMap (fun (s, ff) =>
    [encSym s.sym, s.actions.length] ++
    (s.actions.zip ff).flatMap (fun (c, f) =>
      [c.1, if f then 1 else 0, c.2.length] ++ c.2.flatMap encAction) ++
    [s.gotos.length] ++ s.gotos.flatMap (fun x => [x.1, x.2]))

partial def showETree : ETree → String
  | .num => "n"
  | .bin k l r => s!"({k} {showETree l} {showETree r})"
  | .paren t => s!"[{showETree t}]"

def decETok (n : Nat) : ETok :=
  match n with
  | 0 => .num
  | 1 => .lpar
  | 2 => .rpar
  | k + 3 => .op k

def decBuiltin (n : Nat) : Builtin :=
  match n with
  | 0 => .passNone | 1 => .passNochange | 2 => .passEmpty | 3 => .passSingle | 4 => .passInner
  | 5 => .collectFirst | 6 => .collectFirstSep | 7 => .collectRightFirst | 8 => .collectRightFirstSep
  | _ => .zeroAction

def rdActEnv : Rd ActEnv := do
  let prods ← rdList (do
    let k ← rd
    let named ← rdList (do let i ← rd; let b ← rd; pure (i, b != 0))
    let kind : ActKind := if k == 0 then .default else if k == 1 then .user else if k == 20 then .obj
      else .builtin (decBuiltin (k - 2))
    pure ({ kind := kind, named := named } : ProdAct))
  let terms ← rdList rd
  let ta := terms.toArray
  pure { prods := prods, termUser := fun t => match ta[t]? with | some x => x != 0 | none => false }

def jsonStr (cs : List Nat) : String :=
  "\"" ++ String.join (cs.map (fun c =>
    if c == 34 then "\\\"" else if c == 92 then "\\\\" else
    if c < 32 || c > 126 then "\\u" ++ (String.ofList (Nat.toDigits 16 c)).pushn '0' 0 |> fun h =>
      "\\u" ++ String.ofList (List.replicate (4 - (Nat.toDigits 16 c).length) '0') ++ String.ofList (Nat.toDigits 16 c)
    else String.singleton (Char.ofNat c))) ++ "\""

/-- `json.dump(table_to_serializable(table), f, sort_keys=True)`. -/
def pgcJson (T : Table) (ntNames tNames : List (List Nat)) : String :=
  let symName : Sym → List Nat := fun s => match s with
    | .nt k => ntNames.getD k []
    | .t k => tNames.getD k []
  let act : SerAction → String := fun a =>
    "{\"action\": " ++ toString a.action ++
    (match a.prodId with | some p => ", \"prod_id\": " ++ toString p | none => "") ++
    (match a.stateId with | some s => ", \"state_id\": " ++ toString s | none => "") ++ "}"
  let st : Nat → String := fun i =>
    let cells := T.cells i
    "{\"actions\": [" ++ ", ".intercalate (cells.map (fun c =>
        "[" ++ jsonStr (tNames.getD c.1 []) ++ ", [" ++ ", ".intercalate (c.2.map (fun a => act (dumpAction a))) ++ "]]")) ++
    "], \"finish_flags\": [" ++ ", ".intercalate ((T.finish i).map (fun b => if b then "true" else "false")) ++
    "], \"gotos\": [" ++ ", ".intercalate ((T.gotoL i).map (fun g =>
        "[" ++ jsonStr (ntNames.getD g.1 []) ++ ", " ++ toString g.2 ++ "]")) ++
    "], \"state_id\": " ++ toString i ++ ", \"symbol\": " ++ jsonStr (symName (T.sym i)) ++ "}"
  "[" ++ ", ".intercalate ((List.range T.n).map st) ++ "]"

structure St where
  g : Grammar := default
  gg : GGrammar := default
  T : Option Table := none
  inp : Option Input := none
  F : Forest := []
  env : ActEnv := { prods := [], termUser := fun _ => false }
  ntNames : List (List Nat) := []
  tNames : List (List Nat) := []
  /-- final state of the last `glr` command that answered with a forest -/
  glrS : Option GLR.GState := none

def natList (l : List Nat) : String := " ".intercalate (l.map toString)

def handle (st : St) (cmd : String) (args : List Nat) : St × String :=
  match cmd with
  | "grammar" =>
    match rdGrammar.run args with
    | some (g, _) => ({ st with g := g }, "ok")
    | none => (st, "bad-grammar")
  | "ggrammar" =>
    match rdGGrammar.run args with
    | some (g, _) => ({ st with gg := g }, "ok")
    | none => (st, "bad-ggrammar")
  | "tablegen" =>
    -- tablegen <lr1> <prefer_shifts> <pse> <start_prod> <lexdis> <fuel>
    match args with
    | [lr1, ps, pse, sp, lexdis, fuel] =>
      (st, match createTable st.gg { lr1 := lr1 != 0, preferShifts := ps != 0, preferShiftsOverEmpty := pse != 0,
                                     startProd := sp } Src.sortW1 Src.sortW2 (lexdis != 0) fuel with
        | some t => "table " ++ natList (encGenTable t)
        | none => "table fuel")
    | _ => (st, "bad-tablegen")
  | "lr1ref" =>
    match args with
    | [sp, fuel] =>
      (st, match canonicalLR1 st.gg sp fuel with
        | some cs => s!"lr1ref {cs.length}"
        | none => "lr1ref fuel")
    | _ => (st, "bad-lr1ref")
  | "faithful" =>
    match st.T, args with
    | some T, [sp, lalr, fuel] =>
      (st, match faithful st.gg T sp (lalr != 0) fuel with
        | some .ok => "faithful ok"
        | some (.missing s a k p) => s!"faithful missing state={s} symbol={a} kind={k} prod={p}"
        | some (.extra s a p) => s!"faithful extra state={s} terminal={a} prod={p}"
        | none => "faithful fuel")
    | _, _ => (st, "bad-faithful")
  | "climb" =>
    -- climb <nops> {prio left} <ntoks> {tok}
    match (do
      let ops ← rdList (do let p ← rd; let l ← rd; pure (p, l != 0))
      let toks ← rdList (decETok <$> rd)
      pure (ops, toks) : Rd (List (Nat × Bool) × List ETok)).run args with
    | some ((ops, toks), _) =>
      let ot : OpTable := { prio := fun k => (ops.getD k (0, true)).1, left := fun k => (ops.getD k (0, true)).2 }
      (st, match climb ot toks with
        | some t => "climb " ++ showETree t ++ (if t.conventional ot then " conv" else " NOTCONV")
        | none => "climb none")
    | none => (st, "bad-climb")
  | "names" =>
    match (do let a ← rdList (rdList rd); let b ← rdList (rdList rd); pure (a, b) : Rd _).run args with
    | some ((a, b), _) => ({ st with ntNames := a, tNames := b }, "ok")
    | none => (st, "bad-names")
  | "pgcjson" =>
    match st.T with
    | some T => (st, "pgc " ++ pgcJson T st.ntNames st.tNames)
    | none => (st, "no-table")
  | "actenv" =>
    match rdActEnv.run args with
    | some (e, _) => ({ st with env := e }, "ok")
    | none => (st, "bad-actenv")
  | "eval" =>
    match rdTree.run args with
    | some (t, _) => (st, "eval " ++ (t.eval st.env).show)
    | none => (st, "bad-tree")
  | "keysok" =>
    -- is `act_order` a strict total order on this grammar's terminals?
    let ts := st.gg.terms
    let n := ts.length
    let ok := (List.range n).all (fun i => (List.range n).all (fun j =>
      let a := ts.getD i default
      let b := ts.getD j default
      if i == j then !(before Src.sortW1 Src.sortW2 a a)
      else (before Src.sortW1 Src.sortW2 a b) != (before Src.sortW1 Src.sortW2 b a)))
    (st, if ok then "keysok 1" else "keysok 0")
  | "skipws" =>
    -- skipws <nws> {ws code points} <n> {text code points}: skip table for every position
    match (do let ws ← rdList rd; let text ← rdList rd; pure (ws, text) : Rd _).run args with
    | some ((ws, text), _) =>
      (st, "skipws " ++ natList ((List.range (text.length + 1)).map (skipWs (fun c => ws.contains c) text)))
    | none => (st, "bad-skipws")
  | "firstsets" => (st, "firstsets " ++ natList (firstSets st.gg))
  | "table" =>
    match rdTable.run args with
    | some (T, _) => ({ st with T := some T }, "ok")
    | none => (st, "bad-table")
  | "input" =>
    match rdInput.run args with
    | some (i, _) => ({ st with inp := some i }, "ok")
    | none => (st, "bad-input")
  | "forest" =>
    match rdForest.run args with
    | some (F, _) => ({ st with F := F }, "ok")
    | none => (st, "bad-forest")
  | "wf" =>
    match st.T with
    | some T => (st, if T.wf st.g then "wf 1" else "wf 0")
    | none => (st, "no-table")
  | "lr" =>
    match st.T, st.inp, args with
    | some T, some inp, [consume, lexdis, fuel] =>
      (st, showOutcome (parseLR st.g T inp { consumeInput := consume != 0, lexDis := lexdis != 0 } fuel))
    | _, _, _ => (st, "bad-lr")
  | "lrrec" =>
    match st.T, st.inp, args with
    | some T, some inp, [consume, lexdis, fuel] =>
      let r := parseLRrec st.g T inp { consumeInput := consume != 0, lexDis := lexdis != 0 } fuel
      (st, showOutcome r.1 ++ " | " ++ natList (r.2.flatMap (fun x => [x.1, x.2])))
    | _, _, _ => (st, "bad-lrrec")
  | "tokens" =>
    -- tokens <state> <pos> <consume> <lexdis>
    match st.T, st.inp, args with
    | some T, some inp, [s, p, consume, lexdis] =>
      let toks := nextTokens T inp (consume != 0) (lexdis != 0) s p
      (st, "tokens " ++ natList (toks.flatMap (fun t => [t.term, t.len])))
    | _, _, _ => (st, "bad-tokens")
  | "rules" =>
    -- rules <state> <pos> <lexdis> <strlike flag per terminal...>: the documented rule set on the candidates
    match st.T, st.inp, args with
    | some T, some inp, s :: p :: lexdis :: flags =>
      let strLike := fun t => flags.getD t 0 != 0
      let cands := candidates T inp s p
      let toks := if lexdis != 0 then lexRules T strLike cands else topPriority T cands
      (st, "rules " ++ natList (toks.flatMap (fun t => [t.term, t.len])))
    | _, _, _ => (st, "bad-rules")
  | "lexhyp" =>
    -- lexhyp <state> <pos> <strlike flag per terminal...>: the decidable hypotheses of
    -- C07_next_tokens_eq_rules / C07_next_tokens_nolex on this table, state and position
    match st.T, st.inp, args with
    | some T, some inp, s :: p :: flags =>
      let strLike := fun t => flags.getD t 0 != 0
      let b := fun (x : Bool) => if x then 1 else 0
      (st, "lexhyp " ++ natList [b ((T.finish s).length == (T.cells s).length),
        b (lexSortedB T strLike (T.expected s)), b (flagsOKB T strLike (T.expected s)),
        b (strDecB T inp strLike p (T.expected s)), b ((T.expected s).all (fun x => !x.2))])
    | _, _, _ => (st, "bad-lexhyp")
  | "sentence" =>
    match st.inp, args with
    | some inp, [fuel] =>
      (st, match isSentence st.g inp fuel with
        | some b => if b then "sentence 1" else "sentence 0"
        | none => "sentence fuel")
    | _, _ => (st, "bad-sentence")
  | "prefix" =>
    match st.inp, args with
    | some inp, [fuel] =>
      (st, match isPrefixSentence st.g inp fuel with
        | some b => if b then "prefix 1" else "prefix 0"
        | none => "prefix fuel")
    | _, _ => (st, "bad-prefix")
  | "derives" =>
    -- derives <consume> <tree...>: is the tree a parse (prefix parse) of the input?
    match st.inp, args with
    | some inp, consume :: rest =>
      (match rdTree.run rest with
       | some (t, _) =>
         let ok := t.valid st.g && (t.sym st.g == some (Sym.nt st.g.start)) &&
           (match chain inp 0 t.yield with
            | some e => consume == 0 || inp.skip e == inp.len
            | none => false)
         (st, if ok then "derives 1" else "derives 0")
       | none => (st, "bad-tree"))
    | _, _ => (st, "bad-derives")
  | "sppf" =>
    -- sppf <fuel> <consume>: packed alternatives of the complete SPPF: A i j p n k1..kn ...
    match st.inp, args with
    | some inp, [fuel, consume] =>
      (st, match sppfAlts st.g inp fuel (consume != 0) with
        | some alts => "sppf " ++ natList (alts.flatMap (fun a => [a.A, a.i, a.j, a.p, a.ks.length] ++ a.ks))
        | none => "sppf fuel")
    | _, _ => (st, "bad-sppf")
  | "posok" =>
    -- posok <len> <tree...>
    match args with
    | len :: rest =>
      (match rdTree.run rest with
       | some (t, _) => (st, if t.posOK && t.inBounds len then "posok 1" else "posok 0")
       | none => (st, "bad-tree"))
    | _ => (st, "bad-posok")
  | "posokr" =>
    -- posokr <tree...>: positions well formed modulo layout (needs `input`)
    match st.inp with
    | some inp =>
      (match rdTree.run args with
       | some (t, _) => (st, if t.posOKModLayout inp then "posokr 1" else "posokr 0")
       | none => (st, "bad-tree"))
    | none => (st, "bad-posokr")
  | "viable" =>
    match st.inp, args with
    | some inp, [fuel] =>
      (st, match viableEnds st.g inp fuel with
        | some l => "viable " ++ natList l
        | none => "viable fuel")
    | _, _ => (st, "bad-viable")
  | "nextterms" =>
    -- nextterms <fuel> <rawEnd> <terminals...>
    match st.inp, args with
    | some inp, fuel :: r :: terms =>
      (st, match nextTerminals st.g inp fuel r terms with
        | some l => "nextterms " ++ natList l
        | none => "nextterms fuel")
    | _, _ => (st, "bad-nextterms")
  | "linecol" =>
    -- linecol <pos> <code points...>
    match args with
    | pos :: text => let r := posToLineCol text pos; (st, s!"linecol {r.1} {r.2}")
    | _ => (st, "bad-linecol")
  | "lrvalid" =>
    -- lrvalid <nstates {nitems {prod dot nla la*}*}*> <nnt {nul nfst fst*}*>: the completeness validator of
    -- Spec/LRValid.lean on the current grammar and table with the implementation's item sets and FIRST data
    match st.T, (do
        let items ← rdList (rdList (do
          let p ← rd; let d ← rd; let la ← rdList rd
          pure ({ prod := p, dot := d, la := la } : LRV.VItem)))
        let fd ← rdList (do let nul ← rd; let fst ← rdList rd; pure (nul != 0, fst))
        pure (items, fd) : Rd _).run args with
    | some T, some ((items, fd), _) =>
      let I := fun s => items.getD s []
      let F : LRV.FirstData := { fst := fun A => (fd.getD A (false, [])).2, nul := fun A => (fd.getD A (false, [])).1 }
      (st, if LRV.lrComplete st.g T I F then "lrvalid 1" else
        -- say which part fails
        let bad := (List.range T.n).filter (fun s => !(I s).all (LRV.itemOK st.g T I F s))
        s!"lrvalid 0 closed={F.closed st.g} start={LRV.hasItem (I 0) 0 0 []} badstates={bad.take 5}")
    | _, _ => (st, "bad-lrvalid")
  | "lrsound" =>
    -- lrsound <nstates {nitems {prod dot nla la*}*}*> ...: soundness of the item sets (LRV.lrSound): the hypothesis
    -- of the correct-prefix theorem C10_stack_begins_a_sentential_form
    match st.T, (do
        let items ← rdList (rdList (do
          let p ← rd; let d ← rd; let la ← rdList rd
          pure ({ prod := p, dot := d, la := la } : LRV.VItem)))
        pure items : Rd _).run args with
    | some T, some (items, _) =>
      let I := fun s => items.getD s []
      (st, if LRV.lrSound st.g T I then "lrsound 1" else
        let bad := (List.range T.n).filter (fun s => (I s).isEmpty || !(I s).all (LRV.itemSoundOK st.g T I s))
        s!"lrsound 0 badstates={bad.take 5}")
    | _, _ => (st, "bad-lrsound")
  | "glr" =>
    -- glr <fuel> <consume> <lexdis>: the GLR driver model on the current grammar, table and input; packed alternatives of
    -- the forest: sym s e prod n (sym s e)*
    match st.T, st.inp, args with
    | some T, some inp, [fuel, consume, lexdis] =>
      (match GLR.parseGLR st.g T inp (consume != 0) (lexdis != 0) fuel with
        | .forest s =>
          let alts := GLR.reachableAlts T s ((s.links.size + 2) * (s.links.size + 2) * 8 + 1000)
          ({ st with glrS := some s }, "glr forest " ++ natList (alts.flatMap (fun a =>
            [encSym a.1.1, a.1.2.1, a.1.2.2, a.2.1, a.2.2.length] ++
              a.2.2.flatMap (fun k => [encSym k.1, k.2.1, k.2.2]))))
        | .syntaxError => ({ st with glrS := none }, "glr syntax")
        | .orderSensitive => ({ st with glrS := none }, "glr ordersens")
        | .crash => ({ st with glrS := none }, "glr crash")
        | .outOfFuel => ({ st with glrS := none }, "glr fuel"))
    | _, _, _ => (st, "bad-glr")
  | "glrtree" =>
    -- glrtree <tree...>: is the tree packed under a root link of the forest of the last `glr` command?
    -- (hypothesis of C01_tree_found_in_glr_model_forest_is_parse)
    match st.glrS with
    | some s =>
      (match rdTree.run args with
       | some (t, _) => (st, if GLR.forestHasTree s t then "glrtree 1" else "glrtree 0")
       | none => (st, "bad-tree"))
    | none => (st, "glrtree none")
  | "skipidem" =>
    -- skipidem: hypothesis of C01_glr_model_sound on the current input (layout skipping idempotent)
    match st.inp with
    | some inp => (st, if skipIdemB inp then "skipidem 1" else "skipidem 0")
    | none => (st, "bad-skipidem")
  | "detok" =>
    -- detok: the executable hypotheses of C04_exact_when_deterministic on the current table and input:
    -- <detTableB: every cell at most one action, finish flags per cell, cell terminals distinct>
    -- <lexDetB: no two expected terminals of a state match the same position>
    match st.T, st.inp with
    | some T, some inp =>
      let b := fun (x : Bool) => if x then 1 else 0
      (st, "detok " ++ natList [b (detTableB T), b (lexDetB T inp)])
    | _, _ => (st, "bad-detok")
  | "fwf" => (st, if st.F.wf then "fwf 1" else "fwf 0")
  | "fkeyed" =>
    -- fkeyed <lhs of production 0> <lhs of production 1> ...: hypothesis of C03_parse_trees_pairwise_distinct
    (st, if st.F.keyed (fun p => args.getD p 0) then "fkeyed 1" else "fkeyed 0")
  | "sols" =>
    match args with
    | [root] => (st, s!"sols {solutions st.F root}")
    | _ => (st, "bad-sols")
  | "amb" =>
    match args with
    | [root] => (st, s!"amb {ambiguities st.F root}")
    | _ => (st, "bad-amb")
  | "loop" =>
    match args with
    | [root] => (st, if loopError st.F root then "loop 1" else "loop 0")
    | _ => (st, "bad-loop")
  | "treeat" =>
    match args with
    | [root, i] =>
      (st, match getTree st.F root i with
        | .tree t => "tree " ++ showTree (t.concrete st.F)
        | .indexError => "indexerror")
    | _ => (st, "bad-treeat")
  | "first" =>
    match args with
    | [root] =>
      (st, match firstTree st.F root with
        | some t => "tree " ++ showTree (t.concrete st.F)
        | none => "none")
    | _ => (st, "bad-first")
  | _ => (st, "bad-op")

partial def loop (h : IO.FS.Stream) (out : IO.FS.Stream) (st : St) : IO Unit := do
  let line ← h.getLine
  if line.isEmpty then return ()
  let toks := (line.trimAscii.toString.splitOn " ").filter (· ≠ "")
  match toks with
  | [] => out.putStrLn "bad-op"; loop h out st
  | cmd :: rest =>
    match rest.mapM String.toNat? with
    | none => out.putStrLn "bad-args"; loop h out st
    | some args =>
      let (st', reply) := handle st cmd args
      out.putStrLn reply
      loop h out st'

def main : IO Unit := do
  let stdin ← IO.getStdin
  let stdout ← IO.getStdout
  loop stdin stdout {}

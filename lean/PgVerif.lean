import PgVerif.Spec.CFG

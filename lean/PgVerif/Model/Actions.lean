import PgVerif.Spec.CFG
/-!
Model of semantic action evaluation on a tree (`Parser.call_actions`,
`parglare/parser.py`) with the built-in actions of `parglare/actions.py` and the
inline action of `x*`; user actions are a free term constructor (`Val.call`), so
the result records exactly which action was called with which sub-results and
named matches.
-/
namespace Pg

inductive Val where
  | str (t s e : Nat)                      -- a token's value, identified by its terminal and span
  | tcall (t s e : Nat)                    -- result of a user action on a terminal
  | list (l : List Val)
  | none
  | bool (b : Bool)
  | call (prod : Nat) (args : List Val) (named : List (Nat × Val))
  | obj (vals : List Val) (s e : Nat)      -- instance created by the `obj` action: named values, span
deriving Repr, Inhabited

/-- Python truthiness of a result (for `?=`). -/
def Val.truthy : Val → Bool
  | .str _ s e => s < e
  | .tcall _ _ _ => true
  | .list l => !l.isEmpty
  | .none => false
  | .bool b => b
  | .call _ _ _ => true
  | .obj _ _ _ => true

inductive Builtin where
  | passNone | passNochange | passEmpty | passSingle | passInner
  | collectFirst | collectFirstSep | collectRightFirst | collectRightFirstSep | zeroAction
deriving DecidableEq, Repr, Inhabited

inductive ActKind where
  | default
  | user
  | builtin (b : Builtin)
  | obj
deriving Repr, Inhabited

/-- Per production: which action applies (the symbol's action, or the element
`prod_symbol_id` of its action list) and its named matches as
(rhs index, is `?=`). -/
structure ProdAct where
  kind : ActKind
  named : List (Nat × Bool)
deriving Repr, Inhabited

structure ActEnv where
  prods : List ProdAct
  termUser : Nat → Bool      -- terminal has a user action

def asList : Val → List Val
  | .list l => l
  | _ => []

def applyBuiltin (b : Builtin) (args : List Val) : Val :=
  match b with
  | .passNone => .none
  | .passNochange => .list args
  | .passEmpty => .list []
  | .passSingle => args.getD 0 .none
  | .passInner =>
    let n := (args.drop 1).dropLast
    (match n with
     | [x] => x
     | _ => .list n)
  | .collectFirst =>
    (match args with
     | [e1, .none] => e1
     | [e1, e2] => .list (asList e1 ++ [e2])
     | _ => .none)
  | .collectFirstSep =>
    (match args with
     | [e1, _, .none] => e1
     | [e1, _, e2] => .list (asList e1 ++ [e2])
     | _ => .none)
  | .collectRightFirst => .list (args.getD 0 .none :: asList (args.getD 1 .none))
  | .collectRightFirstSep => .list (args.getD 0 .none :: asList (args.getD 2 .none))
  | .zeroAction => (match args with | x :: _ => x | [] => .list [])

def applyProd (env : ActEnv) (p : Nat) (args : List Val) (s : Nat := 0) (e : Nat := 0) : Val :=
  let pa := env.prods.getD p default
  match pa.kind with
  | .default => (match args with | [x] => x | _ => .list args)
  | .user => .call p args (pa.named.map (fun (i, isBool) =>
      let v := args.getD i .none
      (i, if isBool then .bool v.truthy else v)))
  | .builtin b => applyBuiltin b args
  | .obj => .obj (pa.named.map (fun (i, isBool) =>
      let v := args.getD i .none
      if isBool then .bool v.truthy else v)) s e

mutual
  /-- `call_actions(node)`. -/
  def Tree.eval (env : ActEnv) : Tree → Val
    | .leaf t s e => if env.termUser t then .tcall t s e else .str t s e
    | .node p s e cs => applyProd env p (Tree.evalL env cs) s e
  def Tree.evalL (env : ActEnv) : List Tree → List Val
    | [] => []
    | c :: cs => c.eval env :: Tree.evalL env cs
end

partial def Val.show : Val → String
  | .str t s e => s!"T{t}:{s}-{e}"
  | .tcall t s e => s!"U{t}:{s}-{e}"
  | .list l => "[" ++ ",".intercalate (l.map Val.show) ++ "]"
  | .none => "None"
  | .bool b => if b then "True" else "False"
  | .obj vals s e => "O(" ++ ",".intercalate (vals.map Val.show) ++ s!";{s}-{e})"
  | .call p args named => s!"A{p}(" ++ ",".intercalate (args.map Val.show) ++ ";" ++
      ",".intercalate (named.map (fun (i, v) => s!"{i}={Val.show v}")) ++ ")"

end Pg

import PgVerif.Model.Table
/-!
Models for C12.

`Ser`: the serialisable form of a table (`parglare/tables/persist.py`:
`_dump_state`, `_dump_actions`, `table_from_serializable`).

`Store`: the decision logic of `create_load_table` over an abstract grammar
directory: grammar files with modification times, an optional table file with
its content (which grammar version and which table-affecting options it was
computed from, or garbage after an interrupted write) and modification time, and
a strictly increasing clock (every write stamps the current time).
-/
namespace Pg

/-! ### Serialisable form -/

structure SerAction where
  action  : Nat               -- 0 SHIFT, 1 REDUCE, 2 ACCEPT
  stateId : Option Nat        -- present iff `action.state is not None`
  prodId  : Option Nat        -- present iff `action.prod is not None`
deriving DecidableEq, Repr, Inhabited

structure SerState where
  stateId : Nat
  symbol  : Sym
  actions : List (Nat × List SerAction)
  gotos   : List (Nat × Nat)
  finish  : List Bool
deriving DecidableEq, Repr, Inhabited

def dumpAction : Action → SerAction
  | .shift s => ⟨0, some s, none⟩
  | .reduce p => ⟨1, none, some p⟩
  | .accept => ⟨2, none, none⟩

/-- `Action(json_action["action"], act_state, act_prod)` read back as the model's
action; `none` = a record no table produces. -/
def loadAction (a : SerAction) : Option Action :=
  match a.action, a.stateId, a.prodId with
  | 0, some s, none => some (.shift s)
  | 1, none, some p => some (.reduce p)
  | 2, none, none => some .accept
  | _, _, _ => none

/-- A table as a list of states (the part that is saved). -/
structure PState where
  sym     : Sym
  cells   : List (Nat × List Action)
  gotoL   : List (Nat × Nat)
  finish  : List Bool
deriving DecidableEq, Repr, Inhabited

def dumpState (i : Nat) (s : PState) : SerState :=
  ⟨i, s.sym, s.cells.map (fun c => (c.1, c.2.map dumpAction)), s.gotoL, s.finish⟩

def enumStates : Nat → List PState → List SerState
  | _, [] => []
  | i, s :: rest => dumpState i s :: enumStates (i + 1) rest

def dumpTable (t : List PState) : List SerState := enumStates 0 t

def loadCell (c : Nat × List SerAction) : Option (Nat × List Action) :=
  (c.2.mapM loadAction).map (fun as => (c.1, as))

def loadState (s : SerState) : Option PState :=
  (s.actions.mapM loadCell).map (fun cells => ⟨s.symbol, cells, s.gotos, s.finish⟩)

def loadTable (ss : List SerState) : Option (List PState) := ss.mapM loadState

/-! ### The cache decision -/

structure Opts where
  lalr : Bool
  preferShifts : Bool
  preferShiftsOverEmpty : Bool
  lexDis : Bool
deriving DecidableEq, Repr, Inhabited

inductive PgcContent where
  | table (version : Nat) (opts : Opts)     -- the table of that grammar version under those options
  | garbage                                  -- truncated / incomplete file
deriving DecidableEq, Repr, Inhabited

structure Store where
  clock    : Nat
  version  : Nat                 -- current content of the grammar files (bumped by every edit)
  gmtimes  : List Nat            -- modification times of root and imported grammar files
  pgc      : Option (PgcContent × Nat)    -- content and modification time
deriving Repr, Inhabited

inductive Op where
  | edit (file : Nat)            -- change a grammar file's text
  | touch (file : Nat)           -- update its modification time only
  | construct (opts : Opts)      -- build a Parser/GLRParser (or `pglr compile`) with these options
  | crash                        -- the table file is left truncated by an interrupted write
  | removePgc
deriving Repr, Inhabited

/-- `create_load_table` (after the repair of unreadable files): returns the new
store and the (version, options) of the table the parser ends up with. -/
def construct (st : Store) (o : Opts) : Store × (Nat × Opts) :=
  let fresh : Store × (Nat × Opts) :=
    ({ st with clock := st.clock + 1, pgc := some (.table st.version o, st.clock + 1) }, (st.version, o))
  match st.pgc with
  | none => fresh
  | some (content, tm) =>
    if st.gmtimes.any (fun m => decide (m > tm)) then fresh
    else match content with
      | .table v o' => (st, (v, o'))
      | .garbage => fresh

def setAt (l : List Nat) (i v : Nat) : List Nat := l.set i v

def applyOp (st : Store) : Op → Store × Option (Nat × Opts)
  | .edit f => ({ st with clock := st.clock + 1, version := st.version + 1,
                          gmtimes := setAt st.gmtimes f (st.clock + 1) }, none)
  | .touch f => ({ st with clock := st.clock + 1, gmtimes := setAt st.gmtimes f (st.clock + 1) }, none)
  | .construct o => let r := construct st o; (r.1, some r.2)
  | .crash => ({ st with pgc := st.pgc.map (fun p => (.garbage, p.2)) }, none)
  | .removePgc => ({ st with pgc := none }, none)

end Pg

import PgVerif.Spec.Chart
import PgVerif.Proofs.Pos
/-!
How the driver builds `Input` and `Table` values from the finite dumps of the
harness, as library definitions, with the facts the theorems assume about them
*proved* instead of "true by construction of the decoder": every decoded input
satisfies `InputOK` and `InputMono`, every decoded table is empty beyond its
states.
-/
namespace Pg

/-- An input from a skip table (positions `0..len`) and a match table
`(terminal, position, length)`: out-of-range matches and matches of `STOP` are
dropped, skipping is clamped into `[p, len]`, beyond the text nothing is skipped. -/
def Input.ofTables (len : Nat) (skips : Array Nat) (ms : List (Nat × Nat × Nat)) : Input :=
  let ms' := ms.filter (fun m => m.1 != STOP && decide (m.2.1 + m.2.2 ≤ len))
  { len := len
    skip := fun p => match skips[p]? with
      | some q => if p ≤ len then max p (min q len) else p
      | none => p
    mlen := fun t p => (ms'.find? (fun m => m.1 == t && m.2.1 == p)).map (fun m => m.2.2) }

theorem Input.ofTables_ok (len : Nat) (skips : Array Nat) (ms : List (Nat × Nat × Nat))
    (hsk : skips.size = len + 1) : InputOK (Input.ofTables len skips ms) := by
  refine ⟨?_, ?_, ?_⟩
  · intro t p l h
    simp only [Input.ofTables, Option.map_eq_some_iff] at h
    obtain ⟨m, hm, rfl⟩ := h
    have h1 := List.mem_of_find?_eq_some hm
    have h2 := List.find?_some hm
    simp only [List.mem_filter, Bool.and_eq_true, decide_eq_true_eq, beq_iff_eq] at h1 h2
    rw [← h2.2]
    exact h1.2.2
  · intro p hp
    have hp' : p ≤ len := hp
    show (Input.ofTables len skips ms).skip p ≤ len
    simp only [Input.ofTables]
    have : p < skips.size := by omega
    simp only [Array.getElem?_eq_getElem this, hp', if_true]
    omega
  · intro p
    simp only [Input.ofTables, Option.map_eq_none_iff]
    apply List.find?_eq_none.mpr
    intro m hm
    simp only [List.mem_filter, Bool.and_eq_true, bne_iff_ne, ne_eq] at hm
    simp only [Bool.and_eq_true, beq_iff_eq, not_and]
    intro h; exact absurd h hm.2.1

theorem Input.ofTables_mono (len : Nat) (skips : Array Nat) (ms : List (Nat × Nat × Nat)) :
    InputMono (Input.ofTables len skips ms) := by
  refine ⟨?_⟩
  intro p
  simp only [Input.ofTables]
  cases skips[p]? with
  | none => exact Nat.le_refl _
  | some q =>
    simp only
    split
    · omega
    · exact Nat.le_refl _

/-- Layout skipping is idempotent on the positions of the text (beyond it nothing is skipped). -/
def skipIdemB (inp : Input) : Bool :=
  (List.range (inp.len + 1)).all (fun p => inp.skip (inp.skip p) == inp.skip p)

theorem Input.ofTables_idem (len : Nat) (skips : Array Nat) (ms : List (Nat × Nat × Nat))
    (h : skipIdemB (Input.ofTables len skips ms) = true) :
    ∀ p, (Input.ofTables len skips ms).skip ((Input.ofTables len skips ms).skip p) =
      (Input.ofTables len skips ms).skip p := by
  intro p
  by_cases hp : p ≤ len
  · simp only [skipIdemB, List.all_eq_true, List.mem_range, beq_iff_eq] at h
    exact h p (by show p < len + 1; omega)
  · have hfix : (Input.ofTables len skips ms).skip p = p := by
      simp only [Input.ofTables]
      cases skips[p]? with
      | none => rfl
      | some q => simp only [hp, if_false]
    rw [hfix, hfix]

structure StateData where
  sym : Sym
  cells : List (Nat × List Action)
  finish : List Bool
  gotoL : List (Nat × Nat)
deriving Inhabited

/-- A table from the list of its states and the terminal attributes (priority, prefer). -/
def Table.ofStates (states : Array StateData) (terms : Array (Nat × Bool)) : Table :=
  { n := states.size
    sym := fun s => match states[s]? with | some d => d.sym | none => .nt 0
    cells := fun s => match states[s]? with | some d => d.cells | none => []
    finish := fun s => match states[s]? with | some d => d.finish | none => []
    gotoL := fun s => match states[s]? with | some d => d.gotoL | none => []
    prior := fun t => match terms[t]? with | some d => d.1 | none => 0
    prefer := fun t => match terms[t]? with | some d => d.2 | none => false }

/-- A decoded table is empty beyond its states (the side condition of `C04_exact_when_deterministic`). -/
theorem Table.ofStates_fin (states : Array StateData) (terms : Array (Nat × Bool)) :
    ∀ s, (Table.ofStates states terms).n ≤ s →
      (Table.ofStates states terms).cells s = [] ∧ (Table.ofStates states terms).finish s = [] := by
  intro s hs
  simp only [Table.ofStates] at hs ⊢
  have : states[s]? = none := by
    apply Array.getElem?_eq_none
    omega
  simp [this]

end Pg

import PgVerif.Spec.CFG
/-!
Model of the shared packed parse forest of `parglare/trees.py` + `glr.py::Parent`:
counting (`Parent.solutions`, `NodeNonTerm.solutions`), index decoding
(`Tree.__init__`, `Tree._enumerate_children`), `get_first_tree`, ambiguity
counting and the cycle check of `visitor(check_cycle=True)`.

An acyclic forest is a list of ambiguity nodes (`Parent` objects) in
topological order: node `i` is `F[i]`, and the children of its alternatives
have smaller indices. Everything is computed bottom-up by one left fold, which
is both the memoised execution (`visitor(memoize=True)`) and the induction
principle of the proofs; `Nat` is unbounded like Python's integers.
-/
namespace Pg

/-- One alternative (`possibility`) of an ambiguity node. -/
inductive Alt where
  | term (t s e : Nat)
  | nonterm (prod s e : Nat) (children : List Nat)
deriving DecidableEq, Repr, Inhabited

/-- An ambiguity node (`Parent`): its alternatives in list order. -/
structure PNode where
  alts : List Alt
deriving DecidableEq, Repr, Inhabited

abbrev Forest := List PNode

/-- A tree of the forest as a choice: which alternative was taken at which
ambiguity node. -/
inductive CTree where
  | mk (node alt : Nat) (cs : List CTree)
deriving Repr, Inhabited

/-! ### Counting -/

def Alt.children : Alt → List Nat
  | .term _ _ _ => []
  | .nonterm _ _ _ cs => cs

/-- `NodeNonTerm.solutions` / `NodeTerm.solutions` given the counts of the
nodes below. -/
def altSols (acc : List Nat) (a : Alt) : Nat :=
  (a.children.map (fun c => acc.getD c 0)).foldr (· * ·) 1

/-- `Parent.solutions` of one node given the counts of the nodes below. -/
def nodeSols (acc : List Nat) (n : PNode) : Nat :=
  (n.alts.map (altSols acc)).foldr (· + ·) 0

/-- Counts of all nodes, bottom-up. -/
def solsL (F : Forest) : List Nat :=
  F.foldl (fun acc n => acc ++ [nodeSols acc n]) []

/-- `len(forest)` for the forest rooted at `root`. -/
def solutions (F : Forest) (root : Nat) : Nat := (solsL F).getD root 0

/-! ### The trees a forest represents, in index order -/

/-- All ways of picking one element per list, first list most significant. -/
def prodLists {α : Type} : List (List α) → List (List α)
  | [] => [[]]
  | l :: ls => l.flatMap (fun x => (prodLists ls).map (x :: ·))

def altTrees (acc : List (List CTree)) (node : Nat) (k : Nat) (a : Alt) : List CTree :=
  (prodLists (a.children.map (fun c => acc.getD c []))).map (CTree.mk node k)

def enumFrom {α : Type} : Nat → List α → List (Nat × α)
  | _, [] => []
  | k, x :: xs => (k, x) :: enumFrom (k + 1) xs

def nodeTrees (acc : List (List CTree)) (node : Nat) (n : PNode) : List CTree :=
  (enumFrom 0 n.alts).flatMap (fun ka => altTrees acc node ka.1 ka.2)

def treesL (F : Forest) : List (List CTree) :=
  F.foldl (fun acc n => acc ++ [nodeTrees acc acc.length n]) []

/-- The trees of the forest rooted at `root`, in the order of `forest[i]`. -/
def trees (F : Forest) (root : Nat) : List CTree := (treesL F).getD root []

/-! ### Index decoding -/

/-- `Tree.__init__`: "find the right possibility bucket". Returns the chosen
alternative index and the remaining counter; `none` = Python runs off the end
of `possibilities` (IndexError). -/
def bucket (ws : List Nat) : Nat → Nat → Option (Nat × Nat)
  | counter, k =>
    match ws with
    | [] => none
    | w :: rest => if w ≤ counter then bucket rest (counter - w) (k + 1) else some (k, counter)

def pickAlt (ws : List Nat) (counter : Nat) : Option (Nat × Nat) :=
  if 0 < counter ∧ 1 < ws.length then bucket ws counter 0
  else if ws.isEmpty then none else some (0, counter)

/-- `Tree._enumerate_children`: weighted mixed-radix split of the counter. -/
def splitCounter : List Nat → Nat → List Nat
  | [], _ => []
  | _ :: ws, counter =>
    let factor := ws.foldr (· * ·) 1
    (counter / factor) :: splitCounter ws (counter % factor)

def decodeChildren (dec : List (Nat → Option CTree)) : List Nat → List Nat → Option (List CTree)
  | [], [] => some []
  | c :: cs, k :: ks =>
    match dec.getD c (fun _ => none) k, decodeChildren dec cs ks with
    | some t, some ts => some (t :: ts)
    | _, _ => none
  | _, _ => none

/-- Decoder of one node given the counts and decoders of the nodes below. -/
def decodeNode (sols : List Nat) (dec : List (Nat → Option CTree)) (node : Nat) (n : PNode)
    (counter : Nat) : Option CTree :=
  match pickAlt (n.alts.map (altSols sols)) counter with
  | none => none
  | some (k, counter') =>
    match n.alts[k]? with
    | none => none
    | some a =>
      let ws := a.children.map (fun c => sols.getD c 0)
      match decodeChildren dec a.children (splitCounter ws counter') with
      | some cs => some (.mk node k cs)
      | none => none

def decodeL (F : Forest) : List Nat × List (Nat → Option CTree) :=
  F.foldl (fun (acc : List Nat × List (Nat → Option CTree)) n =>
    (acc.1 ++ [nodeSols acc.1 n], acc.2 ++ [decodeNode acc.1 acc.2 acc.2.length n])) ([], [])

/-- The tree `Tree(root, i)` selects (no bounds check). -/
def treeAt (F : Forest) (root i : Nat) : Option CTree :=
  (decodeL F).2.getD root (fun _ => none) i

inductive IndexResult where
  | tree (t : CTree)
  | indexError
deriving Repr, Inhabited

/-- `Forest.get_tree` / `get_nonlazy_tree` after the bounds-check repair. -/
def getTree (F : Forest) (root i : Nat) : IndexResult :=
  if 0 < i ∧ solutions F root ≤ i then .indexError
  else match treeAt F root i with
    | some t => .tree t
    | none => .indexError

/-- `get_first_tree`: alternative 0 everywhere. -/
def firstL (F : Forest) : List (Option CTree) :=
  F.foldl (fun acc n =>
    acc ++ [match n.alts with
      | [] => none
      | a :: _ =>
        (a.children.foldr (fun c r => match acc.getD c none, r with
          | some t, some ts => some (t :: ts)
          | _, _ => none) (some [])).map (CTree.mk acc.length 0)]) []

def firstTree (F : Forest) (root : Nat) : Option CTree := (firstL F).getD root none

/-! ### Concrete trees -/

mutual
  /-- The parse tree a choice tree stands for. -/
  def CTree.concrete (F : Forest) : CTree → Tree
    | .mk node k cs =>
      match (F.getD node ⟨[]⟩).alts[k]? with
      | some (.term t s e) => .leaf t s e
      | some (.nonterm p s e _) => .node p s e (CTree.concreteL F cs)
      | none => .leaf 0 0 0
  def CTree.concreteL (F : Forest) : List CTree → List Tree
    | [] => []
    | c :: cs => c.concrete F :: CTree.concreteL F cs
end

/-! ### Ambiguities -/

/-- Nodes reachable from `root` (bottom-up marking over the topological order,
processed from the top). -/
def reachable (F : Forest) (root : Nat) : List Bool :=
  let init := (List.range F.length).map (· == root)
  (List.range F.length).reverse.foldl (fun (mark : List Bool) i =>
    if mark.getD i false then
      let kids := ((F.getD i ⟨[]⟩).alts.map Alt.children).flatten
      mark.mapIdx (fun j b => b || kids.contains j)
    else mark) init

/-- `Forest.ambiguities`: reachable ambiguity nodes with more than one
alternative, each counted once. -/
def ambiguities (F : Forest) (root : Nat) : Nat :=
  let reach := reachable F root
  ((enumFrom 0 (reach.zip F)).filter (fun x => x.2.1 && decide (1 < x.2.2.alts.length))).length

/-- Well-formed acyclic forest: children point strictly downwards and every
ambiguity node has at least one alternative. -/
def Forest.wf (F : Forest) : Bool :=
  (enumFrom 0 F).all (fun (i, n) => !n.alts.isEmpty &&
    n.alts.all (fun a => a.children.all (fun c => decide (c < i))))

/-! ### General graphs: the LoopError clause -/

/-- A forest graph with arbitrary edges (cyclic grammars): `G[i]` are the
alternatives of node `i`. `hasCycleFrom` decides whether a cycle is reachable
from `root` (what `visitor(check_cycle=True)` reports as LoopError). Depth-first
search with an explicit path; fuel bounds the number of visited edges. -/
def succs (G : Forest) (i : Nat) : List Nat :=
  ((G.getD i ⟨[]⟩).alts.map Alt.children).flatten

/-- Iteratively remove nodes all of whose successors are already known to be
cycle-free ("safe"); a cycle is reachable from `root` iff `root` never becomes
safe. -/
def safeStep (G : Forest) (safe : List Bool) : List Bool :=
  safe.mapIdx (fun i b => b || (succs G i).all (fun j => safe.getD j false))

def safeIter (G : Forest) : Nat → List Bool → List Bool
  | 0, safe => safe
  | k + 1, safe => safeIter G k (safeStep G safe)

def loopError (G : Forest) (root : Nat) : Bool :=
  !((safeIter G G.length (G.map (fun _ => false))).getD root false)

end Pg

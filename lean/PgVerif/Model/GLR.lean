import PgVerif.Model.LR
/-!
Model of the GLR driver, `GLRParser.parse` (`parglare/glr.py`), on inputs where
every frontier sees one token (no lexical ambiguity between the active heads;
otherwise the model answers `lexAmbiguous`): graph-structured stack with heads
keyed by state per frontier, links (`Parent`) keyed by root with their packed
alternatives, `_find_lookaheads` (heads popped last-first, heads without a
lookahead die), the actor loop over the LIFO `_for_actor`, `_do_reductions` with
its LIFO path search, the per-path `traversed` flag and the `states_traversed`
cache, `_reduce` with new-head creation or link creation/merge and the revisit
of already processed heads through limited (`update_parent`) reductions,
`_do_shifts` (LIFO, one shifted head per target state), accepted heads.
Everything that decides *which* alternatives end up in the forest is modelled,
including the restrictions that lose derivations on the pinned tree (F-GLR-1/2)
and pack duplicates (F-GLR-3); the order of alternatives inside a link is kept
as the implementation appends them. Fuel-indexed.
-/
namespace Pg
namespace GLR

structure GNode where
  st  : Nat
  fr  : Nat
  pos : Nat
deriving Repr, Inhabited

inductive Poss where
  | term (t s e : Nat)
  | nonterm (p : Nat) (kids : List Nat)
deriving Repr, Inhabited

structure GLink where
  head : Nat
  root : Nat
  s    : Nat
  e    : Nat
  poss : List Poss
deriving Repr, Inhabited

structure GState where
  nodes      : Array GNode := #[]
  links      : Array GLink := #[]
  /-- `_active_heads` of the sub-frontier: (state, node) in dict order. -/
  active     : List (Nat × Nat) := []
  /-- `_for_actor`, top of the stack first. -/
  forActor   : List Nat := []
  /-- `_for_shifter` in append order. -/
  forShifter : List (Nat × Nat) := []
  /-- `_states_traversed`: state ↦ states of the heads whose reduction paths went through it. -/
  traversed  : List (Nat × List Nat) := []
  accepted   : List Nat := []
  tokTerm    : Nat := 0
  tokS       : Nat := 0
  tokLen     : Nat := 0
  /-- a goto was missing (the Python code would raise KeyError) -/
  crash      : Bool := false
deriving Inhabited

def GState.node (s : GState) (i : Nat) : GNode := s.nodes.getD i default
def GState.link (s : GState) (i : Nat) : GLink := s.links.getD i default

/-- `node.parents.values()`: the links of a head in creation order. -/
def GState.parents (s : GState) (node : Nat) : List Nat :=
  (List.range s.links.size).filter (fun i => (s.link i).head == node)

def GState.headActive (s : GState) (state : Nat) : Option Nat :=
  (s.active.find? (fun x => x.1 == state)).map (·.2)

/-- `GSSNode.create_link`: merge into the link with the same root, or create. -/
def createLink (s : GState) (head root st en : Nat) (poss : List Poss) : GState × Bool × Nat :=
  match (s.parents head).find? (fun i => (s.link i).root == root) with
  | some i =>
    let l := s.link i
    ({ s with links := s.links.setIfInBounds i { l with poss := l.poss ++ poss } }, false, i)
  | none =>
    ({ s with links := s.links.push { head := head, root := root, s := st, e := en, poss := poss } },
      true, s.links.size)

def addTraversed (tr : List (Nat × List Nat)) (k v : Nat) : List (Nat × List Nat) :=
  match tr.find? (fun x => x.1 == k) with
  | some _ => tr.map (fun x => if x.1 == k then (x.1, if x.2.contains v then x.2 else v :: x.2) else x)
  | none => tr ++ [(k, [v])]

/-- A frame of the path search: node, collected links, remaining length, `last_parent`, `traversed`. -/
structure Frame where
  node    : Nat
  results : List Nat
  length  : Nat
  lastP   : Option Nat
  trav    : Bool
deriving Inhabited

def insertSorted (x : Nat) : List Nat → List Nat
  | [] => [x]
  | y :: ys => if x ≤ y then x :: y :: ys else y :: insertSorted x ys

def sortNat (l : List Nat) : List Nat := l.foldr insertSorted []

mutual
  /-- `_reduce`. -/
  def reduce (g : Grammar) (T : Table) : Nat → GState → (head root pid : Nat) → (kids : List Nat) →
      (st en : Nat) → GState
    | 0, s, _, _, _, _, _, _ => s
    | fuel + 1, s, head, root, pid, kids, st, en =>
      match g.prod? pid with
      | none => { s with crash := true }
      | some pr =>
        match T.goto (s.node root).st pr.lhs with
        | none => { s with crash := true }
        | some state =>
          let poss := [Poss.nonterm pid kids]
          match s.headActive state with
          | some ah =>
            let (s1, created, lid) := createLink s ah root st en poss
            if created then
              match s1.traversed.find? (fun x => x.1 == state) with
              | none => s1
              | some (_, trs) =>
                let activeStates := s1.active.map (·.1)
                let pending := s1.forActor.map (fun h => (s1.node h).st)
                let toRevisit := sortNat ((trs.filter (fun x => activeStates.contains x)).filter
                  (fun x => !pending.contains x)).eraseDups
                toRevisit.foldl (fun acc rs =>
                  match acc.headActive rs with
                  | none => acc
                  | some rh =>
                    (T.actions rs acc.tokTerm).foldl (fun acc2 a =>
                      match a with
                      | .reduce p => doReductions g T fuel acc2 rh p (some lid)
                      | _ => acc2) acc) s1
            else s1
          | none =>
            let h := s.node head
            let nh := s.nodes.size
            let s1 := { s with nodes := s.nodes.push { st := state, fr := h.fr, pos := h.pos } }
            let (s2, _, _) := createLink s1 nh root st en poss
            { s2 with forActor := nh :: s2.forActor, active := s2.active ++ [(state, nh)] }

  /-- `_do_reductions`. -/
  def doReductions (g : Grammar) (T : Table) : Nat → GState → (head pid : Nat) → (upd : Option Nat) → GState
    | 0, s, _, _, _ => s
    | fuel + 1, s, head, pid, upd =>
      match g.prod? pid with
      | none => { s with crash := true }
      | some pr =>
        let h := s.node head
        if pr.rhs.isEmpty then reduce g T fuel s head head pid [] h.pos h.pos
        else paths g T fuel s head pid upd
          [{ node := head, results := [], length := pr.rhs.length, lastP := none, trav := upd.isNone }]

  /-- The `while to_process` loop. -/
  def paths (g : Grammar) (T : Table) : Nat → GState → (head pid : Nat) → (upd : Option Nat) →
      List Frame → GState
    | 0, s, _, _, _, _ => s
    | _ + 1, s, _, _, _, [] => s
    | fuel + 1, s, head, pid, upd, fr :: rest =>
      let h := s.node head
      let len := fr.length - 1
      let s0 := if (s.node fr.node).fr == h.fr
        then { s with traversed := addTraversed s.traversed (s.node fr.node).st h.st } else s
      let viaUpd := match upd with
        | some u => (s0.link u).head == fr.node
        | none => false
      let plist := match upd with
        | some u => if viaUpd then [u] else s0.parents fr.node
        | none => s0.parents fr.node
      -- the for loop over the parents: `last_parent` and `traversed` persist across iterations
      let (s1, stack, _, _) := plist.foldl
        (fun (acc : GState × List Frame × Option Nat × Bool) par =>
          let (sa, stk, lastP, trav) := acc
          let newResults := par :: fr.results
          let lastP' := match lastP with | none => some par | some x => some x
          let trav' := trav || viaUpd
          if len != 0 then
            (sa, { node := (sa.link par).root, results := newResults, length := len, lastP := lastP',
                   trav := trav' } :: stk, lastP', trav')
          else if trav' then
            (reduce g T fuel sa head (sa.link par).root pid newResults (sa.link par).s
              (sa.link (lastP'.getD par)).e, stk, lastP', trav')
          else (sa, stk, lastP', trav'))
        (s0, rest, fr.lastP, fr.trav)
      paths g T fuel s1 head pid upd stack
end

/-- `_actor`. -/
def actor (g : Grammar) (T : Table) (fuel : Nat) (s : GState) (head : Nat) : GState :=
  (T.actions (s.node head).st s.tokTerm).foldl (fun acc a =>
    match a with
    | .shift s' => { acc with forShifter := acc.forShifter ++ [(head, s')] }
    | .reduce p => doReductions g T fuel acc head p none
    | .accept => { acc with accepted := acc.accepted ++ [head] }) s

def actorLoop (g : Grammar) (T : Table) (fuel : Nat) : Nat → GState → GState
  | 0, s => s
  | n + 1, s =>
    match s.forActor with
    | [] => s
    | head :: rest => actorLoop g T fuel n (actor g T fuel { s with forActor := rest } head)

/-- `_do_shifts`: last appended first; one shifted head per target state. -/
def doShifts (s : GState) (fr : Nat) : GState :=
  let endp := s.tokS + s.tokLen
  s.forShifter.reverse.foldl (fun acc (hs : Nat × Nat) =>
    let (head, toState) := hs
    let (acc1, sh) := match acc.headActive toState with
      | some sh => (acc, sh)
      | none =>
        let sh := acc.nodes.size
        ({ acc with nodes := acc.nodes.push { st := toState, fr := fr, pos := endp },
                    active := acc.active ++ [(toState, sh)] }, sh)
    (createLink acc1 sh head s.tokS endp [Poss.term s.tokTerm s.tokS endp]).1)
    { s with active := [], forShifter := [] }

inductive Result where
  | forest (s : GState)
  | syntaxError
  | lexAmbiguous
  | crash
  | outOfFuel

/-- One frontier: lookaheads, actor loop, shifts. -/
def frontier (g : Grammar) (T : Table) (inp : Input) (fuel : Nat) (s : GState) (fr : Nat) :
    Option GState :=
  -- `_find_lookaheads`: heads popped last-first; `_skipws` moves the head
  let heads := s.active.reverse
  let p2 := fun (n : Nat) => inp.skip (s.node n).pos
  let toks := heads.map (fun (x : Nat × Nat) => (x, nextTokens T inp true false x.1 (p2 x.2)))
  if toks.any (fun x => decide (1 < x.2.length)) then none else
  let alive := toks.filterMap (fun x => match x.2 with | [tok] => some (x.1, tok) | _ => none)
  match alive with
  | [] => some { s with active := [], forActor := [], forShifter := [] }
  | (_, tok0) :: _ =>
    if alive.any (fun x => x.2.term != tok0.term || x.2.s != tok0.s || x.2.len != tok0.len) then none else
    let nodes' := alive.foldl (fun (ns : Array GNode) x =>
      ns.setIfInBounds x.1.2 { (ns.getD x.1.2 default) with pos := tok0.s }) s.nodes
    let s1 := { s with nodes := nodes', active := alive.map (·.1),
                       forActor := (alive.map (·.1.2)).reverse, forShifter := [], traversed := [],
                       tokTerm := tok0.term, tokS := tok0.s, tokLen := tok0.len }
    let s2 := actorLoop g T fuel fuel s1
    some (doShifts s2 fr)

def mainLoop (g : Grammar) (T : Table) (inp : Input) (fuel : Nat) : Nat → GState → Nat → Result
  | 0, _, _ => .outOfFuel
  | n + 1, s, fr =>
    if s.crash then .crash else
    if s.active.isEmpty then (if s.accepted.isEmpty then .syntaxError else .forest s)
    else match frontier g T inp fuel s fr with
      | none => .lexAmbiguous
      | some s' => mainLoop g T inp fuel n s' (fr + 1)

def parseGLR (g : Grammar) (T : Table) (inp : Input) (fuel : Nat) : Result :=
  mainLoop g T inp fuel fuel
    { nodes := #[{ st := 0, fr := 0, pos := 0 }], active := [(0, 0)] } 1

/-- The packed alternatives reachable from the accepted heads:
(symbol, start, end) of the link, production, (symbol, start, end) of the children. -/
def reachableAlts (T : Table) (s : GState) (fuel : Nat) :
    List ((Sym × Nat × Nat) × Nat × List (Sym × Nat × Nat)) :=
  let key := fun (lid : Nat) => let l := s.link lid; (T.sym (s.node l.head).st, l.s, l.e)
  let rec go : Nat → List Nat → List Nat → List ((Sym × Nat × Nat) × Nat × List (Sym × Nat × Nat)) →
      List ((Sym × Nat × Nat) × Nat × List (Sym × Nat × Nat))
    | 0, _, _, out => out
    | _ + 1, [], _, out => out
    | f + 1, lid :: todo, seen, out =>
      if seen.contains lid then go f todo seen out else
      let alts := (s.link lid).poss.filterMap (fun ps =>
        match ps with
        | .nonterm p kids => some (key lid, p, kids.map key)
        | .term _ _ _ => none)
      let kids := (s.link lid).poss.flatMap (fun ps =>
        match ps with
        | .nonterm _ kids => kids
        | .term _ _ _ => [])
      go f (kids ++ todo) (lid :: seen) (alts ++ out)
  go fuel (s.accepted.flatMap s.parents) [] []

end GLR
end Pg

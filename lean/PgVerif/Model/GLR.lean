import PgVerif.Model.LR
/-!
Model of the GLR driver, `GLRParser.parse` (`parglare/glr.py`), with lexical
ambiguity and `consume_input` on or off: graph-structured stack with heads keyed
by state per sub-frontier, links (`Parent`) keyed by root (frontier, state,
position) with their packed alternatives, `_find_lookaheads` (heads popped
last-first, `_skipws` moving the head, one clone per further token sharing the
links, sub-frontiers per token symbol processed last-first, heads without a
lookahead die), the actor loop over the LIFO `_for_actor`, `_do_reductions` with
its LIFO path search, the per-path `traversed` flag and the `states_traversed`
cache, `_reduce` with new-head creation or link creation/merge and the revisit
of already processed heads through limited (`update_parent`) reductions,
`_do_shifts` (stable sort by token end, only the minimal end is shifted in a round,
the rest stays queued; one shifted head per target state; cloned or fresh link),
accepted heads of every round. One thing is not modelled: the iteration order of
the Python `set` `to_revisit`; it is ascending when all its members are below 8
(no collisions in CPython's table) and the model answers `orderSensitive` when a
revisit set has two or more members one of which is 8 or more.
Everything that decides *which* alternatives end up in the forest is modelled,
including the restrictions that lose derivations on the pinned tree (F-GLR-1/2)
and pack duplicates (F-GLR-3); the order of alternatives inside a link is kept
as the implementation appends them. Fuel-indexed.
-/
namespace Pg
namespace GLR

structure GNode where
  st  : Nat
  fr  : Nat
  pos : Nat
  /-- `token_ahead` -/
  tok : Option Tok := none
  /-- `parents` (own dict; a clone starts with a copy), link ids in insertion order -/
  plinks : List Nat := []
deriving Repr, Inhabited

inductive Poss where
  | term (t s e : Nat)
  | nonterm (p : Nat) (kids : List Nat)
deriving Repr, Inhabited

structure GLink where
  head : Nat
  root : Nat
  s    : Nat
  e    : Nat
  poss : List Poss
deriving Repr, Inhabited

structure GState where
  nodes      : Array GNode := #[]
  links      : Array GLink := #[]
  /-- `_active_heads` of the sub-frontier: (state, node) in dict order. -/
  active     : List (Nat × Nat) := []
  /-- `_for_actor`, top of the stack first. -/
  forActor   : List Nat := []
  /-- `_for_shifter` in append order. -/
  forShifter : List (Nat × Nat) := []
  /-- `_states_traversed`: state ↦ states of the heads whose reduction paths went through it. -/
  traversed  : List (Nat × List Nat) := []
  accepted   : List Nat := []
  /-- a goto was missing (the Python code would raise KeyError) -/
  crash      : Bool := false
  /-- a revisit set whose Python iteration order the model does not determine -/
  orderSens  : Bool := false
deriving Inhabited

def GState.node (s : GState) (i : Nat) : GNode := s.nodes.getD i default
def GState.link (s : GState) (i : Nat) : GLink := s.links.getD i default

/-- `node.parents.values()`: the links of a head in insertion order. -/
def GState.parents (s : GState) (node : Nat) : List Nat := (s.node node).plinks

def tokEq (a b : Option Tok) : Bool :=
  match a, b with
  | some x, some y => x.term == y.term && x.s == y.s && x.len == y.len
  | none, none => true
  | _, _ => false

/-- `GSSNode.__eq__`: same id (frontier, state) and the same token ahead. -/
def GState.same (s : GState) (a b : Nat) : Bool :=
  let A := s.node a
  let B := s.node b
  A.fr == B.fr && A.st == B.st && tokEq A.tok B.tok

def GState.tokTerm (s : GState) (n : Nat) : Nat :=
  match (s.node n).tok with
  | some t => t.term
  | none => 0

def GState.headActive (s : GState) (state : Nat) : Option Nat :=
  (s.active.find? (fun x => x.1 == state)).map (·.2)

/-- `GSSNode.create_link`: merge into the link with the same root, or create. -/
def createLink (s : GState) (head root st en : Nat) (poss : List Poss) : GState × Bool × Nat :=
  let R := s.node root
  match (s.parents head).find? (fun i =>
      let r2 := s.node (s.link i).root
      r2.fr == R.fr && r2.st == R.st && r2.pos == R.pos) with
  | some i =>
    let l := s.link i
    ({ s with links := s.links.setIfInBounds i { l with poss := l.poss ++ poss } }, false, i)
  | none =>
    let lid := s.links.size
    let H := s.node head
    ({ s with links := s.links.push { head := head, root := root, s := st, e := en, poss := poss },
              nodes := s.nodes.setIfInBounds head { H with plinks := H.plinks ++ [lid] } },
      true, lid)

def addTraversed (tr : List (Nat × List Nat)) (k v : Nat) : List (Nat × List Nat) :=
  match tr.find? (fun x => x.1 == k) with
  | some _ => tr.map (fun x => if x.1 == k then (x.1, if x.2.contains v then x.2 else v :: x.2) else x)
  | none => tr ++ [(k, [v])]

/-- A frame of the path search: node, collected links, remaining length, `last_parent`, `traversed`. -/
structure Frame where
  node    : Nat
  results : List Nat
  length  : Nat
  lastP   : Option Nat
  trav    : Bool
deriving Inhabited

def insertSorted (x : Nat) : List Nat → List Nat
  | [] => [x]
  | y :: ys => if x ≤ y then x :: y :: ys else y :: insertSorted x ys

def sortNat (l : List Nat) : List Nat := l.foldr insertSorted []

/-- The revisit loop of `_reduce` over the recursive call `dr` (`_do_reductions` with
`update_parent = lid`): for every head to revisit, every reduction of its cell. -/
def revisitFold (T : Table) (dr : GState → Nat → Nat → Option Nat → GState) (term lid : Nat)
    (toRevisit : List Nat) (s : GState) : GState :=
  toRevisit.foldl (fun acc rs =>
    match acc.headActive rs with
    | none => acc
    | some rh =>
      (T.actions rs term).foldl (fun acc2 a =>
        match a with
        | .reduce p => dr acc2 rh p (some lid)
        | _ => acc2) acc) s

/-- The `for parent in …` loop of `_do_reductions` over the recursive call `rd` (`_reduce`):
`last_parent` and `traversed` persist across iterations; a frame is pushed while the path is
shorter than the right-hand side, else the reduction is performed if the path counts. -/
def parentsFold (rd : GState → Nat → List Nat → Nat → Nat → GState) (fr : Frame) (len : Nat)
    (viaUpd : Bool) (plist : List Nat) (init : GState × List Frame × Option Nat × Bool) :
    GState × List Frame × Option Nat × Bool :=
  plist.foldl
    (fun (acc : GState × List Frame × Option Nat × Bool) par =>
      let (sa, stk, lastP, trav) := acc
      let newResults := par :: fr.results
      let lastP' := match lastP with | none => some par | some x => some x
      let trav' := trav || viaUpd
      if len != 0 then
        (sa, { node := (sa.link par).root, results := newResults, length := len, lastP := lastP',
               trav := trav' } :: stk, lastP', trav')
      else if trav' then
        (rd sa (sa.link par).root newResults (sa.link par).s (sa.link (lastP'.getD par)).e,
          stk, lastP', trav')
      else (sa, stk, lastP', trav'))
    init

mutual
  /-- `_reduce`. -/
  def reduce (g : Grammar) (T : Table) : Nat → GState → (head root pid : Nat) → (kids : List Nat) →
      (st en : Nat) → GState
    | 0, s, _, _, _, _, _, _ => s
    | fuel + 1, s, head, root, pid, kids, st, en =>
      match g.prod? pid with
      | none => { s with crash := true }
      | some pr =>
        match T.goto (s.node root).st pr.lhs with
        | none => { s with crash := true }
        | some state =>
          let poss := [Poss.nonterm pid kids]
          match s.headActive state with
          | some ah =>
            let (s1, created, lid) := createLink s ah root st en poss
            if created then
              match s1.traversed.find? (fun x => x.1 == state) with
              | none => s1
              | some (_, trs) =>
                let activeStates := s1.active.map (·.1)
                let pending := s1.forActor.map (fun h => (s1.node h).st)
                let toRevisit := sortNat ((trs.filter (fun x => activeStates.contains x)).filter
                  (fun x => !pending.contains x)).eraseDups
                let s1 := if decide (2 ≤ toRevisit.length) && toRevisit.any (fun x => decide (8 ≤ x))
                  then { s1 with orderSens := true } else s1
                revisitFold T (fun a rh p u => doReductions g T fuel a rh p u) (s1.tokTerm head) lid toRevisit s1
            else s1
          | none =>
            let h := s.node head
            let nh := s.nodes.size
            let s1 := { s with nodes := s.nodes.push { st := state, fr := h.fr, pos := h.pos, tok := h.tok } }
            let (s2, _, _) := createLink s1 nh root st en poss
            { s2 with forActor := nh :: s2.forActor, active := s2.active ++ [(state, nh)] }

  /-- `_do_reductions`. -/
  def doReductions (g : Grammar) (T : Table) : Nat → GState → (head pid : Nat) → (upd : Option Nat) → GState
    | 0, s, _, _, _ => s
    | fuel + 1, s, head, pid, upd =>
      match g.prod? pid with
      | none => { s with crash := true }
      | some pr =>
        let h := s.node head
        if pr.rhs.isEmpty then reduce g T fuel s head head pid [] h.pos h.pos
        else paths g T fuel s head pid upd
          [{ node := head, results := [], length := pr.rhs.length, lastP := none, trav := upd.isNone }]

  /-- The `while to_process` loop. -/
  def paths (g : Grammar) (T : Table) : Nat → GState → (head pid : Nat) → (upd : Option Nat) →
      List Frame → GState
    | 0, s, _, _, _, _ => s
    | _ + 1, s, _, _, _, [] => s
    | fuel + 1, s, head, pid, upd, fr :: rest =>
      let h := s.node head
      let len := fr.length - 1
      let s0 := if (s.node fr.node).fr == h.fr
        then { s with traversed := addTraversed s.traversed (s.node fr.node).st h.st } else s
      let viaUpd := match upd with
        | some u => s0.same (s0.link u).head fr.node
        | none => false
      let plist := match upd with
        | some u => if viaUpd then [u] else s0.parents fr.node
        | none => s0.parents fr.node
      let r := parentsFold (fun sa root kids st en => reduce g T fuel sa head root pid kids st en) fr len viaUpd
        plist (s0, rest, fr.lastP, fr.trav)
      paths g T fuel r.1 head pid upd r.2.1
end

/-- `_actor`. -/
def actor (g : Grammar) (T : Table) (fuel : Nat) (s : GState) (head : Nat) : GState :=
  (T.actions (s.node head).st (s.tokTerm head)).foldl (fun acc a =>
    match a with
    | .shift s' => { acc with forShifter := acc.forShifter ++ [(head, s')] }
    | .reduce p => doReductions g T fuel acc head p none
    | .accept => { acc with accepted := acc.accepted ++ [head] }) s

def actorLoop (g : Grammar) (T : Table) (fuel : Nat) : Nat → GState → GState
  | 0, s => s
  | n + 1, s =>
    match s.forActor with
    | [] => s
    | head :: rest => actorLoop g T fuel n (actor g T fuel { s with forActor := rest } head)

def tokEnd (s : GState) (n : Nat) : Nat :=
  match (s.node n).tok with
  | some t => (s.node n).pos + t.len
  | none => (s.node n).pos

/-- Stable insertion into a list sorted by descending token end. -/
def insertDesc (s : GState) (x : Nat × Nat) : List (Nat × Nat) → List (Nat × Nat)
  | [] => [x]
  | y :: ys => if tokEnd s y.1 < tokEnd s x.1 then x :: y :: ys else y :: insertDesc s x ys

/-- `list.sort(key=end, reverse=True)`: stable, descending. -/
def sortDesc (s : GState) (l : List (Nat × Nat)) : List (Nat × Nat) :=
  l.foldl (fun acc x => insertDesc s x acc) []

/-- `_do_shifts`: only the entries with the minimal token end are shifted, last first; the rest
stays queued. One shifted head per target state; a further link clones the first one when it starts
where the head stands, else it is a fresh link for the head's own token. -/
def doShifts (s : GState) : GState :=
  let sorted := sortDesc s s.forShifter
  match sorted.getLast? with
  | none => { s with active := [], forShifter := [] }
  | some last =>
    let minEnd := tokEnd s last.1
    let now := (sorted.filter (fun x => tokEnd s x.1 == minEnd)).reverse
    let later := sorted.filter (fun x => tokEnd s x.1 != minEnd)
    now.foldl (fun acc (hs : Nat × Nat) =>
      let (head, toState) := hs
      let H := acc.node head
      let tend := tokEnd acc head
      let term := acc.tokTerm head
      match acc.headActive toState with
      | some sh =>
        let first := acc.link (((acc.node sh).plinks).headD 0)
        if first.s == H.pos then (createLink acc sh head first.s first.e first.poss).1
        else (createLink acc sh head H.pos tend [Poss.term term H.pos tend]).1
      | none =>
        let sh := acc.nodes.size
        let acc1 := { acc with nodes := acc.nodes.push { st := toState, fr := H.fr + 1, pos := tend },
                               active := acc.active ++ [(toState, sh)] }
        (createLink acc1 sh head H.pos tend [Poss.term term H.pos tend]).1)
      { s with active := [], forShifter := later }

inductive Result where
  | forest (s : GState)
  | syntaxError
  | orderSensitive
  | crash
  | outOfFuel

/-- `_find_lookaheads`: heads popped last-first; `_skipws` moves the head; the first token (last of
the list) stays on the head, every further one gets a clone that shares the links; per token symbol
a dict state ↦ head in insertion order. -/
def findLookaheads (T : Table) (inp : Input) (consume lexDis : Bool) (s : GState) :
    GState × List (Nat × List (Nat × Nat)) :=
  s.active.reverse.foldl (fun (acc : GState × List (Nat × List (Nat × Nat))) (x : Nat × Nat) =>
    let (sa, perSym) := acc
    let (st, node) := x
    let N := sa.node node
    let p2 := inp.skip N.pos
    let sa := { sa with nodes := sa.nodes.setIfInBounds node { N with pos := p2 } }
    let toks := (nextTokens T inp consume lexDis st p2).reverse
    let (sb, _, perSym') := toks.foldl
      (fun (a : GState × Nat × List (Nat × List (Nat × Nat))) (tok : Tok) =>
        let (sc, cur, ps) := a
        let C := sc.node cur
        let (sd, cur') := match C.tok with
          | none => ({ sc with nodes := sc.nodes.setIfInBounds cur { C with tok := some tok } }, cur)
          | some t0 =>
            if tokEq (some t0) (some tok) then (sc, cur)
            else ({ sc with nodes := sc.nodes.push { C with tok := some tok } }, sc.nodes.size)
        let ps' := match ps.find? (fun e => e.1 == tok.term) with
          | some _ => ps.map (fun e => if e.1 == tok.term then
              (e.1, if e.2.any (fun h => h.1 == st)
                    then e.2.map (fun h => if h.1 == st then (st, cur') else h)
                    else e.2 ++ [(st, cur')]) else e)
          | none => ps ++ [(tok.term, [(st, cur')])]
        (sd, cur', ps'))
      (sa, node, perSym)
    (sb, perSym')) ({ s with active := [] }, [])

/-- One round: lookaheads, the actor loop per token symbol (last symbol first), shifts. -/
def frontier (g : Grammar) (T : Table) (inp : Input) (consume lexDis : Bool) (fuel : Nat) (s : GState) : GState :=
  let (s1, perSym) := findLookaheads T inp consume lexDis s
  let s2 := perSym.reverse.foldl (fun acc (e : Nat × List (Nat × Nat)) =>
    let acc1 := { acc with active := e.2, forActor := (e.2.map (·.2)).reverse, traversed := [] }
    actorLoop g T fuel fuel acc1) s1
  doShifts s2

def mainLoop (g : Grammar) (T : Table) (inp : Input) (consume lexDis : Bool) (fuel : Nat) : Nat → GState → Result
  | 0, _ => .outOfFuel
  | n + 1, s =>
    if s.crash then .crash else
    if s.orderSens then .orderSensitive else
    if s.active.isEmpty then (if s.accepted.isEmpty then .syntaxError else .forest s)
    else mainLoop g T inp consume lexDis fuel n (frontier g T inp consume lexDis fuel s)

def parseGLR (g : Grammar) (T : Table) (inp : Input) (consume lexDis : Bool) (fuel : Nat) : Result :=
  mainLoop g T inp consume lexDis fuel fuel { nodes := #[{ st := 0, fr := 0, pos := 0 }], active := [(0, 0)] }

/-- The packed alternatives of the forest: `Forest.__init__` merges the links of all accepted heads
into the last one (whose key the root alternatives get); below it
(symbol, start, end) of the link, production, (symbol, start, end) of the children. -/
def reachableAlts (T : Table) (s : GState) (fuel : Nat) :
    List ((Sym × Nat × Nat) × Nat × List (Sym × Nat × Nat)) :=
  let key := fun (lid : Nat) => let l := s.link lid; (T.sym (s.node l.head).st, l.s, l.e)
  let altsOf := fun (k : Sym × Nat × Nat) (lid : Nat) => (s.link lid).poss.filterMap (fun ps =>
    match ps with
    | .nonterm p kids => some (k, p, kids.map key)
    | .term _ _ _ => none)
  let kidsOf := fun (lid : Nat) => (s.link lid).poss.flatMap (fun ps =>
    match ps with
    | .nonterm _ kids => kids
    | .term _ _ _ => [])
  let rec go : Nat → List Nat → List Nat → List ((Sym × Nat × Nat) × Nat × List (Sym × Nat × Nat)) →
      List ((Sym × Nat × Nat) × Nat × List (Sym × Nat × Nat))
    | 0, _, _, out => out
    | _ + 1, [], _, out => out
    | f + 1, lid :: todo, seen, out =>
      if seen.contains lid then go f todo seen out else
      go f (kidsOf lid ++ todo) (lid :: seen) (altsOf (key lid) lid ++ out)
  let results := s.accepted.flatMap s.parents
  match results.getLast? with
  | none => []
  | some r =>
    let rootAlts := results.flatMap (altsOf (key r))
    go fuel (results.flatMap kidsOf) [] rootAlts

end GLR
end Pg

import PgVerif.Model.Lex
/-!
Model of the LR driver, `Parser.parse` (`parglare/parser.py`), with tree
building: lookahead scanned once per shifted head (in the state reached by the
shift) and kept across reductions, first action of the cell, the silent switch
to the second action when the first is an empty reduction, reduce by popping
`len(rhs)` entries, empty reduction, accept, the STOP fallback when
`consume_input` is off. Fuel-indexed.
-/
namespace Pg

structure LRCfg where
  consumeInput : Bool := true
  lexDis       : Bool := true
deriving Repr, Inhabited

/-- Driver configuration. `stack` is the parse stack above the start head, top
first, as (state, tree); `pos` is the raw position (end of the last shifted
token, Python's `end_position`); `la` is the scanned lookahead if any:
(position after layout skipping, token or `none` when nothing was recognized). -/
structure Config where
  stack : List (Nat × Tree)
  pos   : Nat
  la    : Option (Nat × Option Tok)
deriving Repr, Inhabited

def Config.top (c : Config) : Nat :=
  match c.stack with
  | [] => 0
  | (s, _) :: _ => s

def topOf (st : List (Nat × Tree)) : Nat :=
  match st with
  | [] => 0
  | (s, _) :: _ => s

inductive Outcome where
  /-- Accepted: tree, raw end position, position after trailing layout. -/
  | ok (t : Tree) (rawEnd p : Nat)
  | syntaxError (p : Nat)
  /-- `DisambiguationError` at `p` between the listed terminals. -/
  | disambError (p : Nat) (terms : List Nat)
  /-- The Python code would raise something else (corrupt table). -/
  | crash
  | outOfFuel
deriving Repr, Inhabited

inductive Step where
  | next (c : Config)
  | done (o : Outcome)

def Config.init : Config := { stack := [], pos := 0, la := none }

/-- Span start of a reduction: start of the first child, or the current raw
position for an empty one. -/
def spanStart (cs : List Tree) (pos : Nat) : Nat :=
  match cs with
  | [] => pos
  | c :: _ => c.start

/-- The cell the driver consults: the lookahead's cell, or the STOP cell when
that is empty and `consume_input` is off. -/
def cellFor (T : Table) (cf : LRCfg) (s : Nat) (otok : Option Tok) : List Action :=
  let acts0 := match otok with
    | some tok => T.actions s tok.term
    | none => []
  if acts0.isEmpty && !cf.consumeInput then T.actions s STOP else acts0

/-- `act = actions[0]`, with "if this is EMPTY reduction try to take another if
exists" (the replacement is then assumed to be a reduction). `none` = the
Python code would fail with a non-parglare exception. -/
def pickAction (g : Grammar) (a0 : Action) (rest : List Action) : Option Action :=
  match a0, rest with
  | .reduce p0, a1 :: _ =>
    (match g.prod? p0 with
     | some pr =>
       if pr.rhs.isEmpty then (match a1 with | .reduce _ => some a1 | _ => none) else some a0
     | none => none)
  | _, _ => some a0

def doShift (c : Config) (p : Nat) (otok : Option Tok) (s' : Nat) : Step :=
  match otok with
  | some tok =>
    if tok.term = STOP then .done .crash else
    .next { stack := (s', .leaf tok.term p (p + tok.len)) :: c.stack,
            pos := p + tok.len, la := none }
  | none => .done .crash

def doReduce (g : Grammar) (T : Table) (c : Config) (pid : Nat) : Step :=
  match g.prod? pid with
  | none => .done .crash
  | some pr =>
    let n := pr.rhs.length
    if c.stack.length < n then .done .crash else
    let popped := c.stack.take n
    let rest := c.stack.drop n
    let cs := popped.reverse.map (·.2)
    match T.goto (topOf rest) pr.lhs with
    | none => .done .crash
    | some s' =>
      .next { c with stack := (s', .node pid (spanStart cs c.pos) c.pos cs) :: rest }

def doAccept (c : Config) (p : Nat) : Step :=
  match c.stack.getLast? with
  | some (_, t) => .done (.ok t c.pos p)
  | none => .done .crash

def applyAction (g : Grammar) (T : Table) (c : Config) (p : Nat) (otok : Option Tok) :
    Action → Step
  | .shift s' => doShift c p otok s'
  | .reduce pid => doReduce g T c pid
  | .accept => doAccept c p

def scanStep (T : Table) (inp : Input) (cf : LRCfg) (c : Config) : Step :=
  let p := inp.skip c.pos
  match nextTokens T inp cf.consumeInput cf.lexDis c.top p with
  | [] => .next { c with la := some (p, none) }
  | [tok] => .next { c with la := some (p, some tok) }
  | toks => .done (.disambError p (toks.map (·.term)))

def step (g : Grammar) (T : Table) (inp : Input) (cf : LRCfg) (c : Config) : Step :=
  match c.la with
  | none => scanStep T inp cf c
  | some (p, otok) =>
    match cellFor T cf c.top otok with
    | [] => .done (.syntaxError p)
    | a0 :: rest =>
      match pickAction g a0 rest with
      | none => .done .crash
      | some a => applyAction g T c p otok a

def run (g : Grammar) (T : Table) (inp : Input) (cf : LRCfg) : Nat → Config → Outcome
  | 0, _ => .outOfFuel
  | f + 1, c =>
    match step g T inp cf c with
    | .next c' => run g T inp cf f c'
    | .done o => o

def parseLR (g : Grammar) (T : Table) (inp : Input) (cf : LRCfg) (fuel : Nat) : Outcome :=
  run g T inp cf fuel Config.init

end Pg

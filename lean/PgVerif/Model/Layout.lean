/-!
Model of whitespace skipping, `Parser._skipws` with the `ws` parameter
(`parglare/parser.py`): advance while the character at the position is in `ws`.
-/
namespace Pg

/-- Skip from position `p` over `chars` (the text from position 0): `drop p`,
then count the leading whitespace. -/
def countWs (isWs : Nat → Bool) : List Nat → Nat
  | [] => 0
  | c :: cs => if isWs c then countWs isWs cs + 1 else 0

def skipWs (isWs : Nat → Bool) (chars : List Nat) (p : Nat) : Nat :=
  p + countWs isWs (chars.drop p)

end Pg

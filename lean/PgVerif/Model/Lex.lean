import PgVerif.Model.Table
/-!
Model of the scanner: `Parser._token_recognition`, `Parser._next_tokens`,
`Parser._lexical_disambiguation`, `Parser._next_token` (`parglare/parser.py`).
-/
namespace Pg

/-- A token: terminal, start position, length. The STOP pseudo-token has
length 0. -/
structure Tok where
  term : Nat
  s    : Nat
  len  : Nat
deriving DecidableEq, Repr, Inhabited

/-- Non-empty match of terminal `a` at `p`; STOP's recognizer never matches. -/
def Input.matchAt (inp : Input) (a p : Nat) : Option Nat :=
  if a = STOP then none else
  match inp.mlen a p with
  | some l => if 0 < l then some l else none
  | none => none

/-- `_token_recognition`: walk the expected terminals in table order; stop as
soon as priority drops below the previous terminal's once something matched;
stop after a match whose finish flag is set. `last` is `last_prior` (the
initial `-1` behaves like `0` for natural priorities). -/
def recognize (T : Table) (inp : Input) (p : Nat) :
    List (Nat × Bool) → Nat → List Tok → List Tok
  | [], _, acc => acc.reverse
  | (a, fin) :: rest, last, acc =>
    if T.prior a < last && !acc.isEmpty then acc.reverse
    else
      match inp.matchAt a p with
      | some l =>
        if fin then (⟨a, p, l⟩ :: acc).reverse
        else recognize T inp p rest (T.prior a) (⟨a, p, l⟩ :: acc)
      | none => recognize T inp p rest (T.prior a) acc

/-- `_lexical_disambiguation`: longest match, then `prefer`. -/
def lexDisamb (T : Table) (toks : List Tok) : List Tok :=
  if toks.length ≤ 1 then toks else
  let m := toks.foldl (fun m t => max m t.len) 0
  let longest := toks.filter (fun t => t.len == m)
  if longest.length == 1 then longest else
  let pref := longest.filter (fun t => T.prefer t.term)
  if pref.isEmpty then longest else pref

/-- The expected terminals of a state with their finish flags, in table order. -/
def Table.expected (T : Table) (s : Nat) : List (Nat × Bool) :=
  ((T.cells s).map (fun c => c.1)).zip (T.finish s)

/-- `_next_tokens`. -/
def nextTokens (T : Table) (inp : Input) (consumeInput lexDis : Bool) (s p : Nat) : List Tok :=
  let stop : List Tok :=
    if (T.cells s).any (fun c => c.1 == STOP) && (!consumeInput || p == inp.len)
    then [⟨STOP, p, 0⟩] else []
  let real := if p < inp.len then recognize T inp p (T.expected s) 0 [] else []
  let toks := stop ++ real
  if lexDis then lexDisamb T toks else toks

end Pg

/-!
Model of `parglare/common.py::pos_to_line_col` (string inputs): line = number
of newlines before the position + 1, column = distance from the last newline
before the position. Characters are code points; 10 is the newline.
-/
namespace Pg

def NL : Nat := 10

/-- (line, column) of position `pos` in `text`, scanning left to right:
`go` carries the current line and column. -/
def posToLineCol (text : List Nat) (pos : Nat) : Nat × Nat :=
  go text pos 1 0
where go : List Nat → Nat → Nat → Nat → Nat × Nat
  | _, 0, line, col => (line, col)
  | [], _ + 1, line, col => (line, col)
  | c :: cs, k + 1, line, col =>
    if c = NL then go cs k (line + 1) 0 else go cs k line (col + 1)

/-- Position of (line, column): skip `line - 1` newlines, then `column` characters. -/
def lineColToPos (text : List Nat) (line col : Nat) : Nat :=
  go text (line - 1) 0 + col
where go : List Nat → Nat → Nat → Nat
  | _, 0, acc => acc
  | [], _ + 1, acc => acc
  | c :: cs, k + 1, acc => if c = NL then go cs k (acc + 1) else go cs (k + 1) (acc + 1)

end Pg

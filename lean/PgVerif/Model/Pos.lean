import PgVerif.Model.LR
/-!
Positional faithfulness of parse trees (C08): executable checker `Tree.posOK`
(used on implementation trees) — spans are ordered pairs, children lie inside
the parent, siblings are in input order and do not overlap.
-/
namespace Pg

/-- Start of the first tree of a list, or `e` if there is none. -/
def firstStart (cs : List Tree) (e : Nat) : Nat :=
  match cs with
  | [] => e
  | c :: _ => c.start

mutual
  def Tree.posOK : Tree → Bool
    | .leaf _ s e => decide (s ≤ e)
    | .node _ s e cs => decide (s ≤ e) && decide (s ≤ firstStart cs e) && Tree.kidsOK cs e
  /-- The children are well positioned, in order, non-overlapping, and end at or
  before `e`. -/
  def Tree.kidsOK : List Tree → Nat → Bool
    | [], _ => true
    | c :: cs, e => c.posOK && decide (c.stop ≤ firstStart cs e) && Tree.kidsOK cs e
end

mutual
  /-- Map every recorded position through `f`. -/
  def Tree.mapPos (f : Nat → Nat) : Tree → Tree
    | .leaf t s e => .leaf t (f s) (f e)
    | .node p s e cs => .node p (f s) (f e) (Tree.mapPosL f cs)
  def Tree.mapPosL (f : Nat → Nat) : List Tree → List Tree
    | [] => []
    | c :: cs => c.mapPos f :: Tree.mapPosL f cs
end

/-- Well-positionedness modulo layout: all positions are first moved to where
layout skipping arrives. Used only to *attribute* a failure of `posOK` to the
recorded finding about empty GLR nodes inside layout (F-POS-3). -/
def Tree.posOKModLayout (inp : Input) (t : Tree) : Bool := (t.mapPos inp.skip).posOK

/-- In-bounds check for a whole tree. -/
def Tree.inBounds (len : Nat) (t : Tree) : Bool := decide (t.stop ≤ len)

end Pg

import PgVerif.Model.LR
/-!
Model of LR error recovery with the default strategy (`Parser._do_recovery`,
`Parser.default_error_recovery`, `parglare/parser.py`): on a syntax error at the
lookahead position `p` the head's position is advanced one character at a time
(no layout skipping) until `_next_token` recognizes a token expected in the
current state; the error's span becomes `[p, p')` and parsing resumes with that
token as lookahead. If the end of input is reached the last error is raised.
-/
namespace Pg

inductive Rec where
  | found (p : Nat) (tok : Tok)
  | notFound
  | disamb (p : Nat) (terms : List Nat)
deriving Repr, Inhabited

/-- `default_error_recovery`: `fuel` bounds the number of characters tried. -/
def recoverScan (T : Table) (inp : Input) (cf : LRCfg) (s : Nat) : Nat → Nat → Rec
  | 0, _ => .notFound
  | fuel + 1, pos =>
    if pos < inp.len then
      match nextTokens T inp cf.consumeInput cf.lexDis s (pos + 1) with
      | [] => recoverScan T inp cf s fuel (pos + 1)
      | [tok] => .found (pos + 1) tok
      | toks => .disamb (pos + 1) (toks.map (·.term))
    else .notFound

/-- Driver with recovery: returns the outcome and `parser.errors` as spans. -/
def runR (g : Grammar) (T : Table) (inp : Input) (cf : LRCfg) :
    Nat → Config → List (Nat × Nat) → Outcome × List (Nat × Nat)
  | 0, _, errs => (.outOfFuel, errs)
  | f + 1, c, errs =>
    match step g T inp cf c with
    | .next c' => runR g T inp cf f c' errs
    | .done (.syntaxError p) =>
      (match recoverScan T inp cf c.top (inp.len - p) p with
       | .found p' tok => runR g T inp cf f { c with la := some (p', some tok) } (errs ++ [(p, p')])
       | .notFound => (.syntaxError p, errs ++ [(p, p)])
       | .disamb p' ts => (.disambError p' ts, errs ++ [(p, p)]))
    | .done o => (o, errs)

def parseLRrec (g : Grammar) (T : Table) (inp : Input) (cf : LRCfg) (fuel : Nat) :
    Outcome × List (Nat × Nat) :=
  runR g T inp cf fuel Config.init []

end Pg

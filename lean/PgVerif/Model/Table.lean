import PgVerif.Spec.CFG
/-!
The LR table as the drivers see it (`parglare/tables/__init__.py`: `LRState.actions`,
`LRState.gotos`, `LRState.finish_flags`, `LRState.symbol`) and the decidable
well-formedness predicate that soundness of the drivers needs.
-/
namespace Pg

inductive Action where
  | shift  (s : Nat)
  | reduce (p : Nat)
  | accept
deriving DecidableEq, Repr, Inhabited

/-- An LR table. `cells s` is the ordered dict `LRState.actions` of state `s`
(terminal, cell) in the order produced by `sort_state_actions`; `finish s` are
its `finish_flags`; `gotoL s` is `LRState.gotos`; `prior`/`prefer` are the
terminal attributes the scanner consults. -/
structure Table where
  n      : Nat
  sym    : Nat → Sym
  cells  : Nat → List (Nat × List Action)
  finish : Nat → List Bool
  gotoL  : Nat → List (Nat × Nat)
  prior  : Nat → Nat
  prefer : Nat → Bool

def Table.actions (T : Table) (s a : Nat) : List Action :=
  match (T.cells s).find? (fun c => c.1 == a) with
  | some c => c.2
  | none => []

def Table.goto (T : Table) (s A : Nat) : Option Nat :=
  ((T.gotoL s).find? (fun c => c.1 == A)).map (fun c => c.2)

/-- There is a shift or goto transition `s → s'`. -/
def Table.edge (T : Table) (s s' : Nat) : Bool :=
  (T.cells s).any (fun c => c.2.contains (Action.shift s')) ||
  (T.gotoL s).any (fun c => c.2 == s')

/-- Walking back from state `s` over the reversed right-hand side `rev`:
along *every* path of transitions into `s` the accessing symbols spell the
right-hand side, the walk never reaches the start state early, and the state
it arrives in has a goto on `A`. -/
def Table.backOK (T : Table) : Nat → List Sym → Nat → Bool
  | s, [], A => (T.goto s A).isSome
  | s, X :: rev, A =>
    s != 0 && T.sym s == X &&
      (List.range T.n).all (fun s' => !T.edge s' s || T.backOK s' rev A)

/-- Decidable well-formedness of a table w.r.t. a grammar. This is all that
soundness of the LR and GLR drivers needs from a table, whichever way it was
built or loaded. -/
def Table.wf (g : Grammar) (T : Table) : Bool :=
  decide (0 < T.n) && (List.range T.n).all fun s =>
    -- shift targets exist and are accessed by the shifted terminal
    ((T.cells s).all fun c => c.2.all fun a =>
      match a with
      | .shift s' => s' < T.n && s' != 0 && T.sym s' == Sym.t c.1 && c.1 != STOP
      | .reduce p =>
        match g.prod? p with
        | none => false
        | some pr => p != 0 && T.backOK s pr.rhs.reverse pr.lhs
      | .accept =>
        c.1 == STOP && T.sym s == Sym.nt g.start && s != 0 &&
          (List.range T.n).all (fun s' => !T.edge s' s || s' == 0)) &&
    -- goto targets exist and are accessed by the nonterminal
    ((T.gotoL s).all fun c => c.2 < T.n && c.2 != 0 && T.sym c.2 == Sym.nt c.1)

end Pg

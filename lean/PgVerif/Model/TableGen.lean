import PgVerif.Model.Table
/-!
Model of LR table construction, `parglare/tables/__init__.py` (`first`, `follow`,
`create_table`, `merge_states`, `LRTable.sort_state_actions`,
`calc_finish_flags`) and `parglare/closure.py` (`closure`, `_new_item_follow`),
following the repaired code (F-TAB-1/2/3). Orders that influence the result
(item order inside a state, work lists, the queue of states, the order in which
equal-kernel states are tried for merging, action order inside a cell) are
modelled; sets of terminals are bit masks (`Nat`), bit `nterm` standing for
EMPTY, so that set-valued results are canonical whatever the iteration order of
the Python sets was.
-/
namespace Pg

abbrev TSet := Nat

def TSet.has (s : TSet) (t : Nat) : Bool := s.testBit t
def TSet.single (t : Nat) : TSet := 1 <<< t
def TSet.union (a b : TSet) : TSet := a ||| b
def TSet.remove (s : TSet) (t : Nat) : TSet := if s.testBit t then s - (1 <<< t) else s
def TSet.subset (a b : TSet) : Bool := a &&& b == a
def TSet.inter (a b : TSet) : TSet := a &&& b
def TSet.diff (a b : TSet) : TSet := a - (a &&& b)
def TSet.toList (s : TSet) (bound : Nat) : List Nat := (List.range bound).filter (fun t => s.testBit t)

structure ProdInfo where
  lhs   : Nat
  rhs   : List Sym
  prior : Nat
  assoc : Nat          -- 0 none, 1 left, 2 right
  nops  : Bool
  nopse : Bool
deriving Repr, Inhabited

/-- Terminal attributes used by sorting and finish flags. `weight` is
`len(recognizer.value)` for string recognizers, `len(regex) - kwCorr` for
keyword regexes, 0 otherwise; `strLike` says string recognizer or keyword;
`finish` is the explicit mark (0 none, 1 finish, 2 nofinish). -/
structure TermInfo where
  prior   : Nat
  weight  : Nat
  strLike : Bool
  finish  : Nat
  fqn     : List Nat
deriving Repr, Inhabited

structure GGrammar where
  prods : List ProdInfo
  nnt   : Nat
  nterm : Nat
  terms : List TermInfo
deriving Repr, Inhabited

def GGrammar.empty (g : GGrammar) : Nat := g.nterm

def GGrammar.prod (g : GGrammar) (p : Nat) : ProdInfo := g.prods.getD p default

/-! ### FIRST and FOLLOW -/

/-- FIRST of a symbol given the current table for nonterminals. -/
def firstOf (fs : List TSet) (X : Sym) : TSet :=
  match X with
  | .t t => TSet.single t
  | .nt A => fs.getD A 0

/-- FIRST of a sequence w.r.t. `fs`: union of the FIRSTs (without EMPTY) up to
and including the first non-nullable symbol; EMPTY is in the result iff all
symbols are nullable. -/
def firstSeq (emp : Nat) (fs : List TSet) : List Sym → TSet
  | [] => TSet.single emp
  | X :: Xs =>
    let f := firstOf fs X
    if f.has emp then (f.remove emp).union (firstSeq emp fs Xs) else f

def firstRound (g : GGrammar) (fs : List TSet) : List TSet :=
  g.prods.foldl (fun fs p =>
    let cur := fs.getD p.lhs 0
    fs.set p.lhs (cur.union (firstSeq g.empty fs p.rhs))) fs

def firstIter (g : GGrammar) : Nat → List TSet → List TSet
  | 0, fs => fs
  | k + 1, fs =>
    let fs' := firstRound g fs
    if fs' == fs then fs else firstIter g k fs'

/-- `first(grammar)` for the nonterminals. -/
def firstSets (g : GGrammar) : List TSet :=
  firstIter g (g.nnt * (g.nterm + 2) + 2) (List.replicate g.nnt 0)

/-- What can follow position `i` of `rhs` inside production of `lhs`. -/
def followRound (g : GGrammar) (fs fo : List TSet) : List TSet :=
  g.prods.foldl (fun fo p =>
    let rec go : List Sym → List TSet → List TSet
      | [], fo => fo
      | .t _ :: rest, fo => go rest fo
      | .nt A :: rest, fo =>
        let f := firstSeq g.empty fs rest
        let add := if f.has g.empty then (f.remove g.empty).union (fo.getD p.lhs 0) else f
        go rest (fo.set A ((fo.getD A 0).union add))
    go p.rhs fo) fo

def followIter (g : GGrammar) (fs : List TSet) : Nat → List TSet → List TSet
  | 0, fo => fo
  | k + 1, fo =>
    let fo' := followRound g fs fo
    if fo' == fo then fo else followIter g fs k fo'

def followSets (g : GGrammar) (fs : List TSet) : List TSet :=
  followIter g fs (g.nnt * (g.nterm + 2) + 2) (List.replicate g.nnt 0)

/-! ### Items, closure -/

structure Item where
  prod   : Nat
  dot    : Nat
  follow : TSet
deriving Repr, Inhabited, BEq

def Item.core (a b : Item) : Bool := a.prod == b.prod && a.dot == b.dot

def symAt (g : GGrammar) (it : Item) : Option Sym := (g.prod it.prod).rhs[it.dot]?
def atEnd (g : GGrammar) (it : Item) : Bool := it.dot == (g.prod it.prod).rhs.length
def isKernel (it : Item) : Bool := it.dot > 0 || it.prod == 0

/-- `_new_item_follow`. -/
def newItemFollow (g : GGrammar) (fs : List TSet) (it : Item) : TSet :=
  let f := firstSeq g.empty fs ((g.prod it.prod).rhs.drop (it.dot + 1))
  if f.has g.empty then (f.remove g.empty).union it.follow else f

def prodsOf (g : GGrammar) (A : Nat) : List Nat :=
  (List.range g.prods.length).filter (fun p => (g.prod p).lhs == A)

/-- `closure(state, itemset_type, first_sets)`: LIFO work list of item indices. -/
def closureLoop (g : GGrammar) (lr1 : Bool) (fs : List TSet) :
    Nat → List Item → List Nat → List Item
  | 0, items, _ => items
  | _, items, [] => items
  | fuel + 1, items, todo =>
    -- pop from the end
    let idx := todo.getLast!
    let todo := todo.dropLast
    let it := items.getD idx default
    match symAt g it with
    | some (.nt A) =>
      let follow := if lr1 then newItemFollow g fs it else 0
      let (items, todo) := (prodsOf g A).foldl (fun (st : List Item × List Nat) p =>
        let (items, todo) := st
        match items.findIdx? (fun x => x.prod == p && x.dot == 0) with
        | none => (items ++ [⟨p, 0, follow⟩], todo ++ [items.length])
        | some j =>
          if lr1 then
            let ex := items.getD j default
            if !(TSet.subset follow ex.follow) then
              (items.set j { ex with follow := ex.follow.union follow }, todo ++ [j])
            else (items, todo)
          else (items, todo)) (items, todo)
      closureLoop g lr1 fs fuel items todo
    | _ => closureLoop g lr1 fs fuel items todo

def closureOf (g : GGrammar) (lr1 : Bool) (fs : List TSet) (items : List Item) : List Item :=
  closureLoop g lr1 fs (items.length * 64 + g.prods.length * (g.nterm + 3) * 64 + 4096) items
    (List.range items.length)

/-! ### States -/

structure GState where
  sym     : Sym
  items   : List Item
  actions : List (Nat × List Action)     -- insertion order
  gotos   : List (Nat × Nat)
  maxPrior : List (Sym × Nat)
deriving Repr, Inhabited

def kernelOf (s : GState) : List Item := s.items.filter isKernel

/-- `LRState.__eq__`. -/
def sameKernel (a b : GState) : Bool :=
  let ka := kernelOf a
  let kb := kernelOf b
  ka.length == kb.length && ka.all (fun x => kb.any (fun y => x.core y))

/-- `merge_states(old, new)`: `none` = refused. -/
def mergeStates (g : GGrammar) (old new : GState) : Option GState :=
  let endK := (kernelOf old).filter (atEnd g)
  let pairs := endK.map (fun o => (o, (new.items.find? (fun x => x.core o)).getD o))
  let refused := pairs.any (fun (o, n) =>
    endK.any (fun s => !(s.core o) && (TSet.inter s.follow (TSet.diff n.follow o.follow)) != 0))
  if refused then none else
  some { old with items := old.items.map (fun it =>
    if isKernel it && atEnd g it then
      match pairs.find? (fun (o, _) => o.core it) with
      | some (_, n) => { it with follow := it.follow.union n.follow }
      | none => it
    else it) }

def assocSet {β : Type} (l : List (Nat × β)) (k : Nat) (v : β) : List (Nat × β) :=
  if l.any (fun x => x.1 == k) then l.map (fun x => if x.1 == k then (k, v) else x) else l ++ [(k, v)]

def symKeyEq (a b : Sym) : Bool := a == b

/-- Group the items of a state by the symbol after the dot, in order of first
occurrence (`per_next_symbol`), with the maximal production priority per symbol. -/
def perNextSymbol (g : GGrammar) (items : List Item) : List (Sym × List Item × Nat) :=
  items.foldl (fun acc it =>
    match symAt g it with
    | none => acc
    | some X =>
      let pr := (g.prod it.prod).prior
      if acc.any (fun e => e.1 == X) then
        acc.map (fun e => if e.1 == X then (X, e.2.1 ++ [it], max e.2.2 pr) else e)
      else acc ++ [(X, [it], pr)]) []

structure GenSt where
  states : List GState        -- processed, index = state id? (ids are assigned at creation)
  queue  : List (Nat × GState)  -- (id, state) waiting
  done   : List (Nat × GState)  -- processed (id, state) in processing order
  nextId : Nat

/-- Try to find/merge an equal-kernel state among processed states and the queue
(in that order); returns the updated collections and the target id. -/
def findTarget (g : GGrammar) (lr1 : Bool) (done queue : List (Nat × GState)) (cand : GState) :
    Option (List (Nat × GState) × List (Nat × GState) × Nat) :=
  let rec goDone : List (Nat × GState) → List (Nat × GState) → Option (List (Nat × GState) × Nat)
    | _, [] => none
    | pre, (i, s) :: rest =>
      if sameKernel s cand then
        if !lr1 then some (pre.reverse ++ (i, s) :: rest, i)
        else match mergeStates g s cand with
          | some s' => some (pre.reverse ++ (i, s') :: rest, i)
          | none => goDone ((i, s) :: pre) rest
      else goDone ((i, s) :: pre) rest
  match goDone [] done with
  | some (done', i) => some (done', queue, i)
  | none =>
    match goDone [] queue with
    | some (queue', i) => some (done, queue', i)
    | none => none

/-- Process the queue (`while state_queue`). -/
def discover (g : GGrammar) (lr1 : Bool) (fs : List TSet) :
    Nat → List (Nat × GState) → List (Nat × GState) → Nat → Option (List (Nat × GState))
  | 0, _, _, _ => none
  | _, done, [], _ => some done
  | fuel + 1, done, (sid, st) :: queue, nextId =>
    let items := closureOf g lr1 fs st.items
    let groups := perNextSymbol g items
    let st := { st with items := items, maxPrior := groups.map (fun e => (e.1, e.2.2)) }
    -- the state is appended to `states` before its successors are looked up
    let done := done ++ [(sid, st)]
    let (done, queue, nextId, acts, gotos) :=
      groups.foldl (fun (acc : List (Nat × GState) × List (Nat × GState) × Nat ×
          List (Nat × List Action) × List (Nat × Nat)) e =>
        let (done, queue, nextId, acts, gotos) := acc
        let (X, its, _) := e
        if X == Sym.t STOP then (done, queue, nextId, assocSet acts STOP [Action.accept], gotos)
        else
          let inc := its.map (fun it => ({ it with dot := it.dot + 1 } : Item))
          let cand : GState := { sym := X, items := inc, actions := [], gotos := [], maxPrior := [] }
          let (done, queue, nextId, target) :=
            match findTarget g lr1 done queue cand with
            | some (done', queue', i) => (done', queue', nextId, i)
            | none => (done, queue ++ [(nextId, cand)], nextId + 1, nextId)
          match X with
          | .nt A => (done, queue, nextId, acts, assocSet gotos A target)
          | .t a => (done, queue, nextId, assocSet acts a [Action.shift target], gotos))
        (done, queue, nextId, [], [])
    -- the current state may itself have been merged into while processing: re-read it
    let done := done.map (fun (i, s) => if i == sid then (i, { s with actions := acts, gotos := gotos }) else (i, s))
    discover g lr1 fs fuel done queue nextId

/-! ### LALR propagation -/

def refreshAll (g : GGrammar) (fs : List TSet) (sts : List (Nat × GState)) : List (Nat × GState) :=
  sts.map (fun (i, s) => (i, { s with items := closureOf g true fs s.items }))

/-- One pass of "propagate follows to next states". Returns (changed, states). -/
def propagateOnce (g : GGrammar) (sts : List (Nat × GState)) : Bool × List (Nat × GState) :=
  sts.foldl (fun (acc : Bool × List (Nat × GState)) (entry : Nat × GState) =>
    let (changed, cur) := acc
    -- re-read this state (its items may have been updated earlier in this pass)
    let s := ((cur.find? (fun x => x.1 == entry.1)).map (·.2)).getD entry.2
    let inc : List (Option Item) := s.items.map (fun it =>
      if atEnd g it then none else some { it with dot := it.dot + 1 })
    let targets := s.gotos.map (·.2) ++
      (s.actions.flatMap (fun c => c.2.filterMap (fun a => match a with | .shift t => some t | _ => none)))
    targets.foldl (fun (acc : Bool × List (Nat × GState)) tid =>
      let (changed, cur) := acc
      match cur.find? (fun x => x.1 == tid) with
      | none => acc
      | some (_, ts) =>
        let (ch, items') := ts.items.foldl (fun (a : Bool × List Item) nit =>
          if isKernel nit then
            match inc.find? (fun o => match o with | some x => x.core nit | none => false) with
            | some (some this) =>
              if TSet.diff this.follow nit.follow != 0 then
                (true, a.2 ++ [{ nit with follow := nit.follow.union this.follow }])
              else (a.1, a.2 ++ [nit])
            | _ => (a.1, a.2 ++ [nit])
          else (a.1, a.2 ++ [nit])) (false, [])
        (changed || ch, cur.map (fun x => if x.1 == tid then (x.1, { x.2 with items := items' }) else x)))
      (changed, cur)) (false, sts)

def propagate (g : GGrammar) (fs : List TSet) : Nat → List (Nat × GState) → List (Nat × GState)
  | 0, sts => sts
  | k + 1, sts =>
    let sts := refreshAll g fs sts
    let (ch, sts) := propagateOnce g sts
    if ch then propagate g fs k sts else sts

/-! ### Reductions and conflict resolution -/

structure GenOpts where
  lr1 : Bool := true
  preferShifts : Bool := false
  preferShiftsOverEmpty : Bool := true
  startProd : Nat := 1
deriving Repr, Inhabited

def isShiftLike : Action → Bool
  | .shift _ => true
  | .accept => true
  | .reduce _ => false

def isReduce : Action → Bool
  | .reduce _ => true
  | _ => false

/-- SHIFT/REDUCE part of the resolution: the cell after possibly removing the
shift, and whether the reduction is still to be added. -/
def decideShift (g : GGrammar) (o : GenOpts) (cell : List Action) (p : Nat) (shPrior : Nat) :
    List Action × Bool :=
  let pi := g.prod p
  match cell.find? isShiftLike with
  | none => (cell, true)
  | some sh =>
    if pi.prior == shPrior then
      if pi.assoc == 1 then (cell.filter (fun a => a != sh), true)
      else if pi.assoc == 2 then (cell, false)
      else
        let isEmpty := pi.rhs.isEmpty
        let pse := isEmpty && o.preferShiftsOverEmpty && !pi.nopse
        let ps := !isEmpty && o.preferShifts && !pi.nops
        (cell, !(pse || ps))
    else if pi.prior > shPrior then (cell.filter (fun a => a != sh), true)
    else (cell, false)

def reducePrior (g : GGrammar) : Action → Nat
  | .reduce q => (g.prod q).prior
  | _ => 0

/-- REDUCE/REDUCE part: `reduces` are the reductions that were in the cell
before. -/
def addReduce (g : GGrammar) (cell reduces : List Action) (p : Nat) : List Action :=
  match reduces with
  | [] => cell ++ [Action.reduce p]
  | r0 :: _ =>
    if (g.prod p).prior == reducePrior g r0 then cell ++ [Action.reduce p]
    else if (g.prod p).prior > reducePrior g r0 then cell.filter (fun a => !isReduce a) ++ [Action.reduce p]
    else cell

/-- The resolution code of `create_table` for one (item, terminal): given the
current cell, the reducing production and the priority of the shift in the cell,
return the new cell. -/
def resolveCell (g : GGrammar) (o : GenOpts) (cell : List Action) (p : Nat) (shPrior : Nat) :
    List Action :=
  let d := decideShift g o cell p shPrior
  if d.2 then addReduce g d.1 (cell.filter isReduce) p else d.1

def DEFAULT_PRIORITY : Nat := 10

/-- Fill the reductions of one state. -/
def fillState (g : GGrammar) (o : GenOpts) (fo : List TSet) (sts : List (Nat × GState)) (s : GState) : GState :=
  let acts := s.items.foldl (fun (acts : List (Nat × List Action)) it =>
    if !atEnd g it then acts else
    let fset := if o.lr1 then it.follow else fo.getD (g.prod it.prod).lhs 0
    (fset.toList (g.nterm + 1)).foldl (fun acts t =>
      match acts.find? (fun c => c.1 == t) with
      | none => acts ++ [(t, [Action.reduce it.prod])]
      | some (_, cell) =>
        let shPrior :=
          match cell.find? isShiftLike with
          | some (.shift tid) =>
            let tsym := ((sts.find? (fun x => x.1 == tid)).map (·.2.sym)).getD (Sym.t t)
            ((s.maxPrior.find? (fun e => e.1 == tsym)).map (·.2)).getD DEFAULT_PRIORITY
          | _ => DEFAULT_PRIORITY
        assocSet acts t (resolveCell g o cell it.prod shPrior)) acts) s.actions
  { s with actions := acts }

/-! ### Sorting and finish flags -/

def padCmp : List Nat → List Nat → Ordering
  | [], [] => .eq
  | [], b :: bs => if 32 < b then .lt else if 32 > b then .gt else padCmp [] bs
  | a :: as, [] => if a < 32 then .lt else if a > 32 then .gt else padCmp as []
  | a :: as, b :: bs => if a < b then .lt else if a > b then .gt else padCmp as bs

/-- `act_order` comparison: numeric part (zero padded to 10 digits, so numeric
comparison below 10^10), then the FQN padded with blanks. `true` = `a` sorts
before `b` in the *descending* order used by `sort_state_actions`. -/
def sortKeyNum (w1 w2 : Nat) (ti : TermInfo) : Nat := ti.prior * w1 + (w2 + ti.weight)

def before (w1 w2 : Nat) (a b : TermInfo) : Bool :=
  let ka := sortKeyNum w1 w2 a
  let kb := sortKeyNum w1 w2 b
  if ka != kb then ka > kb else padCmp a.fqn b.fqn == .gt

def insertSorted (w1 w2 : Nat) (g : GGrammar) (x : Nat × List Action) :
    List (Nat × List Action) → List (Nat × List Action)
  | [] => [x]
  | y :: ys =>
    if before w1 w2 (g.terms.getD x.1 default) (g.terms.getD y.1 default) then x :: y :: ys
    else y :: insertSorted w1 w2 g x ys

def sortActions (w1 w2 : Nat) (g : GGrammar) (acts : List (Nat × List Action)) : List (Nat × List Action) :=
  acts.foldl (fun acc x => insertSorted w1 w2 g x acc) []

/-- `calc_finish_flags` for one state's sorted terminals. -/
def finishFlags (g : GGrammar) (terms : List Nat) : List Bool :=
  -- walk from the end; `prior` is the priority of the previously visited (next) terminal
  let (flags, _) := terms.reverse.foldl (fun (acc : List Bool × Option Nat) t =>
    let ti := g.terms.getD t default
    let f :=
      if ti.finish == 1 then true
      else if ti.finish == 2 then false
      else ((match acc.2 with
             | some pr => if pr != 0 then decide (ti.prior > pr) else false
             | none => false) || ti.strLike)
    (f :: acc.1, some ti.prior)) ([], none)
  flags

structure GenTable where
  states : List GState
  finish : List (List Bool)
deriving Repr, Inhabited

/-- `create_table` + `LRTable.__init__`. `none` = out of fuel. -/
def createTable (g : GGrammar) (o : GenOpts) (w1 w2 : Nat) (lexDis : Bool) (fuel : Nat) : Option GenTable :=
  let fs := firstSets g
  let startSym := (g.prod o.startProd).lhs
  let g' : GGrammar := { g with prods := g.prods.set 0 { (g.prod 0) with rhs := [Sym.nt startSym, Sym.t STOP] } }
  -- FOLLOW sees the augmented production of the requested start symbol (repaired code)
  let fo := followSets g' fs
  let s0 : GState := { sym := Sym.nt 0, items := [⟨0, 0, 0⟩], actions := [], gotos := [], maxPrior := [] }
  match discover g' o.lr1 fs fuel [] [(0, s0)] 1 with
  | none => none
  | some sts =>
    let sts := if o.lr1 then propagate g' fs fuel sts else sts
    let sts := sts.map (fun (i, s) => (i, fillState g' o fo sts s))
    let sts := sts.map (fun (i, s) => (i, { s with actions := sortActions w1 w2 g s.actions }))
    let ordered := sts.map (·.2)
    some { states := ordered,
           finish := ordered.map (fun s =>
             if lexDis then finishFlags g (s.actions.map (·.1)) else s.actions.map (fun _ => false)) }

end Pg

import PgVerif.Model.Actions
import PgVerif.Model.LR
/-!
On-the-fly action evaluation: the LR driver with a result stack of *values*
(`Parser._call_shift_action` / `_call_reduce_action` with `build_tree=False`;
each stack node keeps its `start_position`) against the deferred route (build the
tree, then `call_actions`). The value driver is the tree driver with `Tree.eval`
pushed through every constructor; `stepV_map`/`runV_map` show that it commutes
with `eval`: for every table, input, recognizer behaviour, action environment and
fuel the two routes agree.
-/
namespace Pg

structure ConfigV where
  stack : List (Nat × Val × Nat)      -- state, result, start_position
  pos   : Nat
  la    : Option (Nat × Option Tok)

inductive OutcomeV where
  | ok (v : Val) (rawEnd p : Nat)
  | syntaxError (p : Nat)
  | disambError (p : Nat) (terms : List Nat)
  | crash
  | outOfFuel

inductive StepV where
  | next (c : ConfigV)
  | done (o : OutcomeV)

def topOfV (st : List (Nat × Val × Nat)) : Nat :=
  match st with
  | [] => 0
  | (s, _) :: _ => s

def ConfigV.top (c : ConfigV) : Nat := topOfV c.stack

def spanStartV (popped : List (Nat × Val × Nat)) (pos : Nat) : Nat :=
  match popped with
  | [] => pos
  | x :: _ => x.2.2

def doShiftV (env : ActEnv) (c : ConfigV) (p : Nat) (otok : Option Tok) (s' : Nat) : StepV :=
  match otok with
  | some tok =>
    if tok.term = STOP then .done .crash else
    .next { stack := (s', (if env.termUser tok.term then Val.tcall tok.term p (p + tok.len)
                            else Val.str tok.term p (p + tok.len)), p) :: c.stack,
            pos := p + tok.len, la := none }
  | none => .done .crash

def doReduceV (g : Grammar) (env : ActEnv) (T : Table) (c : ConfigV) (pid : Nat) : StepV :=
  match g.prod? pid with
  | none => .done .crash
  | some pr =>
    let n := pr.rhs.length
    if c.stack.length < n then .done .crash else
    let popped := (c.stack.take n).reverse
    let rest := c.stack.drop n
    let st := spanStartV popped c.pos
    match T.goto (topOfV rest) pr.lhs with
    | none => .done .crash
    | some s' => .next { c with stack := (s', applyProd env pid (popped.map (·.2.1)) st c.pos, st) :: rest }

def doAcceptV (c : ConfigV) (p : Nat) : StepV :=
  match c.stack.getLast? with
  | some (_, v, _) => .done (.ok v c.pos p)
  | none => .done .crash

def applyActionV (g : Grammar) (env : ActEnv) (T : Table) (c : ConfigV) (p : Nat) (otok : Option Tok) :
    Action → StepV
  | .shift s' => doShiftV env c p otok s'
  | .reduce pid => doReduceV g env T c pid
  | .accept => doAcceptV c p

def scanStepV (T : Table) (inp : Input) (cf : LRCfg) (c : ConfigV) : StepV :=
  let p := inp.skip c.pos
  match nextTokens T inp cf.consumeInput cf.lexDis c.top p with
  | [] => .next { c with la := some (p, none) }
  | [tok] => .next { c with la := some (p, some tok) }
  | toks => .done (.disambError p (toks.map (·.term)))

def stepV (g : Grammar) (env : ActEnv) (T : Table) (inp : Input) (cf : LRCfg) (c : ConfigV) : StepV :=
  match c.la with
  | none => scanStepV T inp cf c
  | some (p, otok) =>
    match cellFor T cf c.top otok with
    | [] => .done (.syntaxError p)
    | a0 :: rest =>
      match pickAction g a0 rest with
      | none => .done .crash
      | some a => applyActionV g env T c p otok a

def runV (g : Grammar) (env : ActEnv) (T : Table) (inp : Input) (cf : LRCfg) : Nat → ConfigV → OutcomeV
  | 0, _ => .outOfFuel
  | f + 1, c =>
    match stepV g env T inp cf c with
    | .next c' => runV g env T inp cf f c'
    | .done o => o

/-! ### The value driver is the image of the tree driver under `eval` -/

def entryV (env : ActEnv) (x : Nat × Tree) : Nat × Val × Nat := (x.1, x.2.eval env, x.2.start)

def Config.toV (env : ActEnv) (c : Config) : ConfigV :=
  { stack := c.stack.map (entryV env), pos := c.pos, la := c.la }

def Outcome.toV (env : ActEnv) : Outcome → OutcomeV
  | .ok t e p => .ok (t.eval env) e p
  | .syntaxError p => .syntaxError p
  | .disambError p ts => .disambError p ts
  | .crash => .crash
  | .outOfFuel => .outOfFuel

def Step.toV (env : ActEnv) : Step → StepV
  | .next c => .next (c.toV env)
  | .done o => .done (o.toV env)

theorem topOfV_map (env : ActEnv) (st : List (Nat × Tree)) : topOfV (st.map (entryV env)) = topOf st := by
  cases st with
  | nil => rfl
  | cons x xs => rfl

theorem top_toV (env : ActEnv) (c : Config) : (c.toV env).top = c.top := by
  simp only [ConfigV.top, Config.toV, topOfV_map]; rfl

theorem evalL_eq_map (env : ActEnv) : ∀ ts : List Tree, Tree.evalL env ts = ts.map (Tree.eval env) := by
  intro ts
  induction ts with
  | nil => rfl
  | cons t ts ih => simp [Tree.evalL, ih]

theorem spanStartV_map (env : ActEnv) (l : List (Nat × Tree)) (pos : Nat) :
    spanStartV (l.map (entryV env)) pos = spanStart (l.map (·.2)) pos := by
  cases l with
  | nil => rfl
  | cons x xs => rfl

theorem doShiftV_map (env : ActEnv) (c : Config) (p : Nat) (otok : Option Tok) (s' : Nat) :
    doShiftV env (c.toV env) p otok s' = (doShift c p otok s').toV env := by
  unfold doShiftV doShift
  cases otok with
  | none => rfl
  | some tok =>
    simp only
    split
    · rfl
    · simp [Step.toV, Config.toV, entryV, Tree.eval, Tree.start]

theorem doReduceV_map (g : Grammar) (env : ActEnv) (T : Table) (c : Config) (pid : Nat) :
    doReduceV g env T (c.toV env) pid = (doReduce g T c pid).toV env := by
  unfold doReduceV doReduce
  cases hp : g.prod? pid with
  | none => rfl
  | some pr =>
    simp only [Config.toV, List.length_map]
    split
    · rfl
    · rw [← List.map_take, ← List.map_drop, ← List.map_reverse, topOfV_map, spanStartV_map]
      cases T.goto (topOf (List.drop pr.rhs.length c.stack)) pr.lhs with
      | none => rfl
      | some s' =>
        simp only [Step.toV, Config.toV, List.map_cons, entryV, Tree.eval, Tree.start, evalL_eq_map,
          List.map_map, List.map_reverse]
        rfl

theorem doAcceptV_map (env : ActEnv) (c : Config) (p : Nat) :
    doAcceptV (c.toV env) p = (doAccept c p).toV env := by
  unfold doAcceptV doAccept
  simp only [Config.toV, List.getLast?_map]
  cases c.stack.getLast? with
  | none => rfl
  | some x => rfl

theorem stepV_map (g : Grammar) (env : ActEnv) (T : Table) (inp : Input) (cf : LRCfg) (c : Config) :
    stepV g env T inp cf (c.toV env) = (step g T inp cf c).toV env := by
  unfold stepV step
  have hla : (c.toV env).la = c.la := rfl
  rw [hla]
  cases c.la with
  | none =>
    simp only [scanStepV, scanStep, top_toV]
    have hpos : (c.toV env).pos = c.pos := rfl
    rw [hpos]
    cases nextTokens T inp cf.consumeInput cf.lexDis c.top (inp.skip c.pos) with
    | nil => rfl
    | cons t ts => cases ts <;> rfl
  | some lap =>
    obtain ⟨p, otok⟩ := lap
    simp only [top_toV]
    cases cellFor T cf c.top otok with
    | nil => rfl
    | cons a0 rest =>
      simp only
      cases pickAction g a0 rest with
      | none => rfl
      | some a =>
        cases a with
        | shift s' => exact doShiftV_map env c p otok s'
        | reduce pid => exact doReduceV_map g env T c pid
        | accept => exact doAcceptV_map env c p

/-- **Deferred = on-the-fly.** Running the actions during parsing gives, for every
fuel, the evaluation of the tree the tree-building driver returns (and the same
error outcome otherwise). -/
theorem runV_map (g : Grammar) (env : ActEnv) (T : Table) (inp : Input) (cf : LRCfg) :
    ∀ (fuel : Nat) (c : Config), runV g env T inp cf fuel (c.toV env) = (run g T inp cf fuel c).toV env := by
  intro fuel
  induction fuel with
  | zero => intro c; rfl
  | succ f ih =>
    intro c
    simp only [runV, run, stepV_map]
    cases step g T inp cf c with
    | next c' => exact ih c'
    | done o => rfl

end Pg

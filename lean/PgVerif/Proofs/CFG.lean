import PgVerif.Spec.CFG
/-! The executable tree checker decides the declarative derivation relation. -/
namespace Pg

theorem chain_append (inp : Input) (p : Nat) (l1 l2 : List Leaf) :
    chain inp p (l1 ++ l2) = (chain inp p l1).bind (fun k => chain inp k l2) := by
  induction l1 generalizing p with
  | nil => simp [chain]
  | cons l ls ih =>
    simp only [List.cons_append, chain]
    split
    · exact ih _
    · simp

theorem DerivesSeq.append {g : Grammar} {inp : Input} {Xs Ys : List Sym} {i k j : Nat}
    {ts us : List Tree} (h1 : DerivesSeq g inp Xs i k ts) (h2 : DerivesSeq g inp Ys k j us) :
    DerivesSeq g inp (Xs ++ Ys) i j (ts ++ us) := by
  induction h1 with
  | nil i => simpa using h2
  | tok t i l j Xs ts h hl _ ih => exact DerivesSeq.tok t i l _ _ _ h hl (ih h2)
  | prod p pr i k j s e cs Xs ts hp hcs _ _ ih2 =>
    exact DerivesSeq.prod p pr i k _ s e cs _ _ hp hcs (ih2 h2)

theorem DerivesSeq.sound {g : Grammar} {inp : Input} {Xs : List Sym} {i j : Nat} {ts : List Tree}
    (h : DerivesSeq g inp Xs i j ts) :
    Tree.validL g ts = true ∧ Tree.symsAre g ts Xs = true ∧ chain inp i (Tree.yieldL ts) = some j := by
  induction h with
  | nil i => simp [Tree.validL, Tree.symsAre, Tree.yieldL, chain]
  | tok t i l j Xs ts h hl _ ih =>
    obtain ⟨h1, h2, h3⟩ := ih
    refine ⟨?_, ?_, ?_⟩
    · simp [Tree.validL, Tree.valid, h1]
    · simp [Tree.symsAre, Tree.sym, h2]
    · simp only [Tree.yieldL, Tree.yield, List.cons_append, List.nil_append, chain]
      have : inp.skip i + l - inp.skip i = l := by omega
      simp [this, h, hl, h3]
  | prod p pr i k j s e cs Xs ts hp _ _ ih1 ih2 =>
    obtain ⟨a1, a2, a3⟩ := ih1
    obtain ⟨b1, b2, b3⟩ := ih2
    refine ⟨?_, ?_, ?_⟩
    · simp [Tree.validL, Tree.valid, hp, a1, a2, b1]
    · simp [Tree.symsAre, Tree.sym, hp, b2]
    · simp [Tree.yieldL, Tree.yield, chain_append, a3, b3]

mutual
  theorem Tree.complete_aux (g : Grammar) (inp : Input) :
      ∀ (t : Tree) (X : Sym) (i j : Nat), t.valid g = true → t.sym g = some X →
        chain inp i t.yield = some j → DerivesSeq g inp [X] i j [t]
    | .leaf t s e, X, i, j, _, hs, hc => by
      simp only [Tree.sym, Option.some.injEq] at hs
      subst hs
      simp only [Tree.yield, chain] at hc
      split at hc
      · rename_i hcond
        obtain ⟨h1, h2, h3⟩ := hcond
        simp only [Option.some.injEq] at hc
        subst hc
        have he : e = inp.skip i + (e - s) := by omega
        have := DerivesSeq.tok (g := g) t i (e - s) (inp.skip i + (e - s)) [] []
          (by rw [← h1]; exact h3) (by omega) (DerivesSeq.nil _)
        rw [← h1] at this
        rw [← h1] at he
        rw [← he] at this
        exact this
      · simp at hc
    | .node p s e cs, X, i, j, hv, hs, hc => by
      simp only [Tree.valid] at hv
      split at hv
      · simp at hv
      · rename_i pr hp
        simp only [Bool.and_eq_true] at hv
        simp only [Tree.sym, hp, Option.map_some, Option.some.injEq] at hs
        subst hs
        simp only [Tree.yield] at hc
        have := Tree.completeL_aux g inp cs pr.rhs i j hv.2 hv.1 hc
        exact DerivesSeq.prod p pr i j j s e cs [] [] hp this (DerivesSeq.nil _)
  theorem Tree.completeL_aux (g : Grammar) (inp : Input) :
      ∀ (ts : List Tree) (Xs : List Sym) (i j : Nat), Tree.validL g ts = true →
        Tree.symsAre g ts Xs = true → chain inp i (Tree.yieldL ts) = some j →
        DerivesSeq g inp Xs i j ts
    | [], Xs, i, j, _, hs, hc => by
      cases Xs with
      | nil =>
        simp only [Tree.yieldL, chain, Option.some.injEq] at hc
        subst hc; exact DerivesSeq.nil _
      | cons X Xs => simp [Tree.symsAre] at hs
    | t :: ts, Xs, i, j, hv, hs, hc => by
      cases Xs with
      | nil => simp [Tree.symsAre] at hs
      | cons X Xs =>
        simp only [Tree.validL, Bool.and_eq_true] at hv
        simp only [Tree.symsAre, Bool.and_eq_true, beq_iff_eq] at hs
        simp only [Tree.yieldL, chain_append] at hc
        cases hk : chain inp i t.yield with
        | none => simp [hk] at hc
        | some k =>
          simp only [hk, Option.bind_some] at hc
          have h1 := Tree.complete_aux g inp t X i k hv.1 hs.1 hk
          have h2 := Tree.completeL_aux g inp ts Xs k j hv.2 hs.2 hc
          exact DerivesSeq.append h1 h2
end

/-- The checker decides the derivation relation (sequence form). -/
theorem derivesSeqB_iff (g : Grammar) (inp : Input) (Xs : List Sym) (i j : Nat) (ts : List Tree) :
    Tree.derivesSeqB g inp Xs i j ts = true ↔ DerivesSeq g inp Xs i j ts := by
  constructor
  · intro h
    simp only [Tree.derivesSeqB, Bool.and_eq_true, beq_iff_eq] at h
    exact Tree.completeL_aux g inp ts Xs i j h.1.1 h.1.2 h.2
  · intro h
    obtain ⟨h1, h2, h3⟩ := h.sound
    simp [Tree.derivesSeqB, h1, h2, h3]

/-- The checker decides the derivation relation. -/
theorem derivesB_iff (g : Grammar) (inp : Input) (X : Sym) (i j : Nat) (t : Tree) :
    t.derivesB g inp X i j = true ↔ Derives g inp X i j t := by
  unfold Derives
  rw [← derivesSeqB_iff]
  simp [Tree.derivesB, Tree.derivesSeqB, Tree.validL, Tree.symsAre, Tree.yieldL]

end Pg

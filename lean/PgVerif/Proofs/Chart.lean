import PgVerif.Spec.Chart
import PgVerif.Proofs.LRSound
/-! The chart recognizer is sound, and complete once saturated. -/
namespace Pg

variable {g : Grammar} {inp : Input}

/-- Every fact has a derivation. -/
def ChartSound (g : Grammar) (inp : Input) (ch : List Fact) : Prop :=
  ∀ f ∈ ch, ∃ t, Derives g inp (.nt f.1) f.2.1 f.2.2 t

theorem symEnds_sound {ch : List Fact} (hs : ChartSound g inp ch) (X : Sym) (i j : Nat)
    (h : j ∈ symEnds inp ch X i) : ∃ t, Derives g inp X i j t := by
  cases X with
  | t t =>
    simp only [symEnds] at h
    split at h
    · rename_i l hm
      simp only [List.mem_singleton] at h
      subst h
      obtain ⟨_, h2, h3⟩ := matchAt_some hm
      exact ⟨_, DerivesSeq.tok t i l _ [] [] h2 h3 (DerivesSeq.nil _)⟩
    · simp at h
  | nt A =>
    simp only [symEnds, List.mem_filterMap] at h
    obtain ⟨f, hf, hcond⟩ := h
    split at hcond
    · rename_i hc
      simp only [Option.some.injEq] at hcond
      obtain ⟨t, ht⟩ := hs f hf
      rw [hc.1, hc.2, hcond] at ht
      exact ⟨t, ht⟩
    · simp at hcond

theorem seqEnds_sound {ch : List Fact} (hs : ChartSound g inp ch) :
    ∀ (Xs : List Sym) (i j : Nat), j ∈ seqEnds inp ch Xs i → ∃ ts, DerivesSeq g inp Xs i j ts := by
  intro Xs
  induction Xs with
  | nil => intro i j h; simp [seqEnds] at h; subst h; exact ⟨[], DerivesSeq.nil _⟩
  | cons X Xs ih =>
    intro i j h
    simp only [seqEnds, List.mem_flatMap] at h
    obtain ⟨k, hk, hj⟩ := h
    obtain ⟨t, ht⟩ := symEnds_sound hs X i k hk
    obtain ⟨ts, hts⟩ := ih k j hj
    exact ⟨[t] ++ ts, DerivesSeq.append ht hts⟩

theorem roundFacts_sound {ch : List Fact} (hs : ChartSound g inp ch) :
    ∀ f ∈ roundFacts g inp ch, ∃ t, Derives g inp (.nt f.1) f.2.1 f.2.2 t := by
  intro f hf
  simp only [roundFacts, List.mem_flatMap, List.mem_map] at hf
  obtain ⟨pr, hpr, i, _, j, hj, rfl⟩ := hf
  obtain ⟨ts, hts⟩ := seqEnds_sound hs pr.rhs i j hj
  obtain ⟨p, hp, hpe⟩ := List.getElem_of_mem hpr
  have hp' : g.prod? p = some pr := by simp [Grammar.prod?, List.getElem?_eq_getElem hp, hpe]
  exact ⟨.node p i j ts, DerivesSeq.prod p pr i j j i j ts [] [] hp' hts (DerivesSeq.nil _)⟩

theorem saturate_sound :
    ∀ (fuel : Nat) (ch : List Fact), ChartSound g inp ch →
      ChartSound g inp (saturate g inp fuel ch).1 := by
  intro fuel
  induction fuel with
  | zero => intro ch h; simpa [saturate] using h
  | succ f ih =>
    intro ch h
    simp only [saturate]
    split
    · exact h
    · apply ih
      intro fact hfact
      rcases List.mem_append.mp hfact with h1 | h1
      · exact h fact h1
      · apply roundFacts_sound h
        simp only [newFacts] at h1
        exact (List.mem_filter.mp (List.mem_eraseDups.mp h1)).1

/-- Closedness under the inference rule. -/
def Closed (g : Grammar) (inp : Input) (ch : List Fact) : Prop :=
  ∀ f ∈ roundFacts g inp ch, f ∈ ch

theorem closed_of_newFacts_empty {ch : List Fact} (h : (newFacts g inp ch).isEmpty = true) :
    Closed g inp ch := by
  intro f hf
  by_cases hc : f ∈ ch
  · exact hc
  · have : f ∈ newFacts g inp ch := by
      simp only [newFacts]
      apply List.mem_eraseDups.mpr
      apply List.mem_filter.mpr
      exact ⟨hf, by simpa using hc⟩
    rw [List.isEmpty_iff.mp h] at this
    simp at this

theorem saturate_closed :
    ∀ (fuel : Nat) (ch : List Fact), (saturate g inp fuel ch).2 = true →
      Closed g inp (saturate g inp fuel ch).1 := by
  intro fuel
  induction fuel with
  | zero => intro ch h; simp only [saturate] at h ⊢; exact closed_of_newFacts_empty h
  | succ f ih =>
    intro ch h
    simp only [saturate] at h ⊢
    split
    · rename_i he; exact closed_of_newFacts_empty he
    · rename_i he; simp only [he] at h; exact ih _ h

/-- In a closed chart every derivation is recorded. -/
theorem closed_complete {ch : List Fact} (hc : Closed g inp ch) (hin : InputOK inp)
    {Xs : List Sym} {i j : Nat} {ts : List Tree} (h : DerivesSeq g inp Xs i j ts) :
    i ≤ inp.len → j ∈ seqEnds inp ch Xs i ∧ j ≤ inp.len := by
  induction h with
  | nil i => intro hi; exact ⟨by simp [seqEnds], hi⟩
  | tok t i l j Xs ts h hl _ ih =>
    intro hi
    have hle := hin.mlen_le _ _ _ h
    have hne : t ≠ STOP := by
      intro he; subst he; rw [hin.stop] at h; cases h
    obtain ⟨h1, h2⟩ := ih hle
    refine ⟨?_, h2⟩
    simp only [seqEnds, List.mem_flatMap]
    refine ⟨inp.skip i + l, ?_, h1⟩
    simp [symEnds, Input.matchAt, hne, h, hl]
  | prod p pr i k j s e cs Xs ts hp _ _ ih1 ih2 =>
    intro hi
    obtain ⟨h1, h1'⟩ := ih1 hi
    obtain ⟨h2, h2'⟩ := ih2 h1'
    refine ⟨?_, h2'⟩
    simp only [seqEnds, List.mem_flatMap]
    refine ⟨k, ?_, h2⟩
    have hmem : pr ∈ g.prods := by
      simp only [Grammar.prod?] at hp
      exact List.mem_of_getElem? hp
    have hfact : (pr.lhs, i, k) ∈ ch := by
      apply hc
      simp only [roundFacts, List.mem_flatMap, List.mem_map, List.mem_range]
      exact ⟨pr, hmem, i, by omega, k, h1, rfl⟩
    simp only [symEnds, List.mem_filterMap]
    exact ⟨(pr.lhs, i, k), hfact, by simp⟩

theorem parseEnds_iff {ch : List Fact} (hs : ChartSound g inp ch) (hc : Closed g inp ch)
    (hin : InputOK inp) (j : Nat) :
    j ∈ parseEnds g ch ↔ ∃ t, Derives g inp (.nt g.start) 0 j t := by
  constructor
  · intro h
    simp only [parseEnds, List.mem_filterMap] at h
    obtain ⟨f, hf, hcond⟩ := h
    split at hcond
    · rename_i hcnd
      simp only [Option.some.injEq] at hcond
      obtain ⟨t, ht⟩ := hs f hf
      rw [hcnd.1, hcnd.2, hcond] at ht
      exact ⟨t, ht⟩
    · simp at hcond
  · intro ⟨t, ht⟩
    have := (closed_complete hc hin ht (Nat.zero_le _)).1
    simp only [seqEnds, List.mem_flatMap] at this
    obtain ⟨k, hk, hj⟩ := this
    simp only [List.mem_singleton] at hj
    subst hj
    simp only [symEnds, List.mem_filterMap] at hk
    obtain ⟨f, hf, hcond⟩ := hk
    simp only [parseEnds, List.mem_filterMap]
    exact ⟨f, hf, hcond⟩

/-- **Oracle correctness.** When the chart saturates, `isSentence` decides
sentencehood — for every grammar (ambiguous, nullable, cyclic) and input. -/
theorem isSentence_correct (hin : InputOK inp) (fuel : Nat) (b : Bool)
    (h : isSentence g inp fuel = some b) : b = true ↔ Sentence g inp := by
  unfold isSentence chart at h
  simp only at h
  split at h
  · rename_i hcl
    simp only [Option.some.injEq] at h
    have hs : ChartSound g inp (saturate g inp fuel []).1 :=
      saturate_sound fuel [] (by intro f hf; simp at hf)
    have hc := saturate_closed (g := g) (inp := inp) fuel [] hcl
    rw [← h]
    simp only [List.any_eq_true, beq_iff_eq]
    constructor
    · intro ⟨j, hj, hskip⟩
      obtain ⟨t, ht⟩ := (parseEnds_iff hs hc hin j).mp hj
      exact ⟨t, j, ht, hskip⟩
    · intro ⟨t, j, ht, hskip⟩
      exact ⟨j, (parseEnds_iff hs hc hin j).mpr ⟨t, ht⟩, hskip⟩
  · simp at h

theorem isPrefixSentence_correct (hin : InputOK inp) (fuel : Nat) (b : Bool)
    (h : isPrefixSentence g inp fuel = some b) : b = true ↔ ∃ t, IsPrefixParseOf g inp t := by
  unfold isPrefixSentence chart at h
  simp only at h
  split at h
  · rename_i hcl
    simp only [Option.some.injEq] at h
    have hs : ChartSound g inp (saturate g inp fuel []).1 :=
      saturate_sound fuel [] (by intro f hf; simp at hf)
    have hc := saturate_closed (g := g) (inp := inp) fuel [] hcl
    rw [← h]
    simp only [Bool.not_eq_true', List.isEmpty_eq_false_iff_exists_mem]
    constructor
    · intro ⟨j, hj⟩
      obtain ⟨t, ht⟩ := (parseEnds_iff hs hc hin j).mp hj
      exact ⟨t, j, ht⟩
    · intro ⟨t, j, ht⟩
      exact ⟨j, (parseEnds_iff hs hc hin j).mpr ⟨t, ht⟩⟩
  · simp at h

end Pg

import PgVerif.Model.Forest
/-!
Counting and index decoding of the forest model are consistent with the list of
trees the forest represents, for every acyclic forest (no size bound).
-/
namespace Pg

/-! ### List helpers -/

theorem getD_map_length {α : Type} (acc : List (List α)) (c : Nat) :
    (acc.map List.length).getD c 0 = (acc.getD c []).length := by
  simp only [List.getD_eq_getElem?_getD, List.getElem?_map]
  cases acc[c]? <;> simp

theorem getD_append_lt {α : Type} (l1 l2 : List α) (d : α) (i : Nat) (h : i < l1.length) :
    (l1 ++ l2).getD i d = l1.getD i d := by
  simp [List.getD_eq_getElem?_getD, List.getElem?_append_left h]

theorem getD_append_len {α : Type} (l1 : List α) (x d : α) (i : Nat) (h : i = l1.length) :
    (l1 ++ [x]).getD i d = x := by
  subst h
  simp [List.getD_eq_getElem?_getD]

/-- Pointwise relation between two lists of equal length. -/
inductive Forall2 {α β : Type} (R : α → β → Prop) : List α → List β → Prop where
  | nil : Forall2 R [] []
  | cons {a b l1 l2} (h : R a b) (t : Forall2 R l1 l2) : Forall2 R (a :: l1) (b :: l2)

theorem sum_const_map {α : Type} (l : List α) (m : Nat) :
    (l.map (fun _ => m)).sum = l.length * m := by
  induction l with
  | nil => simp
  | cons x xs ih => simp [ih, Nat.succ_mul, Nat.add_comm]

theorem length_flatMap_const {α β : Type} (l : List α) (f : α → List β) (m : Nat)
    (h : ∀ x, (f x).length = m) : (l.flatMap f).length = l.length * m := by
  induction l with
  | nil => simp
  | cons x xs ih => simp [List.flatMap_cons, ih, h, Nat.succ_mul, Nat.add_comm]

theorem length_prodLists {α : Type} (ls : List (List α)) :
    (prodLists ls).length = (ls.map List.length).foldr (· * ·) 1 := by
  induction ls with
  | nil => simp [prodLists]
  | cons l ls ih =>
    simp only [prodLists, List.map_cons, List.foldr_cons]
    rw [length_flatMap_const _ _ (prodLists ls).length (by intro x; simp), ih]

theorem length_flatMap_enumFrom {α β : Type} (alts : List α) (g : Nat × α → List β)
    (h : α → Nat) (hg : ∀ k a, (g (k, a)).length = h a) (k0 : Nat) :
    ((enumFrom k0 alts).flatMap g).length = (alts.map h).foldr (· + ·) 0 := by
  induction alts generalizing k0 with
  | nil => simp [enumFrom]
  | cons a as ih => simp [enumFrom, List.flatMap_cons, hg, ih]

/-! ### Counting = number of trees -/

theorem altSols_eq (accT : List (List CTree)) (node k : Nat) (a : Alt) :
    altSols (accT.map List.length) a = (altTrees accT node k a).length := by
  simp only [altSols, altTrees, List.length_map, length_prodLists, List.map_map]
  congr 1
  apply List.map_congr_left
  intro c _
  exact getD_map_length accT c

theorem nodeSols_eq (accT : List (List CTree)) (node : Nat) (n : PNode) :
    nodeSols (accT.map List.length) n = (nodeTrees accT node n).length := by
  simp only [nodeSols, nodeTrees]
  rw [length_flatMap_enumFrom n.alts _ (altSols (accT.map List.length))]
  intro k a
  exact (altSols_eq accT node k a).symm

theorem solsL_eq_aux (F : Forest) :
    ∀ accT : List (List CTree),
      F.foldl (fun acc n => acc ++ [nodeSols acc n]) (accT.map List.length) =
        (F.foldl (fun acc n => acc ++ [nodeTrees acc acc.length n]) accT).map List.length := by
  induction F with
  | nil => intro accT; simp
  | cons n F ih =>
    intro accT
    simp only [List.foldl_cons]
    rw [← ih]
    simp [nodeSols_eq accT accT.length n]

theorem solsL_eq (F : Forest) : solsL F = (treesL F).map List.length := by
  simpa [solsL, treesL] using solsL_eq_aux F []

/-- **C03 (count).** `len(forest)` is the number of trees the forest represents. -/
theorem solutions_eq (F : Forest) (root : Nat) :
    solutions F root = (trees F root).length := by
  rw [solutions, trees, solsL_eq, getD_map_length]

/-! ### Decoding = indexing the tree list -/

/-- Indexing a concatenation of blocks of constant length. -/
theorem getElem?_flatMap_const {α β : Type} (f : α → List β) (m : Nat) (hm : 0 < m)
    (h : ∀ x, (f x).length = m) :
    ∀ (l : List α) (c : Nat), c < l.length * m →
      ∃ x, l[c / m]? = some x ∧ (l.flatMap f)[c]? = (f x)[c % m]? := by
  intro l
  induction l with
  | nil => intro c hc; simp at hc
  | cons y ys ih =>
    intro c hc
    by_cases hlt : c < m
    · refine ⟨y, by simp [Nat.div_eq_of_lt hlt], ?_⟩
      simp [List.flatMap_cons, Nat.mod_eq_of_lt hlt, List.getElem?_append_left, h, hlt]
    · have hge : m ≤ c := Nat.le_of_not_lt hlt
      have hc' : c - m < ys.length * m := by
        simp only [List.length_cons, Nat.succ_mul] at hc; omega
      obtain ⟨x, hx1, hx2⟩ := ih (c - m) hc'
      have hdiv : c / m = (c - m) / m + 1 := by
        rw [Nat.div_eq c m]; simp [hm, hge]
      have hmod : c % m = (c - m) % m := Nat.mod_eq_sub_mod hge
      refine ⟨x, by simp [hdiv, hx1], ?_⟩
      rw [List.flatMap_cons, List.getElem?_append_right (by simp [h, hge]), h, hx2, hmod]

/-- Picking one element per list by a list of indices. -/
def pickAll {α : Type} : List (List α) → List Nat → Option (List α)
  | [], [] => some []
  | l :: ls, k :: ks =>
    match l[k]?, pickAll ls ks with
    | some t, some ts => some (t :: ts)
    | _, _ => none
  | _, _ => none

theorem foldr_mul_pos (ws : List Nat) (h : ∀ w ∈ ws, 0 < w) : 0 < ws.foldr (· * ·) 1 := by
  induction ws with
  | nil => simp
  | cons w ws ih =>
    simp only [List.foldr_cons]
    exact Nat.mul_pos (h w (by simp)) (ih (fun w' hw' => h w' (by simp [hw'])))

/-- Mixed-radix decoding indexes the product list. -/
theorem getElem?_prodLists {α : Type} :
    ∀ (ls : List (List α)) (c : Nat), (∀ l ∈ ls, 0 < l.length) →
      c < (ls.map List.length).foldr (· * ·) 1 →
      (prodLists ls)[c]? = pickAll ls (splitCounter (ls.map List.length) c) := by
  intro ls
  induction ls with
  | nil => intro c _ hc; simp at hc; subst hc; simp [prodLists, splitCounter, pickAll]
  | cons l ls ih =>
    intro c hpos hc
    simp only [List.map_cons, List.foldr_cons] at hc
    have hm : 0 < (ls.map List.length).foldr (· * ·) 1 :=
      foldr_mul_pos _ (by
        intro w hw
        simp only [List.mem_map] at hw
        obtain ⟨l', hl', rfl⟩ := hw
        exact hpos l' (by simp [hl']))
    have hlen : ∀ x : α, ((prodLists ls).map (x :: ·)).length =
        (ls.map List.length).foldr (· * ·) 1 := by
      intro x; simp [length_prodLists]
    obtain ⟨x, hx1, hx2⟩ := getElem?_flatMap_const (fun x => (prodLists ls).map (x :: ·)) _ hm hlen l c hc
    simp only [prodLists, splitCounter, List.map_cons, pickAll]
    rw [hx2, hx1]
    have hlt : c % (ls.map List.length).foldr (· * ·) 1 < (ls.map List.length).foldr (· * ·) 1 :=
      Nat.mod_lt _ hm
    rw [List.getElem?_map, ih _ (fun l' hl' => hpos l' (by simp [hl'])) hlt]
    cases pickAll ls (splitCounter (ls.map List.length) (c % (ls.map List.length).foldr (· * ·) 1)) <;> simp

theorem foldr_add_map_ge {α : Type} (h : α → Nat) (alts : List α) (a : α) (ha : a ∈ alts) :
    h a ≤ (alts.map h).foldr (· + ·) 0 := by
  induction alts with
  | nil => simp at ha
  | cons b bs ih =>
    simp only [List.map_cons, List.foldr_cons]
    rcases List.mem_cons.mp ha with rfl | hb
    · omega
    · have := ih hb; omega

/-- Bucket search indexes the concatenation of the alternatives' tree lists. -/
theorem bucket_spec {α β : Type} (g : Nat × α → List β) (h : α → Nat)
    (hg : ∀ k a, (g (k, a)).length = h a) :
    ∀ (alts : List α) (k0 counter : Nat), counter < (alts.map h).foldr (· + ·) 0 →
      ∃ k c' a, bucket (alts.map h) counter k0 = some (k0 + k, c') ∧ alts[k]? = some a ∧
        c' < h a ∧ ((enumFrom k0 alts).flatMap g)[counter]? = (g (k0 + k, a))[c']? := by
  intro alts
  induction alts with
  | nil => intro k0 counter hc; simp at hc
  | cons a as ih =>
    intro k0 counter hc
    simp only [List.map_cons, List.foldr_cons] at hc
    simp only [List.map_cons, bucket, enumFrom, List.flatMap_cons]
    by_cases hle : h a ≤ counter
    · obtain ⟨k, c', a', h1, h2, h3, h4⟩ := ih (k0 + 1) (counter - h a) (by omega)
      refine ⟨k + 1, c', a', ?_, by simpa using h2, h3, ?_⟩
      · simp only [hle, if_true]; rw [h1]; congr 2; omega
      · rw [List.getElem?_append_right (by simp [hg, hle]), hg, h4]; congr 3; omega
    · refine ⟨0, counter, a, by simp [hle], by simp, by omega, ?_⟩
      rw [List.getElem?_append_left (by simp [hg]; omega)]
      simp

/-- State of the bottom-up computation after processing a prefix of the forest. -/
structure DecInv (sols : List Nat) (dec : List (Nat → Option CTree)) (ts : List (List CTree)) : Prop where
  lenS : sols.length = ts.length
  lenD : dec.length = ts.length
  solsEq : sols = ts.map List.length
  pos : ∀ id, id < ts.length → 0 < sols.getD id 0
  decEq : ∀ id, id < ts.length → ∀ i, i < sols.getD id 0 →
    dec.getD id (fun _ => none) i = (ts.getD id [])[i]?

theorem decodeChildren_eq (sols : List Nat) (dec : List (Nat → Option CTree)) (ts : List (List CTree))
    (hinv : DecInv sols dec ts) :
    ∀ (cs ks : List Nat), (Forall2 (fun c k => k < sols.getD c 0) cs ks) →
      (∀ c ∈ cs, c < ts.length) →
      decodeChildren dec cs ks = pickAll (cs.map (fun c => ts.getD c [])) ks := by
  intro cs ks hall
  induction hall with
  | nil => intro _; simp [decodeChildren, pickAll]
  | @cons c k cs ks hck _ ih =>
    intro hcs
    simp only [decodeChildren, List.map_cons, pickAll]
    rw [hinv.decEq c (hcs c (by simp)) k hck, ih (fun c' hc' => hcs c' (by simp [hc']))]
    cases (ts.getD c [])[k]? <;> cases pickAll (cs.map (fun c => ts.getD c [])) ks <;> rfl

/-- The digits produced by `splitCounter` are in range. -/
theorem splitCounter_lt :
    ∀ (ws : List Nat) (c : Nat), (∀ w ∈ ws, 0 < w) → c < ws.foldr (· * ·) 1 →
      Forall2 (fun w k => k < w) ws (splitCounter ws c) := by
  intro ws
  induction ws with
  | nil => intro c _ _; simp only [splitCounter]; exact Forall2.nil
  | cons w ws ih =>
    intro c hpos hc
    simp only [List.foldr_cons] at hc
    have hm : 0 < ws.foldr (· * ·) 1 := foldr_mul_pos _ (fun w' hw' => hpos w' (by simp [hw']))
    simp only [splitCounter]
    refine Forall2.cons ?_ (ih _ (fun w' hw' => hpos w' (by simp [hw'])) (Nat.mod_lt _ hm))
    exact (Nat.div_lt_iff_lt_mul hm).mpr hc

theorem forall₂_map_left {α β γ : Type} (f : α → β) (R : β → γ → Prop) :
    ∀ (l : List α) (ks : List γ), Forall2 R (l.map f) ks → Forall2 (fun a k => R (f a) k) l ks := by
  intro l
  induction l with
  | nil => intro ks h; cases h; exact Forall2.nil
  | cons a as ih =>
    intro ks h
    cases h with
    | cons h1 h2 => exact Forall2.cons h1 (ih _ h2)

theorem pickAlt_eq_bucket (ws : List Nat) (counter : Nat) (hpos : ∀ w ∈ ws, 0 < w)
    (hc : counter < ws.foldr (· + ·) 0) : pickAlt ws counter = bucket ws counter 0 := by
  unfold pickAlt
  split
  · rfl
  · rename_i hcond
    cases ws with
    | nil => simp at hc
    | cons w rest =>
      have hw := hpos w (by simp)
      simp only [List.isEmpty_cons, Bool.false_eq_true, if_false, bucket]
      by_cases h0 : counter = 0
      · subst h0; simp [Nat.not_le.mpr hw]
      · have : rest = [] := by
          cases rest with
          | nil => rfl
          | cons _ _ => simp at hcond; omega
        subst this
        simp at hc
        simp [Nat.not_le.mpr hc]

/-- One step of the fold preserves the invariant. -/
theorem decInv_step (sols : List Nat) (dec : List (Nat → Option CTree)) (ts : List (List CTree))
    (hinv : DecInv sols dec ts) (n : PNode) (hne : n.alts ≠ [])
    (hch : ∀ a ∈ n.alts, ∀ c ∈ a.children, c < ts.length) :
    DecInv (sols ++ [nodeSols sols n]) (dec ++ [decodeNode sols dec dec.length n])
      (ts ++ [nodeTrees ts ts.length n]) := by
  have hsolsn : nodeSols sols n = (nodeTrees ts ts.length n).length := by
    rw [hinv.solsEq]; exact nodeSols_eq ts ts.length n
  have haltpos : ∀ a ∈ n.alts, 0 < altSols sols a := by
    intro a ha
    unfold altSols
    apply foldr_mul_pos
    intro w hw
    simp only [List.mem_map] at hw
    obtain ⟨c, hc, rfl⟩ := hw
    exact hinv.pos c (hch a ha c hc)
  refine ⟨by simp [hinv.lenS], by simp [hinv.lenD], by simp [hinv.solsEq, ← hsolsn], ?_, ?_⟩
  · intro id hid
    simp only [List.length_append, List.length_singleton] at hid
    by_cases hlt : id < ts.length
    · rw [getD_append_lt _ _ _ _ (by rw [hinv.lenS]; exact hlt)]
      exact hinv.pos id hlt
    · have : id = ts.length := by omega
      subst this
      rw [getD_append_len _ _ _ _ hinv.lenS.symm]
      cases hal : n.alts with
      | nil => exact absurd hal hne
      | cons a rest =>
        have := haltpos a (by simp [hal])
        simp only [nodeSols, hal, List.map_cons, List.foldr_cons]
        omega
  · intro id hid i hi
    simp only [List.length_append, List.length_singleton] at hid
    by_cases hlt : id < ts.length
    · rw [getD_append_lt _ _ _ _ (by rw [hinv.lenD]; exact hlt),
        getD_append_lt _ _ _ _ hlt]
      rw [getD_append_lt _ _ _ _ (by rw [hinv.lenS]; exact hlt)] at hi
      exact hinv.decEq id hlt i hi
    · have : id = ts.length := by omega
      subst this
      rw [getD_append_len _ _ _ _ hinv.lenS.symm] at hi
      rw [getD_append_len _ _ _ _ hinv.lenD.symm, getD_append_len _ _ _ _ rfl]
      rw [hinv.lenD]
      -- the new node
      unfold decodeNode
      have hws : ∀ w ∈ n.alts.map (altSols sols), 0 < w := by
        intro w hw
        simp only [List.mem_map] at hw
        obtain ⟨a, ha, rfl⟩ := hw
        exact haltpos a ha
      rw [pickAlt_eq_bucket _ i hws (by simpa [nodeSols] using hi)]
      have hg : ∀ k a, (altTrees ts ts.length k a).length = altSols sols a := by
        intro k a; rw [hinv.solsEq]; exact (altSols_eq ts ts.length k a).symm
      obtain ⟨k, c', a, hb, hak, hc', hget⟩ :=
        bucket_spec (fun ka => altTrees ts ts.length ka.1 ka.2) (altSols sols) hg n.alts 0 i
          (by simpa [nodeSols] using hi)
      simp only [Nat.zero_add] at hb hget
      rw [hb]
      simp only [hak]
      unfold nodeTrees
      rw [hget]
      have hamem : a ∈ n.alts := List.mem_of_getElem? hak
      -- children
      have hlens : a.children.map (fun c => sols.getD c 0) =
          (a.children.map (fun c => ts.getD c [])).map List.length := by
        rw [List.map_map]
        apply List.map_congr_left
        intro c _
        rw [hinv.solsEq]; exact getD_map_length ts c
      have hposl : ∀ l ∈ a.children.map (fun c => ts.getD c []), 0 < l.length := by
        intro l hl
        simp only [List.mem_map] at hl
        obtain ⟨c, hc, rfl⟩ := hl
        have := hinv.pos c (hch a hamem c hc)
        rw [hinv.solsEq, getD_map_length] at this
        exact this
      have hc'' : c' < ((a.children.map (fun c => ts.getD c [])).map List.length).foldr (· * ·) 1 := by
        rw [← hlens]; simpa [altSols] using hc'
      have hdigits := splitCounter_lt (a.children.map (fun c => sols.getD c 0)) c'
        (by
          intro w hw
          simp only [List.mem_map] at hw
          obtain ⟨c, hc, rfl⟩ := hw
          exact hinv.pos c (hch a hamem c hc))
        (by simpa [altSols] using hc')
      have hdec := decodeChildren_eq sols dec ts hinv a.children
        (splitCounter (a.children.map (fun c => sols.getD c 0)) c')
        (forall₂_map_left _ _ _ _ hdigits) (hch a hamem)
      rw [hdec]
      simp only [altTrees, List.getElem?_map]
      rw [getElem?_prodLists _ _ hposl hc'', ← hlens]
      cases pickAll (a.children.map (fun c => ts.getD c []))
        (splitCounter (a.children.map (fun c => sols.getD c 0)) c') <;> simp

theorem enumFrom_all {α : Type} (p : Nat × α → Bool) :
    ∀ (l : List α) (k : Nat), (enumFrom k l).all p = true →
      ∀ i x, l[i]? = some x → p (k + i, x) = true := by
  intro l
  induction l with
  | nil => intro k _ i x h; simp at h
  | cons y ys ih =>
    intro k hall i x hx
    simp only [enumFrom, List.all_cons, Bool.and_eq_true] at hall
    cases i with
    | zero => simp at hx; subst hx; simpa using hall.1
    | succ i =>
      simp at hx
      have := ih (k + 1) hall.2 i x hx
      rw [show k + (i + 1) = k + 1 + i by omega]; exact this

/-- The invariant holds after the whole fold, for well-formed forests. -/
theorem decInv_fold :
    ∀ (F : Forest) (sols : List Nat) (dec : List (Nat → Option CTree)) (ts : List (List CTree)),
      DecInv sols dec ts →
      (∀ i n, F[i]? = some n → n.alts ≠ [] ∧ ∀ a ∈ n.alts, ∀ c ∈ a.children, c < ts.length + i) →
      DecInv
        (F.foldl (fun (acc : List Nat × List (Nat → Option CTree)) n =>
          (acc.1 ++ [nodeSols acc.1 n], acc.2 ++ [decodeNode acc.1 acc.2 acc.2.length n])) (sols, dec)).1
        (F.foldl (fun (acc : List Nat × List (Nat → Option CTree)) n =>
          (acc.1 ++ [nodeSols acc.1 n], acc.2 ++ [decodeNode acc.1 acc.2 acc.2.length n])) (sols, dec)).2
        (F.foldl (fun acc n => acc ++ [nodeTrees acc acc.length n]) ts) := by
  intro F
  induction F with
  | nil => intro sols dec ts h _; simpa using h
  | cons n F ih =>
    intro sols dec ts hinv hwf
    simp only [List.foldl_cons]
    have h0 := hwf 0 n (by simp)
    apply ih _ _ _ (decInv_step sols dec ts hinv n h0.1 (by simpa using h0.2))
    intro i n' hn'
    have := hwf (i + 1) n' (by simpa using hn')
    refine ⟨this.1, ?_⟩
    intro a ha c hc
    have := this.2 a ha c hc
    simp only [List.length_append, List.length_singleton]
    omega

theorem wf_spec (F : Forest) (hwf : F.wf = true) :
    ∀ (i : Nat) (n : PNode), F[i]? = some n → n.alts ≠ [] ∧ ∀ a ∈ n.alts, ∀ c ∈ a.children, c < i := by
  intro i n hn
  have := enumFrom_all _ F 0 hwf i n hn
  simp only [Nat.zero_add, Bool.and_eq_true, Bool.not_eq_true', List.all_eq_true,
    decide_eq_true_eq] at this
  refine ⟨?_, this.2⟩
  intro h; rw [h] at this; simp at this

theorem decInv_final (F : Forest) (hwf : F.wf = true) :
    DecInv (decodeL F).1 (decodeL F).2 (treesL F) := by
  have := decInv_fold F [] [] [] ⟨rfl, rfl, rfl, by simp, by simp⟩
    (by
      intro i n hn
      have := wf_spec F hwf i n hn
      simpa using this)
  simpa [decodeL, treesL] using this

theorem decodeL_fst (F : Forest) : (decodeL F).1 = solsL F := by
  unfold decodeL solsL
  suffices h : ∀ (sols : List Nat) (dec : List (Nat → Option CTree)),
      (F.foldl (fun (acc : List Nat × List (Nat → Option CTree)) n =>
        (acc.1 ++ [nodeSols acc.1 n], acc.2 ++ [decodeNode acc.1 acc.2 acc.2.length n])) (sols, dec)).1 =
      F.foldl (fun acc n => acc ++ [nodeSols acc n]) sols from h [] []
  induction F with
  | nil => intro sols dec; simp
  | cons n F ih => intro sols dec; simp only [List.foldl_cons]; exact ih _ _

/-- **C03 (indexing).** For every well-formed forest and every index below
`len(forest)`, the decoded tree is the `i`-th tree of the forest's tree list. -/
theorem treeAt_eq_get (F : Forest) (hwf : F.wf = true) (root : Nat) (hr : root < F.length)
    (i : Nat) (hi : i < solutions F root) :
    treeAt F root i = (trees F root)[i]? := by
  have hinv := decInv_final F hwf
  have hlen : (treesL F).length = F.length := by
    have : ∀ (F : Forest) (acc : List (List CTree)),
        (F.foldl (fun acc n => acc ++ [nodeTrees acc acc.length n]) acc).length = acc.length + F.length := by
      intro F
      induction F with
      | nil => intro acc; simp
      | cons n F ih => intro acc; simp only [List.foldl_cons]; rw [ih]; simp; omega
    simpa [treesL] using this F []
  unfold treeAt trees
  apply hinv.decEq root (by rw [hlen]; exact hr) i
  rw [decodeL_fst]
  exact hi

end Pg

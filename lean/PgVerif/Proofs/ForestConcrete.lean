import PgVerif.Proofs.ForestNodup
/-!
Different indices give different *parse trees*, not merely different choices:
`CTree.concrete` is injective on the trees of a forest, provided the forest is
keyed like a shared packed parse forest (a decidable condition, evaluated on
every forest the implementation returns): all alternatives of an ambiguity node
have the node's (symbol, start, end), no two nodes share that key, and no node
lists the same alternative twice.
-/
namespace Pg

abbrev Key := Nat × Nat × Nat × Nat

def Alt.key (lhsOf : Nat → Nat) : Alt → Key
  | .term t s e => (0, t, s, e)
  | .nonterm p s e _ => (1, lhsOf p, s, e)

def Tree.key (lhsOf : Nat → Nat) : Tree → Key
  | .leaf t s e => (0, t, s, e)
  | .node p s e _ => (1, lhsOf p, s, e)

def PNode.key (lhsOf : Nat → Nat) (n : PNode) : Key :=
  match n.alts with
  | [] => (2, 0, 0, 0)
  | a :: _ => a.key lhsOf

/-- Two alternatives of one node are separated: they are the same alternative, or built with
different productions or numbers of children, or at some position their child nodes have different
keys (in an LR-driven forest they then cover different spans). -/
def Alt.sep (lhsOf : Nat → Nat) (F : Forest) (a1 a2 : Alt) : Bool :=
  decide (a1 = a2) ||
  match a1, a2 with
  | .nonterm p1 _ _ ch1, .nonterm p2 _ _ ch2 =>
    p1 != p2 || ch1.length != ch2.length || (ch1.zip ch2).any (fun pr =>
      (F.getD pr.1 ⟨[]⟩).key lhsOf != (F.getD pr.2 ⟨[]⟩).key lhsOf)
  | _, _ => true

/-- The forest is keyed like an SPPF: every alternative of a node carries the node's
(symbol, start, end), no node lists an alternative twice, and competing alternatives are
separated by the keys of their children. -/
def Forest.keyed (lhsOf : Nat → Nat) (F : Forest) : Bool :=
  F.all (fun n => n.alts.all (fun a => a.key lhsOf == n.key lhsOf) && decide n.alts.Nodup &&
    n.alts.all (fun a1 => n.alts.all (fun a2 => Alt.sep lhsOf F a1 a2)))

/-! ### The fold computes, at every node, `nodeTrees` of the final list -/

theorem mem_enumFrom {α : Type} : ∀ (l : List α) (k0 k : Nat) (a : α),
    (k, a) ∈ enumFrom k0 l ↔ k0 ≤ k ∧ l[k - k0]? = some a := by
  intro l
  induction l with
  | nil => intro k0 k a; simp [enumFrom]
  | cons x xs ih =>
    intro k0 k a
    simp only [enumFrom, List.mem_cons, _root_.Prod.mk.injEq, ih]
    constructor
    · rintro (⟨rfl, rfl⟩ | ⟨h1, h2⟩)
      · simp
      · refine ⟨by omega, ?_⟩
        rw [show k - k0 = (k - (k0 + 1)) + 1 by omega]
        simpa using h2
    · rintro ⟨h1, h2⟩
      by_cases hk : k = k0
      · left; subst hk; simp at h2; exact ⟨rfl, h2.symm⟩
      · right
        refine ⟨by omega, ?_⟩
        rw [show k - k0 = (k - (k0 + 1)) + 1 by omega] at h2
        simpa using h2

theorem mem_prodLists {α : Type} : ∀ (ls : List (List α)) (xs : List α),
    xs ∈ prodLists ls ↔ Forall2 (fun l x => x ∈ l) ls xs := by
  intro ls
  induction ls with
  | nil =>
    intro xs
    simp only [prodLists, List.mem_singleton]
    constructor
    · rintro rfl; exact Forall2.nil
    · intro h; cases h; rfl
  | cons l ls ih =>
    intro xs
    simp only [prodLists, List.mem_flatMap, List.mem_map]
    constructor
    · rintro ⟨x, hx, ys, hys, rfl⟩
      exact Forall2.cons hx ((ih ys).mp hys)
    · intro h
      cases h with
      | cons hx hrest => exact ⟨_, hx, _, (ih _).mpr hrest, rfl⟩

theorem flatMap_congr' {α β : Type} (l : List α) (f g : α → List β) (h : ∀ x ∈ l, f x = g x) :
    l.flatMap f = l.flatMap g := by
  induction l with
  | nil => rfl
  | cons x xs ih =>
    simp only [List.flatMap_cons]
    rw [h x (by simp), ih (fun y hy => h y (by simp [hy]))]

theorem nodeTrees_congr (acc acc' : List (List CTree)) (node : Nat) (n : PNode)
    (h : ∀ a ∈ n.alts, ∀ c ∈ a.children, acc.getD c [] = acc'.getD c []) :
    nodeTrees acc node n = nodeTrees acc' node n := by
  unfold nodeTrees
  apply flatMap_congr'
  intro ka hka
  obtain ⟨k, a⟩ := ka
  have ha : a ∈ n.alts := by
    have := (mem_enumFrom n.alts 0 k a).mp hka
    exact List.mem_of_getElem? this.2
  simp only [altTrees]
  congr 2
  apply List.map_congr_left
  intro c hc
  exact h a ha c hc

theorem treesFold_spec :
    ∀ (F : Forest) (acc : List (List CTree)),
      (F.foldl (fun acc n => acc ++ [nodeTrees acc acc.length n]) acc).length = acc.length + F.length ∧
      (∀ j, j < acc.length →
        (F.foldl (fun acc n => acc ++ [nodeTrees acc acc.length n]) acc).getD j [] = acc.getD j []) ∧
      (∀ i n, F[i]? = some n → (∀ a ∈ n.alts, ∀ c ∈ a.children, c < acc.length + i) →
        (F.foldl (fun acc n => acc ++ [nodeTrees acc acc.length n]) acc).getD (acc.length + i) [] =
          nodeTrees (F.foldl (fun acc n => acc ++ [nodeTrees acc acc.length n]) acc) (acc.length + i) n) := by
  intro F
  induction F with
  | nil => intro acc; simp
  | cons n F ih =>
    intro acc
    simp only [List.foldl_cons]
    obtain ⟨h1, h2, h3⟩ := ih (acc ++ [nodeTrees acc acc.length n])
    simp only [List.length_append, List.length_singleton] at h1 h2 h3
    refine ⟨by simp only [List.length_cons]; omega, ?_, ?_⟩
    · intro j hj
      rw [h2 j (by omega)]
      exact getD_append_lt _ _ _ _ hj
    · intro i n' hn' hch
      cases i with
      | zero =>
        simp only [List.getElem?_cons_zero, Option.some.injEq] at hn'
        subst hn'
        simp only [Nat.add_zero] at hch ⊢
        rw [h2 acc.length (by omega), getD_append_len _ _ _ _ rfl]
        apply nodeTrees_congr
        intro a ha c hc
        have hlt := hch a ha c hc
        rw [h2 c (by omega)]
        exact (getD_append_lt _ _ _ _ hlt).symm
      | succ i =>
        simp only [List.getElem?_cons_succ] at hn'
        have := h3 i n' hn' (by intro a ha c hc; have := hch a ha c hc; omega)
        rw [show acc.length + (i + 1) = acc.length + 1 + i by omega]
        exact this

theorem trees_node (F : Forest) (hwf : F.wf = true) (i : Nat) (n : PNode) (hn : F[i]? = some n) :
    trees F i = nodeTrees (treesL F) i n := by
  have h := (treesFold_spec F []).2.2 i n hn (by
    intro a ha c hc
    have := (wf_spec F hwf i n hn).2 a ha c hc
    simpa using this)
  simpa [trees, treesL] using h

/-- Shape of the members of `trees F i`. -/
theorem mem_trees (F : Forest) (hwf : F.wf = true) (i : Nat) (n : PNode) (hn : F[i]? = some n)
    (t : CTree) : t ∈ trees F i ↔
      ∃ k a cs, t = .mk i k cs ∧ n.alts[k]? = some a ∧
        Forall2 (fun c x => x ∈ trees F c) a.children cs := by
  rw [trees_node F hwf i n hn]
  simp only [nodeTrees, List.mem_flatMap, altTrees, List.mem_map]
  constructor
  · rintro ⟨⟨k, a⟩, hka, cs, hcs, rfl⟩
    have := (mem_enumFrom n.alts 0 k a).mp hka
    refine ⟨k, a, cs, rfl, by simpa using this.2, ?_⟩
    have h2 := (mem_prodLists _ cs).mp hcs
    clear hcs hka this
    generalize a.children = ch at h2
    induction ch generalizing cs with
    | nil => cases h2; exact Forall2.nil
    | cons c ch ih =>
      cases h2 with
      | cons hx hrest => exact Forall2.cons (by simpa [trees] using hx) (ih _ hrest)
  · rintro ⟨k, a, cs, rfl, hk, hall⟩
    refine ⟨(k, a), (mem_enumFrom n.alts 0 k a).mpr ⟨Nat.zero_le _, by simpa using hk⟩, cs, ?_, rfl⟩
    apply (mem_prodLists _ cs).mpr
    generalize a.children = ch at hall
    induction hall with
    | nil => exact Forall2.nil
    | cons hx _ ih => exact Forall2.cons (by simpa [trees] using hx) ih

end Pg

namespace Pg

/-! ### Concrete trees -/

theorem concreteL_eq_map (F : Forest) : ∀ cs : List CTree, CTree.concreteL F cs = cs.map (CTree.concrete F) := by
  intro cs
  induction cs with
  | nil => simp [CTree.concreteL]
  | cons c cs ih => simp [CTree.concreteL, ih]

def Alt.toTree (a : Alt) (kids : List Tree) : Tree :=
  match a with
  | .term t s e => .leaf t s e
  | .nonterm p s e _ => .node p s e kids

theorem concrete_mk (F : Forest) (i k : Nat) (cs : List CTree) (n : PNode) (a : Alt)
    (hn : F[i]? = some n) (hk : n.alts[k]? = some a) :
    CTree.concrete F (.mk i k cs) = a.toTree (cs.map (CTree.concrete F)) := by
  have hg : F.getD i ⟨[]⟩ = n := by simp [List.getD_eq_getElem?_getD, hn]
  simp only [CTree.concrete, hg, hk]
  cases a with
  | term t s e => rfl
  | nonterm p s e ch => simp [Alt.toTree, concreteL_eq_map]

theorem keyed_spec (lhsOf : Nat → Nat) (F : Forest) (hk : F.keyed lhsOf = true) :
    ∀ (i : Nat) (n : PNode), F[i]? = some n →
      (∀ a ∈ n.alts, a.key lhsOf = n.key lhsOf) ∧ n.alts.Nodup ∧
      (∀ a1 ∈ n.alts, ∀ a2 ∈ n.alts, Alt.sep lhsOf F a1 a2 = true) := by
  simp only [Forest.keyed, Bool.and_eq_true, List.all_eq_true, decide_eq_true_eq, beq_iff_eq] at hk
  intro i n hn
  have := hk n (List.mem_of_getElem? hn)
  exact ⟨fun a ha => this.1.1 a ha, this.1.2, this.2⟩

theorem key_concrete (lhsOf : Nat → Nat) (F : Forest) (hwf : F.wf = true) (hk : F.keyed lhsOf = true)
    (i : Nat) (n : PNode) (hn : F[i]? = some n) (t : CTree) (ht : t ∈ trees F i) :
    (t.concrete F).key lhsOf = n.key lhsOf := by
  obtain ⟨k, a, cs, rfl, hka, _⟩ := (mem_trees F hwf i n hn t).mp ht
  rw [concrete_mk F i k cs n a hn hka]
  have := (keyed_spec lhsOf F hk i n hn).1 a (List.mem_of_getElem? hka)
  rw [← this]
  cases a <;> rfl

theorem forall2_length {α β : Type} {R : α → β → Prop} {l1 : List α} {l2 : List β}
    (h : Forall2 R l1 l2) : l1.length = l2.length := by
  induction h with
  | nil => rfl
  | cons _ _ ih => simp [ih]

/-- Equal parse trees below two alternatives: the child nodes agree in their keys, position by position. -/
theorem keys_agree (lhsOf : Nat → Nat) (F : Forest) (hwf : F.wf = true) (hk : F.keyed lhsOf = true) :
    ∀ (ch1 : List Nat) (cs1 : List CTree), Forall2 (fun c x => x ∈ trees F c) ch1 cs1 →
      ∀ (ch2 : List Nat) (cs2 : List CTree), Forall2 (fun c x => x ∈ trees F c) ch2 cs2 →
      cs1.map (CTree.concrete F) = cs2.map (CTree.concrete F) →
      (∀ c ∈ ch1, c < F.length) → (∀ c ∈ ch2, c < F.length) →
      ∀ pr ∈ ch1.zip ch2, (F.getD pr.1 ⟨[]⟩).key lhsOf = (F.getD pr.2 ⟨[]⟩).key lhsOf := by
  intro ch1 cs1 h1
  induction h1 with
  | nil => intro ch2 cs2 _ _ _ _ pr hpr; simp at hpr
  | @cons c1 x ch1 cs1 hx _ ih =>
    intro ch2 cs2 h2 hmap hb1 hb2 pr hpr
    cases h2 with
    | nil => simp at hpr
    | @cons c2 y ch2 cs2 hy hrest =>
      simp only [List.map_cons, List.cons.injEq] at hmap
      simp only [List.zip_cons_cons, List.mem_cons] at hpr
      rcases hpr with rfl | hpr
      · have hc1 := hb1 c1 (by simp)
        have hc2 := hb2 c2 (by simp)
        have hn1 : F[c1]? = some F[c1] := by simp [hc1]
        have hn2 : F[c2]? = some F[c2] := by simp [hc2]
        have k1 := key_concrete lhsOf F hwf hk c1 _ hn1 x hx
        have k2 := key_concrete lhsOf F hwf hk c2 _ hn2 y hy
        rw [hmap.1] at k1
        have g1 : F.getD c1 ⟨[]⟩ = F[c1] := by simp [List.getD_eq_getElem?_getD, hc1]
        have g2 : F.getD c2 ⟨[]⟩ = F[c2] := by simp [List.getD_eq_getElem?_getD, hc2]
        simp only; rw [g1, g2, ← k1, ← k2]
      · exact ih ch2 cs2 hrest hmap.2 (fun c h => hb1 c (by simp [h])) (fun c h => hb2 c (by simp [h])) pr hpr

theorem cs_eq (F : Forest) :
    ∀ (ch : List Nat) (cs1 : List CTree), Forall2 (fun c x => x ∈ trees F c) ch cs1 →
      ∀ (cs2 : List CTree), Forall2 (fun c x => x ∈ trees F c) ch cs2 →
      cs1.map (CTree.concrete F) = cs2.map (CTree.concrete F) →
      (∀ c ∈ ch, ∀ t1 ∈ trees F c, ∀ t2 ∈ trees F c, t1.concrete F = t2.concrete F → t1 = t2) →
      cs1 = cs2 := by
  intro ch cs1 h1
  induction h1 with
  | nil => intro cs2 h2 _ _; cases h2; rfl
  | @cons c x ch cs1 hx _ ih =>
    intro cs2 h2 hmap hinj
    cases h2 with
    | @cons _ y _ cs2 hy hrest =>
      simp only [List.map_cons, List.cons.injEq] at hmap
      rw [hinj c (by simp) x hx y hy hmap.1,
        ih cs2 hrest hmap.2 (fun c' h' => hinj c' (by simp [h']))]

theorem concrete_inj_node (lhsOf : Nat → Nat) (F : Forest) (hwf : F.wf = true) (hk : F.keyed lhsOf = true) :
    ∀ (i : Nat) (n : PNode), F[i]? = some n →
      ∀ t1 ∈ trees F i, ∀ t2 ∈ trees F i, t1.concrete F = t2.concrete F → t1 = t2 := by
  intro i
  induction i using Nat.strongRecOn with
  | _ i ih =>
    intro n hn t1 ht1 t2 ht2 heq
    obtain ⟨k1, a1, cs1, rfl, hk1, hall1⟩ := (mem_trees F hwf i n hn t1).mp ht1
    obtain ⟨k2, a2, cs2, rfl, hk2, hall2⟩ := (mem_trees F hwf i n hn t2).mp ht2
    rw [concrete_mk F i k1 cs1 n a1 hn hk1, concrete_mk F i k2 cs2 n a2 hn hk2] at heq
    have hlow : ∀ a ∈ n.alts, ∀ c ∈ a.children, c < i := (wf_spec F hwf i n hn).2
    have hi : i < F.length := (List.getElem?_eq_some_iff.mp hn).1
    have hnodup := (keyed_spec lhsOf F hk i n hn).2.1
    have hkk : a1 = a2 → k1 = k2 := by
      intro h
      have hlt : k1 < n.alts.length := (List.getElem?_eq_some_iff.mp hk1).1
      exact (List.getElem?_inj hlt hnodup).mp (by rw [hk1, hk2, h])
    cases a1 with
    | term t s e =>
      cases a2 with
      | term t' s' e' =>
        simp only [Alt.toTree, Tree.leaf.injEq] at heq
        obtain ⟨rfl, rfl, rfl⟩ := heq
        have := hkk rfl
        subst this
        simp only [Alt.children] at hall1 hall2
        cases hall1; cases hall2; rfl
      | nonterm p s e ch => simp [Alt.toTree] at heq
    | nonterm p s e ch1 =>
      cases a2 with
      | term t' s' e' => simp [Alt.toTree] at heq
      | nonterm p' s' e' ch2 =>
        simp only [Alt.toTree, Tree.node.injEq] at heq
        obtain ⟨rfl, rfl, rfl, hmap⟩ := heq
        simp only [Alt.children] at hall1 hall2
        have hb1 : ∀ c ∈ ch1, c < F.length := fun c hc => by
          have := hlow _ (List.mem_of_getElem? hk1) c (by simpa [Alt.children] using hc); omega
        have hb2 : ∀ c ∈ ch2, c < F.length := fun c hc => by
          have := hlow _ (List.mem_of_getElem? hk2) c (by simpa [Alt.children] using hc); omega
        have hsep := (keyed_spec lhsOf F hk i n hn).2.2 _ (List.mem_of_getElem? hk1) _ (List.mem_of_getElem? hk2)
        have hagree := keys_agree lhsOf F hwf hk ch1 cs1 hall1 ch2 cs2 hall2 hmap hb1 hb2
        have hlen : ch1.length = ch2.length := by
          have l1 := forall2_length hall1
          have l2 := forall2_length hall2
          have l3 := congrArg List.length hmap
          simp only [List.length_map] at l3
          omega
        have hch : ch1 = ch2 := by
          simp only [Alt.sep, Bool.or_eq_true, decide_eq_true_eq, bne_self_eq_false, Bool.false_or,
            bne_iff_ne, ne_eq, List.any_eq_true] at hsep
          rcases hsep with h | h | ⟨pr, hpr, hne⟩
          · simp only [Alt.nonterm.injEq] at h; exact h.2.2.2
          · exact absurd hlen h
          · exact absurd (hagree pr hpr) hne
        subst hch
        have := hkk rfl
        subst this
        have hcs := cs_eq F ch1 cs1 hall1 cs2 hall2 hmap (by
          intro c hc t1 h1 t2 h2 he
          have hci : c < i := hlow _ (List.mem_of_getElem? hk1) c (by simpa [Alt.children] using hc)
          have hcF : c < F.length := by omega
          exact ih c hci F[c] (by simp [hcF]) t1 h1 t2 h2 he)
        rw [hcs]

theorem trees_oob (F : Forest) (root : Nat) (h : F.length ≤ root) : trees F root = [] := by
  have hlen := (treesFold_spec F []).1
  simp only [List.length_nil, Nat.zero_add] at hlen
  unfold trees treesL
  rw [List.getD_eq_getElem?_getD, List.getElem?_eq_none (by omega)]; rfl

/-- **C03 (distinct parse trees).** In a keyed forest different choices denote different parse trees. -/
theorem concrete_injective (lhsOf : Nat → Nat) (F : Forest) (hwf : F.wf = true) (hk : F.keyed lhsOf = true)
    (root : Nat) : ∀ t1 ∈ trees F root, ∀ t2 ∈ trees F root, t1.concrete F = t2.concrete F → t1 = t2 := by
  by_cases hr : root < F.length
  · exact concrete_inj_node lhsOf F hwf hk root F[root] (by simp [hr])
  · intro t1 h1; rw [trees_oob F root (by omega)] at h1; simp at h1

/-- The parse trees `forest[0], …, forest[len-1]` are pairwise different. -/
theorem concrete_trees_nodup (lhsOf : Nat → Nat) (F : Forest) (hwf : F.wf = true) (hk : F.keyed lhsOf = true)
    (root : Nat) : ((trees F root).map (CTree.concrete F)).Nodup := by
  rw [List.nodup_iff_pairwise_ne, List.pairwise_map]
  have := trees_nodup F root
  rw [List.nodup_iff_pairwise_ne] at this
  apply this.imp_of_mem
  intro a b ha hb hne heq
  exact hne (concrete_injective lhsOf F hwf hk root a ha b hb heq)

end Pg

import PgVerif.Proofs.Forest
/-!
The trees a forest represents are pairwise different (as choices: which
alternative is taken at which ambiguity node), so `forest[i]`, `i < len(forest)`,
never returns the same tree for two indices; and `get_first_tree()` is `forest[0]`.
-/
namespace Pg

theorem nodup_map_inj {α β : Type} (f : α → β) (hf : ∀ a b, f a = f b → a = b) (l : List α)
    (h : l.Nodup) : (l.map f).Nodup := by
  rw [List.nodup_iff_pairwise_ne] at *
  rw [List.pairwise_map]
  exact h.imp (fun hne heq => hne (hf _ _ heq))

theorem nodup_prodLists {α : Type} :
    ∀ ls : List (List α), (∀ l ∈ ls, l.Nodup) → (prodLists ls).Nodup := by
  intro ls
  induction ls with
  | nil => intro _; simp [prodLists]
  | cons l ls ih =>
    intro h
    have hl : l.Nodup := h l (by simp)
    have hrest := ih (fun l' hl' => h l' (by simp [hl']))
    simp only [prodLists]
    rw [List.nodup_iff_pairwise_ne, List.pairwise_flatMap]
    constructor
    · intro x _
      exact nodup_map_inj (x :: ·) (fun a b hab => by simpa using hab) _ hrest
    · rw [List.nodup_iff_pairwise_ne] at hl
      apply hl.imp
      intro a b hab x hx y hy hxy
      simp only [List.mem_map] at hx hy
      obtain ⟨x', _, rfl⟩ := hx
      obtain ⟨y', _, rfl⟩ := hy
      simp only [List.cons.injEq] at hxy
      exact hab hxy.1

theorem nodup_altTrees (acc : List (List CTree)) (node k : Nat) (a : Alt)
    (hacc : ∀ l ∈ acc, l.Nodup) : (altTrees acc node k a).Nodup := by
  unfold altTrees
  apply nodup_map_inj
  · intro x y hxy; simpa using hxy
  · apply nodup_prodLists
    intro l hl
    simp only [List.mem_map] at hl
    obtain ⟨c, _, rfl⟩ := hl
    by_cases hc : c < acc.length
    · have : acc.getD c [] = acc[c] := by simp [List.getD, hc]
      rw [this]; exact hacc _ (List.getElem_mem hc)
    · have : acc.getD c [] = [] := by
        rw [List.getD_eq_getElem?_getD, List.getElem?_eq_none (by omega)]; rfl
      rw [this]; exact List.nodup_nil

theorem enumFrom_fst_lt {α : Type} :
    ∀ (l : List α) (k : Nat), List.Pairwise (fun p q => p.1 < q.1) (enumFrom k l) ∧
      ∀ p ∈ enumFrom k l, k ≤ p.1 := by
  intro l
  induction l with
  | nil => intro k; simp [enumFrom]
  | cons x xs ih =>
    intro k
    obtain ⟨h1, h2⟩ := ih (k + 1)
    simp only [enumFrom, List.pairwise_cons, List.mem_cons]
    refine ⟨⟨?_, h1⟩, ?_⟩
    · intro p hp; have := h2 p hp; omega
    · intro p hp
      rcases hp with rfl | hp
      · exact Nat.le_refl _
      · have := h2 p hp; omega

theorem nodup_nodeTrees (acc : List (List CTree)) (node : Nat) (n : PNode)
    (hacc : ∀ l ∈ acc, l.Nodup) : (nodeTrees acc node n).Nodup := by
  unfold nodeTrees
  rw [List.nodup_iff_pairwise_ne, List.pairwise_flatMap]
  constructor
  · intro ka _
    exact nodup_altTrees acc node ka.1 ka.2 hacc
  · apply (enumFrom_fst_lt n.alts 0).1.imp
    intro p q hpq x hx y hy hxy
    simp only [altTrees, List.mem_map] at hx hy
    obtain ⟨_, _, rfl⟩ := hx
    obtain ⟨_, _, rfl⟩ := hy
    simp only [CTree.mk.injEq] at hxy
    omega

theorem nodup_treesL_aux (F : Forest) :
    ∀ acc : List (List CTree), (∀ l ∈ acc, l.Nodup) →
      ∀ l ∈ F.foldl (fun acc n => acc ++ [nodeTrees acc acc.length n]) acc, l.Nodup := by
  induction F with
  | nil => intro acc h; simpa using h
  | cons n F ih =>
    intro acc h
    simp only [List.foldl_cons]
    apply ih
    intro l hl
    rcases List.mem_append.mp hl with hl | hl
    · exact h l hl
    · simp only [List.mem_singleton] at hl
      subst hl
      exact nodup_nodeTrees acc acc.length n h

/-- **C03 (distinct).** The trees of a forest are pairwise different. -/
theorem trees_nodup (F : Forest) (root : Nat) : (trees F root).Nodup := by
  unfold trees treesL
  have h := nodup_treesL_aux F [] (by simp)
  by_cases hr : root < (F.foldl (fun acc n => acc ++ [nodeTrees acc acc.length n]) []).length
  · have : (F.foldl (fun acc n => acc ++ [nodeTrees acc acc.length n]) []).getD root [] =
        (F.foldl (fun acc n => acc ++ [nodeTrees acc acc.length n]) [])[root] := by simp [List.getD, hr]
    rw [this]; exact h _ (List.getElem_mem hr)
  · have : (F.foldl (fun acc n => acc ++ [nodeTrees acc acc.length n]) []).getD root [] = [] := by
      rw [List.getD_eq_getElem?_getD, List.getElem?_eq_none (by omega)]; rfl
    rw [this]; exact List.nodup_nil

/-- Two different indices in range decode to two different trees. -/
theorem treeAt_inj (F : Forest) (hwf : F.wf = true) (root : Nat) (hr : root < F.length)
    (i j : Nat) (hi : i < solutions F root) (hj : j < solutions F root)
    (h : treeAt F root i = treeAt F root j) : i = j := by
  rw [treeAt_eq_get F hwf root hr i hi, treeAt_eq_get F hwf root hr j hj] at h
  have hlt : i < (trees F root).length := by rw [← solutions_eq]; exact hi
  exact (List.getElem?_inj hlt (trees_nodup F root)).mp h

end Pg

namespace Pg

/-! ### `get_first_tree()` is `forest[0]` -/

theorem splitCounter_zero : ∀ ws : List Nat, splitCounter ws 0 = ws.map (fun _ => 0) := by
  intro ws
  induction ws with
  | nil => rfl
  | cons w ws ih => simp [splitCounter, ih]

theorem getD_append_gt {α : Type} (l1 : List α) (x d : α) (i : Nat) (h : l1.length < i) :
    (l1 ++ [x]).getD i d = d := by
  rw [List.getD_eq_getElem?_getD, List.getElem?_eq_none (by simp; omega)]; rfl

theorem getD_snoc {α : Type} (l1 : List α) (x d : α) (i : Nat) :
    (l1 ++ [x]).getD i d = if i < l1.length then l1.getD i d else if i = l1.length then x else d := by
  by_cases h1 : i < l1.length
  · rw [if_pos h1]; exact getD_append_lt l1 [x] d i h1
  · rw [if_neg h1]
    by_cases h2 : i = l1.length
    · rw [if_pos h2]; exact getD_append_len l1 x d i h2
    · rw [if_neg h2]; exact getD_append_gt l1 x d i (by omega)

def firstStep (acc : List (Option CTree)) (n : PNode) : List (Option CTree) :=
  acc ++ [match n.alts with
    | [] => none
    | a :: _ =>
      (a.children.foldr (fun c r => match acc.getD c none, r with
        | some t, some ts => some (t :: ts)
        | _, _ => none) (some [])).map (CTree.mk acc.length 0)]

theorem firstL_eq (F : Forest) : firstL F = F.foldl firstStep [] := rfl

theorem decodeChildren_zero (fa : List (Option CTree)) (dec : List (Nat → Option CTree))
    (h : ∀ c, fa.getD c none = dec.getD c (fun _ => none) 0) :
    ∀ cs : List Nat, decodeChildren dec cs (cs.map (fun _ => 0)) =
      cs.foldr (fun c r => match fa.getD c none, r with
        | some t, some ts => some (t :: ts)
        | _, _ => none) (some []) := by
  intro cs
  induction cs with
  | nil => rfl
  | cons c cs ih =>
    simp only [List.map_cons, decodeChildren, List.foldr_cons, ih, h c]
    generalize dec.getD c (fun _ => none) 0 = x
    generalize cs.foldr (fun c r => match fa.getD c none, r with
        | some t, some ts => some (t :: ts)
        | _, _ => none) (some []) = y
    cases x <;> cases y <;> rfl

theorem decodeNode_zero (fa : List (Option CTree)) (sols : List Nat) (dec : List (Nat → Option CTree))
    (h : ∀ c, fa.getD c none = dec.getD c (fun _ => none) 0) (node : Nat) (n : PNode) :
    decodeNode sols dec node n 0 =
      match n.alts with
      | [] => none
      | a :: _ =>
        (a.children.foldr (fun c r => match fa.getD c none, r with
          | some t, some ts => some (t :: ts)
          | _, _ => none) (some [])).map (CTree.mk node 0) := by
  unfold decodeNode pickAlt
  cases hn : n.alts with
  | nil => simp
  | cons a rest =>
    simp only [Nat.lt_irrefl, false_and, if_false, List.map_cons, List.isEmpty_cons, Bool.false_eq_true,
      List.getElem?_cons_zero]
    rw [splitCounter_zero, List.map_map]
    have := decodeChildren_zero fa dec h a.children
    simp only [Function.comp_def] at this ⊢
    rw [this]
    cases a.children.foldr (fun c r => match fa.getD c none, r with
        | some t, some ts => some (t :: ts)
        | _, _ => none) (some []) <;> rfl

theorem first_dec_aux (F : Forest) :
    ∀ (fa : List (Option CTree)) (sols : List Nat) (dec : List (Nat → Option CTree)),
      fa.length = dec.length → (∀ c, fa.getD c none = dec.getD c (fun _ => none) 0) →
      ∀ c, (F.foldl firstStep fa).getD c none =
        (F.foldl (fun (acc : List Nat × List (Nat → Option CTree)) n =>
          (acc.1 ++ [nodeSols acc.1 n], acc.2 ++ [decodeNode acc.1 acc.2 acc.2.length n])) (sols, dec)).2.getD c
          (fun _ => none) 0 := by
  induction F with
  | nil => intro fa sols dec _ h c; simpa using h c
  | cons n F ih =>
    intro fa sols dec hlen h c
    simp only [List.foldl_cons]
    apply ih
    · simp [firstStep, hlen]
    · intro c
      simp only [firstStep]
      rw [getD_snoc, getD_snoc, hlen]
      by_cases h1 : c < dec.length
      · simp only [h1, if_true]; exact h c
      · simp only [h1, if_false]
        by_cases h2 : c = dec.length
        · simp only [h2, if_true]
          rw [decodeNode_zero fa sols dec h dec.length n]
          cases n.alts <;> rfl
        · simp only [h2, if_false]

/-- **C03 (first tree).** `get_first_tree()` equals `forest[0]`. -/
theorem firstTree_eq_treeAt_zero (F : Forest) (root : Nat) : firstTree F root = treeAt F root 0 := by
  unfold firstTree treeAt decodeL
  rw [firstL_eq]
  exact first_dec_aux F [] [] [] rfl (fun c => by simp) root

end Pg

import PgVerif.Model.GLR
import PgVerif.Proofs.LRSound
/-!
Soundness of the GLR driver model: whatever `parseGLR` accepts is a sentence
(a sentence prefix when `consume_input` is off). The invariant says nothing
about packing or about which reductions the driver chooses to perform — only
that every node of the graph-structured stack is *reachable* (some stack of
derivation trees over the tokens read so far ends in its state, `StackD`) and
every link is *replayable* (any such stack ending in the link's root extends by
one entry to one ending in the link's head). New-head creation, link creation
and merging, clones for further tokens, limited re-reductions and revisits all
preserve it, whatever their control flow.

Soundness of the packed forest (`parseGLR_forest_sound`): the invariant also says
that every packed possibility of every link is locally right (`PossOK`) — a token
edge shifted from the link's root, or a production whose child links form a path
(`KChain`) from the link's root up to a node that stands where the link's head
stands and reduces by that production, the goto of the root being the head's
state. These facts only mention states and positions up to layout and link ends,
so they survive every later change of the graph. Every tree obtained by choosing
one possibility per link (`TreeOf`) then replays over every stack that reaches
the link's root (`tree_replay`, by recursion on the tree), hence below an
accepted head it is a derivation tree of the start symbol over the input.
-/
namespace Pg
namespace GLR

variable {g : Grammar} {T : Table} {inp : Input}

/-- The token ahead of a node is a token edge at the node's (skipped) position. -/
def TokOK (inp : Input) (consume : Bool) (pos : Nat) (t : Tok) : Prop :=
  t.s = inp.skip pos ∧ (t.term ≠ STOP → inp.mlen t.term t.s = some t.len ∧ 0 < t.len) ∧
    (t.term = STOP → consume = true → t.s = inp.len) ∧ inp.skip pos = pos

structure NodeOK (g : Grammar) (T : Table) (inp : Input) (consume : Bool) (n : GNode) : Prop where
  reach : ∃ st r, StackD g inp T st r ∧ topOf st = n.st ∧ inp.skip r = inp.skip n.pos
  tok : ∀ t, n.tok = some t → TokOK inp consume n.pos t

/-- Every stack ending in the root's state at the root's position extends to one ending in the
head's state at the head's position. -/
def Replay (g : Grammar) (T : Table) (inp : Input) (rootSt rootPos headSt headPos : Nat) : Prop :=
  ∀ st r, StackD g inp T st r → topOf st = rootSt → inp.skip r = inp.skip rootPos →
    ∃ t r', StackD g inp T ((headSt, t) :: st) r' ∧ inp.skip r' = inp.skip headPos

/-- Two nodes with the same state at the same position up to layout. -/
def NEq (inp : Input) (s : GState) (a b : Nat) : Prop :=
  (s.node a).st = (s.node b).st ∧ inp.skip (s.node a).pos = inp.skip (s.node b).pos

theorem NEq.refl (s : GState) (a : Nat) : NEq inp s a a := ⟨rfl, rfl⟩
theorem NEq.symm {s : GState} {a b : Nat} (h : NEq inp s a b) : NEq inp s b a := ⟨h.1.symm, h.2.symm⟩
theorem NEq.trans {s : GState} {a b c : Nat} (h1 : NEq inp s a b) (h2 : NEq inp s b c) : NEq inp s a c :=
  ⟨h1.1.trans h2.1, h1.2.trans h2.2⟩

/-- `ks` is a path of links from node `a` (below) up to node `b`, joints up to `NEq`. -/
inductive KChain (inp : Input) (s : GState) : Nat → List Nat → Nat → Prop where
  | nil (a b : Nat) (ha : a < s.nodes.size) (hb : b < s.nodes.size) (h : NEq inp s a b) : KChain inp s a [] b
  | cons (a k b : Nat) (ks : List Nat) (ha : a < s.nodes.size) (hk : k < s.links.size)
      (hhd : (s.link k).head < s.nodes.size) (hrt : (s.link k).root < s.nodes.size)
      (hr : NEq inp s (s.link k).root a) (rest : KChain inp s (s.link k).head ks b) :
      KChain inp s a (k :: ks) b

theorem KChain.congr_start {s : GState} {a a' b : Nat} {ks : List Nat} (h : KChain inp s a ks b)
    (ha' : a' < s.nodes.size) (he : NEq inp s a a') : KChain inp s a' ks b := by
  cases h with
  | nil _ _ ha hb h => exact .nil _ _ ha' hb (he.symm.trans h)
  | cons _ k _ ks ha hk hhd hrt hr rest => exact .cons _ k _ ks ha' hk hhd hrt (hr.trans he) rest

theorem KChain.congr_end {s : GState} {a b b' : Nat} {ks : List Nat} (h : KChain inp s a ks b)
    (hb' : b' < s.nodes.size) (he : NEq inp s b b') : KChain inp s a ks b' := by
  induction h with
  | nil a b ha hb h => exact .nil _ _ ha hb' (h.trans he)
  | cons a k b ks ha hk hhd hrt hr _ ih => exact .cons _ k _ ks ha hk hhd hrt hr (ih he)

/-- What a packed possibility of a link from `hd` down to `rt` has to be: a shifted token edge, or a
production with a path of child links from `rt` up to a node `e` that stands where `hd` stands and
reduces by it, the goto of `rt` being `hd`'s state. -/
def PossOK (g : Grammar) (T : Table) (inp : Input) (s : GState) (hd rt : Nat) : Poss → Prop
  | .term a st en => Action.shift (s.node hd).st ∈ T.actions (s.node rt).st a ∧ st = inp.skip (s.node rt).pos ∧
      (∃ l, inp.mlen a st = some l ∧ 0 < l ∧ en = st + l) ∧ inp.skip (s.node hd).pos = inp.skip en
  | .nonterm pid kids => ∃ pr e, g.prod? pid = some pr ∧ kids.length = pr.rhs.length ∧ KChain inp s rt kids e ∧
      (∃ x, Action.reduce pid ∈ T.actions (s.node e).st x) ∧
      T.goto (s.node rt).st pr.lhs = some (s.node hd).st ∧ inp.skip (s.node e).pos = inp.skip (s.node hd).pos

/-- States that agree on what `KChain` and `PossOK` look at. -/
structure Same (inp : Input) (s s' : GState) : Prop where
  size : s.nodes.size ≤ s'.nodes.size
  nd : ∀ i, i < s.nodes.size → (s'.node i).st = (s.node i).st ∧ inp.skip (s'.node i).pos = inp.skip (s.node i).pos
  lsize : s.links.size ≤ s'.links.size
  lk : ∀ i, i < s.links.size → (s'.link i).head = (s.link i).head ∧ (s'.link i).root = (s.link i).root

theorem NEq.same {s s' : GState} {a b : Nat} (h : NEq inp s a b) (hs : Same inp s s') (ha : a < s.nodes.size)
    (hb : b < s.nodes.size) : NEq inp s' a b := by
  obtain ⟨a1, a2⟩ := hs.nd a ha
  obtain ⟨b1, b2⟩ := hs.nd b hb
  exact ⟨by rw [a1, b1]; exact h.1, by rw [a2, b2]; exact h.2⟩

theorem KChain.same {s s' : GState} {a b : Nat} {ks : List Nat} (h : KChain inp s a ks b) (hs : Same inp s s') :
    KChain inp s' a ks b := by
  induction h with
  | nil a b ha hb h => exact .nil _ _ (Nat.lt_of_lt_of_le ha hs.size) (Nat.lt_of_lt_of_le hb hs.size) (h.same hs ha hb)
  | cons a k b ks ha hk hhd hrt hr _ ih =>
    obtain ⟨l1, l2⟩ := hs.lk k hk
    refine .cons _ k _ ks (Nat.lt_of_lt_of_le ha hs.size) (Nat.lt_of_lt_of_le hk hs.lsize)
      (by rw [l1]; exact Nat.lt_of_lt_of_le hhd hs.size) (by rw [l2]; exact Nat.lt_of_lt_of_le hrt hs.size) ?_ ?_
    · rw [l2]; exact hr.same hs hrt ha
    · rw [l1]; exact ih

theorem KChain.end_lt {s : GState} {a b : Nat} {ks : List Nat} (h : KChain inp s a ks b) : b < s.nodes.size := by
  induction h with
  | nil a b ha hb h => exact hb
  | cons a k b ks ha hk hhd hrt hr _ ih => exact ih

theorem PossOK.same {s s' : GState} {hd rt : Nat} {p : Poss} (h : PossOK g T inp s hd rt p) (hs : Same inp s s')
    (hh : hd < s.nodes.size) (hr : rt < s.nodes.size) : PossOK g T inp s' hd rt p := by
  obtain ⟨a1, a2⟩ := hs.nd hd hh
  obtain ⟨b1, b2⟩ := hs.nd rt hr
  cases p with
  | term a st en =>
    obtain ⟨h1, h2, h3, h4⟩ := h
    exact ⟨by rw [a1, b1]; exact h1, by rw [b2]; exact h2, h3, by rw [a2]; exact h4⟩
  | nonterm pid kids =>
    obtain ⟨pr, e, h1, h2, h3, h4, h5, h6⟩ := h
    obtain ⟨c1, c2⟩ := hs.nd e h3.end_lt
    exact ⟨pr, e, h1, h2, h3.same hs, by rw [c1]; exact h4, by rw [b1, a1]; exact h5, by rw [c2, a2]; exact h6⟩

/-- `PossOK` only depends on the two nodes up to `NEq`. -/
theorem PossOK.congr {s : GState} {hd rt hd' rt' : Nat} {p : Poss} (h : PossOK g T inp s hd rt p)
    (eh : NEq inp s hd hd') (er : NEq inp s rt rt') (hr' : rt' < s.nodes.size) : PossOK g T inp s hd' rt' p := by
  cases p with
  | term a st en =>
    obtain ⟨h1, h2, h3, h4⟩ := h
    exact ⟨by rw [← eh.1, ← er.1]; exact h1, by rw [← er.2]; exact h2, h3, by rw [← eh.2]; exact h4⟩
  | nonterm pid kids =>
    obtain ⟨pr, e, h1, h2, h3, h4, h5, h6⟩ := h
    exact ⟨pr, e, h1, h2, h3.congr_start hr' er, h4, by rw [← er.1, ← eh.1]; exact h5, by rw [← eh.2]; exact h6⟩

theorem Same.of_eq {s s' : GState} (hn : s'.nodes = s.nodes) (hl : s'.links = s.links) : Same inp s s' := by
  have hnode : ∀ i, s'.node i = s.node i := by intro i; simp [GState.node, hn]
  have hlink : ∀ i, s'.link i = s.link i := by intro i; simp [GState.link, hl]
  exact ⟨by rw [hn]; exact Nat.le_refl _, fun i _ => by rw [hnode]; exact ⟨rfl, rfl⟩,
    by rw [hl]; exact Nat.le_refl _, fun i _ => by rw [hlink]; exact ⟨rfl, rfl⟩⟩

structure GInv (g : Grammar) (T : Table) (inp : Input) (consume : Bool) (s : GState) : Prop where
  nodes : ∀ i, i < s.nodes.size → NodeOK g T inp consume (s.node i)
  links : ∀ i, i < s.links.size → (s.link i).head < s.nodes.size ∧ (s.link i).root < s.nodes.size ∧
    Replay g T inp (s.node (s.link i).root).st (s.node (s.link i).root).pos
      (s.node (s.link i).head).st (s.node (s.link i).head).pos
  plinks : ∀ n, n < s.nodes.size → ∀ l ∈ (s.node n).plinks, l < s.links.size ∧
    (s.node (s.link l).head).st = (s.node n).st ∧
    inp.skip (s.node (s.link l).head).pos = inp.skip (s.node n).pos
  active : ∀ x ∈ s.active, x.2 < s.nodes.size ∧ (s.node x.2).st = x.1
  forActor : ∀ h ∈ s.forActor, h < s.nodes.size ∧ (s.node h).tok.isSome = true
  forShifter : ∀ x ∈ s.forShifter, x.1 < s.nodes.size ∧
    ∃ t, (s.node x.1).tok = some t ∧ Action.shift x.2 ∈ T.actions (s.node x.1).st t.term
  accepted : ∀ h ∈ s.accepted, h < s.nodes.size ∧
    ∃ t, (s.node h).tok = some t ∧ Action.accept ∈ T.actions (s.node h).st t.term
  poss : ∀ i, i < s.links.size → ∀ p ∈ (s.link i).poss, PossOK g T inp s (s.link i).head (s.link i).root p

theorem node_lt {s : GState} {i : Nat} (h : i < s.nodes.size) : s.node i = s.nodes[i] := by
  simp [GState.node, Array.getD, h]

theorem link_lt {s : GState} {i : Nat} (h : i < s.links.size) : s.link i = s.links[i] := by
  simp [GState.link, Array.getD, h]

/-- Changing only bookkeeping fields keeps the graph part of the invariant. -/
theorem GInv.graph_eq {consume : Bool} {s s' : GState} (h : GInv g T inp consume s)
    (hn : s'.nodes = s.nodes) (hl : s'.links = s.links)
    (ha : ∀ x ∈ s'.active, x.2 < s.nodes.size ∧ (s.node x.2).st = x.1)
    (hf : ∀ h ∈ s'.forActor, h < s.nodes.size ∧ (s.node h).tok.isSome = true)
    (hs : ∀ x ∈ s'.forShifter, x.1 < s.nodes.size ∧
      ∃ t, (s.node x.1).tok = some t ∧ Action.shift x.2 ∈ T.actions (s.node x.1).st t.term)
    (hc : ∀ h ∈ s'.accepted, h < s.nodes.size ∧
      ∃ t, (s.node h).tok = some t ∧ Action.accept ∈ T.actions (s.node h).st t.term) :
    GInv g T inp consume s' := by
  have hnode : ∀ i, s'.node i = s.node i := by intro i; simp [GState.node, hn]
  have hlink : ∀ i, s'.link i = s.link i := by intro i; simp [GState.link, hl]
  have hP : ∀ i, i < s'.links.size → ∀ p ∈ (s'.link i).poss, PossOK g T inp s' (s'.link i).head (s'.link i).root p := by
    intro i hi p hp
    rw [hl] at hi
    rw [hlink] at hp ⊢
    obtain ⟨l1, l2, _⟩ := h.links i hi
    exact (h.poss i hi p hp).same (Same.of_eq hn hl) l1 l2
  refine ⟨?_, ?_, ?_, ?_, ?_, ?_, ?_, hP⟩
  · intro i hi; rw [hnode]; exact h.nodes i (by rw [← hn]; exact hi)
  · intro i hi
    simp only [hnode, hlink, hn]
    exact h.links i (by rw [← hl]; exact hi)
  · intro n hn' l hl'
    simp only [hnode, hlink, hl] at hl' ⊢
    exact h.plinks n (by rw [← hn]; exact hn') l hl'
  · intro x hx; simp only [hnode, hn]; exact ha x hx
  · intro x hx; simp only [hnode, hn]; exact hf x hx
  · intro x hx; simp only [hnode, hn]; exact hs x hx
  · intro x hx; simp only [hnode, hn]; exact hc x hx

end GLR
end Pg

namespace Pg
namespace GLR

variable {g : Grammar} {T : Table} {inp : Input}

/-! ### Array helpers -/

theorem getD_push_lt {α : Type} (a : Array α) (x d : α) (i : Nat) (h : i < a.size) :
    (a.push x).getD i d = a.getD i d := by
  simp [Array.getD, h, Nat.lt_succ_of_lt h, Array.getElem_push_lt h]

theorem getD_push_eq {α : Type} (a : Array α) (x d : α) : (a.push x).getD a.size d = x := by
  simp [Array.getD]

theorem getD_set_ne {α : Type} (a : Array α) (x d : α) (i j : Nat) (h : i ≠ j) :
    (a.setIfInBounds j x).getD i d = a.getD i d := by
  simp [Array.getD_eq_getD_getElem?, Array.getElem?_setIfInBounds_ne (Ne.symm h)]

theorem getD_set_eq {α : Type} (a : Array α) (x d : α) (j : Nat) (h : j < a.size) :
    (a.setIfInBounds j x).getD j d = x := by
  simp [Array.getD, h]

/-- Nodes only grow and keep state, position, token and frontier; links only grow. -/
structure Ext (s s' : GState) : Prop where
  size : s.nodes.size ≤ s'.nodes.size
  same : ∀ i, i < s.nodes.size → (s'.node i).st = (s.node i).st ∧ (s'.node i).pos = (s.node i).pos ∧
    (s'.node i).tok = (s.node i).tok ∧ (s'.node i).fr = (s.node i).fr
  lsize : s.links.size ≤ s'.links.size
  lsame : ∀ i, i < s.links.size → (s'.link i).head = (s.link i).head ∧ (s'.link i).root = (s.link i).root
  crash : s'.crash = s.crash

theorem Ext.refl (s : GState) : Ext s s :=
  ⟨Nat.le_refl _, fun _ _ => ⟨rfl, rfl, rfl, rfl⟩, Nat.le_refl _, fun _ _ => ⟨rfl, rfl⟩, rfl⟩

theorem Ext.trans {a b c : GState} (h1 : Ext a b) (h2 : Ext b c) : Ext a c := by
  refine ⟨Nat.le_trans h1.size h2.size, ?_, Nat.le_trans h1.lsize h2.lsize, ?_, h2.crash.trans h1.crash⟩
  · intro i hi
    obtain ⟨a1, a2, a3, a4⟩ := h1.same i hi
    obtain ⟨b1, b2, b3, b4⟩ := h2.same i (Nat.lt_of_lt_of_le hi h1.size)
    exact ⟨by rw [b1, a1], by rw [b2, a2], by rw [b3, a3], by rw [b4, a4]⟩
  · intro i hi
    obtain ⟨a1, a2⟩ := h1.lsame i hi
    obtain ⟨b1, b2⟩ := h2.lsame i (Nat.lt_of_lt_of_le hi h1.lsize)
    exact ⟨by rw [b1, a1], by rw [b2, a2]⟩

theorem Same.of_ext {s s' : GState} (h : Ext s s') : Same inp s s' :=
  ⟨h.size, fun i hi => ⟨(h.same i hi).1, by rw [(h.same i hi).2.1]⟩, h.lsize, h.lsame⟩

/-- `createLink` keeps the invariant when the new link is replayable. -/
theorem createLink_ok {consume : Bool} (s : GState) (hinv : GInv g T inp consume s)
    (head root st en : Nat) (poss : List Poss) (hh : head < s.nodes.size) (hr : root < s.nodes.size)
    (hrep : Replay g T inp (s.node root).st (s.node root).pos (s.node head).st (s.node head).pos)
    (hposs : ∀ p ∈ poss, PossOK g T inp s head root p) :
    GInv g T inp consume (createLink s head root st en poss).1 ∧ Ext s (createLink s head root st en poss).1 ∧
      (createLink s head root st en poss).2.2 < (createLink s head root st en poss).1.links.size ∧
      ((createLink s head root st en poss).1.node ((createLink s head root st en poss).1.link
          (createLink s head root st en poss).2.2).head).st = (s.node head).st ∧
      inp.skip ((createLink s head root st en poss).1.node ((createLink s head root st en poss).1.link
          (createLink s head root st en poss).2.2).head).pos = inp.skip (s.node head).pos ∧
      (createLink s head root st en poss).1.active = s.active ∧
      (createLink s head root st en poss).1.forActor = s.forActor ∧
      (createLink s head root st en poss).1.forShifter = s.forShifter ∧
      (createLink s head root st en poss).1.accepted = s.accepted ∧
      (createLink s head root st en poss).1.traversed = s.traversed ∧
      ((createLink s head root st en poss).2.1 = true →
        ((createLink s head root st en poss).1.link (createLink s head root st en poss).2.2).head = head) ∧
      (createLink s head root st en poss).1.crash = s.crash ∧
      (createLink s head root st en poss).1.orderSens = s.orderSens := by
  unfold createLink
  simp only
  split
  · -- merge into an existing link
    rename_i i hfind
    have hmem : i ∈ s.parents head := List.mem_of_find?_eq_some hfind
    obtain ⟨hil, hst, hpos⟩ := hinv.plinks head hh i hmem
    simp only
    have hnode : ∀ k, ({ s with links := s.links.setIfInBounds i { s.link i with poss := (s.link i).poss ++ poss } } :
        GState).node k = s.node k := fun k => rfl
    have hlinkhr : ∀ k, (({ s with links := s.links.setIfInBounds i { s.link i with poss := (s.link i).poss ++ poss } } :
        GState).link k).head = (s.link k).head ∧
        (({ s with links := s.links.setIfInBounds i { s.link i with poss := (s.link i).poss ++ poss } } :
        GState).link k).root = (s.link k).root := by
      intro k
      simp only [GState.link]
      by_cases hk : k = i
      · subst hk; rw [getD_set_eq _ _ _ _ hil]; exact ⟨rfl, rfl⟩
      · rw [getD_set_ne _ _ _ _ _ hk]; exact ⟨rfl, rfl⟩
    have hkey := List.find?_some hfind
    simp only [Bool.and_eq_true, beq_iff_eq] at hkey
    have hsame : Same inp s { s with links := s.links.setIfInBounds i { s.link i with poss := (s.link i).poss ++ poss } } :=
      ⟨Nat.le_refl _, fun _ _ => ⟨rfl, rfl⟩, by simp, fun k _ => hlinkhr k⟩
    have hP : ∀ k, k < ({ s with links := s.links.setIfInBounds i { s.link i with poss := (s.link i).poss ++ poss } } :
        GState).links.size → ∀ p ∈ (({ s with links := s.links.setIfInBounds i { s.link i with poss := (s.link i).poss ++ poss } } :
        GState).link k).poss, PossOK g T inp
          { s with links := s.links.setIfInBounds i { s.link i with poss := (s.link i).poss ++ poss } }
          (({ s with links := s.links.setIfInBounds i { s.link i with poss := (s.link i).poss ++ poss } } :
            GState).link k).head
          (({ s with links := s.links.setIfInBounds i { s.link i with poss := (s.link i).poss ++ poss } } :
            GState).link k).root p := by
      intro k hk p hp
      simp only [Array.size_setIfInBounds] at hk
      rw [(hlinkhr k).1, (hlinkhr k).2]
      obtain ⟨l1, l2, _⟩ := hinv.links k hk
      by_cases hki : k = i
      · subst hki
        have hps : (({ s with links := s.links.setIfInBounds k { s.link k with poss := (s.link k).poss ++ poss } } :
            GState).link k).poss = (s.link k).poss ++ poss := by
          simp only [GState.link]; rw [getD_set_eq _ _ _ _ hil]
        rw [hps] at hp
        rcases List.mem_append.mp hp with hp | hp
        · exact (hinv.poss k hk p hp).same hsame l1 l2
        · have h1 : NEq inp s head (s.link k).head := ⟨hst.symm, hpos.symm⟩
          have h2 : NEq inp s root (s.link k).root := ⟨hkey.1.2.symm, by rw [hkey.2]⟩
          exact ((hposs p hp).congr h1 h2 l2).same hsame l1 l2
      · have hps : ({ s with links := s.links.setIfInBounds i { s.link i with poss := (s.link i).poss ++ poss } } :
            GState).link k = s.link k := by
          simp only [GState.link]; rw [getD_set_ne _ _ _ _ _ hki]
        rw [hps] at hp
        exact (hinv.poss k hk p hp).same hsame l1 l2
    refine ⟨⟨?_, ?_, ?_, hinv.active, hinv.forActor, hinv.forShifter, hinv.accepted, hP⟩,
      ⟨Nat.le_refl _, fun _ _ => ⟨rfl, rfl, rfl, rfl⟩, by simp, fun k _ => hlinkhr k, rfl⟩,
      by simpa using hil, ?_, ?_, by first | rfl | trivial, by first | rfl | trivial,
      by first | rfl | trivial, by first | rfl | trivial, by first | rfl | trivial,
      by intro h; simp at h, by first | rfl | trivial, by first | rfl | trivial⟩
    · exact hinv.nodes
    · intro k hk
      simp only [Array.size_setIfInBounds] at hk
      rw [(hlinkhr k).1, (hlinkhr k).2]
      exact hinv.links k hk
    · intro n hn l hl
      have := hinv.plinks n hn l hl
      simp only [Array.size_setIfInBounds]
      rw [(hlinkhr l).1]
      exact this
    · rw [(hlinkhr i).1]; exact hst
    · rw [(hlinkhr i).1]; exact hpos
  · -- a new link
    simp only
    let H := s.node head
    let s' : GState := { s with links := s.links.push { head := head, root := root, s := st, e := en, poss := poss },
                                nodes := s.nodes.setIfInBounds head { H with plinks := H.plinks ++ [s.links.size] } }
    have hnodeH : s'.node head = { H with plinks := H.plinks ++ [s.links.size] } := by
      simp only [s', GState.node]; exact getD_set_eq _ _ _ _ hh
    have hnodeO : ∀ k, k ≠ head → s'.node k = s.node k := by
      intro k hk; simp only [s', GState.node]; exact getD_set_ne _ _ _ _ _ hk
    have hnf : ∀ k, (s'.node k).st = (s.node k).st ∧ (s'.node k).pos = (s.node k).pos ∧
        (s'.node k).tok = (s.node k).tok ∧ (s'.node k).fr = (s.node k).fr := by
      intro k
      by_cases hk : k = head
      · subst hk; rw [hnodeH]; exact ⟨rfl, rfl, rfl, rfl⟩
      · rw [hnodeO k hk]; exact ⟨rfl, rfl, rfl, rfl⟩
    have hlinkO : ∀ k, k < s.links.size → s'.link k = s.link k := by
      intro k hk; simp only [s', GState.link]; exact getD_push_lt _ _ _ _ hk
    have hlinkN : s'.link s.links.size = { head := head, root := root, s := st, e := en, poss := poss } := by
      simp only [s', GState.link]; exact getD_push_eq _ _ _
    have hsz : s'.nodes.size = s.nodes.size := by simp [s']
    have hlsz : s'.links.size = s.links.size + 1 := by simp [s']
    have hsame : Same inp s s' := ⟨by rw [hsz]; exact Nat.le_refl _, fun k _ => ⟨(hnf k).1, by rw [(hnf k).2.1]⟩,
      by rw [hlsz]; omega, fun k hk => by rw [hlinkO k hk]; exact ⟨rfl, rfl⟩⟩
    have hP : ∀ k, k < s'.links.size → ∀ p ∈ (s'.link k).poss, PossOK g T inp s' (s'.link k).head (s'.link k).root p := by
      intro k hk p hp
      rw [hlsz] at hk
      by_cases hkn : k = s.links.size
      · subst hkn
        rw [hlinkN] at hp ⊢
        exact (hposs p hp).same hsame hh hr
      · have hk' : k < s.links.size := by omega
        rw [hlinkO k hk'] at hp ⊢
        obtain ⟨l1, l2, _⟩ := hinv.links k hk'
        exact (hinv.poss k hk' p hp).same hsame l1 l2
    refine ⟨⟨?_, ?_, ?_, ?_, ?_, ?_, ?_, hP⟩, ⟨by rw [hsz]; exact Nat.le_refl _, fun k _ => hnf k, by rw [hlsz]; omega,
        fun k hk => by rw [hlinkO k hk]; exact ⟨rfl, rfl⟩, rfl⟩,
      by rw [hlsz]; omega, ?_, ?_, by first | rfl | trivial, by first | rfl | trivial,
      by first | rfl | trivial, by first | rfl | trivial, by first | rfl | trivial,
      by intro _; rw [hlinkN], by first | rfl | trivial, by first | rfl | trivial⟩
    · intro k hk
      rw [hsz] at hk
      have := hinv.nodes k hk
      obtain ⟨a1, a2, a3, a4⟩ := hnf k
      exact ⟨by rw [a1, a2]; exact this.reach, by intro t ht; rw [a3] at ht; rw [a2]; exact this.tok t ht⟩
    · intro k hk
      rw [hlsz] at hk
      by_cases hkn : k = s.links.size
      · subst hkn
        rw [hlinkN]
        refine ⟨by rw [hsz]; exact hh, by rw [hsz]; exact hr, ?_⟩
        rw [(hnf root).1, (hnf root).2.1, (hnf head).1, (hnf head).2.1]
        exact hrep
      · have hk' : k < s.links.size := by omega
        rw [hlinkO k hk', hsz]
        obtain ⟨b1, b2, b3⟩ := hinv.links k hk'
        refine ⟨b1, b2, ?_⟩
        rw [(hnf _).1, (hnf _).2.1, (hnf _).1, (hnf _).2.1]
        exact b3
    · intro n hn l hl
      rw [hsz] at hn
      rw [hlsz]
      by_cases hnh : n = head
      · subst hnh
        rw [hnodeH] at hl
        simp only [List.mem_append, List.mem_singleton] at hl
        rcases hl with hl | hl
        · obtain ⟨c1, c2, c3⟩ := hinv.plinks n hn l hl
          rw [hlinkO l c1, (hnf _).1, (hnf _).2.1, (hnf n).1, (hnf n).2.1]
          exact ⟨by omega, c2, c3⟩
        · subst hl
          rw [hlinkN]
          exact ⟨by omega, rfl, rfl⟩
      · rw [hnodeO n hnh] at hl
        obtain ⟨c1, c2, c3⟩ := hinv.plinks n hn l hl
        rw [hlinkO l c1, (hnf _).1, (hnf _).2.1, (hnf n).1, (hnf n).2.1]
        exact ⟨by omega, c2, c3⟩
    · intro x hx
      obtain ⟨d1, d2⟩ := hinv.active x hx
      rw [hsz, (hnf _).1]; exact ⟨d1, d2⟩
    · intro x hx
      obtain ⟨d1, d2⟩ := hinv.forActor x hx
      rw [hsz, (hnf _).2.2.1]; exact ⟨d1, d2⟩
    · intro x hx
      obtain ⟨d1, d2⟩ := hinv.forShifter x hx
      rw [hsz, (hnf _).1, (hnf _).2.2.1]; exact ⟨d1, d2⟩
    · intro x hx
      obtain ⟨d1, d2⟩ := hinv.accepted x hx
      rw [hsz, (hnf _).1, (hnf _).2.2.1]; exact ⟨d1, d2⟩
    · rw [hlinkN]; exact (hnf head).1
    · rw [hlinkN]; rw [(hnf head).2.1]

end GLR
end Pg

namespace Pg
namespace GLR

variable {g : Grammar} {T : Table} {inp : Input}

/-- Every stack ending in `a`'s state at `a`'s position extends by `k` entries to one ending in
`b`'s state at `b`'s position. -/
def Chain (g : Grammar) (T : Table) (inp : Input) (s : GState) (a b k : Nat) : Prop :=
  ∀ st r, StackD g inp T st r → topOf st = (s.node a).st → inp.skip r = inp.skip (s.node a).pos →
    ∃ stk r', StackD g inp T (stk ++ st) r' ∧ stk.length = k ∧
      topOf (stk ++ st) = (s.node b).st ∧ inp.skip r' = inp.skip (s.node b).pos

theorem Chain.ext {s s' : GState} {a b k : Nat} (h : Chain g T inp s a b k) (he : Ext s s')
    (ha : a < s.nodes.size) (hb : b < s.nodes.size) : Chain g T inp s' a b k := by
  intro st r hs ht hp
  rw [(he.same a ha).1] at ht
  rw [(he.same a ha).2.1] at hp
  obtain ⟨stk, r', h1, h2, h3, h4⟩ := h st r hs ht hp
  exact ⟨stk, r', h1, h2, by rw [(he.same b hb).1]; exact h3, by rw [(he.same b hb).2.1]; exact h4⟩

theorem Chain.refl (s : GState) (a : Nat) : Chain g T inp s a a 0 := by
  intro st r hs ht hp
  exact ⟨[], r, by simpa using hs, rfl, by simpa using ht, hp⟩

/-- A chain followed by a reduction whose goto exists is a replayable link. -/
theorem replay_of_chain (hw : T.wf g = true) (s : GState) (root head pid : Nat) (pr : Prod) (state : Nat)
    (hp : g.prod? pid = some pr) (hc : Chain g T inp s root head pr.rhs.length)
    (hx : ∃ x, Action.reduce pid ∈ T.actions (s.node head).st x)
    (hg : T.goto (s.node root).st pr.lhs = some state) (hpos : Nat) (hposeq : inp.skip hpos = inp.skip (s.node head).pos) :
    Replay g T inp (s.node root).st (s.node root).pos state hpos := by
  intro st r hs ht hpr
  obtain ⟨stk, r', h1, h2, h3, h4⟩ := hc st r hs ht hpr
  obtain ⟨x, hx⟩ := hx
  let c : Config := { stack := stk ++ st, pos := r', la := none }
  have hinv : Inv g inp T {} c := ⟨h1, by intro p otok h; simp [c] at h⟩
  have htop : c.top = (s.node head).st := by
    have : c.top = topOf c.stack := by simp [Config.top, topOf]
    rw [this]; exact h3
  have hok := doReduce_ok hw {} c hinv pid x (by rw [htop]; exact hx)
  have hlen : ¬ (stk ++ st).length < pr.rhs.length := by simp [h2]
  have hdrop : (stk ++ st).drop pr.rhs.length = st := by rw [← h2]; simp
  have hgo : T.goto (topOf ((stk ++ st).drop pr.rhs.length)) pr.lhs = some state := by rw [hdrop, ht]; exact hg
  simp only [doReduce, hp, c, if_neg hlen, hgo] at hok
  have hinv' := hok.1 _ rfl
  have hst := hinv'.st
  simp only [hdrop] at hst
  exact ⟨_, r', hst, by rw [h4, hposeq]⟩

/-- A reduction in the cell of a reachable node names a production of the grammar. -/
theorem prod_of_reduce (hw : T.wf g = true) {consume : Bool} (s : GState) (hinv : GInv g T inp consume s)
    (head pid : Nat) (hh : head < s.nodes.size) (hx : ∃ x, Action.reduce pid ∈ T.actions (s.node head).st x) :
    ∃ pr, g.prod? pid = some pr := by
  have hn := wf_pos hw
  obtain ⟨st0, r0, hs0, ht0, _⟩ := (hinv.nodes head hh).reach
  have hlt : (s.node head).st < T.n := by rw [← ht0]; exact hs0.top_lt hn
  obtain ⟨x, hx⟩ := hx
  obtain ⟨cell, hcellmem, _, hcell2⟩ := actions_mem hx
  have hwf := (wf_state hw hlt).1 cell hcellmem _ hcell2
  simp only at hwf
  obtain ⟨pr, hpr, _⟩ := hwf
  exact ⟨pr, hpr⟩

/-- At the end of a reduction path the goto exists. -/
theorem goto_of_chain (hw : T.wf g = true) {consume : Bool} (s : GState) (hinv : GInv g T inp consume s)
    (root head pid : Nat) (pr : Prod) (hr : root < s.nodes.size) (hp : g.prod? pid = some pr)
    (hc : Chain g T inp s root head pr.rhs.length)
    (hx : ∃ x, Action.reduce pid ∈ T.actions (s.node head).st x) :
    (T.goto (s.node root).st pr.lhs).isSome = true := by
  have hn := wf_pos hw
  obtain ⟨st, r, hs, ht, hpr⟩ := (hinv.nodes root hr).reach
  obtain ⟨stk, r', h1, h2, h3, _⟩ := hc st r hs ht hpr
  obtain ⟨x, hx⟩ := hx
  have htop : topOf (stk ++ st) < T.n := h1.top_lt hn
  rw [← h3] at hx
  obtain ⟨cell, hcellmem, _, hcell2⟩ := actions_mem hx
  have hwf := (wf_state hw htop).1 cell hcellmem _ hcell2
  simp only at hwf
  obtain ⟨pr', hpr', hback⟩ := hwf
  rw [hp] at hpr'
  simp only [Option.some.injEq] at hpr'
  subst hpr'
  obtain ⟨i, _, _, _, hgo⟩ :=
    walk_back (g := g) (inp := inp) hn pr.rhs.reverse (topOf (stk ++ st)) (stk ++ st) r' pr.lhs hback h1 rfl
  simp only [List.length_reverse] at hgo
  have hdrop : (stk ++ st).drop pr.rhs.length = st := by rw [← h2]; simp
  rw [hdrop, ht] at hgo
  exact hgo

/-- Frontier position: every active head stands at skipped position `P`. -/
def APos (inp : Input) (s : GState) (P : Nat) : Prop :=
  (∀ x ∈ s.active, inp.skip (s.node x.2).pos = P ∧ (s.node x.2).tok.isSome = true) ∧
    (∀ h ∈ s.forActor, inp.skip (s.node h).pos = P)

/-- What the reduction functions guarantee. -/
def Post (g : Grammar) (T : Table) (inp : Input) (consume : Bool) (P : Nat) (s s' : GState) : Prop :=
  GInv g T inp consume s' ∧ Ext s s' ∧ APos inp s' P

theorem Post.trans {consume : Bool} {P : Nat} {a b c : GState} (h1 : Post g T inp consume P a b)
    (h2 : Post g T inp consume P b c) : Post g T inp consume P a c :=
  ⟨h2.1, h1.2.1.trans h2.2.1, h2.2.2⟩

theorem mem_of_headActive {s : GState} {state n : Nat} (h : s.headActive state = some n) :
    (state, n) ∈ s.active := by
  simp only [GState.headActive, Option.map_eq_some_iff] at h
  obtain ⟨x, hx, rfl⟩ := h
  have h1 := List.mem_of_find?_eq_some hx
  have h2 := List.find?_some hx
  simp only [beq_iff_eq] at h2
  rw [← h2]; exact h1

/-- Frames of the path search are chains from their node up to the reducing head. -/
def FrameOK (g : Grammar) (T : Table) (inp : Input) (s : GState) (head : Nat) (n : Nat) (fr : Frame) : Prop :=
  fr.node < s.nodes.size ∧ Chain g T inp s fr.node head fr.results.length ∧
    fr.results.length + fr.length = n ∧ 1 ≤ fr.length ∧ KChain inp s fr.node fr.results head

theorem FrameOK.ext {s s' : GState} {head n : Nat} {fr : Frame} (h : FrameOK g T inp s head n fr)
    (he : Ext s s') (hh : head < s.nodes.size) : FrameOK g T inp s' head n fr :=
  ⟨Nat.lt_of_lt_of_le h.1 he.size, h.2.1.ext he h.1 hh, h.2.2.1, h.2.2.2.1, h.2.2.2.2.same (Same.of_ext he)⟩

/-- Specification of a function usable as the recursive `_do_reductions`. -/
def DRSpec (g : Grammar) (T : Table) (inp : Input) (consume : Bool) (P : Nat)
    (dr : GState → Nat → Nat → Option Nat → GState) : Prop :=
  ∀ (s : GState) (head pid : Nat) (upd : Option Nat),
    GInv g T inp consume s → APos inp s P → head < s.nodes.size →
    inp.skip (s.node head).pos = P → (s.node head).tok.isSome = true →
    (∃ x, Action.reduce pid ∈ T.actions (s.node head).st x) →
    (∀ u, upd = some u → u < s.links.size ∧ (s.node (s.link u).head).tok.isSome = true) →
    Post g T inp consume P s (dr s head pid upd)

/-- Specification of a function usable as the recursive `_reduce` for a fixed head and production. -/
def RDSpec (g : Grammar) (T : Table) (inp : Input) (consume : Bool) (P : Nat) (head n st0 : Nat)
    (rd : GState → Nat → List Nat → Nat → Nat → GState) : Prop :=
  ∀ (s : GState) (root : Nat) (kids : List Nat) (st en : Nat),
    GInv g T inp consume s → APos inp s P → head < s.nodes.size → (s.node head).st = st0 →
    inp.skip (s.node head).pos = P → (s.node head).tok.isSome = true → root < s.nodes.size →
    Chain g T inp s root head n → KChain inp s root kids head → kids.length = n →
    Post g T inp consume P s (rd s root kids st en)

theorem revisitFold_ok {consume : Bool} {P : Nat} {dr : GState → Nat → Nat → Option Nat → GState}
    (hdr : DRSpec g T inp consume P dr) (term lid : Nat) :
    ∀ (l : List Nat) (s : GState), GInv g T inp consume s → APos inp s P → lid < s.links.size →
      (s.node (s.link lid).head).tok.isSome = true →
      Post g T inp consume P s (revisitFold T dr term lid l s) := by
  intro l
  induction l with
  | nil => intro s h1 h2 _ _; exact ⟨h1, Ext.refl s, h2⟩
  | cons rs l ih =>
    intro s h1 h2 hlid htok
    simp only [revisitFold, List.foldl_cons]
    -- one head
    have hone : Post g T inp consume P s (match s.headActive rs with
        | none => s
        | some rh => (T.actions rs term).foldl (fun acc2 a =>
            match a with
            | .reduce p => dr acc2 rh p (some lid)
            | _ => acc2) s) := by
      cases hra : s.headActive rs with
      | none => exact ⟨h1, Ext.refl s, h2⟩
      | some rh =>
        simp only
        have hmemr := mem_of_headActive hra
        obtain ⟨r1, r2⟩ := h1.active _ hmemr
        obtain ⟨rpos, r3⟩ := h2.1 _ hmemr
        simp only at r1 r2 r3 rpos
        have hlh : (s.link lid).head < s.nodes.size := (h1.links lid hlid).1
        suffices hin : ∀ (as : List Action) (acc : GState), Post g T inp consume P s acc →
            (∀ a ∈ as, a ∈ T.actions rs term) →
            Post g T inp consume P s (as.foldl (fun acc2 a =>
              match a with
              | .reduce p => dr acc2 rh p (some lid)
              | _ => acc2) acc) from hin _ s ⟨h1, Ext.refl s, h2⟩ (fun a ha => ha)
        intro as
        induction as with
        | nil => intro acc hacc _; exact hacc
        | cons a as iha =>
          intro acc hacc hsub
          simp only [List.foldl_cons]
          have hrest : ∀ a' ∈ as, a' ∈ T.actions rs term := fun a' ha' => hsub a' (by simp [ha'])
          cases a with
          | shift _ => exact iha acc hacc hrest
          | accept => exact iha acc hacc hrest
          | reduce p =>
            simp only
            have e := hacc.2.1.same rh r1
            have hpost := hdr acc rh p (some lid) hacc.1 hacc.2.2 (Nat.lt_of_lt_of_le r1 hacc.2.1.size)
              (by rw [e.2.1]; exact rpos) (by rw [e.2.2.1]; exact r3)
              ⟨term, by rw [e.1, r2]; exact hsub _ (by simp)⟩
              (by
                intro u hu
                simp only [Option.some.injEq] at hu
                subst hu
                refine ⟨Nat.lt_of_lt_of_le hlid hacc.2.1.lsize, ?_⟩
                rw [(hacc.2.1.lsame lid hlid).1, (hacc.2.1.same _ hlh).2.2.1]
                exact htok)
            exact iha _ (hacc.trans hpost) hrest
    have key : ∀ s1, Post g T inp consume P s s1 → Post g T inp consume P s (revisitFold T dr term lid l s1) := by
      intro s1 hp1
      have hlh : (s.link lid).head < s.nodes.size := (h1.links lid hlid).1
      have := ih s1 hp1.1 hp1.2.2 (Nat.lt_of_lt_of_le hlid hp1.2.1.lsize)
        (by rw [(hp1.2.1.lsame lid hlid).1, (hp1.2.1.same _ hlh).2.2.1]; exact htok)
      exact hp1.trans this
    exact key _ hone

/-- One iteration of the parent loop. -/
def pfStep (rd : GState → Nat → List Nat → Nat → Nat → GState) (fr : Frame) (len : Nat) (viaUpd : Bool)
    (acc : GState × List Frame × Option Nat × Bool) (par : Nat) : GState × List Frame × Option Nat × Bool :=
  let (sa, stk, lastP, trav) := acc
  let newResults := par :: fr.results
  let lastP' := match lastP with | none => some par | some x => some x
  let trav' := trav || viaUpd
  if len != 0 then
    (sa, { node := (sa.link par).root, results := newResults, length := len, lastP := lastP',
           trav := trav' } :: stk, lastP', trav')
  else if trav' then
    (rd sa (sa.link par).root newResults (sa.link par).s (sa.link (lastP'.getD par)).e,
      stk, lastP', trav')
  else (sa, stk, lastP', trav')

theorem parentsFold_eq (rd : GState → Nat → List Nat → Nat → Nat → GState) (fr : Frame) (len : Nat)
    (viaUpd : Bool) (plist : List Nat) (init : GState × List Frame × Option Nat × Bool) :
    parentsFold rd fr len viaUpd plist init = plist.foldl (pfStep rd fr len viaUpd) init := rfl

def lastOf (lastP : Option Nat) (par : Nat) : Option Nat :=
  match lastP with | none => some par | some x => some x

theorem parentsFold_ok {consume : Bool} {P : Nat} {head n st0 : Nat}
    {rd : GState → Nat → List Nat → Nat → Nat → GState}
    (hrd : RDSpec g T inp consume P head n st0 rd) (fr : Frame) (len : Nat) (viaUpd : Bool)
    (hlen : len = fr.length - 1) :
    ∀ (plist : List Nat) (sa : GState) (stk : List Frame) (lastP : Option Nat) (trav : Bool),
      GInv g T inp consume sa → APos inp sa P → head < sa.nodes.size → (sa.node head).st = st0 →
      inp.skip (sa.node head).pos = P → (sa.node head).tok.isSome = true →
      FrameOK g T inp sa head n fr → (∀ f ∈ stk, FrameOK g T inp sa head n f) →
      (∀ par ∈ plist, par < sa.links.size ∧ (sa.node (sa.link par).head).st = (sa.node fr.node).st ∧
        inp.skip (sa.node (sa.link par).head).pos = inp.skip (sa.node fr.node).pos) →
      Post g T inp consume P sa (plist.foldl (pfStep rd fr len viaUpd) (sa, stk, lastP, trav)).1 ∧
      (∀ f ∈ (plist.foldl (pfStep rd fr len viaUpd) (sa, stk, lastP, trav)).2.1,
        FrameOK g T inp (plist.foldl (pfStep rd fr len viaUpd) (sa, stk, lastP, trav)).1 head n f) := by
  intro plist
  induction plist with
  | nil =>
    intro sa stk lastP trav h1 h2 _ _ _ _ _ hstk _
    simp only [List.foldl_nil]
    exact ⟨⟨h1, Ext.refl sa, h2⟩, hstk⟩
  | cons par plist ih =>
    intro sa stk lastP trav h1 h2 hh hst hpos htok hfr hstk hpl
    obtain ⟨hparlt, hparst, hparpos⟩ := hpl par (by simp)
    obtain ⟨lhd, lrt, lrep⟩ := h1.links par hparlt
    -- the chain from the parent's root up to the head
    have hchain : Chain g T inp sa (sa.link par).root head (fr.results.length + 1) := by
      intro st r hs ht hp
      obtain ⟨t, r1, hs1, hp1⟩ := lrep st r hs ht hp
      obtain ⟨stk2, r2, hs2, hl2, ht2, hp2⟩ := hfr.2.1 ((( sa.node (sa.link par).head).st, t) :: st) r1 hs1
        (by simp [topOf, hparst]) (by rw [hp1, hparpos])
      refine ⟨stk2 ++ [((sa.node (sa.link par).head).st, t)], r2, by simpa using hs2, by simp [hl2], ?_, hp2⟩
      simpa using ht2
    have hkc : KChain inp sa (sa.link par).root (par :: fr.results) head :=
      .cons _ par _ _ lrt hparlt lhd lrt (NEq.refl sa _)
        (hfr.2.2.2.2.congr_start lhd ⟨hparst.symm, hparpos.symm⟩)
    simp only [List.foldl_cons]
    by_cases hl0 : (len != 0) = true
    · -- push a frame
      have hstep : pfStep rd fr len viaUpd (sa, stk, lastP, trav) par =
          (sa, { node := (sa.link par).root, results := par :: fr.results, length := len,
                 lastP := lastOf lastP par, trav := trav || viaUpd } :: stk, lastOf lastP par, trav || viaUpd) := by
        simp only [pfStep, hl0, if_true, lastOf]
      rw [hstep]
      have hnew : FrameOK g T inp sa head n
          { node := (sa.link par).root, results := par :: fr.results, length := len,
            lastP := lastOf lastP par, trav := trav || viaUpd } := by
        refine ⟨lrt, by simpa using hchain, ?_, ?_, hkc⟩
        · show (par :: fr.results).length + len = n
          have hA := hfr.2.2.1
          have hB := hfr.2.2.2.1
          simp only [List.length_cons]
          omega
        · show 1 ≤ len
          simp only [bne_iff_ne, ne_eq] at hl0; omega
      exact ih sa _ (lastOf lastP par) (trav || viaUpd) h1 h2 hh hst hpos htok hfr
        (by intro f hf; rcases List.mem_cons.mp hf with rfl | hf
            · exact hnew
            · exact hstk f hf)
        (fun p hp => hpl p (by simp [hp]))
    · by_cases htr : (trav || viaUpd) = true
      · -- perform the reduction
        have hstep : pfStep rd fr len viaUpd (sa, stk, lastP, trav) par =
            (rd sa (sa.link par).root (par :: fr.results) (sa.link par).s
              (sa.link ((lastOf lastP par).getD par)).e, stk, lastOf lastP par, trav || viaUpd) := by
          simp only [pfStep, hl0, htr, if_true, lastOf, Bool.false_eq_true, if_false]
        rw [hstep]
        have hn : fr.results.length + 1 = n := by
          simp only [bne_iff_ne, ne_eq, Decidable.not_not] at hl0
          have hA := hfr.2.2.1
          have hB := hfr.2.2.2.1
          omega
        have hpost := hrd sa (sa.link par).root (par :: fr.results) (sa.link par).s
          (sa.link ((lastOf lastP par).getD par)).e
          h1 h2 hh hst hpos htok lrt (by rw [← hn]; exact hchain) hkc (by rw [← hn]; simp)
        generalize rd sa (sa.link par).root (par :: fr.results) (sa.link par).s
          (sa.link ((lastOf lastP par).getD par)).e = s1 at hpost
        have e := hpost.2.1
        have ehd := e.same head hh
        have hfrlt := hfr.1
        have := ih s1 stk (lastOf lastP par) (trav || viaUpd) hpost.1 hpost.2.2 (Nat.lt_of_lt_of_le hh e.size)
          (by rw [ehd.1]; exact hst) (by rw [ehd.2.1]; exact hpos) (by rw [ehd.2.2.1]; exact htok)
          (hfr.ext e hh) (fun f hf => (hstk f hf).ext e hh)
          (by
            intro p hp
            obtain ⟨a1, a2, a3⟩ := hpl p (by simp [hp])
            obtain ⟨b1, _, _⟩ := h1.links p a1
            refine ⟨Nat.lt_of_lt_of_le a1 e.lsize, ?_, ?_⟩
            · rw [(e.lsame p a1).1, (e.same _ b1).1, (e.same _ hfrlt).1]; exact a2
            · rw [(e.lsame p a1).1, (e.same _ b1).2.1, (e.same _ hfrlt).2.1]; exact a3)
        exact ⟨hpost.trans this.1, this.2⟩
      · have hstep : pfStep rd fr len viaUpd (sa, stk, lastP, trav) par =
            (sa, stk, lastOf lastP par, trav || viaUpd) := by
          simp only [pfStep, hl0, htr, lastOf, Bool.false_eq_true, if_false]
        rw [hstep]
        exact ih sa stk (lastOf lastP par) (trav || viaUpd) h1 h2 hh hst hpos htok hfr hstk
          (fun p hp => hpl p (by simp [hp]))

/-- Changing only `crash`, `orderSens` or `traversed` keeps everything. -/
theorem post_of_graph_eq {consume : Bool} {P : Nat} {s s' : GState} (h : GInv g T inp consume s)
    (hap : APos inp s P) (hn : s'.nodes = s.nodes) (hl : s'.links = s.links) (ha : s'.active = s.active)
    (hf : s'.forActor = s.forActor) (hs : s'.forShifter = s.forShifter) (hc : s'.accepted = s.accepted)
    (hcr : s'.crash = s.crash) :
    Post g T inp consume P s s' := by
  have hnode : ∀ i, s'.node i = s.node i := by intro i; simp [GState.node, hn]
  have hlink : ∀ i, s'.link i = s.link i := by intro i; simp [GState.link, hl]
  refine ⟨h.graph_eq hn hl (by rw [ha]; exact h.active) (by rw [hf]; exact h.forActor)
    (by rw [hs]; exact h.forShifter) (by rw [hc]; exact h.accepted), ?_, ?_⟩
  · exact ⟨by rw [hn]; exact Nat.le_refl _, fun i _ => by rw [hnode]; exact ⟨rfl, rfl, rfl, rfl⟩,
      by rw [hl]; exact Nat.le_refl _, fun i _ => by rw [hlink]; exact ⟨rfl, rfl⟩, hcr⟩
  · exact ⟨fun x hx => by rw [ha] at hx; rw [hnode]; exact hap.1 x hx,
      fun x hx => by rw [hf] at hx; rw [hnode]; exact hap.2 x hx⟩

/-- Pushing a reachable node keeps the invariant. -/
theorem pushNode_ok {consume : Bool} (s : GState) (hinv : GInv g T inp consume s) (x : GNode)
    (hx : NodeOK g T inp consume x) (hpl : x.plinks = []) :
    GInv g T inp consume { s with nodes := s.nodes.push x } ∧ Ext s { s with nodes := s.nodes.push x } ∧
      ({ s with nodes := s.nodes.push x } : GState).node s.nodes.size = x := by
  let s' : GState := { s with nodes := s.nodes.push x }
  have hnodeO : ∀ k, k < s.nodes.size → s'.node k = s.node k := by
    intro k hk; simp only [s', GState.node]; exact getD_push_lt _ _ _ _ hk
  have hnodeN : s'.node s.nodes.size = x := by simp only [s', GState.node]; exact getD_push_eq _ _ _
  have hlink : ∀ k, s'.link k = s.link k := fun k => rfl
  have hsz : s'.nodes.size = s.nodes.size + 1 := by simp [s']
  have hext : Ext s s' := ⟨by rw [hsz]; omega, fun k hk => by rw [hnodeO k hk]; exact ⟨rfl, rfl, rfl, rfl⟩,
    Nat.le_refl _, fun k _ => ⟨rfl, rfl⟩, rfl⟩
  have hP : ∀ k, k < s'.links.size → ∀ p ∈ (s'.link k).poss, PossOK g T inp s' (s'.link k).head (s'.link k).root p := by
    intro k hk p hp
    obtain ⟨l1, l2, _⟩ := hinv.links k hk
    exact (hinv.poss k hk p hp).same (Same.of_ext hext) l1 l2
  refine ⟨⟨?_, ?_, ?_, ?_, ?_, ?_, ?_, hP⟩, hext, hnodeN⟩
  · intro k hk
    rw [hsz] at hk
    by_cases hkn : k = s.nodes.size
    · subst hkn; rw [hnodeN]; exact hx
    · rw [hnodeO k (by omega)]; exact hinv.nodes k (by omega)
  · intro k hk
    obtain ⟨a1, a2, a3⟩ := hinv.links k hk
    rw [hlink, hsz, hnodeO _ a1, hnodeO _ a2]
    exact ⟨by omega, by omega, a3⟩
  · intro n hn l hl
    rw [hsz] at hn
    by_cases hnn : n = s.nodes.size
    · subst hnn; rw [hnodeN, hpl] at hl; simp at hl
    · have hn' : n < s.nodes.size := by omega
      rw [hnodeO n hn'] at hl
      obtain ⟨b1, b2, b3⟩ := hinv.plinks n hn' l hl
      obtain ⟨c1, _, _⟩ := hinv.links l b1
      rw [hlink, hnodeO _ c1, hnodeO n hn']
      exact ⟨b1, b2, b3⟩
  · intro y hy
    obtain ⟨d1, d2⟩ := hinv.active y hy
    rw [hsz, hnodeO _ d1]; exact ⟨by omega, d2⟩
  · intro y hy
    obtain ⟨d1, d2⟩ := hinv.forActor y hy
    rw [hsz, hnodeO _ d1]; exact ⟨by omega, d2⟩
  · intro y hy
    obtain ⟨d1, d2⟩ := hinv.forShifter y hy
    rw [hsz, hnodeO _ d1]; exact ⟨by omega, d2⟩
  · intro y hy
    obtain ⟨d1, d2⟩ := hinv.accepted y hy
    rw [hsz, hnodeO _ d1]; exact ⟨by omega, d2⟩

theorem paths_cons (g : Grammar) (T : Table) (fuel : Nat) (s : GState) (head pid : Nat) (upd : Option Nat)
    (fr : Frame) (rest : List Frame) :
    paths g T (fuel + 1) s head pid upd (fr :: rest) =
      (let h := s.node head
      let len := fr.length - 1
      let s0 := if (s.node fr.node).fr == h.fr
        then { s with traversed := addTraversed s.traversed (s.node fr.node).st h.st } else s
      let viaUpd := match upd with
        | some u => s0.same (s0.link u).head fr.node
        | none => false
      let plist := match upd with
        | some u => if viaUpd then [u] else s0.parents fr.node
        | none => s0.parents fr.node
      let r := parentsFold (fun sa root kids st en => reduce g T fuel sa head root pid kids st en) fr len viaUpd
        plist (s0, rest, fr.lastP, fr.trav)
      paths g T fuel r.1 head pid upd r.2.1) := by
  rw [paths.eq_def]
  rfl

set_option maxHeartbeats 1000000 in
/-- The three mutually recursive functions keep the invariant. -/
theorem reductions_ok (hw : T.wf g = true) (consume : Bool) (P : Nat) :
    ∀ fuel : Nat,
      (∀ (s : GState) (head root pid : Nat) (kids : List Nat) (st en : Nat) (pr : Prod),
        GInv g T inp consume s → APos inp s P → head < s.nodes.size → root < s.nodes.size →
        inp.skip (s.node head).pos = P → (s.node head).tok.isSome = true →
        g.prod? pid = some pr → Chain g T inp s root head pr.rhs.length →
        (∃ x, Action.reduce pid ∈ T.actions (s.node head).st x) →
        KChain inp s root kids head → kids.length = pr.rhs.length →
        Post g T inp consume P s (reduce g T fuel s head root pid kids st en)) ∧
      DRSpec g T inp consume P (fun s head pid upd => doReductions g T fuel s head pid upd) ∧
      (∀ (s : GState) (head pid : Nat) (upd : Option Nat) (frames : List Frame) (pr : Prod),
        GInv g T inp consume s → APos inp s P → head < s.nodes.size →
        inp.skip (s.node head).pos = P → (s.node head).tok.isSome = true →
        g.prod? pid = some pr →
        (∃ x, Action.reduce pid ∈ T.actions (s.node head).st x) →
        (∀ u, upd = some u → u < s.links.size ∧ (s.node (s.link u).head).tok.isSome = true) →
        (∀ fr ∈ frames, FrameOK g T inp s head pr.rhs.length fr) →
        Post g T inp consume P s (paths g T fuel s head pid upd frames)) := by
  intro fuel
  induction fuel with
  | zero =>
    refine ⟨?_, ?_, ?_⟩
    · intro s head root pid kids st en pr hinv hap _ _ _ _ _ _ _ _ _
      simp only [reduce]; exact ⟨hinv, Ext.refl s, hap⟩
    · intro s head pid upd hinv hap _ _ _ _ _
      simp only [doReductions]; exact ⟨hinv, Ext.refl s, hap⟩
    · intro s head pid upd frames pr hinv hap _ _ _ _ _ _ _
      simp only [paths]; exact ⟨hinv, Ext.refl s, hap⟩
  | succ fuel ih =>
    obtain ⟨ihR, ihD, ihP⟩ := ih
    refine ⟨?_, ?_, ?_⟩
    · -- `_reduce`
      intro s head root pid kids st en pr hinv hap hh hr hpos htok hp hchain hx hk hkl
      simp only [reduce, hp]
      cases hg : T.goto (s.node root).st pr.lhs with
      | none =>
        have := goto_of_chain hw s hinv root head pid pr hr hp hchain hx
        rw [hg] at this
        cases this
      | some state =>
        simp only
        cases hah : s.headActive state with
        | some ah =>
          simp only
          have hmem := mem_of_headActive hah
          obtain ⟨hahlt, hahst⟩ := hinv.active _ hmem
          obtain ⟨hahpos, hahtok⟩ := hap.1 _ hmem
          simp only at hahlt hahst hahtok hahpos
          have hrep : Replay g T inp (s.node root).st (s.node root).pos (s.node ah).st (s.node ah).pos := by
            rw [hahst]
            exact replay_of_chain hw s root head pid pr state hp hchain hx hg (s.node ah).pos
              (by rw [hahpos, hpos])
          obtain ⟨c1, c2, c3, c4, c5, c6, c7, c8, c9, c10, c11, c12, c13⟩ :=
            createLink_ok s hinv ah root st en [Poss.nonterm pid kids] hahlt hr hrep
              (by
                intro p hp'
                simp only [List.mem_singleton] at hp'
                subst hp'
                exact ⟨pr, head, hp, hkl, hk, hx, by rw [hahst]; exact hg, by rw [hpos, hahpos]⟩)
          generalize createLink s ah root st en [Poss.nonterm pid kids] = res at c1 c2 c3 c4 c5 c6 c7 c8 c9 c10 c11 c12 c13
          obtain ⟨s1, created, lid⟩ := res
          simp only at c1 c2 c3 c4 c5 c6 c7 c8 c9 c10 c11 c12 c13 ⊢
          have hap1 : APos inp s1 P := by
            constructor
            · intro x hx'
              rw [c6] at hx'
              have := hap.1 x hx'
              obtain ⟨d1, _⟩ := hinv.active x hx'
              rw [(c2.same x.2 d1).2.1, (c2.same x.2 d1).2.2.1]; exact this
            · intro x hx'
              rw [c7] at hx'
              have := hap.2 x hx'
              obtain ⟨d1, _⟩ := hinv.forActor x hx'
              rw [(c2.same x d1).2.1]; exact this
          cases created with
          | false => exact ⟨c1, c2, hap1⟩
          | true =>
            simp only [if_true]
            cases htr : s1.traversed.find? (fun x => x.1 == state) with
            | none => exact ⟨c1, c2, hap1⟩
            | some tr =>
              obtain ⟨trk, trs⟩ := tr
              simp only
              have hlh := c11 rfl
              have hahlt1 : ah < s1.nodes.size := Nat.lt_of_lt_of_le hahlt c2.size
              have key : ∀ (L : List Nat) (S : GState), Post g T inp consume P s1 S →
                  Post g T inp consume P s1
                    (revisitFold T (fun a rh p u => doReductions g T fuel a rh p u) (S.tokTerm head) lid L S) := by
                intro L S hS
                have hlid1 : lid < S.links.size := Nat.lt_of_lt_of_le c3 hS.2.1.lsize
                have htok1 : (S.node (S.link lid).head).tok.isSome = true := by
                  rw [(hS.2.1.lsame lid c3).1, hlh, (hS.2.1.same ah hahlt1).2.2.1, (c2.same ah hahlt).2.2.1]
                  exact hahtok
                exact Post.trans hS (revisitFold_ok ihD (S.tokTerm head) lid L S hS.1 hS.2.2 hlid1 htok1)
              -- the possibly flagged state
              generalize hS : (if (decide (2 ≤ (sortNat ((List.filter (fun x => !(List.map (fun h => (s1.node h).st) s1.forActor).contains x)
                  (List.filter (fun x => (List.map (fun x => x.1) s1.active).contains x) trs)).eraseDups)).length) &&
                  (sortNat ((List.filter (fun x => !(List.map (fun h => (s1.node h).st) s1.forActor).contains x)
                  (List.filter (fun x => (List.map (fun x => x.1) s1.active).contains x) trs)).eraseDups)).any fun x => decide (8 ≤ x)) = true
                then ({ s1 with orderSens := true } : GState) else s1) = s1'
              have hpost1 : Post g T inp consume P s1 s1' := by
                rw [← hS]
                split
                · exact post_of_graph_eq c1 hap1 rfl rfl rfl rfl rfl rfl rfl
                · exact ⟨c1, Ext.refl s1, hap1⟩
              exact Post.trans (⟨c1, c2, hap1⟩ : Post g T inp consume P s s1) (key _ _ hpost1)
        | none =>
          -- a new head
          simp only
          have hN := hinv.nodes head hh
          have hRn := hinv.nodes root hr
          have hrep0 : Replay g T inp (s.node root).st (s.node root).pos state (s.node head).pos :=
            replay_of_chain hw s root head pid pr state hp hchain hx hg (s.node head).pos rfl
          let x : GNode := { st := state, fr := (s.node head).fr, pos := (s.node head).pos, tok := (s.node head).tok }
          have hxok : NodeOK g T inp consume x := by
            refine ⟨?_, hN.tok⟩
            obtain ⟨st0, r0, hs0, ht0, hp0⟩ := hRn.reach
            obtain ⟨t, r', hs', hp'⟩ := hrep0 st0 r0 hs0 ht0 hp0
            exact ⟨_, r', hs', by simp [topOf, x], hp'⟩
          obtain ⟨p1, p2, p3⟩ := pushNode_ok s hinv x hxok rfl
          generalize hs1 : ({ s with nodes := s.nodes.push x } : GState) = s1 at p1 p2 p3
          have hnh : s.nodes.size < s1.nodes.size := by rw [← hs1]; simp
          have hr1 : root < s1.nodes.size := Nat.lt_of_lt_of_le hr p2.size
          have hrep1 : Replay g T inp (s1.node root).st (s1.node root).pos (s1.node s.nodes.size).st
              (s1.node s.nodes.size).pos := by
            rw [(p2.same root hr).1, (p2.same root hr).2.1, p3]; exact hrep0
          obtain ⟨c1, c2, c3, c4, c5, c6, c7, c8, c9, c10, c11, c12, c13⟩ :=
            createLink_ok s1 p1 s.nodes.size root st en [Poss.nonterm pid kids] hnh hr1 hrep1
              (by
                intro p hp'
                simp only [List.mem_singleton] at hp'
                subst hp'
                obtain ⟨x, hx⟩ := hx
                refine ⟨pr, head, hp, hkl, hk.same (Same.of_ext p2), ⟨x, by rw [(p2.same head hh).1]; exact hx⟩, ?_, ?_⟩
                · rw [(p2.same root hr).1, p3]; exact hg
                · rw [(p2.same head hh).2.1, p3])
          generalize createLink s1 s.nodes.size root st en [Poss.nonterm pid kids] = res at c1 c2 c3 c4 c5 c6 c7 c8 c9 c10 c11 c12 c13
          obtain ⟨s2, created, lid⟩ := res
          simp only at c1 c2 c3 c4 c5 c6 c7 c8 c9 c10 c11 c12 c13 ⊢
          have hext : Ext s s2 := p2.trans c2
          have hnewnode : (s2.node s.nodes.size).st = state ∧ (s2.node s.nodes.size).pos = (s.node head).pos ∧
              (s2.node s.nodes.size).tok = (s.node head).tok := by
            obtain ⟨e1, e2, e3, _⟩ := c2.same s.nodes.size hnh
            rw [e1, e2, e3, p3]; exact ⟨rfl, rfl, rfl⟩
          have hnh2 : s.nodes.size < s2.nodes.size := Nat.lt_of_lt_of_le hnh c2.size
          have hact1 : s1.active = s.active := by rw [← hs1]
          have hfa1 : s1.forActor = s.forActor := by rw [← hs1]
          refine ⟨?_, ?_, ?_⟩
          · refine c1.graph_eq rfl rfl ?_ ?_ c1.forShifter c1.accepted
            · intro y hy
              simp only [List.mem_append, List.mem_singleton] at hy
              rcases hy with hy | rfl
              · exact c1.active y hy
              · exact ⟨hnh2, hnewnode.1⟩
            · intro y hy
              simp only [List.mem_cons] at hy
              rcases hy with rfl | hy
              · exact ⟨hnh2, by rw [hnewnode.2.2]; exact htok⟩
              · exact c1.forActor y hy
          · exact ⟨hext.size, hext.same, hext.lsize, hext.lsame, hext.crash⟩
          · constructor
            · intro y hy
              simp only [List.mem_append, List.mem_singleton] at hy
              show inp.skip (s2.node y.2).pos = P ∧ (s2.node y.2).tok.isSome = true
              rcases hy with hy | rfl
              · rw [c6, hact1] at hy
                obtain ⟨d1, _⟩ := hinv.active y hy
                rw [(hext.same y.2 d1).2.1, (hext.same y.2 d1).2.2.1]; exact hap.1 y hy
              · rw [hnewnode.2.1, hnewnode.2.2]; exact ⟨hpos, htok⟩
            · intro y hy
              simp only [List.mem_cons] at hy
              show inp.skip (s2.node y).pos = P
              rcases hy with rfl | hy
              · rw [hnewnode.2.1]; exact hpos
              · rw [c7, hfa1] at hy
                obtain ⟨d1, _⟩ := hinv.forActor y hy
                rw [(hext.same y d1).2.1]; exact hap.2 y hy
    · -- `_do_reductions`
      intro s head pid upd hinv hap hh hpos htok hx hupd
      simp only [doReductions]
      cases hp : g.prod? pid with
      | none =>
        obtain ⟨pr, hpr⟩ := prod_of_reduce hw s hinv head pid hh hx
        rw [hp] at hpr
        cases hpr
      | some pr =>
        simp only
        split
        · rename_i hemp
          have hlen0 : pr.rhs.length = 0 := by
            cases hr : pr.rhs with
            | nil => rfl
            | cons a b => rw [hr] at hemp; simp at hemp
          exact ihR s head head pid [] (s.node head).pos (s.node head).pos pr hinv hap hh hh hpos htok hp
            (by rw [hlen0]; exact Chain.refl s head) hx (.nil _ _ hh hh (NEq.refl s head)) (by rw [hlen0]; rfl)
        · rename_i hemp
          have hlenpos : 1 ≤ pr.rhs.length := by
            cases hr : pr.rhs with
            | nil => rw [hr] at hemp; simp at hemp
            | cons a b => simp
          apply ihP s head pid upd _ pr hinv hap hh hpos htok hp hx hupd
          intro fr hfr
          simp only [List.mem_singleton] at hfr
          subst hfr
          exact ⟨hh, Chain.refl s head, by simp, hlenpos, .nil _ _ hh hh (NEq.refl s head)⟩
    · -- the path search
      intro s head pid upd frames pr hinv hap hh hpos htok hp hx hupd hframes
      cases frames with
      | nil => simp only [paths]; exact ⟨hinv, Ext.refl s, hap⟩
      | cons fr rest =>
        rw [paths_cons]
        simp only []
        have hfr := hframes fr (by simp)
        -- the `states_traversed` update
        generalize hS0 : (if ((s.node fr.node).fr == (s.node head).fr) = true
            then ({ s with traversed := addTraversed s.traversed (s.node fr.node).st (s.node head).st } : GState)
            else s) = s0
        have hpost0 : Post g T inp consume P s s0 := by
          rw [← hS0]
          split
          · exact post_of_graph_eq hinv hap rfl rfl rfl rfl rfl rfl rfl
          · exact ⟨hinv, Ext.refl s, hap⟩
        have e0 := hpost0.2.1
        have hh0 : head < s0.nodes.size := Nat.lt_of_lt_of_le hh e0.size
        have ehd0 := e0.same head hh
        have hfr0 : FrameOK g T inp s0 head pr.rhs.length fr := hfr.ext e0 hh
        -- the parents to follow
        generalize hVU : (match upd with
            | some u => s0.same (s0.link u).head fr.node
            | none => false) = viaUpd
        generalize hPL : (match upd with
            | some u => if viaUpd = true then [u] else s0.parents fr.node
            | none => s0.parents fr.node) = plist
        have hplist : ∀ par ∈ plist, par < s0.links.size ∧ (s0.node (s0.link par).head).st = (s0.node fr.node).st ∧
            inp.skip (s0.node (s0.link par).head).pos = inp.skip (s0.node fr.node).pos := by
          intro par hpar
          have hparents : par ∈ s0.parents fr.node → par < s0.links.size ∧
              (s0.node (s0.link par).head).st = (s0.node fr.node).st ∧
              inp.skip (s0.node (s0.link par).head).pos = inp.skip (s0.node fr.node).pos :=
            fun h => hpost0.1.plinks fr.node hfr0.1 par h
          cases hu : upd with
          | none => rw [hu] at hPL; rw [← hPL] at hpar; exact hparents hpar
          | some u =>
            rw [hu] at hPL hVU
            simp only at hPL hVU
            by_cases hv : viaUpd = true
            · rw [if_pos hv] at hPL
              rw [← hPL] at hpar
              simp only [List.mem_singleton] at hpar
              subst hpar
              obtain ⟨hult, hutok⟩ := hupd par hu
              have hult0 : par < s0.links.size := Nat.lt_of_lt_of_le hult e0.lsize
              obtain ⟨l1, _, _⟩ := hpost0.1.links par hult0
              rw [hv] at hVU
              simp only [GState.same, Bool.and_eq_true, beq_iff_eq] at hVU
              obtain ⟨⟨_, hst'⟩, htokeq⟩ := hVU
              refine ⟨hult0, hst', ?_⟩
              -- equal tokens stand at equal positions
              have hutok0 : (s0.node (s0.link par).head).tok.isSome = true := by
                obtain ⟨l1s, _, _⟩ := hinv.links par hult
                rw [(e0.lsame par hult).1, (e0.same _ l1s).2.2.1]; exact hutok
              cases hta : (s0.node (s0.link par).head).tok with
              | none => rw [hta] at hutok0; simp at hutok0
              | some ta =>
                cases htb : (s0.node fr.node).tok with
                | none => rw [hta, htb] at htokeq; simp [tokEq] at htokeq
                | some tb =>
                  rw [hta, htb] at htokeq
                  simp only [tokEq, Bool.and_eq_true, beq_iff_eq] at htokeq
                  have ha := (hpost0.1.nodes _ l1).tok ta hta
                  have hb := (hpost0.1.nodes _ hfr0.1).tok tb htb
                  rw [← ha.1, ← hb.1]; exact htokeq.1.2
            · rw [if_neg hv] at hPL
              rw [← hPL] at hpar
              exact hparents hpar
        have hrd : RDSpec g T inp consume P head pr.rhs.length (s.node head).st
            (fun sa root kids st en => reduce g T fuel sa head root pid kids st en) := by
          intro sa root kids st en h1 h2 h3 h4 h5 h6 h7 h8 h9 h10
          exact ihR sa head root pid kids st en pr h1 h2 h3 h7 h5 h6 hp h8
            (by obtain ⟨x, hx⟩ := hx; exact ⟨x, by rw [h4]; exact hx⟩) h9 h10
        rw [parentsFold_eq]
        obtain ⟨q1, q2⟩ := parentsFold_ok hrd fr (fr.length - 1) viaUpd rfl plist s0 rest fr.lastP fr.trav
          hpost0.1 hpost0.2.2 hh0 (by rw [ehd0.1]) (by rw [ehd0.2.1]; exact hpos) (by rw [ehd0.2.2.1]; exact htok)
          hfr0 (fun f hf => (hframes f (by simp [hf])).ext e0 hh) hplist
        generalize List.foldl (pfStep (fun sa root kids st en => reduce g T fuel sa head root pid kids st en) fr
          (fr.length - 1) viaUpd) (s0, rest, fr.lastP, fr.trav) plist = r at q1 q2
        have e1 := q1.2.1
        have eall := e0.trans e1
        have ehd := eall.same head hh
        have := ihP r.1 head pid upd r.2.1 pr q1.1 q1.2.2 (Nat.lt_of_lt_of_le hh eall.size)
          (by rw [ehd.2.1]; exact hpos) (by rw [ehd.2.2.1]; exact htok) hp
          (by obtain ⟨x, hx⟩ := hx; exact ⟨x, by rw [ehd.1]; exact hx⟩)
          (by
            intro u hu
            obtain ⟨a1, a2⟩ := hupd u hu
            obtain ⟨l1, _, _⟩ := hinv.links u a1
            refine ⟨Nat.lt_of_lt_of_le a1 eall.lsize, ?_⟩
            rw [(eall.lsame u a1).1, (eall.same _ l1).2.2.1]; exact a2)
          q2
        exact Post.trans hpost0 (Post.trans q1 this)

theorem tokTerm_of_tok {s : GState} {n : Nat} {t : Tok} (h : (s.node n).tok = some t) : s.tokTerm n = t.term := by
  simp [GState.tokTerm, h]

/-- `_actor`. -/
theorem actor_ok (hw : T.wf g = true) (consume : Bool) (P fuel : Nat) (s : GState) (head : Nat)
    (hinv : GInv g T inp consume s) (hap : APos inp s P) (hh : head < s.nodes.size)
    (hpos : inp.skip (s.node head).pos = P) (htok : (s.node head).tok.isSome = true) :
    Post g T inp consume P s (actor g T fuel s head) := by
  unfold actor
  obtain ⟨t, ht⟩ := Option.isSome_iff_exists.mp htok
  rw [tokTerm_of_tok ht]
  have hgen : ∀ (l : List Action), (∀ a ∈ l, a ∈ T.actions (s.node head).st t.term) →
      ∀ acc, Post g T inp consume P s acc →
        Post g T inp consume P s (l.foldl (fun acc a =>
          match a with
          | .shift s' => { acc with forShifter := acc.forShifter ++ [(head, s')] }
          | .reduce p => doReductions g T fuel acc head p none
          | .accept => { acc with accepted := acc.accepted ++ [head] }) acc) := by
    intro l
    induction l with
    | nil => intro _ acc h; exact h
    | cons a l ih =>
      intro hl acc hacc
      simp only [List.foldl_cons]
      apply ih (fun b hb => hl b (by simp [hb]))
      have ha := hl a (by simp)
      obtain ⟨e1, e2, e3, _⟩ := hacc.2.1.same head hh
      have hh' : head < acc.nodes.size := Nat.lt_of_lt_of_le hh hacc.2.1.size
      cases a with
      | shift s' =>
        simp only
        refine Post.trans hacc ⟨hacc.1.graph_eq rfl rfl hacc.1.active hacc.1.forActor ?_ hacc.1.accepted,
          ⟨Nat.le_refl _, fun _ _ => ⟨rfl, rfl, rfl, rfl⟩, Nat.le_refl _, fun _ _ => ⟨rfl, rfl⟩, rfl⟩, hacc.2.2⟩
        intro x hx
        simp only [List.mem_append, List.mem_singleton] at hx
        rcases hx with hx | rfl
        · exact hacc.1.forShifter x hx
        · exact ⟨hh', t, by rw [e3]; exact ht, by rw [e1]; exact ha⟩
      | reduce p =>
        simp only
        refine Post.trans hacc ((reductions_ok hw consume P fuel).2.1 acc head p none hacc.1 hacc.2.2 hh'
          (by rw [e2]; exact hpos) (by rw [e3]; exact htok) ⟨t.term, by rw [e1]; exact ha⟩ (by intro u hu; cases hu))
      | accept =>
        simp only
        refine Post.trans hacc ⟨hacc.1.graph_eq rfl rfl hacc.1.active hacc.1.forActor hacc.1.forShifter ?_,
          ⟨Nat.le_refl _, fun _ _ => ⟨rfl, rfl, rfl, rfl⟩, Nat.le_refl _, fun _ _ => ⟨rfl, rfl⟩, rfl⟩, hacc.2.2⟩
        intro x hx
        simp only [List.mem_append, List.mem_singleton] at hx
        rcases hx with hx | rfl
        · exact hacc.1.accepted x hx
        · exact ⟨hh', t, by rw [e3]; exact ht, by rw [e1]; exact ha⟩
  exact hgen _ (fun a ha => ha) s ⟨hinv, Ext.refl s, hap⟩

/-- The `while for_actor` loop. -/
theorem actorLoop_ok (hw : T.wf g = true) (consume : Bool) (P fuel : Nat) :
    ∀ (n : Nat) (s : GState), GInv g T inp consume s → APos inp s P →
      Post g T inp consume P s (actorLoop g T fuel n s) := by
  intro n
  induction n with
  | zero => intro s h1 h2; exact ⟨h1, Ext.refl s, h2⟩
  | succ n ih =>
    intro s h1 h2
    simp only [actorLoop]
    cases hfa : s.forActor with
    | nil => exact ⟨h1, Ext.refl s, h2⟩
    | cons head rest =>
      simp only
      obtain ⟨hh, htok⟩ := h1.forActor head (by rw [hfa]; simp)
      have hpos := h2.2 head (by rw [hfa]; simp)
      have hp0 : Post g T inp consume P s { s with forActor := rest } := by
        refine ⟨h1.graph_eq rfl rfl h1.active ?_ h1.forShifter h1.accepted,
          ⟨Nat.le_refl _, fun _ _ => ⟨rfl, rfl, rfl, rfl⟩, Nat.le_refl _, fun _ _ => ⟨rfl, rfl⟩, rfl⟩, ?_⟩
        · intro x hx; exact h1.forActor x (by rw [hfa]; simp [hx])
        · exact ⟨h2.1, fun x hx => h2.2 x (by rw [hfa]; simp [hx])⟩
      have hp1 := actor_ok (fuel := fuel) hw consume P { s with forActor := rest } head hp0.1 hp0.2.2 hh hpos htok
      exact Post.trans hp0 (Post.trans hp1 (ih _ hp1.1 hp1.2.2))

/-! ### Shifts -/

theorem mem_insertDesc (s : GState) (x y : Nat × Nat) : ∀ l, y ∈ insertDesc s x l → y = x ∨ y ∈ l := by
  intro l
  induction l with
  | nil => intro h; simp only [insertDesc, List.mem_singleton] at h; exact Or.inl h
  | cons z zs ih =>
    intro h
    simp only [insertDesc] at h
    split at h
    · simp only [List.mem_cons] at h ⊢; exact h
    · simp only [List.mem_cons] at h ⊢
      rcases h with h | h
      · exact Or.inr (Or.inl h)
      · rcases ih h with h | h
        · exact Or.inl h
        · exact Or.inr (Or.inr h)

theorem mem_sortDesc (s : GState) (l : List (Nat × Nat)) : ∀ y ∈ sortDesc s l, y ∈ l := by
  have : ∀ (l : List (Nat × Nat)) (acc : List (Nat × Nat)) y,
      y ∈ l.foldl (fun acc x => insertDesc s x acc) acc → y ∈ acc ∨ y ∈ l := by
    intro l
    induction l with
    | nil => intro acc y h; exact Or.inl h
    | cons x xs ih =>
      intro acc y h
      simp only [List.foldl_cons] at h
      rcases ih _ y h with h | h
      · rcases mem_insertDesc s x y acc h with h | h
        · exact Or.inr (by simp [h])
        · exact Or.inl h
      · exact Or.inr (by simp [h])
  intro y hy
  rcases this l [] y hy with h | h
  · cases h
  · exact h

/-- Shifting the token ahead of a head is replayable. -/
theorem replay_shift (hw : T.wf g = true) {consume : Bool} (hst hpos toState : Nat) (t : Tok)
    (htok : TokOK inp consume hpos t) (hx : Action.shift toState ∈ T.actions hst t.term) :
    Replay g T inp hst hpos toState (hpos + t.len) := by
  intro st r hs htop hskip
  have hn := wf_pos hw
  have hlt : hst < T.n := by rw [← htop]; exact hs.top_lt hn
  obtain ⟨cell, hcellmem, hcell1, hcell2⟩ := actions_mem hx
  have hwf := (wf_state hw hlt).1 cell hcellmem _ hcell2
  simp only at hwf
  obtain ⟨hs'lt, hs'ne, hs'sym, hxne⟩ := hwf
  rw [hcell1] at hs'sym hxne
  obtain ⟨h1, h2, _, h4⟩ := htok
  obtain ⟨hm1, hm2⟩ := h2 hxne
  have hr : inp.skip r = t.s := by rw [hskip, h1]
  refine ⟨.leaf t.term (inp.skip r) (inp.skip r + t.len), inp.skip r + t.len,
    StackD.cons toState _ st r _ hs ?_ ?_ hs'lt hs'ne, ?_⟩
  · rw [hs'sym]
    exact DerivesSeq.tok t.term r t.len _ [] [] (by rw [hr]; exact hm1) hm2 (DerivesSeq.nil _)
  · rw [htop]; exact edge_of_shift hx
  · rw [hskip, h4]

/-- What `createLink` does to the graph. -/
theorem createLink_shape (s : GState) (head root st en : Nat) (poss : List Poss) (hh : head < s.nodes.size)
    (hpl : ∀ i ∈ s.parents head, i < s.links.size) :
    (∃ i, i ∈ s.parents head ∧ (s.node (s.link i).root).pos = (s.node root).pos ∧
      (∀ k, (createLink s head root st en poss).1.node k = s.node k) ∧
      (∀ k, k ≠ i → (createLink s head root st en poss).1.link k = s.link k) ∧
      (createLink s head root st en poss).1.link i = { s.link i with poss := (s.link i).poss ++ poss }) ∨
    ((∀ k, k ≠ head → (createLink s head root st en poss).1.node k = s.node k) ∧
      (createLink s head root st en poss).1.node head =
        { s.node head with plinks := (s.node head).plinks ++ [s.links.size] } ∧
      (∀ k, k < s.links.size → (createLink s head root st en poss).1.link k = s.link k) ∧
      (createLink s head root st en poss).1.link s.links.size =
        { head := head, root := root, s := st, e := en, poss := poss }) := by
  unfold createLink
  simp only
  split
  · rename_i i hfind
    have hmem : i ∈ s.parents head := List.mem_of_find?_eq_some hfind
    have hkey := List.find?_some hfind
    simp only [Bool.and_eq_true, beq_iff_eq] at hkey
    left
    refine ⟨i, hmem, hkey.2, fun k => rfl, ?_, ?_⟩
    · intro k hk; simp only [GState.link]; rw [getD_set_ne _ _ _ _ _ hk]
    · simp only [GState.link]; rw [getD_set_eq _ _ _ _ (hpl i hmem)]
  · right
    simp only
    refine ⟨?_, ?_, ?_, ?_⟩
    · intro k hk; simp only [GState.node]; exact getD_set_ne _ _ _ _ _ hk
    · simp only [GState.node]; exact getD_set_eq _ _ _ _ hh
    · intro k hk; simp only [GState.link]; exact getD_push_lt _ _ _ _ hk
    · simp only [GState.link]; exact getD_push_eq _ _ _

/-- Links into a freshly shifted node: they start where their root stands and hold token edges only. -/
def SNode (s : GState) (n : Nat) : Prop :=
  ∀ i ∈ (s.node n).plinks, (s.link i).s = (s.node (s.link i).root).pos ∧
    ∀ p ∈ (s.link i).poss, ∃ a e0, p = Poss.term a (s.link i).s e0

theorem createLink_snode {consume : Bool} (s : GState) (hinv : GInv g T inp consume s) (sh hd a b : Nat)
    (ps : List Poss) (hsh : sh < s.nodes.size) (hS : SNode s sh)
    (hps : ∀ p ∈ ps, ∃ t e0, p = Poss.term t a e0) (ha : a = (s.node hd).pos) :
    (∀ n, n < s.nodes.size → SNode s n → SNode (createLink s sh hd a b ps).1 n) ∧
      ((createLink s sh hd a b ps).1.node sh).plinks ≠ [] ∧
      (∀ n, n ≠ sh → ((createLink s sh hd a b ps).1.node n).plinks = (s.node n).plinks) := by
  have hpl : ∀ i ∈ s.parents sh, i < s.links.size := fun i hi => (hinv.plinks sh hsh i hi).1
  rcases createLink_shape s sh hd a b ps hsh hpl with ⟨i, hi, hpos, hnode, hlo, hli⟩ | ⟨hno, hnh, hlo, hln⟩
  · refine ⟨?_, ?_, ?_⟩
    · intro n hn hSn l hl
      rw [hnode] at hl
      obtain ⟨q1, q2⟩ := hSn l hl
      by_cases hli' : l = i
      · subst hli'
        rw [hli, hnode]
        refine ⟨q1, ?_⟩
        intro p hp
        simp only [List.mem_append] at hp
        rcases hp with hp | hp
        · exact q2 p hp
        · obtain ⟨t, e0, rfl⟩ := hps p hp
          refine ⟨t, e0, ?_⟩
          have := (hS l hi).1
          show Poss.term t a e0 = Poss.term t (s.link l).s e0
          rw [this, hpos, ha]
      · rw [hlo l hli', hnode]; exact ⟨q1, q2⟩
    · rw [hnode]; intro he; simp only [GState.parents] at hi; rw [he] at hi; cases hi
    · intro n _; rw [hnode]
  · have hnodepos : ∀ k, ((createLink s sh hd a b ps).1.node k).pos = (s.node k).pos := by
      intro k
      by_cases hk : k = sh
      · subst hk; rw [hnh]
      · rw [hno k hk]
    refine ⟨?_, ?_, ?_⟩
    · intro n hn hSn l hl
      have hcases : l ∈ (s.node n).plinks ∨ (n = sh ∧ l = s.links.size) := by
        by_cases hk : n = sh
        · subst hk
          rw [hnh] at hl
          simp only [List.mem_append, List.mem_singleton] at hl
          rcases hl with hl | hl
          · exact Or.inl hl
          · exact Or.inr ⟨rfl, hl⟩
        · rw [hno n hk] at hl; exact Or.inl hl
      rcases hcases with hl' | ⟨_, rfl⟩
      · obtain ⟨q1, q2⟩ := hSn l hl'
        rw [hlo l (hinv.plinks n hn l hl').1, hnodepos]
        exact ⟨q1, q2⟩
      · rw [hln, hnodepos]
        exact ⟨ha, fun p hp => hps p hp⟩
    · rw [hnh]; simp
    · intro n hn; rw [hno n hn]

/-- One iteration of the shift loop. -/
def shiftStep (acc : GState) (hs : Nat × Nat) : GState :=
  let (head, toState) := hs
  let H := acc.node head
  let tend := tokEnd acc head
  let term := acc.tokTerm head
  match acc.headActive toState with
  | some sh =>
    let first := acc.link (((acc.node sh).plinks).headD 0)
    if first.s == H.pos then (createLink acc sh head first.s first.e first.poss).1
    else (createLink acc sh head H.pos tend [Poss.term term H.pos tend]).1
  | none =>
    let sh := acc.nodes.size
    let acc1 := { acc with nodes := acc.nodes.push { st := toState, fr := H.fr + 1, pos := tend },
                           active := acc.active ++ [(toState, sh)] }
    (createLink acc1 sh head H.pos tend [Poss.term term H.pos tend]).1

theorem doShifts_eq (s : GState) : doShifts s =
    (match (sortDesc s s.forShifter).getLast? with
    | none => { s with active := [], forShifter := [] }
    | some last =>
      ((sortDesc s s.forShifter).filter (fun x => tokEnd s x.1 == tokEnd s last.1)).reverse.foldl shiftStep
        { s with active := [],
                 forShifter := (sortDesc s s.forShifter).filter (fun x => tokEnd s x.1 != tokEnd s last.1) }) := rfl

/-- Invariant of the shift loop: every head shifted so far has links, all of them shift links. -/
def SInv (s : GState) : Prop := ∀ x ∈ s.active, (s.node x.2).plinks ≠ [] ∧ SNode s x.2

theorem shiftStep_ok (hw : T.wf g = true) {consume : Bool} (acc : GState) (head toState E : Nat) (t : Tok)
    (hinv : GInv g T inp consume acc) (hh : head < acc.nodes.size) (ht : (acc.node head).tok = some t)
    (hx : Action.shift toState ∈ T.actions (acc.node head).st t.term) (hE : (acc.node head).pos + t.len = E)
    (hact : ∀ x ∈ acc.active, (acc.node x.2).pos = E) (hS : SInv acc) :
    GInv g T inp consume (shiftStep acc (head, toState)) ∧ Ext acc (shiftStep acc (head, toState)) ∧
      (∀ x ∈ (shiftStep acc (head, toState)).active, ((shiftStep acc (head, toState)).node x.2).pos = E) ∧
      SInv (shiftStep acc (head, toState)) := by
  have hn := wf_pos hw
  have hN := hinv.nodes head hh
  have hTok := hN.tok t ht
  have hrep0 : Replay g T inp (acc.node head).st (acc.node head).pos toState E := by
    rw [← hE]; exact replay_shift hw _ _ _ t hTok hx
  have htend : tokEnd acc head = E := by simp only [tokEnd, ht]; exact hE
  -- the shift action, by well-formedness
  have hhlt : (acc.node head).st < T.n := by
    obtain ⟨st0, r0, hs0, ht0, _⟩ := hN.reach
    rw [← ht0]; exact hs0.top_lt hn
  obtain ⟨cell, hcellmem, hcell1, hcell2⟩ := actions_mem hx
  have hwf := (wf_state hw hhlt).1 cell hcellmem _ hcell2
  simp only at hwf
  obtain ⟨_, _, hsymT, hneS⟩ := hwf
  rw [hcell1] at hsymT hneS
  obtain ⟨k1, k2, _, k4⟩ := hTok
  obtain ⟨hm1, hm2⟩ := k2 hneS
  have hts : t.s = (acc.node head).pos := by rw [k1, k4]
  -- the fresh possibility
  have hterm : ∀ (S : GState) (n : Nat), (S.node head).st = (acc.node head).st →
      (S.node head).pos = (acc.node head).pos → (S.node n).st = toState → (S.node n).pos = E →
      PossOK g T inp S n head (Poss.term (acc.tokTerm head) (acc.node head).pos (tokEnd acc head)) := by
    intro S n e1 e2 e3 e4
    rw [tokTerm_of_tok ht]
    refine ⟨by rw [e1, e3]; exact hx, by rw [e2]; exact k4.symm, ⟨t.len, by rw [← hts]; exact hm1, hm2, ?_⟩, ?_⟩
    · rw [htend, ← hE]
    · rw [e4, htend]
  simp only [shiftStep]
  cases hsh : acc.headActive toState with
  | some sh =>
    simp only
    have hmem := mem_of_headActive hsh
    obtain ⟨hshlt, hshst⟩ := hinv.active _ hmem
    have hshpos := hact _ hmem
    obtain ⟨hshne, hshS⟩ := hS _ hmem
    simp only at hshlt hshst hshpos hshne hshS
    have hrep : Replay g T inp (acc.node head).st (acc.node head).pos (acc.node sh).st (acc.node sh).pos := by
      rw [hshst, hshpos]; exact hrep0
    have fin : ∀ a b c, (∀ p ∈ c, PossOK g T inp acc sh head p) → (∀ p ∈ c, ∃ t' e0, p = Poss.term t' a e0) →
        a = (acc.node head).pos →
        GInv g T inp consume (createLink acc sh head a b c).1 ∧ Ext acc (createLink acc sh head a b c).1 ∧
        (∀ x ∈ (createLink acc sh head a b c).1.active, ((createLink acc sh head a b c).1.node x.2).pos = E) ∧
        SInv (createLink acc sh head a b c).1 := by
      intro a b c hc1 hc2 hc3
      obtain ⟨c1, c2, _, _, _, c6, _⟩ := createLink_ok acc hinv sh head a b c hshlt hh hrep hc1
      obtain ⟨d1, d2, d3⟩ := createLink_snode acc hinv sh head a b c hshlt hshS hc2 hc3
      refine ⟨c1, c2, ?_, ?_⟩
      · intro x hx'
        rw [c6] at hx'
        rw [(c2.same x.2 (hinv.active x hx').1).2.1]
        exact hact x hx'
      · intro x hx'
        rw [c6] at hx'
        obtain ⟨q1, q2⟩ := hS x hx'
        refine ⟨?_, d1 x.2 (hinv.active x hx').1 q2⟩
        by_cases hxs : x.2 = sh
        · rw [hxs]; exact d2
        · rw [d3 x.2 hxs]; exact q1
    split
    · -- a further link into an already shifted head: the first link's token edges are reused
      rename_i hfs
      simp only [beq_iff_eq] at hfs
      obtain ⟨l0, hl0mem, hl0eq⟩ : ∃ l0, l0 ∈ (acc.node sh).plinks ∧ (acc.node sh).plinks.headD 0 = l0 := by
        cases hpl : (acc.node sh).plinks with
        | nil => exact absurd hpl hshne
        | cons a rest => exact ⟨a, by simp, rfl⟩
      rw [hl0eq] at hfs ⊢
      obtain ⟨s1, s2⟩ := hshS l0 hl0mem
      obtain ⟨m1, m2, m3⟩ := hinv.plinks sh hshlt l0 hl0mem
      obtain ⟨n1, n2, _⟩ := hinv.links l0 m1
      apply fin
      · intro p hp
        obtain ⟨a0, e0, rfl⟩ := s2 p hp
        obtain ⟨w1, w2, w3, w4⟩ := hinv.poss l0 m1 _ hp
        -- the terminal is the head's token symbol
        have hrlt : (acc.node (acc.link l0).root).st < T.n := by
          obtain ⟨st0, r0, hs0, ht0, _⟩ := (hinv.nodes _ n2).reach
          rw [← ht0]; exact hs0.top_lt hn
        obtain ⟨cell', hcm', hc1', hc2'⟩ := actions_mem w1
        have hwf' := (wf_state hw hrlt).1 cell' hcm' _ hc2'
        simp only at hwf'
        obtain ⟨_, _, hsym', _⟩ := hwf'
        rw [hc1', m2, hshst, hsymT] at hsym'
        have ha0 : a0 = t.term := by injection hsym' with h; exact h.symm
        refine ⟨?_, ?_, w3, ?_⟩
        · rw [hshst, ha0]; exact hx
        · rw [hfs]; exact k4.symm
        · rw [← m3]; exact w4
      · intro p hp
        obtain ⟨a0, e0, rfl⟩ := s2 p hp
        exact ⟨a0, e0, rfl⟩
      · exact hfs
    · apply fin
      · intro p hp
        simp only [List.mem_singleton] at hp
        subst hp
        exact hterm acc sh rfl rfl hshst hshpos
      · intro p hp
        simp only [List.mem_singleton] at hp
        exact ⟨_, _, hp⟩
      · rfl
  | none =>
    simp only
    let x : GNode := { st := toState, fr := (acc.node head).fr + 1, pos := tokEnd acc head }
    have hxok : NodeOK g T inp consume x := by
      refine ⟨?_, by intro t' h; cases h⟩
      obtain ⟨st0, r0, hs0, ht0, hp0⟩ := hN.reach
      obtain ⟨tr, r', hs', hp'⟩ := hrep0 st0 r0 hs0 ht0 hp0
      exact ⟨_, r', hs', by simp [topOf, x], by rw [hp']; simp [x, htend]⟩
    obtain ⟨p1, p2, p3⟩ := pushNode_ok acc hinv x hxok rfl
    have hnodeO0 : ∀ k, k < acc.nodes.size → ({ acc with nodes := acc.nodes.push x } : GState).node k = acc.node k := by
      intro k hk; simp only [GState.node]; exact getD_push_lt _ _ _ _ hk
    generalize hs1 : ({ acc with nodes := acc.nodes.push x } : GState) = sP at p1 p2 p3 hnodeO0
    have hact1 : sP.active = acc.active := by rw [← hs1]
    have hlinkP : ∀ k, sP.link k = acc.link k := by intro k; rw [← hs1]; rfl
    have hszP : acc.nodes.size < sP.nodes.size := by rw [← hs1]; simp
    have hinv1 : GInv g T inp consume { sP with active := acc.active ++ [(toState, acc.nodes.size)] } := by
      refine p1.graph_eq rfl rfl ?_ p1.forActor p1.forShifter p1.accepted
      intro y hy
      simp only [List.mem_append, List.mem_singleton] at hy
      rcases hy with hy | rfl
      · exact p1.active y (by rw [hact1]; exact hy)
      · exact ⟨hszP, by rw [p3]⟩
    have hgoal : ({ acc with nodes := acc.nodes.push { st := toState, fr := (acc.node head).fr + 1, pos := tokEnd acc head }, active := acc.active ++ [(toState, acc.nodes.size)] } : GState) =
        { sP with active := acc.active ++ [(toState, acc.nodes.size)] } := by rw [← hs1]
    rw [hgoal]
    generalize hs2 : ({ sP with active := acc.active ++ [(toState, acc.nodes.size)] } : GState) = s1 at hinv1
    have hnode1 : ∀ i, s1.node i = sP.node i := by intro i; rw [← hs2]; rfl
    have hlink1 : ∀ i, s1.link i = acc.link i := by intro i; rw [← hs2]; exact hlinkP i
    have hsz1 : s1.nodes.size = sP.nodes.size := by rw [← hs2]
    have hact2 : s1.active = acc.active ++ [(toState, acc.nodes.size)] := by rw [← hs2]
    have hext1 : Ext acc s1 := by
      refine ⟨by rw [hsz1]; exact p2.size, fun i hi => by rw [hnode1]; exact p2.same i hi, ?_, ?_, ?_⟩
      · rw [← hs2]; exact p2.lsize
      · intro i hi; rw [← hs2]; exact p2.lsame i hi
      · rw [← hs2]; exact p2.crash
    have hrep1 : Replay g T inp (s1.node head).st (s1.node head).pos (s1.node acc.nodes.size).st
        (s1.node acc.nodes.size).pos := by
      rw [(hext1.same head hh).1, (hext1.same head hh).2.1, hnode1, p3]
      show Replay g T inp _ _ toState (tokEnd acc head)
      rw [htend]; exact hrep0
    have hnhlt : acc.nodes.size < s1.nodes.size := by rw [hsz1]; exact hszP
    -- shift-link shape of the old heads and (vacuously) of the new one
    have hSold : ∀ n, n < acc.nodes.size → SNode acc n → SNode s1 n := by
      intro n hn' hSn l hl
      rw [hnode1, hnodeO0 n hn'] at hl
      obtain ⟨q1, q2⟩ := hSn l hl
      obtain ⟨m1, _, _⟩ := hinv.plinks n hn' l hl
      obtain ⟨_, n2, _⟩ := hinv.links l m1
      rw [hlink1, hnode1, hnodeO0 _ n2]
      exact ⟨q1, q2⟩
    have hSnew : SNode s1 acc.nodes.size := by
      intro l hl
      rw [hnode1, p3] at hl
      cases hl
    obtain ⟨c1, c2, _, _, _, c6, _⟩ := createLink_ok s1 hinv1 acc.nodes.size head (acc.node head).pos
      (tokEnd acc head) [Poss.term (acc.tokTerm head) (acc.node head).pos (tokEnd acc head)]
      hnhlt (Nat.lt_of_lt_of_le hh hext1.size) hrep1
      (by
        intro p hp
        simp only [List.mem_singleton] at hp
        subst hp
        exact hterm s1 acc.nodes.size (hext1.same head hh).1 (hext1.same head hh).2.1
          (by rw [hnode1, p3]) (by rw [hnode1, p3]; exact htend))
    obtain ⟨d1, d2, d3⟩ := createLink_snode s1 hinv1 acc.nodes.size head (acc.node head).pos
      (tokEnd acc head) [Poss.term (acc.tokTerm head) (acc.node head).pos (tokEnd acc head)]
      hnhlt hSnew (by intro p hp; simp only [List.mem_singleton] at hp; exact ⟨_, _, hp⟩)
      (hext1.same head hh).2.1.symm
    refine ⟨c1, hext1.trans c2, ?_, ?_⟩
    · intro y hy
      rw [c6, hact2] at hy
      simp only [List.mem_append, List.mem_singleton] at hy
      rcases hy with hy | rfl
      · have hy1 := (hinv.active y hy).1
        rw [((hext1.trans c2).same y.2 hy1).2.1]; exact hact y hy
      · show ((createLink s1 _ _ _ _ _).1.node acc.nodes.size).pos = E
        rw [(c2.same acc.nodes.size hnhlt).2.1, hnode1, p3]
        exact htend
    · intro y hy
      rw [c6, hact2] at hy
      simp only [List.mem_append, List.mem_singleton] at hy
      rcases hy with hy | rfl
      · have hy1 := (hinv.active y hy).1
        obtain ⟨q1, q2⟩ := hS y hy
        refine ⟨?_, d1 y.2 (Nat.lt_of_lt_of_le hy1 hext1.size) (hSold y.2 hy1 q2)⟩
        rw [d3 y.2 (by omega), hnode1, hnodeO0 y.2 hy1]; exact q1
      · exact ⟨d2, d1 _ hnhlt hSnew⟩

/-- `_do_shifts`. -/
theorem doShifts_ok (hw : T.wf g = true) {consume : Bool} (s : GState) (hinv : GInv g T inp consume s) :
    GInv g T inp consume (doShifts s) ∧
      (∃ E, ∀ x ∈ (doShifts s).active, ((doShifts s).node x.2).pos = E) ∧ (doShifts s).crash = s.crash := by
  rw [doShifts_eq]
  cases hl : (sortDesc s s.forShifter).getLast? with
  | none =>
    simp only
    refine ⟨hinv.graph_eq rfl rfl (by intro x hx; cases hx) hinv.forActor (by intro x hx; cases hx) hinv.accepted,
      ⟨0, by intro x hx; cases hx⟩, ?_⟩
    first | rfl | trivial
  | some last =>
    simp only
    generalize hE : tokEnd s last.1 = E
    have hgen : ∀ (l : List (Nat × Nat)), (∀ y ∈ l, y ∈ s.forShifter ∧ tokEnd s y.1 = E) →
        ∀ acc, GInv g T inp consume acc → Ext s acc → (∀ x ∈ acc.active, (acc.node x.2).pos = E) → SInv acc →
          GInv g T inp consume (l.foldl shiftStep acc) ∧
            (∀ x ∈ (l.foldl shiftStep acc).active, ((l.foldl shiftStep acc).node x.2).pos = E) ∧
            (l.foldl shiftStep acc).crash = s.crash := by
      intro l
      induction l with
      | nil => intro _ acc h1 h2 h3 _; exact ⟨h1, h3, h2.crash⟩
      | cons y l ih =>
        intro hl' acc h1 h2 h3 h4
        simp only [List.foldl_cons]
        obtain ⟨hy1, hy2⟩ := hl' y (by simp)
        obtain ⟨hh, t, ht, hx⟩ := hinv.forShifter y hy1
        obtain ⟨e1, e2, e3, _⟩ := h2.same y.1 hh
        have hEy : (s.node y.1).pos + t.len = E := by
          simp only [tokEnd, ht] at hy2; exact hy2
        obtain ⟨q1, q2, q3, q4⟩ := shiftStep_ok hw acc y.1 y.2 E t h1 (Nat.lt_of_lt_of_le hh h2.size)
          (by rw [e3]; exact ht) (by rw [e1]; exact hx) (by rw [e2]; exact hEy) h3 h4
        exact ih (fun z hz => hl' z (by simp [hz])) _ q1 (h2.trans q2) q3 q4
    have hres := hgen ((sortDesc s s.forShifter).filter (fun x => tokEnd s x.1 == E)).reverse
      (by
        intro y hy
        simp only [List.mem_reverse, List.mem_filter, beq_iff_eq] at hy
        exact ⟨mem_sortDesc s _ y hy.1, hy.2⟩)
      { s with active := [], forShifter := (sortDesc s s.forShifter).filter (fun x => tokEnd s x.1 != E) }
      (hinv.graph_eq rfl rfl (by intro x hx; cases hx) hinv.forActor
        (by
          intro x hx
          simp only [List.mem_filter] at hx
          exact hinv.forShifter x (mem_sortDesc s _ x hx.1)) hinv.accepted)
      ⟨Nat.le_refl _, fun _ _ => ⟨rfl, rfl, rfl, rfl⟩, Nat.le_refl _, fun _ _ => ⟨rfl, rfl⟩, rfl⟩
      (by intro x hx; cases hx) (by intro x hx; cases hx)
    exact ⟨hres.1, ⟨E, hres.2.1⟩, hres.2.2⟩

/-! ### Lookaheads -/

theorem replay_congr {a a' b b' rs hs : Nat} (e1 : inp.skip a = inp.skip a') (e2 : inp.skip b = inp.skip b')
    (h : Replay g T inp rs a hs b) : Replay g T inp rs a' hs b' := by
  intro st r h1 h2 h3
  obtain ⟨t, r', q1, q2⟩ := h st r h1 h2 (h3.trans e1.symm)
  exact ⟨t, r', q1, q2.trans e2⟩

/-- What `_find_lookaheads` does to the graph: nodes are added (clones) and moved over layout or given
a token when they had none; states, positions up to layout, tokens already set and links stay. -/
structure Upd (inp : Input) (s s' : GState) : Prop where
  links : s'.links = s.links
  size : s.nodes.size ≤ s'.nodes.size
  old : ∀ i, i < s.nodes.size → (s'.node i).st = (s.node i).st ∧
    inp.skip (s'.node i).pos = inp.skip (s.node i).pos ∧ (∀ t, (s.node i).tok = some t → (s'.node i).tok = some t)
  src : ∀ n, n < s'.nodes.size → ∃ m, m < s.nodes.size ∧ (s'.node n).plinks = (s.node m).plinks ∧
    (s'.node n).st = (s.node m).st ∧ inp.skip (s'.node n).pos = inp.skip (s.node m).pos
  crash : s'.crash = s.crash

theorem Upd.refl (s : GState) : Upd inp s s :=
  ⟨rfl, Nat.le_refl _, fun _ _ => ⟨rfl, rfl, fun _ h => h⟩, fun n hn => ⟨n, hn, rfl, rfl, rfl⟩, rfl⟩

theorem Upd.trans {a b c : GState} (h1 : Upd inp a b) (h2 : Upd inp b c) : Upd inp a c := by
  refine ⟨h2.links.trans h1.links, Nat.le_trans h1.size h2.size, ?_, ?_, h2.crash.trans h1.crash⟩
  · intro i hi
    obtain ⟨a1, a2, a3⟩ := h1.old i hi
    obtain ⟨b1, b2, b3⟩ := h2.old i (Nat.lt_of_lt_of_le hi h1.size)
    exact ⟨b1.trans a1, b2.trans a2, fun t ht => b3 t (a3 t ht)⟩
  · intro n hn
    obtain ⟨m, hm, b1, b2, b3⟩ := h2.src n hn
    obtain ⟨k, hk, a1, a2, a3⟩ := h1.src m hm
    exact ⟨k, hk, b1.trans a1, b2.trans a2, b3.trans a3⟩

theorem GInv.upd {consume : Bool} {s s' : GState} (h : GInv g T inp consume s) (hu : Upd inp s s')
    (hn : ∀ i, i < s'.nodes.size → NodeOK g T inp consume (s'.node i))
    (ha : s'.active = s.active) (hf : s'.forActor = s.forActor) (hs : s'.forShifter = s.forShifter)
    (hc : s'.accepted = s.accepted) : GInv g T inp consume s' := by
  have hlink : ∀ i, s'.link i = s.link i := by intro i; simp [GState.link, hu.links]
  have hsame : Same inp s s' := ⟨hu.size, fun i hi => ⟨(hu.old i hi).1, (hu.old i hi).2.1⟩,
    by rw [hu.links]; exact Nat.le_refl _, fun i _ => by rw [hlink]; exact ⟨rfl, rfl⟩⟩
  have hP : ∀ k, k < s'.links.size → ∀ p ∈ (s'.link k).poss, PossOK g T inp s' (s'.link k).head (s'.link k).root p := by
    intro k hk p hp
    rw [hu.links] at hk
    rw [hlink] at hp ⊢
    obtain ⟨l1, l2, _⟩ := h.links k hk
    exact (h.poss k hk p hp).same hsame l1 l2
  refine ⟨hn, ?_, ?_, ?_, ?_, ?_, ?_, hP⟩
  · intro i hi
    rw [hu.links] at hi
    obtain ⟨l1, l2, l3⟩ := h.links i hi
    rw [hlink]
    obtain ⟨a1, a2, _⟩ := hu.old _ l1
    obtain ⟨b1, b2, _⟩ := hu.old _ l2
    refine ⟨Nat.lt_of_lt_of_le l1 hu.size, Nat.lt_of_lt_of_le l2 hu.size, ?_⟩
    rw [a1, b1]
    exact replay_congr b2.symm a2.symm l3
  · intro n hn' l hl
    obtain ⟨m, hm, e1, e2, e3⟩ := hu.src n hn'
    rw [e1] at hl
    obtain ⟨c1, c2, c3⟩ := h.plinks m hm l hl
    obtain ⟨l1, _, _⟩ := h.links l c1
    obtain ⟨a1, a2, _⟩ := hu.old _ l1
    rw [hlink, hu.links]
    exact ⟨c1, by rw [a1, e2]; exact c2, by rw [a2, e3]; exact c3⟩
  · intro x hx
    rw [ha] at hx
    obtain ⟨d1, d2⟩ := h.active x hx
    exact ⟨Nat.lt_of_lt_of_le d1 hu.size, by rw [(hu.old _ d1).1]; exact d2⟩
  · intro x hx
    rw [hf] at hx
    obtain ⟨d1, d2⟩ := h.forActor x hx
    obtain ⟨t, ht⟩ := Option.isSome_iff_exists.mp d2
    exact ⟨Nat.lt_of_lt_of_le d1 hu.size, by rw [(hu.old _ d1).2.2 t ht]; rfl⟩
  · intro x hx
    rw [hs] at hx
    obtain ⟨d1, t, ht, d2⟩ := h.forShifter x hx
    exact ⟨Nat.lt_of_lt_of_le d1 hu.size, t, (hu.old _ d1).2.2 t ht, by rw [(hu.old _ d1).1]; exact d2⟩
  · intro x hx
    rw [hc] at hx
    obtain ⟨d1, t, ht, d2⟩ := h.accepted x hx
    exact ⟨Nat.lt_of_lt_of_le d1 hu.size, t, (hu.old _ d1).2.2 t ht, by rw [(hu.old _ d1).1]; exact d2⟩

/-- Replacing a node by one with the same state, position up to layout, parents and (if set) token. -/
theorem setNode_ok {consume : Bool} (s : GState) (hinv : GInv g T inp consume s) (k : Nat) (hk : k < s.nodes.size)
    (x : GNode) (h1 : x.st = (s.node k).st) (h2 : inp.skip x.pos = inp.skip (s.node k).pos)
    (h3 : x.plinks = (s.node k).plinks) (h4 : ∀ t, (s.node k).tok = some t → x.tok = some t)
    (hx : NodeOK g T inp consume x) :
    GInv g T inp consume { s with nodes := s.nodes.setIfInBounds k x } ∧
      Upd inp s { s with nodes := s.nodes.setIfInBounds k x } ∧
      ({ s with nodes := s.nodes.setIfInBounds k x } : GState).node k = x ∧
      ({ s with nodes := s.nodes.setIfInBounds k x } : GState).nodes.size = s.nodes.size := by
  let s' : GState := { s with nodes := s.nodes.setIfInBounds k x }
  have hsz : s'.nodes.size = s.nodes.size := by simp [s']
  have hnk : s'.node k = x := by simp only [s', GState.node]; exact getD_set_eq _ _ _ _ hk
  have hno : ∀ i, i ≠ k → s'.node i = s.node i := by
    intro i hi; simp only [s', GState.node]; exact getD_set_ne _ _ _ _ _ hi
  have hu : Upd inp s s' := by
    refine ⟨rfl, by rw [hsz]; exact Nat.le_refl _, ?_, ?_, rfl⟩
    · intro i _
      by_cases hik : i = k
      · subst hik; rw [hnk]; exact ⟨h1, h2, h4⟩
      · rw [hno i hik]; exact ⟨rfl, rfl, fun _ h => h⟩
    · intro n hn
      rw [hsz] at hn
      refine ⟨n, hn, ?_⟩
      by_cases hnk' : n = k
      · subst hnk'; rw [hnk]; exact ⟨h3, h1, h2⟩
      · rw [hno n hnk']; exact ⟨rfl, rfl, rfl⟩
  refine ⟨hinv.upd hu ?_ rfl rfl rfl rfl, hu, hnk, hsz⟩
  intro i hi
  by_cases hik : i = k
  · subst hik; rw [hnk]; exact hx
  · rw [hno i hik]; exact hinv.nodes i (by rw [← hsz]; exact hi)

/-- Adding a clone of a node. -/
theorem pushClone_ok {consume : Bool} (s : GState) (hinv : GInv g T inp consume s) (k : Nat) (hk : k < s.nodes.size)
    (x : GNode) (h1 : x.st = (s.node k).st) (h2 : inp.skip x.pos = inp.skip (s.node k).pos)
    (h3 : x.plinks = (s.node k).plinks) (hx : NodeOK g T inp consume x) :
    GInv g T inp consume { s with nodes := s.nodes.push x } ∧ Upd inp s { s with nodes := s.nodes.push x } ∧
      ({ s with nodes := s.nodes.push x } : GState).node s.nodes.size = x ∧
      ({ s with nodes := s.nodes.push x } : GState).nodes.size = s.nodes.size + 1 := by
  let s' : GState := { s with nodes := s.nodes.push x }
  have hsz : s'.nodes.size = s.nodes.size + 1 := by simp [s']
  have hnodeO : ∀ i, i < s.nodes.size → s'.node i = s.node i := by
    intro i hi; simp only [s', GState.node]; exact getD_push_lt _ _ _ _ hi
  have hnodeN : s'.node s.nodes.size = x := by simp only [s', GState.node]; exact getD_push_eq _ _ _
  have hu : Upd inp s s' := by
    refine ⟨rfl, by rw [hsz]; omega, ?_, ?_, rfl⟩
    · intro i hi; rw [hnodeO i hi]; exact ⟨rfl, rfl, fun _ h => h⟩
    · intro n hn
      rw [hsz] at hn
      by_cases hnn : n < s.nodes.size
      · exact ⟨n, hnn, by rw [hnodeO n hnn]; exact ⟨rfl, rfl, rfl⟩⟩
      · have : n = s.nodes.size := by omega
        subst this
        exact ⟨k, hk, by rw [hnodeN]; exact ⟨h3, h1, h2⟩⟩
  refine ⟨hinv.upd hu ?_ rfl rfl rfl rfl, hu, hnodeN, hsz⟩
  intro i hi
  rw [hsz] at hi
  by_cases hnn : i < s.nodes.size
  · rw [hnodeO i hnn]; exact hinv.nodes i hnn
  · have : i = s.nodes.size := by omega
    subst this
    rw [hnodeN]; exact hx

/-- The heads collected per token symbol. -/
def HeadsOK (inp : Input) (s : GState) (P : Nat) (ps : List (Nat × List (Nat × Nat))) : Prop :=
  ∀ e ∈ ps, ∀ h ∈ e.2, h.2 < s.nodes.size ∧ (s.node h.2).st = h.1 ∧ inp.skip (s.node h.2).pos = P ∧
    (s.node h.2).tok.isSome = true

theorem HeadsOK.upd {s s' : GState} {P : Nat} {ps : List (Nat × List (Nat × Nat))} (h : HeadsOK inp s P ps)
    (hu : Upd inp s s') : HeadsOK inp s' P ps := by
  intro e he x hx
  obtain ⟨d1, d2, d3, d4⟩ := h e he x hx
  obtain ⟨a1, a2, a3⟩ := hu.old _ d1
  obtain ⟨t, ht⟩ := Option.isSome_iff_exists.mp d4
  exact ⟨Nat.lt_of_lt_of_le d1 hu.size, by rw [a1]; exact d2, by rw [a2]; exact d3, by rw [a3 t ht]; rfl⟩

theorem HeadsOK.ext {s s' : GState} {P : Nat} {ps : List (Nat × List (Nat × Nat))} (h : HeadsOK inp s P ps)
    (hu : Ext s s') : HeadsOK inp s' P ps := by
  intro e he x hx
  obtain ⟨d1, d2, d3, d4⟩ := h e he x hx
  obtain ⟨a1, a2, a3, _⟩ := hu.same _ d1
  exact ⟨Nat.lt_of_lt_of_le d1 hu.size, by rw [a1]; exact d2, by rw [a2]; exact d3, by rw [a3]; exact d4⟩

/-- The per-symbol dictionary update. -/
def psUpd (ps : List (Nat × List (Nat × Nat))) (term st c : Nat) : List (Nat × List (Nat × Nat)) :=
  match ps.find? (fun e => e.1 == term) with
  | some _ => ps.map (fun e => if e.1 == term then
      (e.1, if e.2.any (fun h => h.1 == st)
            then e.2.map (fun h => if h.1 == st then (st, c) else h)
            else e.2 ++ [(st, c)]) else e)
  | none => ps ++ [(term, [(st, c)])]

theorem mem_psUpd (ps : List (Nat × List (Nat × Nat))) (term st c : Nat) :
    ∀ e' ∈ psUpd ps term st c, ∀ h ∈ e'.2, h = (st, c) ∨ ∃ e ∈ ps, h ∈ e.2 := by
  intro e' he' h hh
  unfold psUpd at he'
  split at he'
  · simp only [List.mem_map] at he'
    obtain ⟨e, he, rfl⟩ := he'
    split at hh
    · simp only at hh
      split at hh
      · simp only [List.mem_map] at hh
        obtain ⟨h0, hh0, rfl⟩ := hh
        split
        · exact Or.inl rfl
        · exact Or.inr ⟨e, he, hh0⟩
      · simp only [List.mem_append, List.mem_singleton] at hh
        rcases hh with hh | hh
        · exact Or.inr ⟨e, he, hh⟩
        · exact Or.inl hh
    · exact Or.inr ⟨e, he, hh⟩
  · simp only [List.mem_append, List.mem_singleton] at he'
    rcases he' with he' | rfl
    · exact Or.inr ⟨e', he', hh⟩
    · simp only [List.mem_singleton] at hh
      exact Or.inl hh

/-- One token of one head. -/
def laInner (st : Nat) (a : GState × Nat × List (Nat × List (Nat × Nat))) (tok : Tok) :
    GState × Nat × List (Nat × List (Nat × Nat)) :=
  let (sc, cur, ps) := a
  let C := sc.node cur
  let (sd, cur') := match C.tok with
    | none => ({ sc with nodes := sc.nodes.setIfInBounds cur { C with tok := some tok } }, cur)
    | some t0 =>
      if tokEq (some t0) (some tok) then (sc, cur)
      else ({ sc with nodes := sc.nodes.push { C with tok := some tok } }, sc.nodes.size)
  (sd, cur', psUpd ps tok.term st cur')

/-- One head. -/
def laOuter (T : Table) (inp : Input) (consume lexDis : Bool) (acc : GState × List (Nat × List (Nat × Nat)))
    (x : Nat × Nat) : GState × List (Nat × List (Nat × Nat)) :=
  let (sa, perSym) := acc
  let (st, node) := x
  let N := sa.node node
  let p2 := inp.skip N.pos
  let sa := { sa with nodes := sa.nodes.setIfInBounds node { N with pos := p2 } }
  let toks := (nextTokens T inp consume lexDis st p2).reverse
  let r := toks.foldl (laInner st) (sa, node, perSym)
  (r.1, r.2.2)

theorem findLookaheads_eq (T : Table) (inp : Input) (consume lexDis : Bool) (s : GState) :
    findLookaheads T inp consume lexDis s =
      s.active.reverse.foldl (laOuter T inp consume lexDis) ({ s with active := [] }, []) := rfl

/-- What the scanner guarantees about a token found at `P`. -/
def ScanOK (inp : Input) (consume : Bool) (P : Nat) (tok : Tok) : Prop :=
  tok.s = P ∧ (tok.term ≠ STOP → inp.mlen tok.term P = some tok.len ∧ 0 < tok.len) ∧
    (tok.term = STOP → consume = true → P = inp.len)

theorem tokOK_of_scan {consume : Bool} {P : Nat} {tok : Tok} (hP : inp.skip P = P) (h : ScanOK inp consume P tok) :
    TokOK inp consume P tok := by
  obtain ⟨h1, h2, h3⟩ := h
  refine ⟨by rw [hP]; exact h1, ?_, ?_, hP⟩
  · intro hne; rw [h1]; exact h2 hne
  · intro he hc; rw [h1]; exact h3 he hc

/-- Invariant of the token loop of one head. -/
structure LaInv (g : Grammar) (T : Table) (inp : Input) (consume : Bool) (P st : Nat)
    (a : GState × Nat × List (Nat × List (Nat × Nat))) : Prop where
  inv : GInv g T inp consume a.1
  cur : a.2.1 < a.1.nodes.size
  st : (a.1.node a.2.1).st = st
  pos : (a.1.node a.2.1).pos = P
  heads : HeadsOK inp a.1 P a.2.2

theorem laInner_ok {consume : Bool} {P st : Nat} (hP : inp.skip P = P)
    (a : GState × Nat × List (Nat × List (Nat × Nat))) (tok : Tok)
    (ha : LaInv g T inp consume P st a) (htok : ScanOK inp consume P tok) :
    LaInv g T inp consume P st (laInner st a tok) ∧ Upd inp a.1 (laInner st a tok).1 := by
  obtain ⟨sc, cur, ps⟩ := a
  obtain ⟨hinv, hcur, hst, hpos, hheads⟩ := ha
  simp only at hinv hcur hst hpos hheads
  have hN := hinv.nodes cur hcur
  have hTok := tokOK_of_scan hP htok
  -- common conclusion from a new state `sd`, head `c`
  have fin : ∀ (sd : GState) (c : Nat), GInv g T inp consume sd → Upd inp sc sd → c < sd.nodes.size →
      (sd.node c).st = st → (sd.node c).pos = P → (sd.node c).tok.isSome = true →
      LaInv g T inp consume P st (sd, c, psUpd ps tok.term st c) ∧ Upd inp sc sd := by
    intro sd c q1 q2 q3 q4 q5 q6
    refine ⟨⟨q1, q3, q4, q5, ?_⟩, q2⟩
    intro e' he' h hh
    rcases mem_psUpd ps tok.term st c e' he' h hh with rfl | ⟨e, he, hh'⟩
    · exact ⟨q3, q4, by rw [q5]; exact hP, q6⟩
    · exact (hheads.upd q2) e he h hh'
  simp only [laInner]
  cases hct : (sc.node cur).tok with
  | none =>
    simp only
    obtain ⟨r1, r2, r3, r4⟩ := setNode_ok sc hinv cur hcur { sc.node cur with tok := some tok } rfl rfl rfl
      (by intro t ht; rw [hct] at ht; cases ht)
      ⟨hN.reach, by
        intro t ht
        simp only [Option.some.injEq] at ht
        subst ht
        show TokOK inp consume (sc.node cur).pos tok
        rw [hpos]; exact hTok⟩
    exact fin _ cur r1 r2 (by rw [r4]; exact hcur) (by rw [r3]; exact hst) (by rw [r3]; exact hpos) (by rw [r3]; rfl)
  | some t0 =>
    simp only
    split
    · simp only
      exact fin sc cur hinv (Upd.refl sc) hcur hst hpos (by rw [hct]; rfl)
    · simp only
      obtain ⟨r1, r2, r3, r4⟩ := pushClone_ok sc hinv cur hcur { sc.node cur with tok := some tok } rfl rfl rfl
        ⟨hN.reach, by
          intro t ht
          simp only [Option.some.injEq] at ht
          subst ht
          show TokOK inp consume (sc.node cur).pos tok
          rw [hpos]; exact hTok⟩
      exact fin _ sc.nodes.size r1 r2 (by rw [r4]; omega) (by rw [r3]; exact hst) (by rw [r3]; exact hpos)
        (by rw [r3]; rfl)

theorem laInnerFold_ok {consume : Bool} {P st : Nat} (hP : inp.skip P = P) :
    ∀ (toks : List Tok), (∀ t ∈ toks, ScanOK inp consume P t) →
      ∀ a, LaInv g T inp consume P st a →
        LaInv g T inp consume P st (toks.foldl (laInner st) a) ∧ Upd inp a.1 (toks.foldl (laInner st) a).1 := by
  intro toks
  induction toks with
  | nil => intro _ a ha; exact ⟨ha, Upd.refl _⟩
  | cons t toks ih =>
    intro ht a ha
    simp only [List.foldl_cons]
    obtain ⟨q1, q2⟩ := laInner_ok hP a t ha (ht t (by simp))
    obtain ⟨q3, q4⟩ := ih (fun t' h' => ht t' (by simp [h'])) _ q1
    exact ⟨q3, q2.trans q4⟩

theorem laOuter_ok (hidem : ∀ p, inp.skip (inp.skip p) = inp.skip p) {consume lexDis : Bool} {P : Nat}
    (hP : inp.skip P = P) (acc : GState × List (Nat × List (Nat × Nat))) (x : Nat × Nat)
    (hinv : GInv g T inp consume acc.1) (hheads : HeadsOK inp acc.1 P acc.2)
    (hx : x.2 < acc.1.nodes.size) (hxst : (acc.1.node x.2).st = x.1) (hxpos : inp.skip (acc.1.node x.2).pos = P) :
    GInv g T inp consume (laOuter T inp consume lexDis acc x).1 ∧
      HeadsOK inp (laOuter T inp consume lexDis acc x).1 P (laOuter T inp consume lexDis acc x).2 ∧
      Upd inp acc.1 (laOuter T inp consume lexDis acc x).1 := by
  obtain ⟨sa, perSym⟩ := acc
  obtain ⟨st, node⟩ := x
  simp only at hinv hheads hx hxst hxpos
  have hN := hinv.nodes node hx
  obtain ⟨r1, r2, r3, r4⟩ := setNode_ok sa hinv node hx { sa.node node with pos := inp.skip (sa.node node).pos }
    rfl (hidem _) rfl (fun _ h => h)
    ⟨by
      obtain ⟨st0, r0, a1, a2, a3⟩ := hN.reach
      exact ⟨st0, r0, a1, a2, by rw [a3]; exact (hidem _).symm⟩,
     by
      intro t ht
      obtain ⟨b1, b2, b3, b4⟩ := hN.tok t ht
      exact ⟨by rw [b1]; exact (hidem _).symm, b2, b3, hidem _⟩⟩
  simp only [laOuter]
  have hla : LaInv g T inp consume P st
      (({ sa with nodes := sa.nodes.setIfInBounds node { sa.node node with pos := inp.skip (sa.node node).pos } } : GState),
        node, perSym) :=
    ⟨r1, by rw [r4]; exact hx, by rw [r3]; exact hxst, by rw [r3]; exact hxpos, hheads.upd r2⟩
  have htoks : ∀ t ∈ (nextTokens T inp consume lexDis st (inp.skip (sa.node node).pos)).reverse, ScanOK inp consume P t := by
    intro t ht
    simp only [List.mem_reverse] at ht
    have := nextTokens_ok (T := T) (inp := inp) ⟨consume, lexDis⟩ st (inp.skip (sa.node node).pos) t ht
    rw [hxpos] at this
    exact this
  obtain ⟨q1, q2⟩ := laInnerFold_ok hP _ htoks _ hla
  exact ⟨q1.inv, q1.heads, r2.trans q2⟩

/-- `_find_lookaheads`. -/
theorem findLookaheads_ok (hidem : ∀ p, inp.skip (inp.skip p) = inp.skip p) {consume lexDis : Bool} {P : Nat}
    (hP : inp.skip P = P) (s : GState) (hinv : GInv g T inp consume s)
    (hpos : ∀ x ∈ s.active, inp.skip (s.node x.2).pos = P) :
    GInv g T inp consume (findLookaheads T inp consume lexDis s).1 ∧
      HeadsOK inp (findLookaheads T inp consume lexDis s).1 P (findLookaheads T inp consume lexDis s).2 ∧
      (findLookaheads T inp consume lexDis s).1.crash = s.crash := by
  rw [findLookaheads_eq]
  have hgen : ∀ (l : List (Nat × Nat)), (∀ x ∈ l, x ∈ s.active) →
      ∀ acc : GState × List (Nat × List (Nat × Nat)), GInv g T inp consume acc.1 → HeadsOK inp acc.1 P acc.2 →
        Upd inp s acc.1 →
        GInv g T inp consume (l.foldl (laOuter T inp consume lexDis) acc).1 ∧
          HeadsOK inp (l.foldl (laOuter T inp consume lexDis) acc).1 P (l.foldl (laOuter T inp consume lexDis) acc).2 ∧
          (l.foldl (laOuter T inp consume lexDis) acc).1.crash = s.crash := by
    intro l
    induction l with
    | nil => intro _ acc h1 h2 h3; exact ⟨h1, h2, h3.crash⟩
    | cons x l ih =>
      intro hl acc h1 h2 h3
      simp only [List.foldl_cons]
      have hx := hl x (by simp)
      obtain ⟨d1, d2⟩ := hinv.active x hx
      obtain ⟨a1, a2, _⟩ := h3.old _ d1
      obtain ⟨q1, q2, q3⟩ := laOuter_ok (lexDis := lexDis) hidem hP acc x h1 h2 (Nat.lt_of_lt_of_le d1 h3.size)
        (by rw [a1]; exact d2) (by rw [a2]; exact hpos x hx)
      exact ih (fun y hy => hl y (by simp [hy])) _ q1 q2 (h3.trans q3)
  exact hgen _ (fun x hx => by simpa using hx) _
    (hinv.graph_eq rfl rfl (by intro x hx; cases hx) hinv.forActor hinv.forShifter hinv.accepted)
    (by intro e he; cases he)
    ⟨rfl, Nat.le_refl _, fun _ _ => ⟨rfl, rfl, fun _ h => h⟩, fun n hn => ⟨n, hn, rfl, rfl, rfl⟩, rfl⟩

/-! ### The driver loop -/

/-- Invariant between frontiers. -/
def MInv (g : Grammar) (T : Table) (inp : Input) (consume : Bool) (s : GState) : Prop :=
  GInv g T inp consume s ∧ ∃ E, ∀ x ∈ s.active, (s.node x.2).pos = E

theorem frontier_ok (hw : T.wf g = true) (hidem : ∀ p, inp.skip (inp.skip p) = inp.skip p)
    {consume lexDis : Bool} (fuel : Nat) (s : GState) (h : MInv g T inp consume s) :
    MInv g T inp consume (frontier g T inp consume lexDis fuel s) ∧
      (frontier g T inp consume lexDis fuel s).crash = s.crash := by
  obtain ⟨hinv, E, hE⟩ := h
  have hP : inp.skip (inp.skip E) = inp.skip E := hidem E
  obtain ⟨q1, q2, q3⟩ := findLookaheads_ok (lexDis := lexDis) hidem hP s hinv (fun x hx => by rw [hE x hx])
  simp only [frontier]
  generalize findLookaheads T inp consume lexDis s = r at q1 q2 q3
  obtain ⟨s1, perSym⟩ := r
  simp only at q1 q2 q3 ⊢
  have hgen : ∀ (l : List (Nat × List (Nat × Nat))), (∀ e ∈ l, e ∈ perSym) →
      ∀ acc, GInv g T inp consume acc → HeadsOK inp acc (inp.skip E) perSym →
        GInv g T inp consume (l.foldl (fun acc (e : Nat × List (Nat × Nat)) =>
          actorLoop g T fuel fuel { acc with active := e.2, forActor := (e.2.map (·.2)).reverse, traversed := [] }) acc) ∧
        (l.foldl (fun acc (e : Nat × List (Nat × Nat)) =>
          actorLoop g T fuel fuel { acc with active := e.2, forActor := (e.2.map (·.2)).reverse, traversed := [] }) acc).crash
          = acc.crash := by
    intro l
    induction l with
    | nil => intro _ acc h1 _; exact ⟨h1, rfl⟩
    | cons e l ih =>
      intro hl acc h1 h2
      simp only [List.foldl_cons]
      have he := hl e (by simp)
      have hinv1 : GInv g T inp consume { acc with active := e.2, forActor := (e.2.map (·.2)).reverse, traversed := [] } := by
        refine h1.graph_eq rfl rfl ?_ ?_ h1.forShifter h1.accepted
        · intro x hx
          obtain ⟨d1, d2, _, _⟩ := h2 e he x hx
          exact ⟨d1, d2⟩
        · intro x hx
          simp only [List.mem_reverse, List.mem_map] at hx
          obtain ⟨y, hy, rfl⟩ := hx
          obtain ⟨d1, _, _, d4⟩ := h2 e he y hy
          exact ⟨d1, d4⟩
      have hap1 : APos inp { acc with active := e.2, forActor := (e.2.map (·.2)).reverse, traversed := [] } (inp.skip E) := by
        constructor
        · intro x hx
          obtain ⟨_, _, d3, d4⟩ := h2 e he x hx
          exact ⟨d3, d4⟩
        · intro x hx
          simp only [List.mem_reverse, List.mem_map] at hx
          obtain ⟨y, hy, rfl⟩ := hx
          exact (h2 e he y hy).2.2.1
      obtain ⟨p1, p2, _⟩ := actorLoop_ok (g := g) (T := T) (inp := inp) hw consume (inp.skip E) fuel fuel _ hinv1 hap1
      have h2' : HeadsOK inp { acc with active := e.2, forActor := (e.2.map (·.2)).reverse, traversed := [] }
          (inp.skip E) perSym := h2
      obtain ⟨r1, r2⟩ := ih (fun e' he' => hl e' (by simp [he'])) _ p1 (HeadsOK.ext h2' p2)
      exact ⟨r1, r2.trans p2.crash⟩
  obtain ⟨h2, h3⟩ := hgen perSym.reverse (fun e he => by simpa using he) s1 q1 q2
  obtain ⟨d1, d2, d3⟩ := doShifts_ok hw _ h2
  exact ⟨⟨d1, d2⟩, d3.trans (h3.trans q3)⟩

theorem mainLoop_ok (hw : T.wf g = true) (hidem : ∀ p, inp.skip (inp.skip p) = inp.skip p)
    {consume lexDis : Bool} (fuel : Nat) :
    ∀ (n : Nat) (s sF : GState), MInv g T inp consume s →
      mainLoop g T inp consume lexDis fuel n s = .forest sF →
      GInv g T inp consume sF ∧ sF.accepted ≠ [] := by
  intro n
  induction n with
  | zero => intro s sF _ h; simp [mainLoop] at h
  | succ n ih =>
    intro s sF hs h
    simp only [mainLoop] at h
    split at h
    · cases h
    · split at h
      · cases h
      · split at h
        · split at h
          · cases h
          · rename_i hne
            simp only [Result.forest.injEq] at h
            subst h
            exact ⟨hs.1, by intro he; rw [he] at hne; simp at hne⟩
        · exact ih _ sF (frontier_ok hw hidem fuel s hs).1 h

/-- The driver never meets a missing goto or an unknown production. -/
theorem mainLoop_nocrash (hw : T.wf g = true) (hidem : ∀ p, inp.skip (inp.skip p) = inp.skip p)
    {consume lexDis : Bool} (fuel : Nat) :
    ∀ (n : Nat) (s : GState), MInv g T inp consume s → s.crash = false →
      mainLoop g T inp consume lexDis fuel n s ≠ .crash := by
  intro n
  induction n with
  | zero => intro s _ _ h; simp [mainLoop] at h
  | succ n ih =>
    intro s hs hc h
    simp only [mainLoop, hc, Bool.false_eq_true, if_false] at h
    split at h
    · cases h
    · split at h
      · split at h <;> cases h
      · obtain ⟨f1, f2⟩ := frontier_ok (lexDis := lexDis) hw hidem fuel s hs
        exact ih _ f1 (f2.trans hc) h

/-- An accepted head carries a derivation tree of the start symbol over the input read. -/
theorem accepted_sound (hw : T.wf g = true) {consume : Bool} (s : GState) (hinv : GInv g T inp consume s)
    (h : Nat) (hh : h ∈ s.accepted) :
    ∃ t e, Derives g inp (.nt g.start) 0 e t ∧ (consume = true → inp.skip e = inp.len) := by
  have hn := wf_pos hw
  obtain ⟨hlt, tok, htok, hacc⟩ := hinv.accepted h hh
  have hN := hinv.nodes h hlt
  obtain ⟨st, r, hst, htop, hskip⟩ := hN.reach
  have htlt : (s.node h).st < T.n := by rw [← htop]; exact hst.top_lt hn
  obtain ⟨cell, hcellmem, hcell1, hcell2⟩ := actions_mem hacc
  have hwf := (wf_state hw htlt).1 cell hcellmem _ hcell2
  simp only at hwf
  obtain ⟨hc1, hsym, hne, hpreds⟩ := hwf
  have hstop : tok.term = STOP := by rw [← hcell1]; exact hc1
  obtain ⟨b1, _, b3, _⟩ := hN.tok tok htok
  cases hst with
  | nil => simp [topOf] at htop; exact absurd htop.symm hne
  | cons s1 t1 rest i j hrest hd hedge hlt1 hne1 =>
    simp only [topOf] at htop
    subst htop
    have h0 := hpreds (topOf rest) (hrest.top_lt hn) hedge
    have hrnil : rest = [] := by
      cases hrest with
      | nil => rfl
      | cons s2 _ _ _ _ _ _ _ _ hne2 => simp [topOf] at h0; exact absurd h0 hne2
    subst hrnil
    cases hrest
    rw [hsym] at hd
    exact ⟨t1, r, hd, fun hc => by rw [hskip, ← b1]; exact b3 hstop hc⟩

/-- The initial state satisfies the invariant. -/
theorem minv_init {consume : Bool} :
    MInv g T inp consume { nodes := #[{ st := 0, fr := 0, pos := 0 }], active := [(0, 0)] } := by
    refine ⟨⟨?_, ?_, ?_, ?_, ?_, ?_, ?_, by intro i hi; simp at hi⟩, 0, ?_⟩
    · intro i hi
      have : i = 0 := by simpa using hi
      subst this
      exact ⟨⟨[], 0, StackD.nil, rfl, rfl⟩, by intro t ht; cases ht⟩
    · intro i hi; simp at hi
    · intro n hn l hl
      have : n = 0 := by simpa using hn
      subst this
      cases hl
    · intro x hx
      simp only [List.mem_singleton] at hx
      subst hx
      exact ⟨by simp, rfl⟩
    · intro x hx; cases hx
    · intro x hx; cases hx
    · intro x hx; cases hx
    · intro x hx
      simp only [List.mem_singleton] at hx
      subst hx
      rfl

/-- The final state of an accepting run satisfies the invariant and has an accepted head. -/
theorem parseGLR_inv' (hw : T.wf g = true) (hidem : ∀ p, inp.skip (inp.skip p) = inp.skip p)
    (consume lexDis : Bool) (fuel : Nat) (sF : GState)
    (h : parseGLR g T inp consume lexDis fuel = .forest sF) :
    GInv g T inp consume sF ∧ sF.accepted ≠ [] := by
  unfold parseGLR at h
  exact mainLoop_ok hw hidem fuel fuel _ sF minv_init h

/-- **The GLR driver model never fails internally**: over a well-formed table it never meets a
reduction by an unknown production or a missing goto (the lookups that would raise in `glr.py`),
whatever the input, the lexical mode and the fuel. -/
theorem parseGLR_nocrash (hw : T.wf g = true) (hidem : ∀ p, inp.skip (inp.skip p) = inp.skip p)
    (consume lexDis : Bool) (fuel : Nat) : parseGLR g T inp consume lexDis fuel ≠ .crash := by
  unfold parseGLR
  exact mainLoop_nocrash hw hidem fuel fuel _ minv_init rfl

theorem parseGLR_inv (hw : T.wf g = true) (hidem : ∀ p, inp.skip (inp.skip p) = inp.skip p)
    (consume lexDis : Bool) (fuel : Nat) (sF : GState)
    (h : parseGLR g T inp consume lexDis fuel = .forest sF) : GInv g T inp consume sF :=
  (parseGLR_inv' hw hidem consume lexDis fuel sF h).1

/-- **Soundness of the GLR driver model**: when it answers with a forest, the input is a sentence
(with `consume_input`), and in any case a prefix of it derives from the start symbol. -/
theorem parseGLR_sound (hw : T.wf g = true) (hidem : ∀ p, inp.skip (inp.skip p) = inp.skip p)
    (consume lexDis : Bool) (fuel : Nat) (sF : GState)
    (h : parseGLR g T inp consume lexDis fuel = .forest sF) :
    (∃ t, IsPrefixParseOf g inp t) ∧ (consume = true → Sentence g inp) := by
  obtain ⟨q1, q2⟩ := parseGLR_inv' hw hidem consume lexDis fuel sF h
  obtain ⟨a, ha⟩ := List.exists_mem_of_ne_nil _ q2
  obtain ⟨t, e, hd, he⟩ := accepted_sound hw sF q1 a ha
  exact ⟨⟨t, e, hd⟩, fun hc => ⟨t, e, hd, he hc⟩⟩

/-! ### The packed forest -/

mutual
  /-- The trees packed under a link: one possibility per link, recursively. -/
  def TreeOf (s : GState) : Nat → Tree → Prop
    | l, .leaf a st en => Poss.term a st en ∈ (s.link l).poss
    | l, .node pid _ _ cs => ∃ kids, Poss.nonterm pid kids ∈ (s.link l).poss ∧ TreesOf s kids cs
  def TreesOf (s : GState) : List Nat → List Tree → Prop
    | [], [] => True
    | k :: ks, c :: cs => TreeOf s k c ∧ TreesOf s ks cs
    | [], _ :: _ => False
    | _ :: _, [] => False
end

theorem treesOf_length (s : GState) : ∀ (cs : List Tree) (ks : List Nat), TreesOf s ks cs → ks.length = cs.length
  | [], [], _ => rfl
  | [], _ :: _, h => by simp [TreesOf] at h
  | _ :: _, [], h => by simp [TreesOf] at h
  | c :: cs, k :: ks, h => by
    simp only [TreesOf] at h
    simp only [List.length_cons]
    rw [treesOf_length s cs ks h.2]

/-- A link with a given tree: every stack ending in the root extends by that tree. -/
def ReplayT (g : Grammar) (T : Table) (inp : Input) (rs rp hs hp : Nat) (t : Tree) : Prop :=
  ∀ st r, StackD g inp T st r → topOf st = rs → inp.skip r = inp.skip rp →
    ∃ r', StackD g inp T ((hs, t) :: st) r' ∧ inp.skip r' = inp.skip hp

def ChainT (g : Grammar) (T : Table) (inp : Input) (s : GState) (a b : Nat) (cs : List Tree) : Prop :=
  ∀ st r, StackD g inp T st r → topOf st = (s.node a).st → inp.skip r = inp.skip (s.node a).pos →
    ∃ stk r', StackD g inp T (stk ++ st) r' ∧ stk.reverse.map (·.2) = cs ∧
      topOf (stk ++ st) = (s.node b).st ∧ inp.skip r' = inp.skip (s.node b).pos

/-- Reducing the top of a stack by a production of the table, with any recorded span. -/
theorem reduce_stack (hw : T.wf g = true) (stk st : List (Nat × Tree)) (r' pid : Nat) (pr : Prod) (x : Nat)
    (hs : StackD g inp T (stk ++ st) r') (hlen : stk.length = pr.rhs.length)
    (hx : Action.reduce pid ∈ T.actions (topOf (stk ++ st)) x) (hp : g.prod? pid = some pr) (state : Nat)
    (hg : T.goto (topOf st) pr.lhs = some state) (sp ep : Nat) :
    StackD g inp T ((state, .node pid sp ep (stk.reverse.map (·.2))) :: st) r' := by
  have hn := wf_pos hw
  have htop : topOf (stk ++ st) < T.n := hs.top_lt hn
  obtain ⟨cell, hcellmem, hcell1, hcell2⟩ := actions_mem hx
  have hwf := (wf_state hw htop).1 cell hcellmem _ hcell2
  simp only at hwf
  obtain ⟨pr', hpr', hback⟩ := hwf
  rw [hp] at hpr'
  simp only [Option.some.injEq] at hpr'
  subst hpr'
  obtain ⟨i, _, hst, hder, _⟩ :=
    walk_back (g := g) (inp := inp) hn pr.rhs.reverse (topOf (stk ++ st)) (stk ++ st) r' pr.lhs hback hs rfl
  simp only [List.length_reverse, List.reverse_reverse] at hst hder
  have hdrop : (stk ++ st).drop pr.rhs.length = st := by rw [← hlen]; simp
  have htake : (stk ++ st).take pr.rhs.length = stk := by rw [← hlen]; simp
  rw [hdrop] at hst
  rw [htake] at hder
  obtain ⟨gc, hgc, hgc1, hgc2⟩ := goto_mem hg
  have hst_lt := hst.top_lt hn
  obtain ⟨h1, h2, h3⟩ := (wf_state hw hst_lt).2 gc hgc
  rw [hgc2] at h1 h2 h3
  rw [hgc1] at h3
  refine StackD.cons state _ _ i r' hst ?_ (edge_of_goto hg) h1 h2
  rw [h3]
  exact DerivesSeq.prod pid pr i r' r' sp ep _ [] [] hp hder (DerivesSeq.nil _)

mutual
  /-- Every tree packed under a link can be pushed on every stack that ends in the link's root. -/
  theorem tree_replay (hw : T.wf g = true) {consume : Bool} (s : GState) (hinv : GInv g T inp consume s) :
      ∀ (t : Tree) (l : Nat), l < s.links.size → TreeOf s l t →
        ReplayT g T inp (s.node (s.link l).root).st (s.node (s.link l).root).pos
          (s.node (s.link l).head).st (s.node (s.link l).head).pos t
    | .leaf a st en, l, hl, h => by
      simp only [TreeOf] at h
      obtain ⟨w1, w2, ⟨len, w3a, w3b, w3c⟩, w4⟩ := hinv.poss l hl _ h
      intro stk r hs htop hskip
      have hn := wf_pos hw
      have hlt : (s.node (s.link l).root).st < T.n := by rw [← htop]; exact hs.top_lt hn
      obtain ⟨cell, hcellmem, hcell1, hcell2⟩ := actions_mem w1
      have hwf := (wf_state hw hlt).1 cell hcellmem _ hcell2
      simp only at hwf
      obtain ⟨hs'lt, hs'ne, hs'sym, _⟩ := hwf
      rw [hcell1] at hs'sym
      have hr : inp.skip r = st := hskip.trans w2.symm
      refine ⟨en, StackD.cons _ _ stk r en hs ?_ ?_ hs'lt hs'ne, w4.symm⟩
      · rw [hs'sym]
        have := DerivesSeq.tok (g := g) a r len (inp.skip r + len) [] [] (by rw [hr]; exact w3a) w3b
          (DerivesSeq.nil _)
        rw [hr, ← w3c] at this
        exact this
      · rw [htop]; exact edge_of_shift w1
    | .node pid sp ep cs, l, hl, h => by
      simp only [TreeOf] at h
      obtain ⟨kids, hmem, htrees⟩ := h
      obtain ⟨pr, e, hp, hkl, hkc, ⟨x, hxr⟩, hg, hpe⟩ := hinv.poss l hl _ hmem
      intro stk0 r hs htop hskip
      obtain ⟨stk, r', h1, h2, h3, h4⟩ := trees_replay hw s hinv cs kids _ e htrees hkc stk0 r hs htop hskip
      have hlen : stk.length = pr.rhs.length := by
        have := congrArg List.length h2
        simp only [List.length_map, List.length_reverse] at this
        rw [this, ← treesOf_length s cs kids htrees, hkl]
      have := reduce_stack hw stk stk0 r' pid pr x h1 hlen (by rw [h3]; exact hxr) hp
        (s.node (s.link l).head).st (by rw [htop]; exact hg) sp ep
      rw [h2] at this
      exact ⟨r', this, h4.trans hpe⟩
  theorem trees_replay (hw : T.wf g = true) {consume : Bool} (s : GState) (hinv : GInv g T inp consume s) :
      ∀ (cs : List Tree) (ks : List Nat) (a b : Nat), TreesOf s ks cs → KChain inp s a ks b →
        ChainT g T inp s a b cs
    | [], [], a, b, _, hk => by
      cases hk with
      | nil _ _ _ _ hab =>
        intro st r hs htop hskip
        exact ⟨[], r, by simpa using hs, rfl, by simpa using htop.trans hab.1, hskip.trans hab.2⟩
    | [], _ :: _, _, _, h, _ => by simp [TreesOf] at h
    | _ :: _, [], _, _, h, _ => by simp [TreesOf] at h
    | c :: cs, k :: ks, a, b, h, hk => by
      simp only [TreesOf] at h
      cases hk with
      | cons _ _ _ _ _ hklt hhd hrt hr rest =>
        intro st r hs htop hskip
        obtain ⟨r1, hs1, hp1⟩ := tree_replay hw s hinv c k hklt h.1 st r hs (htop.trans hr.1.symm)
          (hskip.trans hr.2.symm)
        obtain ⟨stk, r', q1, q2, q3, q4⟩ := trees_replay hw s hinv cs ks _ b h.2 rest _ r1 hs1
          (by simp [topOf]) hp1
        refine ⟨stk ++ [((s.node (s.link k).head).st, c)], r', by simpa using q1, ?_, by simpa using q3, q4⟩
        simp [q2]
end

/-- Every tree of the packed forest below an accepted head derives the start symbol over the input. -/
theorem accepted_trees_sound (hw : T.wf g = true) {consume : Bool} (s : GState) (hinv : GInv g T inp consume s)
    (a : Nat) (ha : a ∈ s.accepted) (l : Nat) (hl : l ∈ s.parents a) (t : Tree) (ht : TreeOf s l t) :
    ∃ e, Derives g inp (.nt g.start) 0 e t ∧ (consume = true → inp.skip e = inp.len) := by
  have hn := wf_pos hw
  obtain ⟨halt, tok, htok, hacc⟩ := hinv.accepted a ha
  obtain ⟨m1, m2, m3⟩ := hinv.plinks a halt l hl
  obtain ⟨n1, n2, _⟩ := hinv.links l m1
  obtain ⟨st, r, hst, htop, hskip⟩ := (hinv.nodes _ n2).reach
  obtain ⟨r', hs', hp'⟩ := tree_replay hw s hinv t l m1 ht st r hst htop hskip
  have hN := hinv.nodes a halt
  have htlt : (s.node a).st < T.n := by
    obtain ⟨st0, r0, hs0, ht0, _⟩ := hN.reach
    rw [← ht0]; exact hs0.top_lt hn
  obtain ⟨cell, hcellmem, hcell1, hcell2⟩ := actions_mem hacc
  have hwf := (wf_state hw htlt).1 cell hcellmem _ hcell2
  simp only at hwf
  obtain ⟨hc1, hsym, hne, hpreds⟩ := hwf
  have hstop : tok.term = STOP := by rw [← hcell1]; exact hc1
  obtain ⟨b1, _, b3, _⟩ := hN.tok tok htok
  cases hs' with
  | cons _ _ _ i _ hrest hd hedge hlt1 hne1 =>
    rw [m2] at hedge hd
    have h0 := hpreds (topOf st) (hrest.top_lt hn) hedge
    have hrnil : st = [] := by
      cases hrest with
      | nil => rfl
      | cons s2 _ _ _ _ _ _ _ _ hne2 => simp [topOf] at h0; exact absurd h0 hne2
    subst hrnil
    cases hrest
    rw [hsym] at hd
    exact ⟨r', hd, fun hc => by rw [hp', m3, ← b1]; exact b3 hstop hc⟩

/-- **Soundness of the packed forest of the GLR driver model**: when the model answers with a forest,
every tree obtained by choosing one possibility per link below a root link (a link of an accepted
head) is a derivation tree of the start symbol over the input — of the whole input with
`consume_input`. -/
theorem parseGLR_forest_sound (hw : T.wf g = true) (hidem : ∀ p, inp.skip (inp.skip p) = inp.skip p)
    (consume lexDis : Bool) (fuel : Nat) (sF : GState)
    (h : parseGLR g T inp consume lexDis fuel = .forest sF) :
    ∀ a ∈ sF.accepted, ∀ l ∈ sF.parents a, ∀ t, TreeOf sF l t →
      IsPrefixParseOf g inp t ∧ (consume = true → IsParseOf g inp t) := by
  intro a ha l hl t ht
  have hinv := parseGLR_inv hw hidem consume lexDis fuel sF h
  obtain ⟨e, hd, he⟩ := accepted_trees_sound hw sF hinv a ha l hl t ht
  exact ⟨⟨e, hd⟩, fun hc => ⟨e, hd, he hc⟩⟩

/-! ### An executable check that a given tree is in the packed forest -/

mutual
  /-- Executable `TreeOf`: is the tree one of those packed under the link? (Recorded spans of interior
  nodes are not looked at, as in `TreeOf`.) -/
  def treeOfB (s : GState) : Nat → Tree → Bool
    | l, .leaf a st en => (s.link l).poss.any (fun p =>
        match p with
        | .term a' st' en' => a' == a && st' == st && en' == en
        | .nonterm _ _ => false)
    | l, .node pid _ _ cs => (s.link l).poss.any (fun p =>
        match p with
        | .nonterm pid' kids => pid' == pid && treesOfB s kids cs
        | .term _ _ _ => false)
  def treesOfB (s : GState) : List Nat → List Tree → Bool
    | [], [] => true
    | k :: ks, c :: cs => treeOfB s k c && treesOfB s ks cs
    | [], _ :: _ => false
    | _ :: _, [] => false
end

mutual
  theorem treeOfB_sound (s : GState) : ∀ (t : Tree) (l : Nat), treeOfB s l t = true → TreeOf s l t
    | .leaf a st en, l, h => by
      simp only [treeOfB, List.any_eq_true] at h
      obtain ⟨p, hp, hm⟩ := h
      cases p with
      | term a' st' en' =>
        simp only [Bool.and_eq_true, beq_iff_eq] at hm
        obtain ⟨⟨rfl, rfl⟩, rfl⟩ := hm
        simp only [TreeOf]; exact hp
      | nonterm _ _ => simp at hm
    | .node pid sp ep cs, l, h => by
      simp only [treeOfB, List.any_eq_true] at h
      obtain ⟨p, hp, hm⟩ := h
      cases p with
      | term _ _ _ => simp at hm
      | nonterm pid' kids =>
        simp only [Bool.and_eq_true, beq_iff_eq] at hm
        obtain ⟨rfl, hk⟩ := hm
        simp only [TreeOf]
        exact ⟨kids, hp, treesOfB_sound s cs kids hk⟩
  theorem treesOfB_sound (s : GState) : ∀ (cs : List Tree) (ks : List Nat), treesOfB s ks cs = true → TreesOf s ks cs
    | [], [], _ => by simp [TreesOf]
    | [], _ :: _, h => by simp [treesOfB] at h
    | _ :: _, [], h => by simp [treesOfB] at h
    | c :: cs, k :: ks, h => by
      simp only [treesOfB, Bool.and_eq_true] at h
      simp only [TreesOf]
      exact ⟨treeOfB_sound s c k h.1, treesOfB_sound s cs ks h.2⟩
end

/-- Is the tree packed under one of the root links (the links of the accepted heads)? -/
def forestHasTree (s : GState) (t : Tree) : Bool :=
  s.accepted.any (fun a => (s.parents a).any (fun l => treeOfB s l t))

theorem forestHasTree_sound (s : GState) (t : Tree) (h : forestHasTree s t = true) :
    ∃ a ∈ s.accepted, ∃ l ∈ s.parents a, TreeOf s l t := by
  simp only [forestHasTree, List.any_eq_true] at h
  obtain ⟨a, ha, l, hl, ht⟩ := h
  exact ⟨a, ha, l, hl, treeOfB_sound s t l ht⟩

/-- A tree found in the packed forest of an accepting run is a parse tree of the input. -/
theorem forestHasTree_parse (hw : T.wf g = true) (hidem : ∀ p, inp.skip (inp.skip p) = inp.skip p)
    (consume lexDis : Bool) (fuel : Nat) (sF : GState)
    (h : parseGLR g T inp consume lexDis fuel = .forest sF) (t : Tree) (ht : forestHasTree sF t = true) :
    IsPrefixParseOf g inp t ∧ (consume = true → IsParseOf g inp t) := by
  obtain ⟨a, ha, l, hl, htree⟩ := forestHasTree_sound sF t ht
  exact parseGLR_forest_sound hw hidem consume lexDis fuel sF h a ha l hl t htree

/-! ### What the driver emits -/

/-- What `reachableAlts` emits comes from packed possibilities of links: every emitted alternative
`(node, production, children)` is `(k, pid, kids.map key)` for a possibility `nonterm pid kids` of
some link, `k` being that link's key or (for the root alternatives) the key of the last root link. -/
theorem go_mem (key : Nat → Sym × Nat × Nat)
    (altsOf : Sym × Nat × Nat → Nat → List ((Sym × Nat × Nat) × Nat × List (Sym × Nat × Nat)))
    (kidsOf : Nat → List Nat) (P : (Sym × Nat × Nat) × Nat × List (Sym × Nat × Nat) → Prop)
    (hP : ∀ lid, ∀ a ∈ altsOf (key lid) lid, P a) :
    ∀ (f : Nat) (todo seen : List Nat) (out : List ((Sym × Nat × Nat) × Nat × List (Sym × Nat × Nat))),
      (∀ a ∈ out, P a) → ∀ a ∈ reachableAlts.go key altsOf kidsOf f todo seen out, P a := by
  intro f
  induction f with
  | zero => intro todo seen out h a ha; simp only [reachableAlts.go] at ha; exact h a ha
  | succ f ih =>
    intro todo seen out h a ha
    cases todo with
    | nil => simp only [reachableAlts.go] at ha; exact h a ha
    | cons lid todo =>
      simp only [reachableAlts.go] at ha
      split at ha
      · exact ih todo seen out h a ha
      · refine ih _ _ _ ?_ a ha
        intro b hb
        rcases List.mem_append.mp hb with hb | hb
        · exact hP lid b hb
        · exact h b hb

/-- The statement for `reachableAlts`. -/
theorem reachableAlts_from_links (T : Table) (s : GState) (fuel : Nat) :
    ∀ a ∈ reachableAlts T s fuel, ∃ lid pid kids, Poss.nonterm pid kids ∈ (s.link lid).poss ∧
      a.2.1 = pid ∧
      a.2.2 = kids.map (fun k => (T.sym (s.node (s.link k).head).st, (s.link k).s, (s.link k).e)) := by
  intro a ha
  simp only [reachableAlts] at ha
  split at ha
  · cases ha
  · rename_i r hr
    have hone : ∀ (k : Sym × Nat × Nat) (lid : Nat),
        ∀ b ∈ (s.link lid).poss.filterMap (fun ps =>
          match ps with
          | .nonterm p kids => some (k, p, kids.map (fun l =>
              (T.sym (s.node (s.link l).head).st, (s.link l).s, (s.link l).e)))
          | .term _ _ _ => none),
        ∃ lid pid kids, Poss.nonterm pid kids ∈ (s.link lid).poss ∧ b.2.1 = pid ∧
          b.2.2 = kids.map (fun k => (T.sym (s.node (s.link k).head).st, (s.link k).s, (s.link k).e)) := by
      intro k lid b hb
      simp only [List.mem_filterMap] at hb
      obtain ⟨ps, hps, hm⟩ := hb
      cases ps with
      | term _ _ _ => simp at hm
      | nonterm p kids =>
        simp only [Option.some.injEq] at hm
        subst hm
        exact ⟨lid, p, kids, hps, rfl, rfl⟩
    refine go_mem _ _ _ _ (fun lid b hb => hone _ lid b hb) fuel _ _ _ ?_ a ha
    intro b hb
    simp only [List.mem_flatMap] at hb
    obtain ⟨lid, _, hb⟩ := hb
    exact hone _ lid b hb

theorem link_ge (s : GState) (i : Nat) (h : s.links.size ≤ i) : (s.link i).poss = [] := by
  have : s.link i = default := by
    simp only [GState.link, Array.getD]
    split
    · omega
    · rfl
  rw [this]; rfl

/-- Over the final state of an accepting run every alternative the driver emits applies a production
of the grammar to as many children as its right-hand side has. -/
theorem reachableAlts_wellformed {consume : Bool} (s : GState) (hinv : GInv g T inp consume s) (fuel : Nat) :
    ∀ a ∈ reachableAlts T s fuel, ∃ pr, g.prod? a.2.1 = some pr ∧ a.2.2.length = pr.rhs.length := by
  intro a ha
  obtain ⟨lid, pid, kids, hmem, h1, h2⟩ := reachableAlts_from_links T s fuel a ha
  have hlt : lid < s.links.size := by
    by_cases h : lid < s.links.size
    · exact h
    · rw [link_ge s lid (by omega)] at hmem; cases hmem
  obtain ⟨pr, e, hp, hkl, _⟩ := hinv.poss lid hlt _ hmem
  exact ⟨pr, by rw [h1]; exact hp, by rw [h2, List.length_map]; exact hkl⟩

end GLR
end Pg

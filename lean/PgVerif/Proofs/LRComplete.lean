import PgVerif.Spec.LRValid
import PgVerif.Proofs.NDSound
import PgVerif.Proofs.Chart
/-!
Completeness of validated LR tables: if `lrComplete g T I F` holds, every
sentence has an accepting run of the nondeterministic LR automaton over `T`.

Layer 1 (`Der`, `AStep`): derivations of terminal strings and the textbook LR
machine on (state stack, remaining terminals); the simulation lemma `lemmaA`
follows a derivation symbol by symbol. Layer 2: the token edges of an input that
a derivation reads form a chain, along which every step of the abstract machine
is a scan and an action of the automaton of `Proofs/NDSound.lean`.
-/
namespace Pg
open LRV

/-- `Xs` derives the terminal string `u` (no `STOP` inside). -/
inductive Der (g : Grammar) : List Sym → List Nat → Prop where
  | nil : Der g [] []
  | tok (a : Nat) (Xs : List Sym) (u : List Nat) (ha : a ≠ STOP) (rest : Der g Xs u) :
      Der g (.t a :: Xs) (a :: u)
  | prod (p : Nat) (pr : Prod) (Xs : List Sym) (u1 u2 : List Nat) (hp : g.prod? p = some pr)
      (h1 : Der g pr.rhs u1) (h2 : Der g Xs u2) : Der g (.nt pr.lhs :: Xs) (u1 ++ u2)

variable {g : Grammar} {T : Table} {I : Nat → List VItem} {F : FirstData}

/-! ### FIRST data -/

theorem subsetB_mem {l1 l2 : List Nat} (h : subsetB l1 l2 = true) {a : Nat} (ha : a ∈ l1) : a ∈ l2 := by
  simp only [subsetB, List.all_eq_true, List.contains_eq_mem, decide_eq_true_eq] at h
  exact h a ha

theorem subsetB_trans {l1 l2 l3 : List Nat} (h1 : subsetB l1 l2 = true) (h2 : subsetB l2 l3 = true) :
    subsetB l1 l3 = true := by
  simp only [subsetB, List.all_eq_true, List.contains_eq_mem, decide_eq_true_eq] at *
  exact fun a ha => h2 a (h1 a ha)

theorem subsetB_refl (l : List Nat) : subsetB l l = true := by
  simp [subsetB]

theorem firstSeq_mono : ∀ (β : List Sym) (la la' : List Nat), (∀ a ∈ la, a ∈ la') →
    ∀ a ∈ firstSeq F β la, a ∈ firstSeq F β la' := by
  intro β
  induction β with
  | nil => intro la la' h a ha; exact h a ha
  | cons X β ih =>
    intro la la' h a ha
    cases X with
    | t b => exact ha
    | nt B =>
      simp only [firstSeq, List.mem_append] at ha ⊢
      rcases ha with ha | ha
      · exact Or.inl ha
      · right
        split at ha
        · rename_i hn; rw [if_pos hn]; exact ih la la' h a ha
        · simp at ha

theorem firstSeq_append : ∀ (Xs β : List Sym) (la : List Nat),
    firstSeq F (Xs ++ β) la = firstSeq F Xs (firstSeq F β la) := by
  intro Xs
  induction Xs with
  | nil => intro β la; rfl
  | cons X Xs ih =>
    intro β la
    cases X with
    | t b => rfl
    | nt B => simp only [List.cons_append, firstSeq, ih]

theorem firstSeq_nullable : ∀ (Xs : List Sym) (la : List Nat), nullableSeq F Xs = true →
    ∀ a ∈ la, a ∈ firstSeq F Xs la := by
  intro Xs
  induction Xs with
  | nil => intro la _ a ha; exact ha
  | cons X Xs ih =>
    intro la hn a ha
    cases X with
    | t b => simp [nullableSeq] at hn
    | nt B =>
      simp only [nullableSeq, Bool.and_eq_true] at hn
      simp only [firstSeq, List.mem_append, hn.1, if_true]
      exact Or.inr (ih la hn.2 a ha)

theorem closed_spec (hc : F.closed g = true) (p : Nat) (pr : Prod) (hp : g.prod? p = some pr) :
    (∀ a ∈ firstSeq F pr.rhs [], a ∈ F.fst pr.lhs) ∧ (nullableSeq F pr.rhs = true → F.nul pr.lhs = true) := by
  simp only [FirstData.closed, List.all_eq_true, Bool.and_eq_true, Bool.or_eq_true,
    Bool.not_eq_true'] at hc
  have hmem : pr ∈ g.prods := by
    simp only [Grammar.prod?] at hp
    exact List.mem_of_getElem? hp
  obtain ⟨h1, h2⟩ := hc pr hmem
  refine ⟨fun a ha => subsetB_mem h1 ha, ?_⟩
  intro hn
  rcases h2 with h2 | h2
  · rw [hn] at h2; cases h2
  · exact h2

/-- A derivation of the empty string goes through nullable symbols only. -/
theorem der_nil_nullable (hc : F.closed g = true) {Xs : List Sym} {u : List Nat} (h : Der g Xs u) :
    u = [] → nullableSeq F Xs = true := by
  induction h with
  | nil => intro _; rfl
  | tok a Xs u ha _ _ => intro h; cases h
  | prod p pr Xs u1 u2 hp _ _ ih1 ih2 =>
    intro h
    have h1 : u1 = [] := by cases u1 <;> simp_all
    have h2 : u2 = [] := by cases u2 <;> simp_all
    simp only [nullableSeq, Bool.and_eq_true]
    exact ⟨(closed_spec hc p pr hp).2 (ih1 h1), ih2 h2⟩

/-- The first terminal of a derived string is in FIRST of the symbols. -/
theorem der_first (hc : F.closed g = true) {Xs : List Sym} {u : List Nat} (h : Der g Xs u) :
    ∀ (a : Nat) (u' : List Nat) (la : List Nat), u = a :: u' → a ∈ firstSeq F Xs la := by
  induction h with
  | nil => intro a u' la h; cases h
  | tok b Xs u hb _ _ =>
    intro a u' la h
    simp only [List.cons.injEq] at h
    simp [firstSeq, h.1]
  | prod p pr Xs u1 u2 hp h1 _ ih1 ih2 =>
    intro a u' la h
    simp only [firstSeq, List.mem_append]
    cases u1 with
    | nil =>
      right
      have hn := (closed_spec hc p pr hp).2 (der_nil_nullable hc h1 rfl)
      rw [if_pos hn]
      exact ih2 a u' la (by simpa using h)
    | cons b u1' =>
      left
      simp only [List.cons_append, List.cons.injEq] at h
      have := ih1 b u1' [] rfl
      rw [← h.1]
      exact (closed_spec hc p pr hp).1 b this

/-- The terminal that follows a derived string is in FIRST of the symbols followed by the context. -/
theorem der_next (hc : F.closed g = true) {Xs : List Sym} {u : List Nat} (h : Der g Xs u)
    (β : List Sym) (la : List Nat) (a : Nat) (w : List Nat) (ha : a ∈ firstSeq F β la) :
    ∀ b w', u ++ a :: w = b :: w' → b ∈ firstSeq F (Xs ++ β) la := by
  intro b w' hb
  rw [firstSeq_append]
  cases u with
  | nil =>
    simp only [List.nil_append, List.cons.injEq] at hb
    rw [← hb.1]
    exact firstSeq_nullable Xs _ (der_nil_nullable hc h rfl) a ha
  | cons c u' =>
    simp only [List.cons_append, List.cons.injEq] at hb
    rw [← hb.1]
    exact der_first hc h c u' _ rfl

end Pg

namespace Pg
open LRV

variable {g : Grammar} {T : Table} {I : Nat → List VItem} {F : FirstData}

/-! ### The abstract LR machine -/

def atop (σ : List Nat) : Nat :=
  match σ with
  | [] => 0
  | s :: _ => s

/-- One step on (state stack above the start state, remaining terminals). -/
inductive AStep (g : Grammar) (T : Table) : List Nat × List Nat → List Nat × List Nat → Prop where
  | shift (σ : List Nat) (a : Nat) (w : List Nat) (s' : Nat) (ha : a ≠ STOP)
      (h : Action.shift s' ∈ T.actions (atop σ) a) : AStep g T (σ, a :: w) (s' :: σ, w)
  | reduce (σ : List Nat) (a : Nat) (w : List Nat) (p : Nat) (pr : Prod) (s' : Nat)
      (h : Action.reduce p ∈ T.actions (atop σ) a) (hp : g.prod? p = some pr)
      (hlen : pr.rhs.length ≤ σ.length)
      (hg : T.goto (atop (σ.drop pr.rhs.length)) pr.lhs = some s') :
      AStep g T (σ, a :: w) (s' :: σ.drop pr.rhs.length, a :: w)

inductive AStar (g : Grammar) (T : Table) : List Nat × List Nat → List Nat × List Nat → Prop where
  | refl (x : List Nat × List Nat) : AStar g T x x
  | head (x y z : List Nat × List Nat) (h : AStep g T x y) (rest : AStar g T y z) : AStar g T x z

theorem AStar.trans {x y z : List Nat × List Nat} (h1 : AStar g T x y) (h2 : AStar g T y z) :
    AStar g T x z := by
  induction h1 with
  | refl _ => exact h2
  | head x y' _ hs _ ih => exact AStar.head x y' z hs (ih h2)

theorem AStar.single {x y : List Nat × List Nat} (h : AStep g T x y) : AStar g T x y :=
  AStar.head x y y h (AStar.refl y)

/-! ### What the validator gives -/

theorem hasItem_spec {items : List VItem} {p d : Nat} {la : List Nat} (h : hasItem items p d la = true) :
    ∃ it ∈ items, it.prod = p ∧ it.dot = d ∧ subsetB la it.la = true := by
  simp only [hasItem, List.any_eq_true, Bool.and_eq_true, beq_iff_eq] at h
  obtain ⟨it, hit, ⟨h1, h2⟩, h3⟩ := h
  exact ⟨it, hit, h1, h2, h3⟩

structure Valid (g : Grammar) (T : Table) (I : Nat → List VItem) (F : FirstData) : Prop where
  closed : F.closed g = true
  n_pos : 0 < T.n
  prod0 : ∃ pr0, g.prod? 0 = some pr0 ∧ pr0.rhs = [.nt g.start, .t STOP]
  start : hasItem (I 0) 0 0 [] = true
  items : ∀ s, s < T.n → ∀ it ∈ I s, itemOK g T I F s it = true

theorem valid_of_lrComplete (h : lrComplete g T I F = true) : Valid g T I F := by
  simp only [lrComplete, Bool.and_eq_true, decide_eq_true_eq, List.all_eq_true, List.mem_range] at h
  obtain ⟨⟨⟨⟨h1, h2⟩, h3⟩, h4⟩, h5⟩ := h
  refine ⟨h1, h2, ?_, h4, h5⟩
  split at h3
  · rename_i pr0 hp0
    exact ⟨pr0, hp0, by simpa using h3⟩
  · cases h3

/-- **Simulation.** From a state holding an item whose right-hand side continues with `Xs`, the
machine reads what `Xs` derives, provided the terminal after it is in FIRST of the item's
continuation; it ends in a state holding the item advanced over `Xs`. -/
theorem lemmaA (hv : Valid g T I F) {Xs : List Sym} {u : List Nat} (hd : Der g Xs u) :
    ∀ (σ : List Nat) (it : VItem) (pr : Prod) (β : List Sym) (a : Nat) (w : List Nat),
      atop σ < T.n → it ∈ I (atop σ) → g.prod? it.prod = some pr →
      pr.rhs.drop it.dot = Xs ++ β → a ∈ firstSeq F β it.la →
      ∃ (σ' : List Nat) (it' : VItem), AStar g T (σ, u ++ a :: w) (σ' ++ σ, a :: w) ∧
        σ'.length = Xs.length ∧ atop (σ' ++ σ) < T.n ∧ it' ∈ I (atop (σ' ++ σ)) ∧
        it'.prod = it.prod ∧ it'.dot = it.dot + Xs.length ∧ subsetB it.la it'.la = true := by
  induction hd with
  | nil =>
    intro σ it pr β a w hs hit _ _ _
    exact ⟨[], it, AStar.refl _, rfl, hs, hit, rfl, rfl, subsetB_refl _⟩
  | tok b Xs u hb _ ih =>
    intro σ it pr β a w hs hit hpr hdrop ha
    have hok := hv.items _ hs it hit
    have hget : pr.rhs[it.dot]? = some (.t b) := by
      have := congrArg (fun l => l[0]?) hdrop
      simpa [List.getElem?_drop] using this
    have hdrop' : pr.rhs.drop (it.dot + 1) = Xs ++ β := by
      have := congrArg List.tail hdrop
      simpa [List.tail_drop] using this
    simp only [itemOK, hpr, hget, if_neg hb, List.any_eq_true] at hok
    obtain ⟨act, hact, hcond⟩ := hok
    cases act with
    | shift s' =>
      simp only [Bool.and_eq_true, decide_eq_true_eq] at hcond
      obtain ⟨it2, hit2, hp2, hd2, hsub2⟩ := hasItem_spec hcond.2
      obtain ⟨σ', it', hstar, hlen, htop, hit', hp', hd', hsub'⟩ :=
        ih (s' :: σ) it2 pr β a w hcond.1 hit2 (by rw [hp2]; exact hpr) (by rw [hd2]; exact hdrop')
          (firstSeq_mono β _ _ (fun x hx => subsetB_mem hsub2 hx) a ha)
      refine ⟨σ' ++ [s'], it', ?_, by simp [hlen], by simpa using htop, by simpa using hit',
        by rw [hp', hp2], by rw [hd', hd2]; simp; omega, subsetB_trans hsub2 hsub'⟩
      have hstep : AStep g T (σ, b :: (u ++ a :: w)) (s' :: σ, u ++ a :: w) :=
        AStep.shift σ b _ s' hb hact
      have := AStar.head _ _ _ hstep hstar
      simpa using this
    | reduce _ => simp at hcond
    | accept => simp at hcond
  | prod q pq Xs u1 u2 hq h1 _ ih1 ih2 =>
    intro σ it pr β a w hs hit hpr hdrop ha
    have hok := hv.items _ hs it hit
    have hget : pr.rhs[it.dot]? = some (.nt pq.lhs) := by
      have := congrArg (fun l => l[0]?) hdrop
      simpa [List.getElem?_drop] using this
    have hdrop' : pr.rhs.drop (it.dot + 1) = Xs ++ β := by
      have := congrArg List.tail hdrop
      simpa [List.tail_drop] using this
    simp only [itemOK, hpr, hget, Bool.and_eq_true, List.all_eq_true, List.mem_range] at hok
    obtain ⟨hclos, hgoto⟩ := hok
    -- the closure item for production `q`
    have hqlt : q < g.prods.length := by
      simp only [Grammar.prod?] at hq
      exact (List.getElem?_eq_some_iff.mp hq).1
    have hcq := hclos q hqlt
    simp only [hq, bne_self_eq_false, Bool.false_or] at hcq
    obtain ⟨itq, hitq, hpq, hdq, hsubq⟩ := hasItem_spec hcq
    -- the terminal after `u1`
    obtain ⟨b, w', hbw⟩ : ∃ b w', u2 ++ a :: w = b :: w' := by
      cases u2 with
      | nil => exact ⟨a, w, rfl⟩
      | cons c u2' => exact ⟨c, u2' ++ a :: w, rfl⟩
    have hb : b ∈ itq.la := by
      apply subsetB_mem hsubq
      rw [hdrop']
      exact der_next hv.closed ‹Der g Xs u2› β it.la a w ha b w' hbw
    obtain ⟨σq, itq', hstar1, hlen1, htop1, hitq', hpq', hdq', hsubq'⟩ :=
      ih1 σ itq pq [] b w' hs hitq (by rw [hpq]; exact hq) (by rw [hdq]; simp) (by simpa [firstSeq] using hb)
    -- the reduction by `q`
    have hokq := hv.items _ htop1 itq' hitq'
    have hgetq : pq.rhs[itq'.dot]? = none := by
      rw [hdq', hdq]; simp
    simp only [itemOK, hpq', hpq, hq, hgetq, List.all_eq_true, List.contains_eq_mem,
      decide_eq_true_eq] at hokq
    have hred := hokq b (subsetB_mem hsubq' hb)
    -- the goto on the nonterminal
    cases hg : T.goto (atop σ) pq.lhs with
    | none => rw [hg] at hgoto; cases hgoto
    | some s2 =>
      rw [hg] at hgoto
      simp only [Bool.and_eq_true, decide_eq_true_eq] at hgoto
      obtain ⟨it2, hit2, hp2, hd2, hsub2⟩ := hasItem_spec hgoto.2
      have hstep : AStep g T (σq ++ σ, b :: w') (s2 :: σ, b :: w') := by
        have := AStep.reduce (σq ++ σ) b w' q pq s2 hred hq
          (by simp [hlen1]) (by simpa [← hlen1] using hg)
        simpa [← hlen1] using this
      obtain ⟨σ', it', hstar2, hlen2, htop2, hit', hp', hd', hsub'⟩ :=
        ih2 (s2 :: σ) it2 pr β a w hgoto.1 hit2 (by rw [hp2]; exact hpr) (by rw [hd2]; exact hdrop')
          (firstSeq_mono β _ _ (fun x hx => subsetB_mem hsub2 hx) a ha)
      refine ⟨σ' ++ [s2], it', ?_, by simp [hlen2], by simpa using htop2, by simpa using hit',
        by rw [hp', hp2], by rw [hd', hd2]; simp; omega, subsetB_trans hsub2 hsub'⟩
      have e1 : (u1 ++ u2) ++ a :: w = u1 ++ b :: w' := by rw [List.append_assoc, hbw]
      rw [e1]
      have hstar2' : AStar g T (s2 :: σ, b :: w') (σ' ++ [s2] ++ σ, a :: w) := by
        rw [← hbw]; simpa using hstar2
      exact (hstar1.trans (AStar.single hstep)).trans hstar2'

end Pg

namespace Pg
open LRV

variable {g : Grammar} {T : Table} {I : Nat → List VItem} {F : FirstData}

/-- Every derivable terminal string followed by `STOP` drives the abstract machine into a state
that accepts. -/
theorem abstract_complete (hv : Valid g T I F) {u : List Nat} (hd : Der g [.nt g.start] u) :
    ∃ s1 : Nat, AStar g T ([], u ++ [STOP]) ([s1], [STOP]) ∧ Action.accept ∈ T.actions s1 STOP := by
  obtain ⟨pr0, hp0, hrhs0⟩ := hv.prod0
  obtain ⟨it0, hit0, hp, hdot, _⟩ := hasItem_spec hv.start
  obtain ⟨σ', it', hstar, hlen, htop, hit', hp', hd', _⟩ :=
    lemmaA hv hd [] it0 pr0 [.t STOP] STOP [] hv.n_pos hit0 (by rw [hp]; exact hp0)
      (by rw [hdot, hrhs0]; rfl) (by simp [firstSeq])
  match σ', hlen with
  | [s1], _ =>
    refine ⟨s1, by simpa using hstar, ?_⟩
    have hok := hv.items _ htop it' hit'
    have hget : pr0.rhs[it'.dot]? = some (.t STOP) := by rw [hd', hdot, hrhs0]; rfl
    simp only [itemOK, hp', hp, hp0, hget, if_true, List.contains_eq_mem, decide_eq_true_eq] at hok
    simpa [atop] using hok

/-! ### Layer 2: token edges of the input -/

/-- Token edges chained from raw position `i` to raw position `j`. -/
inductive TokPath (inp : Input) : Nat → List Tok → Nat → Prop where
  | nil (i : Nat) : TokPath inp i [] i
  | cons (i : Nat) (tok : Tok) (rest : List Tok) (j : Nat) (hne : tok.term ≠ STOP)
      (hs : tok.s = inp.skip i) (hm : inp.mlen tok.term tok.s = some tok.len) (hl : 0 < tok.len)
      (h : TokPath inp (tok.s + tok.len) rest j) : TokPath inp i (tok :: rest) j

theorem TokPath.append {inp : Input} {i k j : Nat} {u1 u2 : List Tok} (h1 : TokPath inp i u1 k)
    (h2 : TokPath inp k u2 j) : TokPath inp i (u1 ++ u2) j := by
  induction h1 with
  | nil _ => exact h2
  | cons i tok rest _ hne hs hm hl _ ih => exact TokPath.cons i tok (rest ++ u2) j hne hs hm hl (ih h2)

/-- A derivation over the input reads a chain of token edges whose terminals it derives. -/
theorem derivesSeq_toks {inp : Input} (hin : InputOK inp) {Xs : List Sym} {i j : Nat} {ts : List Tree}
    (h : DerivesSeq g inp Xs i j ts) :
    ∃ toks : List Tok, TokPath inp i toks j ∧ Der g Xs (toks.map (·.term)) := by
  induction h with
  | nil i => exact ⟨[], TokPath.nil i, Der.nil⟩
  | tok t i l j Xs ts hm hl _ ih =>
    obtain ⟨toks, hp, hd⟩ := ih
    have hne : t ≠ STOP := by
      intro he; subst he; rw [hin.stop] at hm; cases hm
    exact ⟨⟨t, inp.skip i, l⟩ :: toks, TokPath.cons i _ toks j hne rfl hm hl hp,
      Der.tok t Xs _ hne hd⟩
  | prod p pr i k j s e cs Xs ts hp _ _ ih1 ih2 =>
    obtain ⟨u1, hp1, hd1⟩ := ih1
    obtain ⟨u2, hp2, hd2⟩ := ih2
    refine ⟨u1 ++ u2, hp1.append hp2, ?_⟩
    rw [List.map_append]
    exact Der.prod p pr Xs _ _ hp hd1 hd2

def stopTok (inp : Input) (e : Nat) : Tok := ⟨STOP, inp.skip e, 0⟩

/-- The token the automaton must scan next: the first remaining one, `STOP` after the last. -/
def nextTok (inp : Input) (toks : List Tok) (e : Nat) : Tok :=
  match toks with
  | [] => stopTok inp e
  | tok :: _ => tok

/-- Relation between a configuration of the automaton and a configuration of the abstract
machine: same states, the remaining tokens are chained from the configuration's position up to
the end of the input, and the lookahead — if already scanned — is the next token. -/
structure Sim (inp : Input) (c : Config) (σ : List Nat) (toks : List Tok) (e : Nat) : Prop where
  states : c.stack.map (·.1) = σ
  path : TokPath inp c.pos toks e
  fin : inp.skip e = inp.len
  la : c.la = none ∨ c.la = some (inp.skip c.pos, some (nextTok inp toks e))

theorem top_eq_atop (c : Config) : c.top = atop (c.stack.map (·.1)) := by
  unfold Config.top atop
  cases c.stack with
  | nil => rfl
  | cons x xs => obtain ⟨s, t⟩ := x; rfl

theorem topOf_eq_atop (st : List (Nat × Tree)) : topOf st = atop (st.map (·.1)) := by
  unfold topOf atop
  cases st with
  | nil => rfl
  | cons x xs => obtain ⟨s, t⟩ := x; rfl

/-- From a simulated configuration the lookahead can always be scanned. -/
theorem sim_scanned {inp : Input} {c : Config} {σ : List Nat} {toks : List Tok} {e : Nat}
    (hr : Reach g T inp c) (hs : Sim inp c σ toks e) :
    ∃ c', Reach g T inp c' ∧ Sim inp c' σ toks e ∧ c'.stack = c.stack ∧ c'.pos = c.pos ∧
      c'.la = some (inp.skip c.pos, some (nextTok inp toks e)) := by
  rcases hs.la with hla | hla
  · have hok : ∀ tok, some (nextTok inp toks e) = some tok → tok.s = inp.skip c.pos ∧
        (tok.term ≠ STOP → inp.mlen tok.term (inp.skip c.pos) = some tok.len ∧ 0 < tok.len) ∧
        (tok.term = STOP → inp.skip c.pos = inp.len) := by
      intro tok htok
      simp only [Option.some.injEq] at htok
      subst htok
      have hpath := hs.path
      cases toks with
      | nil =>
        cases hpath
        exact ⟨rfl, fun h => absurd rfl h, fun _ => hs.fin⟩
      | cons tok rest =>
        cases hpath with
        | cons _ _ _ _ hne hst hm hl h =>
          simp only [nextTok]
          exact ⟨hst, fun _ => ⟨by rw [← hst]; exact hm, hl⟩, fun h => absurd h hne⟩
    refine ⟨{ c with la := some (inp.skip c.pos, some (nextTok inp toks e)) },
      Reach.step c _ hr (NStep.scan c (some (nextTok inp toks e)) hla hok),
      ⟨hs.states, hs.path, hs.fin, Or.inr rfl⟩, rfl, rfl, rfl⟩
  · exact ⟨c, hr, hs, rfl, rfl, hla⟩

end Pg

namespace Pg
open LRV

variable {g : Grammar} {T : Table} {I : Nat → List VItem} {F : FirstData}

theorem nextTok_term {inp : Input} {toks : List Tok} {e a : Nat} {w : List Nat}
    (h : toks.map (·.term) ++ [STOP] = a :: w) : (nextTok inp toks e).term = a := by
  cases toks with
  | nil => simp only [List.map_nil, List.nil_append, List.cons.injEq] at h; simp [nextTok, stopTok, h.1]
  | cons tok rest => simp only [List.map_cons, List.cons_append, List.cons.injEq] at h; simp [nextTok, h.1]

/-- One step of the abstract machine is a scan (if needed) and an action of the automaton. -/
theorem sim_step {inp : Input} {x y : List Nat × List Nat} (h : AStep g T x y) :
    ∀ (c : Config) (toks : List Tok) (e : Nat), Reach g T inp c → Sim inp c x.1 toks e →
      toks.map (·.term) ++ [STOP] = x.2 →
      ∃ (c' : Config) (toks' : List Tok), Reach g T inp c' ∧ Sim inp c' y.1 toks' e ∧
        toks'.map (·.term) ++ [STOP] = y.2 := by
  cases h with
  | shift σ a w s' ha hact =>
    intro c toks e hr hs hw
    obtain ⟨c1, hr1, hs1, hst1, hpos1, hla1⟩ := sim_scanned hr hs
    cases toks with
    | nil => simp only [List.map_nil, List.nil_append, List.cons.injEq] at hw; exact absurd hw.1.symm ha
    | cons tok rest =>
      simp only [List.map_cons, List.cons_append, List.cons.injEq] at hw
      have hpath := hs1.path
      cases hpath with
      | cons _ _ _ _ hne hst hm hl hrest =>
        have htop : c1.top = atop σ := by rw [top_eq_atop, hs1.states]
        have hstep := NStep.act (g := g) (T := T) (inp := inp) c1 (inp.skip c.pos) tok (.shift s')
          (by rw [hla1]; rfl) (by rw [htop, hw.1]; exact hact)
        simp only [applyAction, doShift, if_neg hne] at hstep
        refine ⟨_, rest, Reach.step c1 _ hr1 hstep, ⟨?_, ?_, hs1.fin, Or.inl rfl⟩, hw.2⟩
        · simp [hs1.states]
        · simp only
          rw [← hpos1, ← hst]
          exact hrest
  | reduce σ a w q pq s' hact hq hlen hg =>
    intro c toks e hr hs hw
    obtain ⟨c1, hr1, hs1, hst1, hpos1, hla1⟩ := sim_scanned hr hs
    have hterm := nextTok_term (inp := inp) (e := e) hw
    have htop : c1.top = atop σ := by rw [top_eq_atop, hs1.states]
    have hstep := NStep.act (g := g) (T := T) (inp := inp) c1 (inp.skip c.pos) (nextTok inp toks e)
      (.reduce q) (by rw [hla1]) (by rw [htop, hterm]; exact hact)
    have hlen1 : ¬ c1.stack.length < pq.rhs.length := by
      have : c1.stack.length = σ.length := by
        have := congrArg List.length hs1.states
        simpa using this
      omega
    have hgoto : T.goto (topOf (c1.stack.drop pq.rhs.length)) pq.lhs = some s' := by
      rw [topOf_eq_atop, List.map_drop, hs1.states]; exact hg
    simp only [applyAction, doReduce, hq, if_neg hlen1, hgoto] at hstep
    refine ⟨_, toks, Reach.step c1 _ hr1 hstep, ⟨?_, ?_, hs1.fin, ?_⟩, hw⟩
    · simp [List.map_drop, hs1.states]
    · exact hs1.path
    · right; simp only; rw [hla1, hpos1]

theorem sim_star {inp : Input} {x y : List Nat × List Nat} (h : AStar g T x y) :
    ∀ (c : Config) (toks : List Tok) (e : Nat), Reach g T inp c → Sim inp c x.1 toks e →
      toks.map (·.term) ++ [STOP] = x.2 →
      ∃ (c' : Config) (toks' : List Tok), Reach g T inp c' ∧ Sim inp c' y.1 toks' e ∧
        toks'.map (·.term) ++ [STOP] = y.2 := by
  induction h with
  | refl x => intro c toks e hr hs hw; exact ⟨c, toks, hr, hs, hw⟩
  | head x y z hstep _ ih =>
    intro c toks e hr hs hw
    obtain ⟨c1, toks1, hr1, hs1, hw1⟩ := sim_step hstep c toks e hr hs hw
    exact ih c1 toks1 e hr1 hs1 hw1

/-- **Completeness of validated tables.** If the validator accepts the table with its item sets
and FIRST data, every sentence — of every input, under every recognizer behaviour — has an
accepting run of the nondeterministic LR automaton over the table. -/
theorem lr_complete {inp : Input} (hv : lrComplete g T I F = true) (hin : InputOK inp)
    (t : Tree) (h : IsParseOf g inp t) :
    ∃ (c : Config) (t' : Tree) (e p : Nat), Reach g T inp c ∧ NStep g T inp c (.done (.ok t' e p)) := by
  have hV := valid_of_lrComplete hv
  obtain ⟨e, hd, hfin⟩ := h
  obtain ⟨toks, hpath, hder⟩ := derivesSeq_toks hin hd
  obtain ⟨s1, hstar, hacc⟩ := abstract_complete hV hder
  obtain ⟨c1, toks1, hr1, hs1, hw1⟩ := sim_star hstar Config.init toks e Reach.init
    ⟨rfl, hpath, hfin, Or.inl rfl⟩ rfl
  have htoks1 : toks1 = [] := by
    cases toks1 with
    | nil => rfl
    | cons tok rest => simp at hw1
  subst htoks1
  obtain ⟨c2, hr2, hs2, hst2, hpos2, hla2⟩ := sim_scanned hr1 hs1
  have htop : c2.top = s1 := by rw [top_eq_atop, hs2.states]; rfl
  have hstep := NStep.act (g := g) (T := T) (inp := inp) c2 (inp.skip c1.pos) (nextTok inp [] e) .accept
    (by rw [hla2]) (by rw [htop]; exact hacc)
  simp only [applyAction, doAccept] at hstep
  have hne : c2.stack ≠ [] := by
    intro he
    have := hs2.states
    rw [he] at this
    simp at this
  cases hlast : c2.stack.getLast? with
  | none => simp [List.getLast?_eq_none_iff] at hlast; exact absurd hlast hne
  | some x =>
    obtain ⟨s, tr⟩ := x
    rw [hlast] at hstep
    exact ⟨c2, tr, c2.pos, inp.skip c1.pos, hr2, hstep⟩

end Pg

import PgVerif.Proofs.LRComplete
/-!
The deterministic LR driver accepts every sentence when its table is validated
complete, every cell holds at most one action and the expected terminals of a
state never match the same position together (no lexical ambiguity): the driver's
scanner then finds exactly the token the derivation reads next, the single action
of the cell is the one the derivation calls for, and the run follows the abstract
machine of `Proofs/LRComplete.lean` step by step.
-/
namespace Pg
open LRV

variable {g : Grammar} {T : Table} {inp : Input}

/-- Hypotheses on the table (decidable) and on the input's lexical behaviour. -/
structure DetOK (T : Table) (inp : Input) : Prop where
  det : ∀ s a, (T.actions s a).length ≤ 1
  flen : ∀ s, (T.finish s).length = (T.cells s).length
  nodup : ∀ s, ((T.cells s).map (·.1)).Nodup
  lex : ∀ s p a b, a ∈ (T.cells s).map (·.1) → b ∈ (T.cells s).map (·.1) →
    (inp.matchAt a p).isSome = true → (inp.matchAt b p).isSome = true → a = b

theorem recognize_nomatch (p : Nat) :
    ∀ (l : List (Nat × Bool)) (last : Nat) (acc : List Tok), (∀ x ∈ l, inp.matchAt x.1 p = none) →
      recognize T inp p l last acc = acc.reverse := by
  intro l
  induction l with
  | nil => intro last acc _; simp [recognize]
  | cons x rest ih =>
    intro last acc h
    obtain ⟨a, fin⟩ := x
    simp only [recognize]
    split
    · rfl
    · have := h (a, fin) (by simp)
      simp only at this
      rw [this]
      exact ih _ _ (fun y hy => h y (by simp [hy]))

theorem recognize_unique (p a len : Nat) (hm : inp.matchAt a p = some len) :
    ∀ (l : List (Nat × Bool)) (last : Nat), (∀ x ∈ l, x.1 ≠ a → inp.matchAt x.1 p = none) →
      a ∈ l.map (·.1) → (l.map (·.1)).Nodup →
      recognize T inp p l last [] = [⟨a, p, len⟩] := by
  intro l
  induction l with
  | nil => intro last _ h _; simp at h
  | cons x rest ih =>
    intro last hno hmem hnd
    obtain ⟨b, fin⟩ := x
    simp only [List.map_cons, List.nodup_cons] at hnd
    simp only [recognize, List.isEmpty_nil, Bool.not_true, Bool.and_false, Bool.false_eq_true, if_false]
    by_cases hb : b = a
    · subst hb
      rw [hm]
      simp only
      split
      · rfl
      · have : ∀ y ∈ rest, inp.matchAt y.1 p = none := by
          intro y hy
          apply hno y (by simp [hy])
          intro he
          apply hnd.1
          rw [← he]
          exact List.mem_map_of_mem hy
        rw [recognize_nomatch p rest _ _ this]
        rfl
    · have hnone := hno (b, fin) (by simp) hb
      simp only at hnone
      rw [hnone]
      simp only
      apply ih _ (fun y hy => hno y (by simp [hy])) ?_ hnd.2
      simp only [List.map_cons, List.mem_cons] at hmem
      rcases hmem with h | h
      · exact absurd h.symm hb
      · exact h

theorem mem_cells_of_action {s a : Nat} {act : Action} (h : act ∈ T.actions s a) :
    a ∈ (T.cells s).map (·.1) := by
  unfold Table.actions at h
  split at h
  · rename_i c hc
    have h1 := List.mem_of_find?_eq_some hc
    have h2 := List.find?_some hc
    simp only [beq_iff_eq] at h2
    rw [← h2]
    exact List.mem_map_of_mem h1
  · simp at h

theorem expected_fst (hd : DetOK T inp) (s : Nat) : (T.expected s).map (·.1) = (T.cells s).map (·.1) := by
  unfold Table.expected
  rw [List.map_fst_zip]
  simp [hd.flen s]

/-- The scanner finds exactly the next token of the derivation. -/
theorem nextTokens_next (hd : DetOK T inp) (hin : InputOK inp) (lexDis : Bool) {c : Config}
    {σ : List Nat} {toks : List Tok} {e : Nat} (hs : Sim inp c σ toks e) {act : Action}
    (hact : act ∈ T.actions c.top (nextTok inp toks e).term) :
    nextTokens T inp true lexDis c.top (inp.skip c.pos) = [nextTok inp toks e] := by
  have hcell := mem_cells_of_action hact
  have hpath := hs.path
  unfold nextTokens
  cases toks with
  | nil =>
    cases hpath
    -- at the end of the input: STOP is expected, nothing else can match
    have hp : inp.skip c.pos = inp.len := hs.fin
    have hany : (T.cells c.top).any (fun x => x.1 == STOP) = true := by
      simp only [nextTok, stopTok, List.mem_map] at hcell
      obtain ⟨x, hx, hxe⟩ := hcell
      exact List.any_eq_true.mpr ⟨x, hx, by simp [hxe]⟩
    simp only [hany, hp, Bool.not_true, Bool.false_or, beq_self_eq_true, Bool.and_self, if_true,
      Nat.lt_irrefl, if_false, List.append_nil]
    have : lexDisamb T [(⟨STOP, inp.len, 0⟩ : Tok)] = [⟨STOP, inp.len, 0⟩] := by simp [lexDisamb]
    cases lexDis
    · simp [nextTok, stopTok, hp]
    · simp [nextTok, stopTok, hp, this]
  | cons tok rest =>
    cases hpath with
    | cons _ _ _ _ hne hst hm hl hrest =>
      simp only [nextTok] at hcell ⊢
      have hle := hin.mlen_le _ _ _ hm
      have hlt : inp.skip c.pos < inp.len := by rw [← hst]; omega
      have hnelen : (inp.skip c.pos == inp.len) = false := by
        simp only [beq_eq_false_iff_ne, ne_eq]; omega
      have hmatch : inp.matchAt tok.term (inp.skip c.pos) = some tok.len := by
        unfold Input.matchAt
        rw [if_neg hne, ← hst, hm]
        simp [hl]
      have hreal : recognize T inp (inp.skip c.pos) (T.expected c.top) 0 [] =
          [⟨tok.term, inp.skip c.pos, tok.len⟩] := by
        apply recognize_unique (inp.skip c.pos) tok.term tok.len hmatch
        · intro x hx hxa
          cases hmx : inp.matchAt x.1 (inp.skip c.pos) with
          | none => rfl
          | some l =>
            have hxc : x.1 ∈ (T.cells c.top).map (·.1) := by
              rw [← expected_fst hd]; exact List.mem_map_of_mem hx
            exact absurd (hd.lex c.top _ x.1 tok.term hxc hcell (by rw [hmx]; rfl) (by rw [hmatch]; rfl)) hxa
        · rw [expected_fst hd]; exact hcell
        · rw [expected_fst hd]; exact hd.nodup c.top
      have htok : (⟨tok.term, inp.skip c.pos, tok.len⟩ : Tok) = tok := by
        cases tok; simp only [Tok.mk.injEq, true_and, and_true]; exact hst.symm
      simp only [hnelen, Bool.not_true, Bool.false_or, Bool.and_false, Bool.false_eq_true, if_false,
        hlt, if_true, List.nil_append, hreal, htok]
      cases lexDis
      · simp
      · simp [lexDisamb]

end Pg

namespace Pg
open LRV

variable {g : Grammar} {T : Table} {inp : Input}

/-- `n` steps of the deterministic driver lead from `c` to `c'`. -/
def stepsTo (g : Grammar) (T : Table) (inp : Input) (cf : LRCfg) : Nat → Config → Config → Prop
  | 0, c, c' => c = c'
  | n + 1, c, c' => ∃ c1, step g T inp cf c = .next c1 ∧ stepsTo g T inp cf n c1 c'

theorem stepsTo_trans {cf : LRCfg} : ∀ (n m : Nat) (a b c : Config),
    stepsTo g T inp cf n a b → stepsTo g T inp cf m b c → stepsTo g T inp cf (n + m) a c := by
  intro n
  induction n with
  | zero => intro m a b c h1 h2; simp only [stepsTo] at h1; subst h1; simpa using h2
  | succ n ih =>
    intro m a b c h1 h2
    obtain ⟨c1, hs, hrest⟩ := h1
    rw [show n + 1 + m = (n + m) + 1 by omega]
    exact ⟨c1, hs, ih m c1 b c hrest h2⟩

theorem run_stepsTo {cf : LRCfg} : ∀ (n : Nat) (c c' : Config), stepsTo g T inp cf n c c' →
    ∀ m, run g T inp cf (n + m) c = run g T inp cf m c' := by
  intro n
  induction n with
  | zero => intro c c' h m; simp only [stepsTo] at h; subst h; simp
  | succ n ih =>
    intro c c' h m
    obtain ⟨c1, hs, hrest⟩ := h
    rw [show n + 1 + m = (n + m) + 1 by omega]
    simp only [run, hs]
    exact ih c1 c' hrest m

theorem singleton_of_mem {α : Type} {l : List α} {x : α} (h : x ∈ l) (hl : l.length ≤ 1) : l = [x] := by
  match l, h, hl with
  | [y], h, _ => simp only [List.mem_singleton] at h; rw [h]
  | _ :: _ :: _, _, hl => simp at hl

theorem pickAction_single (a : Action) : pickAction g a [] = some a := by
  cases a <;> rfl

/-- With the lookahead scanned, the driver applies the single action of the cell. -/
theorem step_act (hd : DetOK T inp) (cf : LRCfg) (c : Config) (p : Nat) (tk : Tok) (act : Action)
    (hla : c.la = some (p, some tk)) (hact : act ∈ T.actions c.top tk.term) :
    step g T inp cf c = applyAction g T c p (some tk) act := by
  have hcell : T.actions c.top tk.term = [act] := singleton_of_mem hact (hd.det _ _)
  unfold step
  rw [hla]
  simp only [cellFor, hcell, List.isEmpty_cons, Bool.false_and, Bool.false_eq_true, if_false,
    pickAction_single]

/-- The driver scans exactly the next token of the derivation. -/
theorem det_scanned (hd : DetOK T inp) (hin : InputOK inp) (cf : LRCfg) (hcf : cf.consumeInput = true)
    {c : Config} {σ : List Nat} {toks : List Tok} {e : Nat} (hs : Sim inp c σ toks e) {act : Action}
    (hact : act ∈ T.actions c.top (nextTok inp toks e).term) :
    ∃ (c1 : Config) (n : Nat), stepsTo g T inp cf n c c1 ∧ Sim inp c1 σ toks e ∧ c1.stack = c.stack ∧
      c1.pos = c.pos ∧ c1.la = some (inp.skip c.pos, some (nextTok inp toks e)) := by
  rcases hs.la with hla | hla
  · refine ⟨{ c with la := some (inp.skip c.pos, some (nextTok inp toks e)) }, 1, ?_,
      ⟨hs.states, hs.path, hs.fin, Or.inr rfl⟩, rfl, rfl, rfl⟩
    refine ⟨_, ?_, rfl⟩
    unfold step
    rw [hla]
    simp only [scanStep, hcf, nextTokens_next hd hin cf.lexDis hs hact]
  · exact ⟨c, 0, rfl, hs, rfl, rfl, hla⟩

theorem det_step (hd : DetOK T inp) (hin : InputOK inp) (cf : LRCfg) (hcf : cf.consumeInput = true)
    {x y : List Nat × List Nat} (h : AStep g T x y) :
    ∀ (c : Config) (toks : List Tok) (e : Nat), Sim inp c x.1 toks e →
      toks.map (·.term) ++ [STOP] = x.2 →
      ∃ (c' : Config) (toks' : List Tok) (n : Nat), stepsTo g T inp cf n c c' ∧ Sim inp c' y.1 toks' e ∧
        toks'.map (·.term) ++ [STOP] = y.2 := by
  cases h with
  | shift σ a w s' ha hact =>
    intro c toks e hs hw
    have hterm := nextTok_term (inp := inp) (e := e) hw
    have htop0 : c.top = atop σ := by rw [top_eq_atop, hs.states]
    obtain ⟨c1, n1, hn1, hs1, hst1, hpos1, hla1⟩ :=
      det_scanned (g := g) hd hin cf hcf hs (act := .shift s') (by rw [htop0, hterm]; exact hact)
    cases toks with
    | nil => simp only [List.map_nil, List.nil_append, List.cons.injEq] at hw; exact absurd hw.1.symm ha
    | cons tok rest =>
      simp only [List.map_cons, List.cons_append, List.cons.injEq] at hw
      have hpath := hs1.path
      cases hpath with
      | cons _ _ _ _ hne hst hm hl hrest =>
        have htop : c1.top = atop σ := by rw [top_eq_atop, hs1.states]
        have hstep := step_act (g := g) hd cf c1 (inp.skip c.pos) tok (.shift s')
          (by rw [hla1]; rfl) (by rw [htop, hw.1]; exact hact)
        simp only [applyAction, doShift, if_neg hne] at hstep
        refine ⟨_, rest, n1 + 1, stepsTo_trans n1 1 c c1 _ hn1 ⟨_, hstep, rfl⟩,
          ⟨?_, ?_, hs1.fin, Or.inl rfl⟩, hw.2⟩
        · simp [hs1.states]
        · simp only
          rw [← hpos1, ← hst]
          exact hrest
  | reduce σ a w q pq s' hact hq hlen hg =>
    intro c toks e hs hw
    have hterm := nextTok_term (inp := inp) (e := e) hw
    have htop0 : c.top = atop σ := by rw [top_eq_atop, hs.states]
    obtain ⟨c1, n1, hn1, hs1, hst1, hpos1, hla1⟩ :=
      det_scanned (g := g) hd hin cf hcf hs (act := .reduce q) (by rw [htop0, hterm]; exact hact)
    have htop : c1.top = atop σ := by rw [top_eq_atop, hs1.states]
    have hstep := step_act (g := g) hd cf c1 (inp.skip c.pos) (nextTok inp toks e) (.reduce q)
      (by rw [hla1]) (by rw [htop, hterm]; exact hact)
    have hlen1 : ¬ c1.stack.length < pq.rhs.length := by
      have : c1.stack.length = σ.length := by
        have := congrArg List.length hs1.states
        simpa using this
      omega
    have hgoto : T.goto (topOf (c1.stack.drop pq.rhs.length)) pq.lhs = some s' := by
      rw [topOf_eq_atop, List.map_drop, hs1.states]; exact hg
    simp only [applyAction, doReduce, hq, if_neg hlen1, hgoto] at hstep
    refine ⟨_, toks, n1 + 1, stepsTo_trans n1 1 c c1 _ hn1 ⟨_, hstep, rfl⟩, ⟨?_, ?_, hs1.fin, ?_⟩, hw⟩
    · simp [List.map_drop, hs1.states]
    · exact hs1.path
    · right; simp only; rw [hla1, hpos1]

theorem det_star (hd : DetOK T inp) (hin : InputOK inp) (cf : LRCfg) (hcf : cf.consumeInput = true)
    {x y : List Nat × List Nat} (h : AStar g T x y) :
    ∀ (c : Config) (toks : List Tok) (e : Nat), Sim inp c x.1 toks e →
      toks.map (·.term) ++ [STOP] = x.2 →
      ∃ (c' : Config) (toks' : List Tok) (n : Nat), stepsTo g T inp cf n c c' ∧ Sim inp c' y.1 toks' e ∧
        toks'.map (·.term) ++ [STOP] = y.2 := by
  induction h with
  | refl x => intro c toks e hs hw; exact ⟨c, toks, 0, rfl, hs, hw⟩
  | head x y z hstep _ ih =>
    intro c toks e hs hw
    obtain ⟨c1, toks1, n1, hn1, hs1, hw1⟩ := det_step hd hin cf hcf hstep c toks e hs hw
    obtain ⟨c2, toks2, n2, hn2, hs2, hw2⟩ := ih c1 toks1 e hs1 hw1
    exact ⟨c2, toks2, n1 + n2, stepsTo_trans n1 n2 c c1 c2 hn1 hn2, hs2, hw2⟩

/-- **The deterministic LR driver accepts every sentence** over a validated, conflict-free table
when the expected terminals are never lexically ambiguous. -/
theorem det_complete {I : Nat → List VItem} {F : FirstData} (hv : lrComplete g T I F = true)
    (hd : DetOK T inp) (hin : InputOK inp) (cf : LRCfg) (hcf : cf.consumeInput = true)
    (h : Sentence g inp) :
    ∃ (fuel : Nat) (t : Tree) (e p : Nat), parseLR g T inp cf fuel = .ok t e p := by
  have hV := valid_of_lrComplete hv
  obtain ⟨t, e, hder0, hfin⟩ := h
  obtain ⟨toks, hpath, hder⟩ := derivesSeq_toks hin hder0
  obtain ⟨s1, hstar, hacc⟩ := abstract_complete hV hder
  obtain ⟨c1, toks1, n1, hn1, hs1, hw1⟩ := det_star hd hin cf hcf hstar Config.init toks e
    ⟨rfl, hpath, hfin, Or.inl rfl⟩ rfl
  have htoks1 : toks1 = [] := by
    cases toks1 with
    | nil => rfl
    | cons tok rest => simp at hw1
  subst htoks1
  have htop1 : c1.top = s1 := by rw [top_eq_atop, hs1.states]; rfl
  obtain ⟨c2, n2, hn2, hs2, hst2, hpos2, hla2⟩ :=
    det_scanned (g := g) hd hin cf hcf hs1 (act := .accept) (by rw [htop1]; exact hacc)
  have htop2 : c2.top = s1 := by rw [top_eq_atop, hs2.states]; rfl
  have hstep := step_act (g := g) hd cf c2 (inp.skip c1.pos) (nextTok inp [] e) .accept
    (by rw [hla2]) (by rw [htop2]; exact hacc)
  simp only [applyAction, doAccept] at hstep
  have hne : c2.stack ≠ [] := by
    intro he
    have := hs2.states
    rw [he] at this
    simp at this
  cases hlast : c2.stack.getLast? with
  | none => simp [List.getLast?_eq_none_iff] at hlast; exact absurd hlast hne
  | some x =>
    obtain ⟨s, tr⟩ := x
    rw [hlast] at hstep
    refine ⟨(n1 + n2) + 1, tr, c2.pos, inp.skip c1.pos, ?_⟩
    unfold parseLR
    rw [run_stepsTo (n1 + n2) Config.init c2 (stepsTo_trans n1 n2 _ c1 c2 hn1 hn2) 1]
    simp only [run, hstep]

end Pg

namespace Pg
open LRV

/-- Executable form of `DetOK` over the states of the table. -/
def detTableB (T : Table) : Bool :=
  (List.range T.n).all (fun s =>
    (T.cells s).all (fun c => decide ((T.actions s c.1).length ≤ 1)) &&
    (T.finish s).length == (T.cells s).length &&
    decide ((T.cells s).map (·.1)).Nodup)

def lexDetB (T : Table) (inp : Input) : Bool :=
  (List.range T.n).all (fun s => (List.range (inp.len + 1)).all (fun p =>
    decide ((((T.cells s).map (·.1)).filter (fun a => (inp.matchAt a p).isSome)).length ≤ 1)))

theorem filter_two {l : List Nat} {P : Nat → Bool} {a b : Nat} (ha : a ∈ l) (hb : b ∈ l) (hne : a ≠ b)
    (hpa : P a = true) (hpb : P b = true) : 2 ≤ (l.filter P).length := by
  induction l with
  | nil => simp at ha
  | cons x xs ih =>
    simp only [List.mem_cons] at ha hb
    rcases ha with rfl | ha
    · rcases hb with rfl | hb
      · exact absurd rfl hne
      · simp only [List.filter, hpa]
        have : b ∈ xs.filter P := List.mem_filter.mpr ⟨hb, hpb⟩
        have := List.length_pos_of_mem this
        simp only [List.length_cons]; omega
    · rcases hb with rfl | hb
      · simp only [List.filter, hpb]
        have : a ∈ xs.filter P := List.mem_filter.mpr ⟨ha, hpa⟩
        have := List.length_pos_of_mem this
        simp only [List.length_cons]; omega
      · have := ih ha hb
        simp only [List.filter]
        split
        · simp only [List.length_cons]; omega
        · omega

/-- The executable conditions give `DetOK` for a table that is empty beyond its `n` states (as every
table decoded from a finite dump is) on inputs whose matches stay inside the text. -/
theorem detOK_of_bool {T : Table} {inp : Input} (hT : detTableB T = true) (hL : lexDetB T inp = true)
    (hfin : ∀ s, T.n ≤ s → T.cells s = [] ∧ T.finish s = []) (hin : InputOK inp) : DetOK T inp := by
  simp only [detTableB, List.all_eq_true, List.mem_range, Bool.and_eq_true, decide_eq_true_eq,
    beq_iff_eq] at hT
  simp only [lexDetB, List.all_eq_true, List.mem_range, decide_eq_true_eq] at hL
  refine ⟨?_, ?_, ?_, ?_⟩
  · intro s a
    by_cases hs : s < T.n
    · unfold Table.actions
      cases hf : (T.cells s).find? (fun c => c.1 == a) with
      | none => simp
      | some c =>
        have hc := List.mem_of_find?_eq_some hf
        have hca := List.find?_some hf
        simp only [beq_iff_eq] at hca
        have := (hT s hs).1.1 c hc
        unfold Table.actions at this
        rw [hca, hf] at this
        exact this
    · have := (hfin s (by omega)).1
      simp [Table.actions, this]
  · intro s
    by_cases hs : s < T.n
    · exact (hT s hs).1.2
    · have := hfin s (by omega); simp [this.1, this.2]
  · intro s
    by_cases hs : s < T.n
    · exact (hT s hs).2
    · have := hfin s (by omega); simp [this.1]
  · intro s p a b ha hb hma hmb
    by_cases hs : s < T.n
    · apply Classical.byContradiction
      intro hne
      -- a match lies inside the text
      have hp : p < inp.len + 1 := by
        cases hm : inp.matchAt a p with
        | none => rw [hm] at hma; cases hma
        | some l =>
          unfold Input.matchAt at hm
          split at hm
          · cases hm
          · split at hm
            · rename_i l' hml
              have := hin.mlen_le _ _ _ hml
              omega
            · cases hm
      have := hL s hs p hp
      have h2 := filter_two (P := fun a => (inp.matchAt a p).isSome) ha hb hne hma hmb
      omega
    · have := (hfin s (by omega)).1
      rw [this] at ha; simp at ha

end Pg

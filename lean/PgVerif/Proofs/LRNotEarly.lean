import PgVerif.Proofs.LRDet
import PgVerif.Proofs.Pos
/-!
**Not early.** The deterministic LR driver never reports a syntax error at a
token that could extend a sentence prefix: if it reports `syntaxError p`, no
token path of the input from position 0 through a token starting at `p` begins
a sentence — whatever terminals one imagines after it. (Validated, conflict-free
table; no lexical ambiguity among the expected terminals.)

Proof: a hypothetical sentence `toks ++ a :: v` (with `toks ++ [a]` real token
edges, `v` arbitrary terminals) has an accepting run of the abstract machine
(`abstract_complete`); the driver follows that run as long as the tokens are
real (`det_until`), hence it shifts `a` and stands behind it; from there it can
only report errors at positions behind `a` (`run_error_pos_ge`).
-/
namespace Pg
open LRV

variable {g : Grammar} {T : Table} {inp : Input}

/-- The scanner finds a real token of which the state holds an action. -/
theorem nextTokens_real (hd : DetOK T inp) (hin : InputOK inp) (lexDis : Bool) (c : Config)
    (tok : Tok) (hne : tok.term ≠ STOP) (hst : tok.s = inp.skip c.pos)
    (hm : inp.mlen tok.term tok.s = some tok.len) (hl : 0 < tok.len) {act : Action}
    (hact : act ∈ T.actions c.top tok.term) :
    nextTokens T inp true lexDis c.top (inp.skip c.pos) = [tok] := by
  have hcell := mem_cells_of_action hact
  unfold nextTokens
  have hle := hin.mlen_le _ _ _ hm
  have hlt : inp.skip c.pos < inp.len := by rw [← hst]; omega
  have hnelen : (inp.skip c.pos == inp.len) = false := by
    simp only [beq_eq_false_iff_ne, ne_eq]; omega
  have hmatch : inp.matchAt tok.term (inp.skip c.pos) = some tok.len := by
    unfold Input.matchAt
    rw [if_neg hne, ← hst, hm]
    simp [hl]
  have hreal : recognize T inp (inp.skip c.pos) (T.expected c.top) 0 [] =
      [⟨tok.term, inp.skip c.pos, tok.len⟩] := by
    apply recognize_unique (inp.skip c.pos) tok.term tok.len hmatch
    · intro x hx hxa
      cases hmx : inp.matchAt x.1 (inp.skip c.pos) with
      | none => rfl
      | some l =>
        have hxc : x.1 ∈ (T.cells c.top).map (·.1) := by
          rw [← expected_fst hd]; exact List.mem_map_of_mem hx
        exact absurd (hd.lex c.top _ x.1 tok.term hxc hcell (by rw [hmx]; rfl) (by rw [hmatch]; rfl)) hxa
    · rw [expected_fst hd]; exact hcell
    · rw [expected_fst hd]; exact hd.nodup c.top
  have htok : (⟨tok.term, inp.skip c.pos, tok.len⟩ : Tok) = tok := by
    cases tok; simp only [Tok.mk.injEq, true_and, and_true]; exact hst.symm
  simp only [hnelen, Bool.not_true, Bool.false_or, Bool.and_false, Bool.false_eq_true, if_false,
    hlt, if_true, List.nil_append, hreal, htok]
  cases lexDis
  · simp
  · simp [lexDisamb]

/-- Simulation while real tokens remain: states agree, the remaining real tokens are chained from
the configuration's position, the lookahead — if scanned — is the first of them. -/
structure SimP (inp : Input) (c : Config) (σ : List Nat) (tok : Tok) (more : List Tok) (j : Nat) : Prop where
  states : c.stack.map (·.1) = σ
  path : TokPath inp c.pos (tok :: more) j
  la : c.la = none ∨ c.la = some (inp.skip c.pos, some tok)

theorem detP_scanned (hd : DetOK T inp) (hin : InputOK inp) (cf : LRCfg) (hcf : cf.consumeInput = true)
    {c : Config} {σ : List Nat} {tok : Tok} {more : List Tok} {j : Nat} (hs : SimP inp c σ tok more j)
    {act : Action} (hact : act ∈ T.actions c.top tok.term) :
    ∃ (c1 : Config) (n : Nat), stepsTo g T inp cf n c c1 ∧ SimP inp c1 σ tok more j ∧ c1.stack = c.stack ∧
      c1.pos = c.pos ∧ c1.la = some (inp.skip c.pos, some tok) := by
  rcases hs.la with hla | hla
  · have hpath := hs.path
    cases hpath with
    | cons _ _ _ _ hne hst hm hl _ =>
      refine ⟨{ c with la := some (inp.skip c.pos, some tok) }, 1, ?_, ⟨hs.states, hs.path, Or.inr rfl⟩,
        rfl, rfl, rfl⟩
      refine ⟨_, ?_, rfl⟩
      unfold step
      rw [hla]
      simp only [scanStep, hcf, nextTokens_real hd hin cf.lexDis c tok hne hst hm hl hact]
  · exact ⟨c, 0, rfl, hs, rfl, rfl, hla⟩

/-- The driver follows the abstract machine until every real token has been shifted. -/
theorem det_until (hd : DetOK T inp) (hin : InputOK inp) (cf : LRCfg) (hcf : cf.consumeInput = true)
    {x z : List Nat × List Nat} (h : AStar g T x z) (hz : z.2 = [STOP]) :
    ∀ (c : Config) (tok : Tok) (more : List Tok) (j : Nat) (rest : List Nat),
      SimP inp c x.1 tok more j → (tok :: more).map (·.term) ++ rest = x.2 →
      ∃ (c' : Config) (n : Nat), stepsTo g T inp cf n c c' ∧ c'.pos = j := by
  induction h with
  | refl x =>
    intro c tok more j rest hs hw
    -- a real token cannot be the final STOP
    have hpath := hs.path
    cases hpath with
    | cons _ _ _ _ hne _ _ _ _ =>
      rw [hz] at hw
      simp only [List.map_cons, List.cons_append, List.cons.injEq] at hw
      exact absurd hw.1 hne
  | head x y z hstep _ ih =>
    intro c tok more j rest hs hw
    cases hstep with
    | shift σ a w s' ha hact =>
      simp only [List.map_cons, List.cons_append, List.cons.injEq] at hw
      have htop0 : c.top = atop σ := by rw [top_eq_atop, hs.states]
      obtain ⟨c1, n1, hn1, hs1, hst1, hpos1, hla1⟩ :=
        detP_scanned (g := g) hd hin cf hcf hs (act := .shift s') (by rw [htop0, hw.1]; exact hact)
      have hpath := hs1.path
      cases hpath with
      | cons _ _ _ _ hne hst hm hl hrest =>
        have htop : c1.top = atop σ := by rw [top_eq_atop, hs1.states]
        have hstepc := step_act (g := g) hd cf c1 (inp.skip c.pos) tok (.shift s')
          (by rw [hla1]) (by rw [htop, hw.1]; exact hact)
        simp only [applyAction, doShift, if_neg hne] at hstepc
        cases more with
        | nil =>
          -- the last real token has been shifted
          cases hrest
          refine ⟨_, n1 + 1, stepsTo_trans n1 1 c c1 _ hn1 ⟨_, hstepc, rfl⟩, ?_⟩
          simp only
          rw [← hpos1, ← hst]
        | cons tok2 more2 =>
          have hsim : SimP inp { stack := (s', Tree.leaf tok.term (inp.skip c.pos) (inp.skip c.pos + tok.len)) :: c1.stack,
                                 pos := inp.skip c.pos + tok.len, la := none } (s' :: σ) tok2 more2 j := by
            refine ⟨by simp [hs1.states], ?_, Or.inl rfl⟩
            simp only
            rw [← hpos1, ← hst]
            exact hrest
          obtain ⟨c', n2, hn2, hpos⟩ := ih hz _ tok2 more2 j rest hsim (by simpa using hw.2)
          exact ⟨c', (n1 + 1) + n2,
            stepsTo_trans (n1 + 1) n2 c _ c' (stepsTo_trans n1 1 c c1 _ hn1 ⟨_, hstepc, rfl⟩) hn2, hpos⟩
    | reduce σ a w q pq s' hact hq hlen hg =>
      simp only [List.map_cons, List.cons_append, List.cons.injEq] at hw
      have htop0 : c.top = atop σ := by rw [top_eq_atop, hs.states]
      obtain ⟨c1, n1, hn1, hs1, hst1, hpos1, hla1⟩ :=
        detP_scanned (g := g) hd hin cf hcf hs (act := .reduce q) (by rw [htop0, hw.1]; exact hact)
      have htop : c1.top = atop σ := by rw [top_eq_atop, hs1.states]
      have hstepc := step_act (g := g) hd cf c1 (inp.skip c.pos) tok (.reduce q)
        (by rw [hla1]) (by rw [htop, hw.1]; exact hact)
      have hlen1 : ¬ c1.stack.length < pq.rhs.length := by
        have : c1.stack.length = σ.length := by
          have := congrArg List.length hs1.states
          simpa using this
        omega
      have hgoto : T.goto (topOf (c1.stack.drop pq.rhs.length)) pq.lhs = some s' := by
        rw [topOf_eq_atop, List.map_drop, hs1.states]; exact hg
      simp only [applyAction, doReduce, hq, if_neg hlen1, hgoto] at hstepc
      have hsim : SimP inp { c1 with stack := (s', Tree.node q
          (spanStart ((c1.stack.take pq.rhs.length).reverse.map (·.2)) c1.pos) c1.pos
          ((c1.stack.take pq.rhs.length).reverse.map (·.2))) :: c1.stack.drop pq.rhs.length }
          (s' :: σ.drop pq.rhs.length) tok more j := by
        refine ⟨by simp [List.map_drop, hs1.states], hs1.path, ?_⟩
        right; simp only; rw [hla1, hpos1]
      obtain ⟨c', n2, hn2, hpos⟩ := ih hz _ tok more j rest hsim
        (by simp only [List.map_cons, List.cons_append]; rw [hw.1, hw.2])
      exact ⟨c', (n1 + 1) + n2,
        stepsTo_trans (n1 + 1) n2 c _ c' (stepsTo_trans n1 1 c c1 _ hn1 ⟨_, hstepc, rfl⟩) hn2, hpos⟩

end Pg

namespace Pg
open LRV

variable {g : Grammar} {T : Table} {inp : Input}

/-- One step never moves the position backwards; an error is reported at or behind it. -/
theorem step_pos_ge (hm : InputMono inp) (cf : LRCfg) (c : Config) (hinv : Inv g inp T cf c) :
    (∀ c', step g T inp cf c = .next c' → c.pos ≤ c'.pos) ∧
    (∀ p, step g T inp cf c = .done (.syntaxError p) → c.pos ≤ p) := by
  unfold step
  cases hla : c.la with
  | none =>
    simp only [scanStep]
    constructor
    · intro c' hc'
      split at hc'
      · simp only [Step.next.injEq] at hc'; subst hc'; exact Nat.le_refl _
      · simp only [Step.next.injEq] at hc'; subst hc'; exact Nat.le_refl _
      · simp at hc'
    · intro p h; split at h <;> simp at h
  | some lap =>
    obtain ⟨pl, otok⟩ := lap
    obtain ⟨hp, _⟩ := hinv.la pl otok hla
    have hge : c.pos ≤ pl := by rw [hp]; exact hm.skip_ge _
    simp only
    cases cellFor T cf c.top otok with
    | nil =>
      exact ⟨by intro c' h; simp at h, by intro p h; simp only [Step.done.injEq, Outcome.syntaxError.injEq] at h; omega⟩
    | cons a0 rest =>
      simp only
      cases pickAction g a0 rest with
      | none => exact ⟨by intro c' h; simp at h, by intro p h; simp at h⟩
      | some a =>
        simp only
        cases a with
        | shift s' =>
          simp only [applyAction, doShift]
          cases otok with
          | none => exact ⟨by intro c' h; simp at h, by intro p h; simp at h⟩
          | some tok =>
            simp only
            split
            · exact ⟨by intro c' h; simp at h, by intro p h; simp at h⟩
            · constructor
              · intro c' hc'
                simp only [Step.next.injEq] at hc'; subst hc'
                simp only; omega
              · intro p h; simp at h
        | reduce pid =>
          simp only [applyAction, doReduce]
          cases g.prod? pid with
          | none => exact ⟨by intro c' h; simp at h, by intro p h; simp at h⟩
          | some pr =>
            simp only
            split
            · exact ⟨by intro c' h; simp at h, by intro p h; simp at h⟩
            · cases T.goto (topOf (List.drop pr.rhs.length c.stack)) pr.lhs with
              | none => exact ⟨by intro c' h; simp at h, by intro p h; simp at h⟩
              | some s' =>
                simp only
                constructor
                · intro c' hc'
                  simp only [Step.next.injEq] at hc'; subst hc'
                  exact Nat.le_refl _
                · intro p h; simp at h
        | accept =>
          simp only [applyAction, doAccept]
          constructor
          · intro c' hc'; split at hc' <;> simp at hc'
          · intro p h; split at h <;> simp at h

theorem run_error_pos_ge (hw : T.wf g = true) (hm : InputMono inp) (cf : LRCfg) :
    ∀ (fuel : Nat) (c : Config), Inv g inp T cf c → ∀ p, run g T inp cf fuel c = .syntaxError p → c.pos ≤ p := by
  intro fuel
  induction fuel with
  | zero => intro c _ p h; simp [run] at h
  | succ f ih =>
    intro c hinv p h
    have hs : StepOK g inp T cf (step g T inp cf c) := step_sound hw cf c hinv
    have hpos := step_pos_ge hm cf c hinv
    simp only [run] at h
    split at h
    · rename_i c' hc'
      have := ih c' (hs.1 c' hc') p h
      have := hpos.1 c' hc'
      omega
    · rename_i o ho
      subst h
      exact hpos.2 p ho

theorem stepsTo_inv (hw : T.wf g = true) (cf : LRCfg) : ∀ (n : Nat) (c c' : Config),
    Inv g inp T cf c → stepsTo g T inp cf n c c' → Inv g inp T cf c' := by
  intro n
  induction n with
  | zero => intro c c' h hs; simp only [stepsTo] at hs; subst hs; exact h
  | succ n ih =>
    intro c c' h hs
    obtain ⟨c1, hstep, hrest⟩ := hs
    exact ih c1 c' ((step_sound hw cf c h).1 c1 hstep) hrest

theorem run_short (cf : LRCfg) : ∀ (n : Nat) (c c' : Config), stepsTo g T inp cf n c c' →
    ∀ fuel, fuel ≤ n → run g T inp cf fuel c = .outOfFuel := by
  intro n
  induction n with
  | zero => intro c c' _ fuel hf; have : fuel = 0 := by omega
            subst this; rfl
  | succ n ih =>
    intro c c' hs fuel hf
    obtain ⟨c1, hstep, hrest⟩ := hs
    cases fuel with
    | zero => rfl
    | succ f =>
      simp only [run, hstep]
      exact ih c1 c' hrest f (by omega)

/-- **Not early.** -/
theorem not_early {I : Nat → List VItem} {F : FirstData} (hw : T.wf g = true)
    (hv : lrComplete g T I F = true) (hd : DetOK T inp) (hin : InputOK inp) (hm : InputMono inp)
    (cf : LRCfg) (hcf : cf.consumeInput = true) (fuel p : Nat)
    (herr : parseLR g T inp cf fuel = .syntaxError p)
    (toks : List Tok) (a : Tok) (j : Nat) (v : List Nat)
    (hpath : TokPath inp 0 (toks ++ [a]) j) (ha : a.s = p)
    (hder : Der g [.nt g.start] ((toks ++ [a]).map (·.term) ++ v)) : False := by
  have hV := valid_of_lrComplete hv
  obtain ⟨s1, hstar, _⟩ := abstract_complete hV hder
  -- the first real token
  obtain ⟨tok, more, hsplit⟩ : ∃ tok more, toks ++ [a] = tok :: more := by
    cases toks with
    | nil => exact ⟨a, [], rfl⟩
    | cons t ts => exact ⟨t, ts ++ [a], rfl⟩
  rw [hsplit] at hpath hstar
  obtain ⟨c', n, hn, hpos⟩ := det_until (g := g) hd hin cf hcf hstar rfl Config.init tok more j
    (v ++ [STOP]) ⟨rfl, hpath, Or.inl rfl⟩ (by simp)
  -- the driver stands behind `a`
  have hinv' := stepsTo_inv hw cf n Config.init c' (Inv.init _) hn
  unfold parseLR at herr
  by_cases hf : fuel ≤ n
  · rw [run_short cf n Config.init c' hn fuel hf] at herr; cases herr
  · obtain ⟨m, rfl⟩ : ∃ m, fuel = n + m := ⟨fuel - n, by omega⟩
    rw [run_stepsTo n Config.init c' hn m] at herr
    have hge := run_error_pos_ge hw hm cf m c' hinv' p herr
    -- `j` is the end of `a`, which lies behind its start `p`
    have hend : ∀ (l : List Tok) (i : Nat), TokPath inp i (l ++ [a]) j → j = a.s + a.len ∧ 0 < a.len := by
      intro l
      induction l with
      | nil =>
        intro i h
        cases h with
        | cons _ _ _ _ _ _ _ hl hrest => cases hrest; exact ⟨rfl, hl⟩
      | cons t ts ih =>
        intro i h
        cases h with
        | cons _ _ _ _ _ _ _ _ hrest => exact ih _ hrest
    rw [← hsplit] at hpath
    obtain ⟨hj, hl⟩ := hend toks 0 hpath
    omega

end Pg

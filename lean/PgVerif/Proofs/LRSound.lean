import PgVerif.Model.LR
import PgVerif.Proofs.CFG
/-!
Soundness of the LR driver model for every well-formed table, every input and
every recognizer behaviour: whatever it accepts is a derivation tree of the
input (of a prefix ending at a token boundary when `consume_input` is off).
-/
namespace Pg

variable {g : Grammar} {T : Table} {inp : Input}

/-- Stack invariant: the stack is a path of the automaton from the start state,
every entry carries a derivation tree of its state's accessing symbol, and the
spans chain from raw position 0 to the current raw position. -/
inductive StackD (g : Grammar) (inp : Input) (T : Table) : List (Nat × Tree) → Nat → Prop where
  | nil : StackD g inp T [] 0
  | cons (s : Nat) (t : Tree) (rest : List (Nat × Tree)) (i j : Nat)
      (hrest : StackD g inp T rest i) (hd : Derives g inp (T.sym s) i j t)
      (hedge : T.edge (topOf rest) s = true) (hlt : s < T.n) (hne : s ≠ 0) :
      StackD g inp T ((s, t) :: rest) j

theorem StackD.top_lt (hn : 0 < T.n) {st : List (Nat × Tree)} {j : Nat}
    (h : StackD g inp T st j) : topOf st < T.n := by
  cases h with
  | nil => simpa [topOf] using hn
  | cons s t rest i j _ _ _ hlt _ => simpa [topOf] using hlt

theorem walk_back (hn : 0 < T.n) :
    ∀ (rev : List Sym) (s : Nat) (st : List (Nat × Tree)) (j A : Nat),
      T.backOK s rev A = true → StackD g inp T st j → topOf st = s →
      ∃ i, rev.length ≤ st.length ∧ StackD g inp T (st.drop rev.length) i ∧
        DerivesSeq g inp rev.reverse i j ((st.take rev.length).reverse.map (·.2)) ∧
        (T.goto (topOf (st.drop rev.length)) A).isSome = true := by
  intro rev
  induction rev with
  | nil =>
    intro s st j A hb hs ht
    refine ⟨j, by simp, by simpa using hs, by simpa using DerivesSeq.nil _, ?_⟩
    simp only [Table.backOK] at hb
    simpa [ht] using hb
  | cons X rev ih =>
    intro s st j A hb hs ht
    simp only [Table.backOK, Bool.and_eq_true, bne_iff_ne, ne_eq, beq_iff_eq,
      List.all_eq_true, List.mem_range, Bool.or_eq_true, Bool.not_eq_true'] at hb
    obtain ⟨⟨hs0, hsym⟩, hall⟩ := hb
    cases hs with
    | nil => simp [topOf] at ht; exact absurd ht.symm hs0
    | cons s1 t rest i j hrest hd hedge hlt hne =>
      simp only [topOf] at ht
      subst ht
      have hpl : topOf rest < T.n := hrest.top_lt hn
      have hb' : T.backOK (topOf rest) rev A = true := by
        rcases hall (topOf rest) hpl with h | h
        · rw [hedge] at h; cases h
        · exact h
      obtain ⟨i0, hlen, hst, hder, hgo⟩ := ih (topOf rest) rest i A hb' hrest rfl
      refine ⟨i0, by simp; omega, by simpa using hst, ?_, by simpa using hgo⟩
      have hd' : DerivesSeq g inp [X] i j [t] := by rw [← hsym]; exact hd
      have := DerivesSeq.append hder hd'
      simpa [List.take_succ_cons] using this

/-- What the invariant says about a scanned lookahead. -/
def LaOK (inp : Input) (cf : LRCfg) (pos : Nat) (la : Option (Nat × Option Tok)) : Prop :=
  ∀ p otok, la = some (p, otok) → p = inp.skip pos ∧
    ∀ tok, otok = some tok → tok.s = p ∧
      (tok.term ≠ STOP → inp.mlen tok.term p = some tok.len ∧ 0 < tok.len) ∧
      (tok.term = STOP → cf.consumeInput = true → p = inp.len)

structure Inv (g : Grammar) (inp : Input) (T : Table) (cf : LRCfg) (c : Config) : Prop where
  st : StackD g inp T c.stack c.pos
  la : LaOK inp cf c.pos c.la

theorem matchAt_some {a p l : Nat} (h : inp.matchAt a p = some l) :
    a ≠ STOP ∧ inp.mlen a p = some l ∧ 0 < l := by
  unfold Input.matchAt at h
  split at h
  · simp at h
  · rename_i hne
    split at h
    · rename_i l' hl'
      split at h
      · simp only [Option.some.injEq] at h; subst h; exact ⟨hne, hl', by assumption⟩
      · simp at h
    · simp at h

/-- A real token as recognized at `p`. -/
def TokOK (inp : Input) (p : Nat) (tok : Tok) : Prop :=
  tok.s = p ∧ tok.term ≠ STOP ∧ inp.mlen tok.term p = some tok.len ∧ 0 < tok.len

theorem recognize_ok (p : Nat) :
    ∀ (l : List (Nat × Bool)) (last : Nat) (acc : List Tok),
      (∀ t ∈ acc, TokOK inp p t) → ∀ t ∈ recognize T inp p l last acc, TokOK inp p t := by
  intro l
  induction l with
  | nil => intro last acc h t ht; simp only [recognize, List.mem_reverse] at ht; exact h t ht
  | cons x rest ih =>
    intro last acc h t ht
    obtain ⟨a, fin⟩ := x
    simp only [recognize] at ht
    split at ht
    · simp only [List.mem_reverse] at ht; exact h t ht
    · split at ht
      · rename_i l hm
        have hok : TokOK inp p ⟨a, p, l⟩ := by
          obtain ⟨h1, h2, h3⟩ := matchAt_some hm
          exact ⟨rfl, h1, h2, h3⟩
        have hacc : ∀ t ∈ (⟨a, p, l⟩ : Tok) :: acc, TokOK inp p t := by
          intro t ht
          simp only [List.mem_cons] at ht
          rcases ht with rfl | ht
          · exact hok
          · exact h t ht
        split at ht
        · simp only [List.mem_reverse] at ht; exact hacc t ht
        · exact ih _ _ hacc t ht
      · exact ih _ _ h t ht

theorem lexDisamb_sub (toks : List Tok) : ∀ t ∈ lexDisamb T toks, t ∈ toks := by
  intro t ht
  unfold lexDisamb at ht
  split at ht
  · exact ht
  · simp only at ht
    split at ht
    · exact (List.mem_filter.mp ht).1
    · split at ht
      · exact (List.mem_filter.mp ht).1
      · exact (List.mem_filter.mp (List.mem_filter.mp ht).1).1

theorem nextTokens_ok (cf : LRCfg) (s p : Nat) :
    ∀ tok ∈ nextTokens T inp cf.consumeInput cf.lexDis s p, tok.s = p ∧
      (tok.term ≠ STOP → inp.mlen tok.term p = some tok.len ∧ 0 < tok.len) ∧
      (tok.term = STOP → cf.consumeInput = true → p = inp.len) := by
  intro tok ht
  have hraw : tok ∈
      (if (T.cells s).any (fun c => c.1 == STOP) && (!cf.consumeInput || p == inp.len)
        then [(⟨STOP, p, 0⟩ : Tok)] else []) ++
      (if p < inp.len then recognize T inp p (T.expected s) 0 [] else []) := by
    unfold nextTokens at ht
    simp only at ht
    split at ht
    · exact lexDisamb_sub _ _ ht
    · exact ht
  rcases List.mem_append.mp hraw with h | h
  · split at h
    · rename_i hc
      simp only [List.mem_singleton] at h
      subst h
      refine ⟨rfl, fun hne => absurd rfl hne, fun _ hci => ?_⟩
      simp only [Bool.and_eq_true, Bool.or_eq_true, Bool.not_eq_true', beq_iff_eq] at hc
      rcases hc.2 with h | h
      · rw [hci] at h; cases h
      · exact h
    · simp at h
  · split at h
    · have := recognize_ok (T := T) (inp := inp) p (T.expected s) 0 [] (by simp) tok h
      exact ⟨this.1, fun _ => ⟨this.2.2.1, this.2.2.2⟩, fun he => absurd he this.2.1⟩
    · simp at h

theorem actions_mem {s a : Nat} {act : Action} (h : act ∈ T.actions s a) :
    ∃ c ∈ T.cells s, c.1 = a ∧ act ∈ c.2 := by
  unfold Table.actions at h
  split at h
  · rename_i c hc
    exact ⟨c, List.mem_of_find?_eq_some hc, by simpa using List.find?_some hc, h⟩
  · simp at h

theorem goto_mem {s A s' : Nat} (h : T.goto s A = some s') :
    ∃ c ∈ T.gotoL s, c.1 = A ∧ c.2 = s' := by
  unfold Table.goto at h
  cases hf : (T.gotoL s).find? (fun c => c.1 == A) with
  | none => simp [hf] at h
  | some c =>
    simp only [hf, Option.map_some, Option.some.injEq] at h
    exact ⟨c, List.mem_of_find?_eq_some hf, by simpa using List.find?_some hf, h⟩

/-- The per-state content of `Table.wf`. -/
theorem wf_state (hw : T.wf g = true) {s : Nat} (hs : s < T.n) :
    (∀ c ∈ T.cells s, ∀ a ∈ c.2,
      match a with
      | .shift s' => s' < T.n ∧ s' ≠ 0 ∧ T.sym s' = Sym.t c.1 ∧ c.1 ≠ STOP
      | .reduce p => ∃ pr, g.prod? p = some pr ∧ T.backOK s pr.rhs.reverse pr.lhs = true
      | .accept => c.1 = STOP ∧ T.sym s = Sym.nt g.start ∧ s ≠ 0 ∧
          ∀ s' < T.n, T.edge s' s = true → s' = 0) ∧
    (∀ c ∈ T.gotoL s, c.2 < T.n ∧ c.2 ≠ 0 ∧ T.sym c.2 = Sym.nt c.1) := by
  simp only [Table.wf, Bool.and_eq_true, decide_eq_true_eq, List.all_eq_true, List.mem_range] at hw
  obtain ⟨h1, h2⟩ := hw.2 s hs
  constructor
  · intro c hc a ha
    have := h1 c hc a ha
    cases a with
    | shift s' => simpa [and_assoc] using this
    | reduce p =>
      simp only at this
      split at this
      · simp at this
      · rename_i pr hp
        simp only [Bool.and_eq_true] at this
        exact ⟨pr, hp, this.2⟩
    | accept =>
      simp only [Bool.and_eq_true, beq_iff_eq, bne_iff_ne, ne_eq, List.all_eq_true,
        List.mem_range, Bool.or_eq_true, Bool.not_eq_true'] at this
      refine ⟨this.1.1.1, this.1.1.2, this.1.2, fun s' hs' he => ?_⟩
      rcases this.2 s' hs' with h | h
      · rw [he] at h; cases h
      · exact h
  · intro c hc
    simpa [and_assoc] using h2 c hc

theorem wf_pos (hw : T.wf g = true) : 0 < T.n := by
  simp only [Table.wf, Bool.and_eq_true, decide_eq_true_eq] at hw
  exact hw.1

theorem edge_of_shift {s a s' : Nat} (h : Action.shift s' ∈ T.actions s a) :
    T.edge s s' = true := by
  obtain ⟨c, hc, _, hm⟩ := actions_mem h
  simp only [Table.edge, Bool.or_eq_true, List.any_eq_true]
  exact Or.inl ⟨c, hc, by simpa using hm⟩

theorem edge_of_goto {s A s' : Nat} (h : T.goto s A = some s') : T.edge s s' = true := by
  obtain ⟨c, hc, _, hm⟩ := goto_mem h
  simp only [Table.edge, Bool.or_eq_true, List.any_eq_true]
  exact Or.inr ⟨c, hc, by simpa using hm⟩

theorem Inv.init (cf : LRCfg) : Inv g inp T cf Config.init :=
  ⟨StackD.nil, by intro p otok h; simp [Config.init] at h⟩

/-- What a step may return. -/
def StepOK (g : Grammar) (inp : Input) (T : Table) (cf : LRCfg) (st : Step) : Prop :=
  (∀ c', st = .next c' → Inv g inp T cf c') ∧
  (∀ t e p, st = .done (.ok t e p) →
    Derives g inp (.nt g.start) 0 e t ∧ p = inp.skip e ∧
    (cf.consumeInput = true → p = inp.len))

theorem scanStep_ok (cf : LRCfg) (c : Config) (hinv : Inv g inp T cf c) :
    StepOK g inp T cf (scanStep T inp cf c) := by
  have hnt := nextTokens_ok (T := T) (inp := inp) cf c.top (inp.skip c.pos)
  unfold scanStep
  constructor
  · intro c' hc'
    simp only at hc'
    split at hc'
    · simp only [Step.next.injEq] at hc'; subst hc'
      exact ⟨hinv.st, by intro p otok h; simp at h; obtain ⟨rfl, rfl⟩ := h; exact ⟨rfl, by simp⟩⟩
    · rename_i tok htoks
      simp only [Step.next.injEq] at hc'; subst hc'
      refine ⟨hinv.st, ?_⟩
      intro p otok h
      simp at h; obtain ⟨rfl, rfl⟩ := h
      refine ⟨rfl, ?_⟩
      intro tok' ht'
      simp only [Option.some.injEq] at ht'; subst ht'
      exact hnt tok (by rw [htoks]; simp)
    · simp at hc'
  · intro t e p h
    simp only at h
    split at h <;> simp at h

/-- Every action of the consulted cell sits in a cell of the top state on some
terminal `x`; if `x` is STOP and the input must be consumed, we are at its end;
if `x` is a real terminal it is the lookahead's. -/
theorem cellFor_mem (cf : LRCfg) (s p : Nat) (otok : Option Tok)
    (htok : ∀ tok, otok = some tok → tok.s = p ∧
      (tok.term ≠ STOP → inp.mlen tok.term p = some tok.len ∧ 0 < tok.len) ∧
      (tok.term = STOP → cf.consumeInput = true → p = inp.len)) :
    ∀ a ∈ cellFor T cf s otok, ∃ x, a ∈ T.actions s x ∧
      (x = STOP → cf.consumeInput = true → p = inp.len) ∧
      (∀ tok, otok = some tok → x ≠ STOP → x = tok.term) := by
  intro a ha
  unfold cellFor at ha
  cases otok with
  | none =>
    simp only at ha
    split at ha
    · rename_i hc
      simp only [Bool.and_eq_true, Bool.not_eq_true'] at hc
      exact ⟨STOP, ha, fun _ h => (by rw [hc.2] at h; cases h), fun _ _ h => absurd rfl h⟩
    · simp at ha
  | some tok =>
    simp only at ha
    split at ha
    · rename_i hc
      simp only [Bool.and_eq_true, Bool.not_eq_true'] at hc
      exact ⟨STOP, ha, fun _ h => (by rw [hc.2] at h; cases h), fun _ _ h => absurd rfl h⟩
    · refine ⟨tok.term, ha, fun hx hci => ((htok tok rfl).2.2 hx hci), fun tok' h _ => ?_⟩
      simp only [Option.some.injEq] at h; subst h; rfl

theorem pickAction_mem (a0 : Action) (rest : List Action) (a : Action)
    (h : pickAction g a0 rest = some a) : a ∈ a0 :: rest := by
  unfold pickAction at h
  split at h
  · split at h
    · split at h
      · split at h
        · simp only [Option.some.injEq] at h; subst h; simp
        · simp at h
      · simp only [Option.some.injEq] at h; subst h; simp
    · simp at h
  · simp only [Option.some.injEq] at h; subst h; simp

theorem doShift_ok (hw : T.wf g = true) (cf : LRCfg) (c : Config) (hinv : Inv g inp T cf c)
    (p : Nat) (otok : Option Tok) (hla : c.la = some (p, otok)) (s' x : Nat)
    (hx : Action.shift s' ∈ T.actions c.top x)
    (hxtok : ∀ tok, otok = some tok → x ≠ STOP → x = tok.term) :
    StepOK g inp T cf (doShift c p otok s') := by
  have hn := wf_pos hw
  have htop' : c.top = topOf c.stack := by simp [Config.top, topOf]
  have htop : c.top < T.n := by rw [htop']; exact hinv.st.top_lt hn
  obtain ⟨hp, htok⟩ := hinv.la p otok hla
  obtain ⟨cell, hcellmem, hcell1, hcell2⟩ := actions_mem hx
  have hwf := (wf_state hw htop).1 cell hcellmem _ hcell2
  simp only at hwf
  obtain ⟨hs'lt, hs'ne, hs'sym, hxne⟩ := hwf
  rw [hcell1] at hs'sym hxne
  unfold doShift
  cases otok with
  | none => exact ⟨by intro c' h; simp at h, by intro t e p h; simp at h⟩
  | some tok =>
    simp only
    have hxt : x = tok.term := hxtok tok rfl hxne
    split
    · exact ⟨by intro c' h; simp at h, by intro t e p h; simp at h⟩
    · rename_i hne
      constructor
      · intro c' hc'
        simp only [Step.next.injEq] at hc'; subst hc'
        obtain ⟨_, hm, _⟩ := htok tok rfl
        obtain ⟨hm1, hm2⟩ := hm hne
        refine ⟨?_, by intro p otok h; simp at h⟩
        refine StackD.cons s' _ c.stack c.pos _ hinv.st ?_ ?_ hs'lt hs'ne
        · rw [hs'sym, hxt, hp]
          rw [hp] at hm1
          exact DerivesSeq.tok tok.term c.pos tok.len _ [] [] hm1 hm2 (DerivesSeq.nil _)
        · rw [← htop']; exact edge_of_shift hx
      · intro t e p' h; simp at h

theorem doReduce_ok (hw : T.wf g = true) (cf : LRCfg) (c : Config) (hinv : Inv g inp T cf c)
    (pid x : Nat) (hx : Action.reduce pid ∈ T.actions c.top x) :
    StepOK g inp T cf (doReduce g T c pid) := by
  have hn := wf_pos hw
  have htop' : c.top = topOf c.stack := by simp [Config.top, topOf]
  have htop : c.top < T.n := by rw [htop']; exact hinv.st.top_lt hn
  obtain ⟨cell, hcellmem, hcell1, hcell2⟩ := actions_mem hx
  have hwf := (wf_state hw htop).1 cell hcellmem _ hcell2
  simp only at hwf
  obtain ⟨pr, hpr, hback⟩ := hwf
  obtain ⟨i, hlen, hst, hder, hgo⟩ :=
    walk_back (g := g) (inp := inp) hn pr.rhs.reverse c.top c.stack c.pos pr.lhs hback
      hinv.st htop'.symm
  simp only [List.length_reverse, List.reverse_reverse] at hlen hst hder hgo
  unfold doReduce
  simp only [hpr]
  split
  · omega
  · cases hgt : T.goto (topOf (List.drop pr.rhs.length c.stack)) pr.lhs with
    | none => rw [hgt] at hgo; cases hgo
    | some s' =>
      simp only
      constructor
      · intro c' hc'
        simp only [Step.next.injEq] at hc'; subst hc'
        obtain ⟨gc, hgc, hgc1, hgc2⟩ := goto_mem hgt
        have hst_lt := hst.top_lt hn
        obtain ⟨h1, h2, h3⟩ := (wf_state hw hst_lt).2 gc hgc
        rw [hgc2] at h1 h2 h3
        rw [hgc1] at h3
        refine ⟨?_, hinv.la⟩
        refine StackD.cons s' _ _ i c.pos hst ?_ (edge_of_goto hgt) h1 h2
        rw [h3]
        exact DerivesSeq.prod pid pr i c.pos c.pos _ _ _ [] [] hpr hder (DerivesSeq.nil _)
      · intro t e p' h; simp at h

theorem doAccept_ok (hw : T.wf g = true) (cf : LRCfg) (c : Config) (hinv : Inv g inp T cf c)
    (p : Nat) (otok : Option Tok) (hla : c.la = some (p, otok)) (x : Nat)
    (hx : Action.accept ∈ T.actions c.top x)
    (hxstop : x = STOP → cf.consumeInput = true → p = inp.len) :
    StepOK g inp T cf (doAccept c p) := by
  have hn := wf_pos hw
  have htop' : c.top = topOf c.stack := by simp [Config.top, topOf]
  have htop : c.top < T.n := by rw [htop']; exact hinv.st.top_lt hn
  obtain ⟨hp, _⟩ := hinv.la p otok hla
  obtain ⟨cell, hcellmem, hcell1, hcell2⟩ := actions_mem hx
  have hwf := (wf_state hw htop).1 cell hcellmem _ hcell2
  simp only at hwf
  obtain ⟨hc1, hsym, hne, hpreds⟩ := hwf
  have hxs : x = STOP := by rw [← hcell1]; exact hc1
  unfold doAccept
  constructor
  · intro c' hc'
    split at hc' <;> simp at hc'
  · intro t e p' h
    cases hst : c.stack with
    | nil => simp [Config.top, hst] at hne
    | cons top rest =>
      obtain ⟨s1, t1⟩ := top
      have hstk := hinv.st
      rw [hst] at hstk
      cases hstk with
      | cons _ _ _ i j hrest hd hedge hlt hne1 =>
        have hs1 : c.top = s1 := by simp [Config.top, hst]
        rw [hs1] at hpreds hsym
        have h0 := hpreds (topOf rest) (hrest.top_lt hn) hedge
        have hrnil : rest = [] := by
          cases hrest with
          | nil => rfl
          | cons s2 _ _ _ _ _ _ _ _ hne2 => simp [topOf] at h0; exact absurd h0 hne2
        subst hrnil
        cases hrest
        rw [hst] at h
        simp only [List.getLast?_singleton, Step.done.injEq, Outcome.ok.injEq] at h
        obtain ⟨rfl, rfl, rfl⟩ := h
        rw [hsym] at hd
        exact ⟨hd, hp, hxstop hxs⟩

/-- One driver step preserves the invariant, and an accepting step returns a
derivation tree of the start symbol. -/
theorem step_sound (hw : T.wf g = true) (cf : LRCfg) (c : Config)
    (hinv : Inv g inp T cf c) : StepOK g inp T cf (step g T inp cf c) := by
  unfold step
  cases hla : c.la with
  | none => exact scanStep_ok cf c hinv
  | some lap =>
    obtain ⟨p, otok⟩ := lap
    obtain ⟨hp, htok⟩ := hinv.la p otok hla
    simp only
    have hcell := cellFor_mem (T := T) (inp := inp) cf c.top p otok htok
    cases hacts : cellFor T cf c.top otok with
    | nil => exact ⟨by intro c' h; simp at h, by intro t e p h; simp at h⟩
    | cons a0 rest =>
      simp only
      cases hact : pickAction g a0 rest with
      | none => exact ⟨by intro c' h; simp at h, by intro t e p h; simp at h⟩
      | some a =>
        simp only
        have hmem := pickAction_mem a0 rest a hact
        rw [← hacts] at hmem
        obtain ⟨x, hx, hxstop, hxtok⟩ := hcell a hmem
        cases a with
        | shift s' => exact doShift_ok hw cf c hinv p otok hla s' x hx hxtok
        | reduce pid => exact doReduce_ok hw cf c hinv pid x hx
        | accept => exact doAccept_ok hw cf c hinv p otok hla x hx hxstop

/-- Soundness of the LR driver model: for every well-formed table, every input
and every recognizer behaviour, an accepted parse is a derivation tree of the
input's token edges from position 0, rooted in the start symbol; with
`consume_input` nothing but layout follows it. -/
theorem run_sound (hw : T.wf g = true) (cf : LRCfg) :
    ∀ (fuel : Nat) (c : Config), Inv g inp T cf c →
      ∀ t e p, run g T inp cf fuel c = .ok t e p →
        Derives g inp (.nt g.start) 0 e t ∧ p = inp.skip e ∧
        (cf.consumeInput = true → p = inp.len) := by
  intro fuel
  induction fuel with
  | zero => intro c _ t e p h; simp [run] at h
  | succ f ih =>
    intro c hinv t e p h
    have hs : StepOK g inp T cf (step g T inp cf c) := step_sound hw cf c hinv
    simp only [run] at h
    split at h
    · rename_i c' hc'
      exact ih c' (hs.1 c' hc') t e p h
    · rename_i o ho
      subst h
      exact hs.2 t e p ho

end Pg

import PgVerif.Proofs.LRDet
/-!
A validated, conflict-free table makes the grammar unambiguous on lexically
unambiguous inputs: the deterministic driver's tree has the shape of *every*
parse tree of the input (`det_complete_shape`), hence any two parse trees have
the same shape (`unambiguous`). The simulation of `Proofs/LRComplete.lean` is
repeated with trees: the abstract machine carries a tree per stack entry and the
simulation lemma also says that the trees it builds are the derivation's trees
up to the spans recorded in interior nodes (which `DerivesSeq` leaves free).
-/
namespace Pg
open LRV

/-- A tree with the spans of its interior nodes erased. -/
def Tree.shape : Tree → Tree
  | .leaf t s e => .leaf t s e
  | .node p _ _ cs => .node p 0 0 (shapeL cs)
where shapeL : List Tree → List Tree
  | [] => []
  | c :: cs => Tree.shape c :: shapeL cs

theorem shapeL_eq_map (cs : List Tree) : Tree.shape.shapeL cs = cs.map Tree.shape := by
  induction cs with
  | nil => rfl
  | cons c cs ih => simp [Tree.shape.shapeL, ih]

theorem shape_node (p s e : Nat) (cs : List Tree) :
    (Tree.node p s e cs).shape = .node p 0 0 (cs.map Tree.shape) := by
  simp [Tree.shape, shapeL_eq_map]

/-- Derivation with its token edges and trees. -/
inductive DerT (g : Grammar) (inp : Input) : List Sym → Nat → Nat → List Tok → List Tree → Prop where
  | nil (i : Nat) : DerT g inp [] i i [] []
  | tok (t i l j : Nat) (Xs : List Sym) (toks : List Tok) (ts : List Tree)
      (h : inp.mlen t (inp.skip i) = some l) (hl : 0 < l) (hne : t ≠ STOP)
      (rest : DerT g inp Xs (inp.skip i + l) j toks ts) :
      DerT g inp (.t t :: Xs) i j (⟨t, inp.skip i, l⟩ :: toks) (.leaf t (inp.skip i) (inp.skip i + l) :: ts)
  | prod (p : Nat) (pr : Prod) (i k j s e : Nat) (cs : List Tree) (Xs : List Sym)
      (toks1 toks2 : List Tok) (ts : List Tree) (hp : g.prod? p = some pr)
      (h1 : DerT g inp pr.rhs i k toks1 cs) (h2 : DerT g inp Xs k j toks2 ts) :
      DerT g inp (.nt pr.lhs :: Xs) i j (toks1 ++ toks2) (.node p s e cs :: ts)

variable {g : Grammar} {T : Table} {inp : Input} {I : Nat → List VItem} {F : FirstData}

theorem derT_of_derivesSeq (hin : InputOK inp) {Xs : List Sym} {i j : Nat} {ts : List Tree}
    (h : DerivesSeq g inp Xs i j ts) : ∃ toks, DerT g inp Xs i j toks ts := by
  induction h with
  | nil i => exact ⟨[], DerT.nil i⟩
  | tok t i l j Xs ts hm hl _ ih =>
    obtain ⟨toks, hd⟩ := ih
    have hne : t ≠ STOP := by
      intro he; subst he; rw [hin.stop] at hm; cases hm
    exact ⟨_, DerT.tok t i l j Xs toks ts hm hl hne hd⟩
  | prod p pr i k j s e cs Xs ts hp _ _ ih1 ih2 =>
    obtain ⟨u1, h1⟩ := ih1
    obtain ⟨u2, h2⟩ := ih2
    exact ⟨u1 ++ u2, DerT.prod p pr i k j s e cs Xs u1 u2 ts hp h1 h2⟩

theorem derT_der {Xs : List Sym} {i j : Nat} {toks : List Tok} {ts : List Tree}
    (h : DerT g inp Xs i j toks ts) : Der g Xs (toks.map (·.term)) := by
  induction h with
  | nil _ => exact Der.nil
  | tok t i l j Xs toks ts _ _ hne _ ih => exact Der.tok t Xs _ hne ih
  | prod p pr i k j s e cs Xs u1 u2 ts hp _ _ ih1 ih2 =>
    rw [List.map_append]; exact Der.prod p pr Xs _ _ hp ih1 ih2

theorem derT_path {Xs : List Sym} {i j : Nat} {toks : List Tok} {ts : List Tree}
    (h : DerT g inp Xs i j toks ts) : TokPath inp i toks j := by
  induction h with
  | nil i => exact TokPath.nil i
  | tok t i l j Xs toks ts hm hl hne _ ih => exact TokPath.cons i _ toks j hne rfl hm hl ih
  | prod _ _ _ _ _ _ _ _ _ _ _ _ _ _ _ ih1 ih2 => exact ih1.append ih2

/-! ### The abstract machine with trees -/

def atopT (σ : List (Nat × Tree)) : Nat := atop (σ.map (·.1))

inductive AStepT (g : Grammar) (T : Table) :
    List (Nat × Tree) × List Tok → List (Nat × Tree) × List Tok → Prop where
  | shift (σ : List (Nat × Tree)) (tok : Tok) (w : List Tok) (s' : Nat) (ha : tok.term ≠ STOP)
      (h : Action.shift s' ∈ T.actions (atopT σ) tok.term) :
      AStepT g T (σ, tok :: w) ((s', .leaf tok.term tok.s (tok.s + tok.len)) :: σ, w)
  | reduce (σ : List (Nat × Tree)) (tok : Tok) (w : List Tok) (p : Nat) (pr : Prod) (s' : Nat)
      (h : Action.reduce p ∈ T.actions (atopT σ) tok.term) (hp : g.prod? p = some pr)
      (hlen : pr.rhs.length ≤ σ.length)
      (hg : T.goto (atopT (σ.drop pr.rhs.length)) pr.lhs = some s') :
      AStepT g T (σ, tok :: w)
        ((s', .node p 0 0 ((σ.take pr.rhs.length).reverse.map (·.2))) :: σ.drop pr.rhs.length, tok :: w)

inductive AStarT (g : Grammar) (T : Table) :
    List (Nat × Tree) × List Tok → List (Nat × Tree) × List Tok → Prop where
  | refl (x : List (Nat × Tree) × List Tok) : AStarT g T x x
  | head (x y z : List (Nat × Tree) × List Tok) (h : AStepT g T x y) (rest : AStarT g T y z) :
      AStarT g T x z

theorem AStarT.trans {x y z : List (Nat × Tree) × List Tok} (h1 : AStarT g T x y)
    (h2 : AStarT g T y z) : AStarT g T x z := by
  induction h1 with
  | refl _ => exact h2
  | head x y' _ hs _ ih => exact AStarT.head x y' z hs (ih h2)

theorem AStarT.single {x y : List (Nat × Tree) × List Tok} (h : AStepT g T x y) : AStarT g T x y :=
  AStarT.head x y y h (AStarT.refl y)

theorem atopT_append_singleton (σ' σ : List (Nat × Tree)) (x : Nat × Tree) :
    atopT (σ' ++ [x] ++ σ) = atopT (σ' ++ x :: σ) := by simp

/-- **Simulation with trees.** -/
theorem lemmaA_T (hv : Valid g T I F) {Xs : List Sym} {i j : Nat} {toks : List Tok} {ts : List Tree}
    (hd : DerT g inp Xs i j toks ts) :
    ∀ (σ : List (Nat × Tree)) (it : VItem) (pr : Prod) (β : List Sym) (a : Tok) (w : List Tok),
      atopT σ < T.n → it ∈ I (atopT σ) → g.prod? it.prod = some pr →
      pr.rhs.drop it.dot = Xs ++ β → a.term ∈ firstSeq F β it.la →
      ∃ (σ' : List (Nat × Tree)) (it' : VItem), AStarT g T (σ, toks ++ a :: w) (σ' ++ σ, a :: w) ∧
        σ'.length = Xs.length ∧ σ'.reverse.map (fun x => x.2.shape) = ts.map Tree.shape ∧
        atopT (σ' ++ σ) < T.n ∧ it' ∈ I (atopT (σ' ++ σ)) ∧
        it'.prod = it.prod ∧ it'.dot = it.dot + Xs.length ∧ subsetB it.la it'.la = true := by
  induction hd with
  | nil i =>
    intro σ it pr β a w hs hit _ _ _
    exact ⟨[], it, AStarT.refl _, rfl, rfl, hs, hit, rfl, rfl, subsetB_refl _⟩
  | tok t i l j Xs toks ts hm hl hne _ ih =>
    intro σ it pr β a w hs hit hpr hdrop ha
    have hok := hv.items _ hs it hit
    have hget : pr.rhs[it.dot]? = some (.t t) := by
      have := congrArg (fun l => l[0]?) hdrop
      simpa [List.getElem?_drop] using this
    have hdrop' : pr.rhs.drop (it.dot + 1) = Xs ++ β := by
      have := congrArg List.tail hdrop
      simpa [List.tail_drop] using this
    simp only [itemOK, hpr, hget, if_neg hne, List.any_eq_true] at hok
    obtain ⟨act, hact, hcond⟩ := hok
    cases act with
    | shift s' =>
      simp only [Bool.and_eq_true, decide_eq_true_eq] at hcond
      obtain ⟨it2, hit2, hp2, hd2, hsub2⟩ := hasItem_spec hcond.2
      let leaf : Tree := .leaf t (inp.skip i) (inp.skip i + l)
      obtain ⟨σ', it', hstar, hlen, hshape, htop, hit', hp', hd', hsub'⟩ :=
        ih ((s', leaf) :: σ) it2 pr β a w (by simpa [atopT, atop] using hcond.1)
          (by simpa [atopT, atop] using hit2) (by rw [hp2]; exact hpr) (by rw [hd2]; exact hdrop')
          (firstSeq_mono β _ _ (fun x hx => subsetB_mem hsub2 hx) a.term ha)
      refine ⟨σ' ++ [(s', leaf)], it', ?_, by simp [hlen], ?_, by simpa using htop, by simpa using hit',
        by rw [hp', hp2], by rw [hd', hd2]; simp; omega, subsetB_trans hsub2 hsub'⟩
      · have hstep : AStepT g T (σ, (⟨t, inp.skip i, l⟩ : Tok) :: (toks ++ a :: w))
            ((s', leaf) :: σ, toks ++ a :: w) :=
          AStepT.shift σ ⟨t, inp.skip i, l⟩ _ s' hne hact
        have := AStarT.head _ _ _ hstep hstar
        simpa using this
      · simp only [List.reverse_append, List.reverse_cons, List.reverse_nil, List.nil_append,
          List.singleton_append, List.map_cons, hshape]
        rfl
    | reduce _ => simp at hcond
    | accept => simp at hcond
  | prod q pq i k j s e cs Xs u1 u2 ts hq h1 h2 ih1 ih2 =>
    intro σ it pr β a w hs hit hpr hdrop ha
    have hok := hv.items _ hs it hit
    have hget : pr.rhs[it.dot]? = some (.nt pq.lhs) := by
      have := congrArg (fun l => l[0]?) hdrop
      simpa [List.getElem?_drop] using this
    have hdrop' : pr.rhs.drop (it.dot + 1) = Xs ++ β := by
      have := congrArg List.tail hdrop
      simpa [List.tail_drop] using this
    simp only [itemOK, hpr, hget, Bool.and_eq_true, List.all_eq_true, List.mem_range] at hok
    obtain ⟨hclos, hgoto⟩ := hok
    have hqlt : q < g.prods.length := by
      simp only [Grammar.prod?] at hq
      exact (List.getElem?_eq_some_iff.mp hq).1
    have hcq := hclos q hqlt
    simp only [hq, bne_self_eq_false, Bool.false_or] at hcq
    obtain ⟨itq, hitq, hpq, hdq, hsubq⟩ := hasItem_spec hcq
    -- the token after `u1`
    obtain ⟨b, w', hbw⟩ : ∃ b w', u2 ++ a :: w = b :: w' := by
      cases u2 with
      | nil => exact ⟨a, w, rfl⟩
      | cons c u2' => exact ⟨c, u2' ++ a :: w, rfl⟩
    have hb : b.term ∈ itq.la := by
      apply subsetB_mem hsubq
      rw [hdrop']
      have hbw' : u2.map (·.term) ++ a.term :: w.map (·.term) = b.term :: w'.map (·.term) := by
        have := congrArg (List.map (·.term)) hbw
        simpa using this
      exact der_next hv.closed (derT_der h2) β it.la a.term (w.map (·.term)) ha b.term _ hbw'
    obtain ⟨σq, itq', hstar1, hlen1, hshape1, htop1, hitq', hpq', hdq', hsubq'⟩ :=
      ih1 σ itq pq [] b w' hs hitq (by rw [hpq]; exact hq) (by rw [hdq]; simp) (by simpa [firstSeq] using hb)
    have hokq := hv.items _ htop1 itq' hitq'
    have hgetq : pq.rhs[itq'.dot]? = none := by
      rw [hdq', hdq]; simp
    simp only [itemOK, hpq', hpq, hq, hgetq, List.all_eq_true, List.contains_eq_mem,
      decide_eq_true_eq] at hokq
    have hred := hokq b.term (subsetB_mem hsubq' hb)
    cases hg : T.goto (atopT σ) pq.lhs with
    | none => rw [hg] at hgoto; cases hgoto
    | some s2 =>
      rw [hg] at hgoto
      simp only [Bool.and_eq_true, decide_eq_true_eq] at hgoto
      obtain ⟨it2, hit2, hp2, hd2, hsub2⟩ := hasItem_spec hgoto.2
      let nd : Tree := .node q 0 0 (σq.reverse.map (·.2))
      have hstep : AStepT g T (σq ++ σ, b :: w') ((s2, nd) :: σ, b :: w') := by
        have := AStepT.reduce (σq ++ σ) b w' q pq s2 hred hq (by simp [hlen1])
          (by simpa [← hlen1] using hg)
        simpa [← hlen1, nd] using this
      obtain ⟨σ', it', hstar2, hlen2, hshape2, htop2, hit', hp', hd', hsub'⟩ :=
        ih2 ((s2, nd) :: σ) it2 pr β a w (by simpa [atopT, atop] using hgoto.1)
          (by simpa [atopT, atop] using hit2) (by rw [hp2]; exact hpr) (by rw [hd2]; exact hdrop')
          (firstSeq_mono β _ _ (fun x hx => subsetB_mem hsub2 hx) a.term ha)
      refine ⟨σ' ++ [(s2, nd)], it', ?_, by simp [hlen2], ?_, by simpa using htop2, by simpa using hit',
        by rw [hp', hp2], by rw [hd', hd2]; simp; omega, subsetB_trans hsub2 hsub'⟩
      · have e1 : (u1 ++ u2) ++ a :: w = u1 ++ b :: w' := by rw [List.append_assoc, hbw]
        rw [e1]
        have hstar2' : AStarT g T ((s2, nd) :: σ, b :: w') (σ' ++ [(s2, nd)] ++ σ, a :: w) := by
          rw [← hbw]; simpa using hstar2
        exact (hstar1.trans (AStarT.single hstep)).trans hstar2'
      · simp only [List.reverse_append, List.reverse_cons, List.reverse_nil, List.nil_append,
          List.singleton_append, List.map_cons, hshape2, List.cons.injEq, and_true]
        rw [shape_node, shape_node]
        congr 1
        rw [← hshape1]
        simp [nd, List.map_map, Function.comp_def]

end Pg

namespace Pg
open LRV

variable {g : Grammar} {T : Table} {inp : Input} {I : Nat → List VItem} {F : FirstData}

/-- Every derivation of the start symbol drives the abstract machine into an accepting state with
exactly its tree (up to interior spans) on the stack. -/
theorem abstract_complete_T (hv : Valid g T I F) {e : Nat} {toks : List Tok} {t : Tree}
    (hd : DerT g inp [.nt g.start] 0 e toks [t]) (stop : Tok) (hstop : stop.term = STOP) :
    ∃ (s1 : Nat) (tr : Tree), AStarT g T ([], toks ++ [stop]) ([(s1, tr)], [stop]) ∧
      tr.shape = t.shape ∧ Action.accept ∈ T.actions s1 STOP := by
  obtain ⟨pr0, hp0, hrhs0⟩ := hv.prod0
  obtain ⟨it0, hit0, hp, hdot, _⟩ := hasItem_spec hv.start
  obtain ⟨σ', it', hstar, hlen, hshape, htop, hit', hp', hd', _⟩ :=
    lemmaA_T hv hd [] it0 pr0 [.t STOP] stop [] (by simpa [atopT, atop] using hv.n_pos)
      (by simpa [atopT, atop] using hit0) (by rw [hp]; exact hp0)
      (by rw [hdot, hrhs0]; rfl) (by simp [firstSeq, hstop])
  match σ', hlen with
  | [(s1, tr)], _ =>
    refine ⟨s1, tr, by simpa using hstar, by simpa using hshape, ?_⟩
    have hok := hv.items _ htop it' hit'
    have hget : pr0.rhs[it'.dot]? = some (.t STOP) := by rw [hd', hdot, hrhs0]; rfl
    simp only [itemOK, hp', hp, hp0, hget, if_true, List.contains_eq_mem, decide_eq_true_eq] at hok
    simpa [atopT, atop] using hok

/-- Concrete configuration against abstract configuration with trees. -/
structure SimT (inp : Input) (c : Config) (σ : List (Nat × Tree)) (toks : List Tok) (e : Nat) : Prop where
  sim : Sim inp c (σ.map (·.1)) toks e
  shapes : c.stack.map (fun x => x.2.shape) = σ.map (fun x => x.2.shape)

theorem det_step_T (hd : DetOK T inp) (hin : InputOK inp) (cf : LRCfg) (hcf : cf.consumeInput = true)
    {x y : List (Nat × Tree) × List Tok} (h : AStepT g T x y) :
    ∀ (c : Config) (toks : List Tok) (e : Nat), SimT inp c x.1 toks e →
      toks ++ [stopTok inp e] = x.2 →
      ∃ (c' : Config) (toks' : List Tok) (n : Nat), stepsTo g T inp cf n c c' ∧ SimT inp c' y.1 toks' e ∧
        toks' ++ [stopTok inp e] = y.2 := by
  cases h with
  | shift σ tok w s' ha hact =>
    intro c toks e hs hw
    cases toks with
    | nil =>
      simp only [List.nil_append, List.cons.injEq] at hw
      rw [← hw.1] at ha
      exact absurd rfl ha
    | cons tok0 rest =>
      simp only [List.cons_append, List.cons.injEq] at hw
      obtain ⟨rfl, hw2⟩ := hw
      have htop0 : c.top = atopT σ := by rw [top_eq_atop, hs.sim.states]; rfl
      obtain ⟨c1, n1, hn1, hs1, hst1, hpos1, hla1⟩ :=
        det_scanned (g := g) hd hin cf hcf hs.sim (act := .shift s') (by rw [htop0]; exact hact)
      have hpath := hs1.path
      cases hpath with
      | cons _ _ _ _ hne hst hm hl hrest =>
        have htop : c1.top = atopT σ := by rw [top_eq_atop, hs1.states]; rfl
        have hstep := step_act (g := g) hd cf c1 (inp.skip c.pos) tok0 (.shift s')
          (by rw [hla1]; rfl) (by rw [htop]; exact hact)
        simp only [applyAction, doShift, if_neg hne] at hstep
        refine ⟨_, rest, n1 + 1, stepsTo_trans n1 1 c c1 _ hn1 ⟨_, hstep, rfl⟩, ⟨⟨?_, ?_, hs1.fin, Or.inl rfl⟩, ?_⟩, hw2⟩
        · simp [hs1.states]
        · simp only
          rw [← hpos1, ← hst]
          exact hrest
        · simp only [List.map_cons, hst1, hs.shapes, List.cons.injEq, and_true]
          rw [← hpos1, ← hst]
  | reduce σ tok w q pq s' hact hq hlen hg =>
    intro c toks e hs hw
    have hterm : (nextTok inp toks e).term = tok.term := by
      cases toks with
      | nil => simp only [List.nil_append, List.cons.injEq] at hw; simp [nextTok, hw.1]
      | cons t0 rest => simp only [List.cons_append, List.cons.injEq] at hw; simp [nextTok, hw.1]
    have htop0 : c.top = atopT σ := by rw [top_eq_atop, hs.sim.states]; rfl
    obtain ⟨c1, n1, hn1, hs1, hst1, hpos1, hla1⟩ :=
      det_scanned (g := g) hd hin cf hcf hs.sim (act := .reduce q) (by rw [htop0, hterm]; exact hact)
    have htop : c1.top = atopT σ := by rw [top_eq_atop, hs1.states]; rfl
    have hstep := step_act (g := g) hd cf c1 (inp.skip c.pos) (nextTok inp toks e) (.reduce q)
      (by rw [hla1]) (by rw [htop, hterm]; exact hact)
    have hlenc : c1.stack.length = σ.length := by
      have := congrArg List.length hs1.states
      simpa using this
    have hlen1 : ¬ c1.stack.length < pq.rhs.length := by omega
    have hgoto : T.goto (topOf (c1.stack.drop pq.rhs.length)) pq.lhs = some s' := by
      rw [topOf_eq_atop, List.map_drop, hs1.states, ← List.map_drop]; exact hg
    simp only [applyAction, doReduce, hq, if_neg hlen1, hgoto] at hstep
    refine ⟨_, toks, n1 + 1, stepsTo_trans n1 1 c c1 _ hn1 ⟨_, hstep, rfl⟩, ⟨⟨?_, ?_, hs1.fin, ?_⟩, ?_⟩, hw⟩
    · simp [List.map_drop, hs1.states]
    · exact hs1.path
    · right; simp only; rw [hla1, hpos1]
    · have hsh : c1.stack.map (fun x => x.2.shape) = σ.map (fun x => x.2.shape) := by
        rw [hst1]; exact hs.shapes
      simp only [List.map_cons, List.cons.injEq]
      constructor
      · rw [shape_node, shape_node]
        congr 1
        simp only [List.map_map, List.map_reverse, Function.comp_def]
        congr 1
        have := congrArg (List.take pq.rhs.length) hsh
        simpa [List.map_take] using this
      · have := congrArg (List.drop pq.rhs.length) hsh
        simpa [List.map_drop] using this

theorem det_star_T (hd : DetOK T inp) (hin : InputOK inp) (cf : LRCfg) (hcf : cf.consumeInput = true)
    {x y : List (Nat × Tree) × List Tok} (h : AStarT g T x y) :
    ∀ (c : Config) (toks : List Tok) (e : Nat), SimT inp c x.1 toks e →
      toks ++ [stopTok inp e] = x.2 →
      ∃ (c' : Config) (toks' : List Tok) (n : Nat), stepsTo g T inp cf n c c' ∧ SimT inp c' y.1 toks' e ∧
        toks' ++ [stopTok inp e] = y.2 := by
  induction h with
  | refl x => intro c toks e hs hw; exact ⟨c, toks, 0, rfl, hs, hw⟩
  | head x y z hstep _ ih =>
    intro c toks e hs hw
    obtain ⟨c1, toks1, n1, hn1, hs1, hw1⟩ := det_step_T hd hin cf hcf hstep c toks e hs hw
    obtain ⟨c2, toks2, n2, hn2, hs2, hw2⟩ := ih c1 toks1 e hs1 hw1
    exact ⟨c2, toks2, n1 + n2, stepsTo_trans n1 n2 c c1 c2 hn1 hn2, hs2, hw2⟩

/-- **The driver's tree is the parse tree.** For every parse tree of the input the deterministic
driver returns a tree of the same shape. -/
theorem det_complete_shape (hv : lrComplete g T I F = true) (hd : DetOK T inp) (hin : InputOK inp)
    (cf : LRCfg) (hcf : cf.consumeInput = true) (t : Tree) (h : IsParseOf g inp t) :
    ∃ (fuel : Nat) (t' : Tree) (e p : Nat), parseLR g T inp cf fuel = .ok t' e p ∧ t'.shape = t.shape := by
  have hV := valid_of_lrComplete hv
  obtain ⟨e, hder0, hfin⟩ := h
  obtain ⟨toks, hder⟩ := derT_of_derivesSeq hin hder0
  obtain ⟨s1, tr, hstar, hshape, hacc⟩ := abstract_complete_T hV hder (stopTok inp e) rfl
  obtain ⟨c1, toks1, n1, hn1, hs1, hw1⟩ := det_star_T hd hin cf hcf hstar Config.init toks e
    ⟨⟨rfl, derT_path hder, hfin, Or.inl rfl⟩, rfl⟩ rfl
  have htoks1 : toks1 = [] := by
    cases toks1 with
    | nil => rfl
    | cons tok rest => simp at hw1
  subst htoks1
  have htop1 : c1.top = s1 := by rw [top_eq_atop, hs1.sim.states]; rfl
  obtain ⟨c2, n2, hn2, hs2, hst2, hpos2, hla2⟩ :=
    det_scanned (g := g) hd hin cf hcf hs1.sim (act := .accept) (by rw [htop1]; exact hacc)
  have htop2 : c2.top = s1 := by rw [top_eq_atop, hs2.states]; rfl
  have hstep := step_act (g := g) hd cf c2 (inp.skip c1.pos) (nextTok inp [] e) .accept
    (by rw [hla2]) (by rw [htop2]; exact hacc)
  simp only [applyAction, doAccept] at hstep
  -- the stack holds exactly one entry, of the derivation's shape
  have hshapes : c2.stack.map (fun x => x.2.shape) = [tr.shape] := by
    rw [hst2]; simpa using hs1.shapes
  match hc2 : c2.stack, hshapes with
  | [(s, tr2)], hsh =>
    rw [hc2] at hstep
    simp only [List.getLast?_singleton] at hstep
    refine ⟨(n1 + n2) + 1, tr2, c2.pos, inp.skip c1.pos, ?_, ?_⟩
    · unfold parseLR
      rw [run_stepsTo (n1 + n2) Config.init c2 (stepsTo_trans n1 n2 _ c1 c2 hn1 hn2) 1]
      simp only [run, hstep]
    · simp only [List.map_cons, List.map_nil, List.cons.injEq, and_true] at hsh
      rw [hsh, hshape]
  | [], hsh => simp at hsh
  | _ :: _ :: _, hsh => simp at hsh

/-- More fuel does not change a finished run. -/
theorem run_mono (cf : LRCfg) : ∀ (fuel k : Nat) (c : Config) (t : Tree) (e p : Nat),
    run g T inp cf fuel c = .ok t e p → run g T inp cf (fuel + k) c = .ok t e p := by
  intro fuel
  induction fuel with
  | zero => intro k c t e p h; simp [run] at h
  | succ f ih =>
    intro k c t e p h
    rw [show f + 1 + k = (f + k) + 1 by omega]
    simp only [run] at h ⊢
    split
    · rename_i c' hc'; rw [hc'] at h; exact ih k c' t e p h
    · rename_i o ho; rw [ho] at h; exact h

/-- **Unambiguity.** Over a validated, conflict-free table, any two parse trees of a lexically
unambiguous input have the same shape. -/
theorem unambiguous (hv : lrComplete g T I F = true) (hd : DetOK T inp) (hin : InputOK inp)
    (t1 t2 : Tree) (h1 : IsParseOf g inp t1) (h2 : IsParseOf g inp t2) : t1.shape = t2.shape := by
  obtain ⟨f1, t1', e1, p1, hr1, hs1⟩ := det_complete_shape hv hd hin {} rfl t1 h1
  obtain ⟨f2, t2', e2, p2, hr2, hs2⟩ := det_complete_shape hv hd hin {} rfl t2 h2
  unfold parseLR at hr1 hr2
  have a := run_mono (g := g) (T := T) (inp := inp) {} f1 f2 Config.init t1' e1 p1 hr1
  have b := run_mono (g := g) (T := T) (inp := inp) {} f2 f1 Config.init t2' e2 p2 hr2
  rw [Nat.add_comm f2 f1] at b
  rw [a] at b
  simp only [Outcome.ok.injEq] at b
  rw [← hs1, ← hs2, b.1]

end Pg

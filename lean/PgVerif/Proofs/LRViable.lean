import PgVerif.Spec.LRValid
import PgVerif.Proofs.LRSound
/-!
**Correct-prefix property by validation.** If the item sets of a table are sound
(`LRV.lrSound`), the symbols along every path of the automaton from the start
state begin a sentential form of the grammar — in particular the symbols on the
driver's stack, which derive exactly the tokens read so far (`StackD`). So the
driver never reads a token behind which no sentence can continue ("not late").
-/
namespace Pg
open LRV

/-- One or more rewriting steps on sentential forms. -/
inductive SDer (g : Grammar) : List Sym → List Sym → Prop where
  | refl (α : List Sym) : SDer g α α
  | step (α β : List Sym) (p : Nat) (pr : Prod) (γ : List Sym) (hp : g.prod? p = some pr)
      (h : SDer g γ (α ++ [.nt pr.lhs] ++ β)) : SDer g γ (α ++ pr.rhs ++ β)

variable {g : Grammar} {T : Table} {inp : Input} {I : Nat → List VItem}

/-- The item `(p, d)` is valid for the symbol string `γ`: `γ = δ ++ (the part of the right-hand side
before the dot)` and `δ A η` is a sentential form. -/
def ValidFor (g : Grammar) (root : Nat) (pd : Nat × Nat) (γ : List Sym) : Prop :=
  ∃ (pr : Prod) (δ η : List Sym), g.prod? pd.1 = some pr ∧ pd.2 ≤ pr.rhs.length ∧
    γ = δ ++ pr.rhs.take pd.2 ∧ SDer g [.nt root] (δ ++ [.nt pr.lhs] ++ η)

theorem validFor_viable {root : Nat} {pd : Nat × Nat} {γ : List Sym} (h : ValidFor g root pd γ) :
    ∃ η, SDer g [.nt root] (γ ++ η) := by
  obtain ⟨pr, δ, η, hp, _, hγ, hd⟩ := h
  refine ⟨pr.rhs.drop pd.2 ++ η, ?_⟩
  have := SDer.step δ η pd.1 pr _ hp hd
  rw [hγ]
  have e : δ ++ pr.rhs.take pd.2 ++ (pr.rhs.drop pd.2 ++ η) = δ ++ pr.rhs ++ η := by
    rw [List.append_assoc, ← List.append_assoc (pr.rhs.take pd.2), List.take_append_drop, List.append_assoc]
  rw [e]; exact this

/-- Closure step: from `[A → α . B β]` to `[B → . ω]`. -/
theorem validFor_closure {root : Nat} {pd : Nat × Nat} {γ : List Sym} (h : ValidFor g root pd γ)
    (pr : Prod) (hp : g.prod? pd.1 = some pr) (B : Nat) (hB : pr.rhs[pd.2]? = some (.nt B))
    (q : Nat) (pq : Prod) (hq : g.prod? q = some pq) (hl : pq.lhs = B) :
    ValidFor g root (q, 0) γ := by
  obtain ⟨pr', δ, η, hp', hle, hγ, hd⟩ := h
  rw [hp] at hp'; cases hp'
  have hlt : pd.2 < pr.rhs.length := (List.getElem?_eq_some_iff.mp hB).1
  refine ⟨pq, γ, pr.rhs.drop (pd.2 + 1) ++ η, hq, Nat.zero_le _, by simp, ?_⟩
  have hs := SDer.step δ η pd.1 pr _ hp hd
  have hsplit : pr.rhs = pr.rhs.take pd.2 ++ [.nt B] ++ pr.rhs.drop (pd.2 + 1) := by
    have h1 : pr.rhs.drop pd.2 = pr.rhs[pd.2] :: pr.rhs.drop (pd.2 + 1) := List.drop_eq_getElem_cons hlt
    have h2 : pr.rhs[pd.2] = .nt B := by
      have := List.getElem?_eq_getElem hlt; rw [this] at hB; exact Option.some.inj hB
    conv => lhs; rw [← List.take_append_drop pd.2 pr.rhs, h1, h2]
    simp
  rw [hsplit] at hs
  rw [hγ, hl]
  simpa [List.append_assoc] using hs

/-- Advance: from `[A → α . X β]` valid for `γ` to `[A → α X . β]` valid for `γ ++ [X]`. -/
theorem validFor_advance {root : Nat} {p d : Nat} {γ : List Sym} (h : ValidFor g root (p, d) γ)
    (pr : Prod) (hp : g.prod? p = some pr) (X : Sym) (hX : pr.rhs[d]? = some X) :
    ValidFor g root (p, d + 1) (γ ++ [X]) := by
  obtain ⟨pr', δ, η, hp', hle, hγ, hd⟩ := h
  simp only at hp' hle hγ
  rw [hp] at hp'; cases hp'
  have hlt : d < pr.rhs.length := (List.getElem?_eq_some_iff.mp hX).1
  refine ⟨pr, δ, η, hp, hlt, ?_, hd⟩
  simp only
  have : pr.rhs.take (d + 1) = pr.rhs.take d ++ [X] := by
    rw [List.take_succ, hX]; rfl
  rw [this, hγ, List.append_assoc]

/-! ### The LR(0) closure computed by the validator contains only valid items -/

theorem closeRound_valid {root : Nat} {γ : List Sym} (its : List (Nat × Nat))
    (h : ∀ pd ∈ its, ValidFor g root pd γ) : ∀ pd ∈ closeRound g its, ValidFor g root pd γ := by
  intro pd hpd
  simp only [closeRound, List.mem_append, List.mem_flatMap] at hpd
  rcases hpd with hpd | ⟨src, hsrc, hmem⟩
  · exact h pd hpd
  · cases hp : g.prod? src.1 with
    | none => rw [hp] at hmem; simp at hmem
    | some pr =>
      rw [hp] at hmem
      simp only at hmem
      cases hB : pr.rhs[src.2]? with
      | none => rw [hB] at hmem; simp at hmem
      | some X =>
        rw [hB] at hmem
        cases X with
        | t a => simp at hmem
        | nt B =>
          simp only [List.mem_filterMap, List.mem_range] at hmem
          obtain ⟨q, _, hq⟩ := hmem
          cases hpq : g.prod? q with
          | none => rw [hpq] at hq; simp at hq
          | some pq =>
            rw [hpq] at hq
            simp only at hq
            split at hq
            · rename_i hl
              simp only [Option.some.injEq] at hq
              subst hq
              exact validFor_closure (h src hsrc) pr hp B hB q pq hpq hl
            · simp at hq

theorem closeIter_valid {root : Nat} {γ : List Sym} : ∀ (n : Nat) (its : List (Nat × Nat)),
    (∀ pd ∈ its, ValidFor g root pd γ) → ∀ pd ∈ closeIter g n its, ValidFor g root pd γ := by
  intro n
  induction n with
  | zero => intro its h pd hpd; exact h pd hpd
  | succ n ih =>
    intro its h pd hpd
    simp only [closeIter] at hpd
    apply ih _ _ pd hpd
    intro pd' hpd'
    exact closeRound_valid its h pd' (List.mem_eraseDups.mp hpd')

/-- The symbols spelled by a stack, bottom first. -/
def stackSyms (T : Table) (st : List (Nat × Tree)) : List Sym := st.reverse.map (fun x => T.sym x.1)

structure Sound (g : Grammar) (T : Table) (I : Nat → List VItem) : Prop where
  n_pos : 0 < T.n
  prod0 : ∃ pr0, g.prod? 0 = some pr0
  nonempty : ∀ s, s < T.n → I s ≠ []
  items : ∀ s, s < T.n → ∀ it ∈ I s, itemSoundOK g T I s it = true

theorem sound_of_lrSound (h : lrSound g T I = true) : Sound g T I := by
  simp only [lrSound, Bool.and_eq_true, decide_eq_true_eq, List.all_eq_true, List.mem_range,
    Bool.not_eq_true', List.isEmpty_eq_false_iff] at h
  obtain ⟨⟨h1, h2⟩, h3⟩ := h
  refine ⟨h1, ?_, fun s hs => (h3 s hs).1, fun s hs => (h3 s hs).2⟩
  cases hp : g.prod? 0 with
  | none => rw [hp] at h2; simp at h2
  | some pr0 => exact ⟨pr0, rfl⟩

/-- **Every item of the top state is valid for the symbols on the stack**, along every path of the
automaton. -/
theorem items_valid (hv : Sound g T I) (root : Nat) (hroot : ∃ pr0, g.prod? 0 = some pr0 ∧ pr0.lhs = root) :
    ∀ (st : List (Nat × Tree)) (j : Nat), StackD g inp T st j →
      ∀ it ∈ I (topOf st), ValidFor g root (it.prod, it.dot) (stackSyms T st) := by
  intro st j hs
  induction hs with
  | nil =>
    intro it hit
    simp only [topOf] at hit
    have hok := hv.items 0 hv.n_pos it hit
    obtain ⟨pr0, hp0, hl0⟩ := hroot
    have hstart : ValidFor g root (0, 0) [] :=
      ⟨pr0, [], [], hp0, Nat.zero_le _, by simp, by rw [hl0]; exact SDer.refl _⟩
    unfold itemSoundOK at hok
    cases hp : g.prod? it.prod with
    | none => rw [hp] at hok; simp at hok
    | some pr =>
      rw [hp] at hok
      simp only [Bool.and_eq_true, decide_eq_true_eq] at hok
      by_cases hd : it.dot = 0
      · rw [if_pos hd] at hok
        simp only [if_true, List.contains_eq_mem, decide_eq_true_eq] at hok
        have := closeIter_valid (g := g) (root := root) (γ := []) (g.prods.length + 1) _ (by
          intro pd hpd
          simp only [List.mem_append, List.mem_map, List.mem_filter, List.mem_singleton] at hpd
          rcases hpd with ⟨k, ⟨hk, hkd⟩, rfl⟩ | rfl
          · -- state 0 has no kernel item besides the start item
            have hokk := hv.items 0 hv.n_pos k hk
            unfold itemSoundOK at hokk
            cases hpk : g.prod? k.prod with
            | none => rw [hpk] at hokk; simp at hokk
            | some prk =>
              rw [hpk] at hokk
              have hkd' : k.dot ≠ 0 := by simpa using hkd
              simp only [Bool.and_eq_true, decide_eq_true_eq, if_neg hkd'] at hokk
              exact absurd rfl hokk.2.1
          · exact hstart) (it.prod, 0) hok.2
        rw [hd]; simpa [stackSyms] using this
      · rw [if_neg hd] at hok
        simp only [Bool.and_eq_true, decide_eq_true_eq] at hok
        exact absurd rfl hok.2.1
  | cons s t rest i j hrest hder hedge hlt hne ih =>
    intro it hit
    simp only [topOf] at hit
    have hok := hv.items s hlt it hit
    have hprev : topOf rest < T.n := hrest.top_lt hv.n_pos
    have hsyms : stackSyms T ((s, t) :: rest) = stackSyms T rest ++ [T.sym s] := by
      simp [stackSyms]
    -- kernel items come from the previous state
    have hkernel : ∀ k ∈ I s, k.dot ≠ 0 → ValidFor g root (k.prod, k.dot) (stackSyms T rest ++ [T.sym s]) := by
      intro k hk hkd
      have hokk := hv.items s hlt k hk
      unfold itemSoundOK at hokk
      cases hpk : g.prod? k.prod with
      | none => rw [hpk] at hokk; simp at hokk
      | some prk =>
        rw [hpk] at hokk
        simp only [Bool.and_eq_true, decide_eq_true_eq, if_neg hkd, List.all_eq_true, List.mem_range,
          Bool.or_eq_true, Bool.not_eq_true', List.any_eq_true, beq_iff_eq] at hokk
        rcases hokk.2.2 (topOf rest) hprev with h | ⟨k0, hk0, ⟨⟨hp0, hd0⟩, hsym0⟩⟩
        · rw [hedge] at h; cases h
        · have hv0 := ih k0 hk0
          rw [hp0] at hv0
          have := validFor_advance hv0 prk hpk (T.sym s) hsym0
          rw [hd0] at this
          exact this
    unfold itemSoundOK at hok
    cases hp : g.prod? it.prod with
    | none => rw [hp] at hok; simp at hok
    | some pr =>
      rw [hp] at hok
      simp only [Bool.and_eq_true, decide_eq_true_eq] at hok
      rw [hsyms]
      by_cases hd : it.dot = 0
      · rw [if_pos hd] at hok
        simp only [if_neg hne, List.append_nil, List.contains_eq_mem, decide_eq_true_eq] at hok
        have := closeIter_valid (g := g) (root := root) (γ := stackSyms T rest ++ [T.sym s])
          (g.prods.length + 1) _ (by
            intro pd hpd
            simp only [List.mem_map, List.mem_filter] at hpd
            obtain ⟨k, ⟨hk, hkd⟩, rfl⟩ := hpd
            exact hkernel k hk (by simpa using hkd)) (it.prod, 0) hok.2
        rw [hd]; exact this
      · exact hkernel it hit hd

/-- **Correct-prefix property.** The symbols on the stack of every configuration satisfying the
driver invariant begin a sentential form. -/
theorem stack_viable (hv : lrSound g T I = true) (st : List (Nat × Tree)) (j : Nat)
    (hs : StackD g inp T st j) :
    ∃ (root : Nat) (η : List Sym), (∃ pr0, g.prod? 0 = some pr0 ∧ pr0.lhs = root) ∧
      SDer g [.nt root] (stackSyms T st ++ η) := by
  have hS := sound_of_lrSound hv
  obtain ⟨pr0, hp0⟩ := hS.prod0
  have htop : topOf st < T.n := hs.top_lt hS.n_pos
  obtain ⟨it, hit⟩ := List.exists_mem_of_ne_nil _ (hS.nonempty _ htop)
  have := items_valid hS pr0.lhs ⟨pr0, hp0, rfl⟩ st j hs it hit
  obtain ⟨η, hη⟩ := validFor_viable this
  exact ⟨pr0.lhs, η, ⟨pr0, hp0, rfl⟩, hη⟩

end Pg

import PgVerif.Spec.LexRules
/-!
The scanner's shortcuts equal the documented, order-free rule set.

`scanSpec` is an order-aware but shortcut-free description (skip to the first
matching terminal, collect the matches of its priority group, stop at the first
string-like match). `recognize_eq_scanSpec`: under the sortedness that
`sort_state_actions` establishes (`LexSorted`) and finish flags as
`calc_finish_flags` implies them (`FlagsOK`), the recognition loop with its early
exits computes `scanSpec`. `scan_eq_rules`: with matching string-like terminals of
one priority in strictly decreasing match length (`StrDecreasing`, what sorting by
length gives when no two expected string-like terminals match the same text with
equal length), disambiguating `scanSpec` is the rule set R1–R5 applied to the
candidates.
-/
namespace Pg

variable (T : Table) (inp : Input) (strLike : Nat → Bool) (p : Nat)

def candOf (x : Nat × Bool) : Option Tok :=
  match inp.matchAt x.1 p with
  | some l => some ⟨x.1, p, l⟩
  | none => none

/-- Priorities never increase; inside a priority group string-like terminals come first. -/
def LexSorted : List (Nat × Bool) → Prop
  | [] => True
  | x :: rest =>
    (∀ y ∈ rest, T.prior y.1 ≤ T.prior x.1 ∧
      (T.prior y.1 = T.prior x.1 → strLike y.1 = true → strLike x.1 = true)) ∧ LexSorted rest

/-- Finish flags consistent with `calc_finish_flags`: set for every string-like
terminal; otherwise set only where the next terminal has lower priority. -/
def FlagsOK : List (Nat × Bool) → Prop
  | [] => True
  | x :: rest =>
    (strLike x.1 = true → x.2 = true) ∧
    (x.2 = true → strLike x.1 = true ∨ (∃ y ys, rest = y :: ys ∧ T.prior y.1 < T.prior x.1)) ∧
    FlagsOK rest

/-- Matches of the leading run of priority `pr`, up to the first string-like match. -/
def groupScan (pr : Nat) : List (Nat × Bool) → List Tok
  | [] => []
  | x :: rest =>
    if T.prior x.1 ≠ pr then [] else
    match inp.matchAt x.1 p with
    | some l => if strLike x.1 then [⟨x.1, p, l⟩] else ⟨x.1, p, l⟩ :: groupScan pr rest
    | none => groupScan pr rest

def scanSpec : List (Nat × Bool) → List Tok
  | [] => []
  | x :: rest =>
    match inp.matchAt x.1 p with
    | some _ => groupScan T inp strLike p (T.prior x.1) (x :: rest)
    | none => scanSpec rest

theorem groupScan_lower (pr : Nat) (l : List (Nat × Bool))
    (h : ∀ y ys, l = y :: ys → T.prior y.1 < pr) : groupScan T inp strLike p pr l = [] := by
  cases l with
  | nil => rfl
  | cons y ys =>
    have := h y ys rfl
    simp only [groupScan]
    rw [if_pos (by omega)]

/-- Inside a group with something already matched. -/
theorem recognize_group (pr : Nat) :
    ∀ (l : List (Nat × Bool)) (acc : List Tok), acc ≠ [] →
      LexSorted T strLike l → FlagsOK T strLike l → (∀ y ∈ l, T.prior y.1 ≤ pr) →
      recognize T inp p l pr acc = acc.reverse ++ groupScan T inp strLike p pr l := by
  intro l
  induction l with
  | nil => intro acc _ _ _ _; simp [recognize, groupScan]
  | cons x rest ih =>
    intro acc hacc hs hf hle
    obtain ⟨a, f⟩ := x
    have hax := hle (a, f) (by simp)
    simp only [recognize, groupScan]
    have hne : acc.isEmpty = false := by cases acc <;> simp_all
    by_cases hlt : T.prior a < pr
    · simp [hlt, hne, Nat.ne_of_lt hlt]
    · have heq : T.prior a = pr := by simp only at hax; omega
      have hnot : ¬ (T.prior a ≠ pr) := by simp [heq]
      simp only [hlt, decide_false, Bool.false_and, Bool.false_eq_true, if_false, hnot]
      cases hm : inp.matchAt a p with
      | none =>
        simp only
        rw [heq]
        exact ih acc hacc hs.2 hf.2.2 (fun y hy => hle y (by simp [hy]))
      | some len =>
        simp only
        by_cases hfl : f = true
        · simp only [hfl, if_true]
          rcases hf.2.1 hfl with hstr | ⟨y, ys, hrest, hlow⟩
          · simp only at hstr; simp [hstr]
          · by_cases hstr : strLike a = true
            · simp [hstr]
            · simp only [hstr, Bool.false_eq_true, if_false]
              rw [groupScan_lower T inp strLike p pr rest (by
                intro y' ys' h'; rw [hrest] at h'
                have h1 : y = y' := by simp only [List.cons.injEq] at h'; exact h'.1
                rw [← h1, ← heq]; exact hlow)]
              simp
        · have hff : f = false := by cases f <;> simp_all
          have hstr : strLike a = false := by
            cases hs' : strLike a with
            | false => rfl
            | true => have := hf.1 hs'; simp only at this; rw [hff] at this; cases this
          simp only [hff, Bool.false_eq_true, if_false, hstr]
          rw [heq]
          rw [ih _ (by simp) hs.2 hf.2.2 (fun y hy => hle y (by simp [hy]))]
          simp

/-- From the start (nothing matched yet). -/
theorem recognize_eq_scanSpec :
    ∀ (l : List (Nat × Bool)) (last : Nat), LexSorted T strLike l → FlagsOK T strLike l →
      recognize T inp p l last [] = scanSpec T inp strLike p l := by
  intro l
  induction l with
  | nil => intro last _ _; simp [recognize, scanSpec]
  | cons x rest ih =>
    intro last hs hf
    obtain ⟨a, f⟩ := x
    simp only [recognize, scanSpec, List.isEmpty_nil, Bool.not_true, Bool.and_false, Bool.false_eq_true,
      if_false]
    cases hm : inp.matchAt a p with
    | none => simp only; exact ih _ hs.2 hf.2.2
    | some len =>
      simp only [groupScan, ne_eq, not_true_eq_false, if_false, hm]
      have hle : ∀ y ∈ rest, T.prior y.1 ≤ T.prior a := fun y hy => (hs.1 y hy).1
      by_cases hfl : f = true
      · simp only [hfl, if_true, List.reverse_cons, List.reverse_nil, List.nil_append]
        rcases hf.2.1 hfl with hstr | ⟨y, ys, hrest, hlow⟩
        · simp only at hstr; simp [hstr]
        · by_cases hstr : strLike a = true
          · simp [hstr]
          · simp only [hstr, Bool.false_eq_true, if_false]
            rw [groupScan_lower T inp strLike p (T.prior a) rest (by
              intro y' ys' h'; rw [hrest] at h'
              have h1 : y = y' := by simp only [List.cons.injEq] at h'; exact h'.1
              rw [← h1]; exact hlow)]
      · have hff : f = false := by cases f <;> simp_all
        have hstr : strLike a = false := by
          cases hs' : strLike a with
          | false => rfl
          | true => have := hf.1 hs'; simp only at this; rw [hff] at this; cases this
        simp only [hff, Bool.false_eq_true, if_false, hstr]
        rw [recognize_group T inp strLike p (T.prior a) rest _ (by simp) hs.2 hf.2.2 hle]
        simp

end Pg

namespace Pg

variable (T : Table) (inp : Input) (strLike : Nat → Bool) (p : Nat)

/-- R4 and R5 on a list. -/
def rule45 (c3 : List Tok) : List Tok :=
  let L := maxBy (·.len) c3
  let c4 := c3.filter (fun t => t.len == L)
  if c4.any (fun t => T.prefer t.term) then c4.filter (fun t => T.prefer t.term) else c4

theorem filter_isEmpty_eq_not_any {α} (f : α → Bool) (l : List α) :
    (l.filter f).isEmpty = !l.any f := by
  induction l with
  | nil => rfl
  | cons x xs ih => by_cases h : f x = true <;> simp [List.filter, h, ih]

theorem foldl_max_le (f : Tok → Nat) :
    ∀ (l : List Tok) (m : Nat), (∀ u ∈ l, f u ≤ m) → l.foldl (fun m t => max m (f t)) m = m := by
  intro l
  induction l with
  | nil => intro m _; rfl
  | cons x xs ih =>
    intro m h
    simp only [List.foldl]
    have hx := h x (by simp)
    rw [Nat.max_eq_left hx]
    exact ih m (fun u hu => h u (by simp [hu]))

theorem maxBy_head (f : Tok → Nat) (t : Tok) (l : List Tok) (h : ∀ u ∈ l, f u ≤ f t) :
    maxBy f (t :: l) = f t := by
  simp only [maxBy, List.foldl]
  rw [Nat.max_eq_right (Nat.zero_le _)]
  exact foldl_max_le f l (f t) h

theorem tail45 (longest : List Tok) :
    (if (longest.length == 1) = true then longest
      else
        if (List.filter (fun t => T.prefer t.term) longest).isEmpty = true then longest
        else List.filter (fun t => T.prefer t.term) longest) =
      if (longest.any fun t => T.prefer t.term) = true then List.filter (fun t => T.prefer t.term) longest
      else longest := by
  by_cases h1 : (longest.length == 1) = true
  · rw [if_pos h1]
    match longest, h1 with
    | [y], _ => by_cases hp : T.prefer y.term = true <;> simp [hp]
    | [], h => simp at h
    | _ :: _ :: _, h => simp at h
  · rw [if_neg h1]
    rw [filter_isEmpty_eq_not_any]
    cases longest.any (fun t => T.prefer t.term) <;> simp

/-- `_lexical_disambiguation` is exactly longest match then `prefer`. -/
theorem lexDisamb_eq_rule45 (R : List Tok) : lexDisamb T R = rule45 T R := by
  unfold lexDisamb rule45
  by_cases hlen : R.length ≤ 1
  · rw [if_pos hlen]
    match R, hlen with
    | [], _ => simp [maxBy]
    | [x], _ =>
      have : maxBy (·.len) [x] = x.len := maxBy_head _ x [] (by simp)
      simp only [this]
      by_cases hp : T.prefer x.term = true <;> simp [hp]
    | _ :: _ :: _, h => simp at h
  · rw [if_neg hlen]
    simp only [maxBy]
    exact tail45 T _

/-- Matching string-like terminals of one priority come in strictly decreasing
match length (sorted by length; no two match the same text). -/
def StrDecreasing : List (Nat × Bool) → Prop
  | [] => True
  | x :: rest =>
    (∀ y ∈ rest, strLike x.1 = true → strLike y.1 = true → T.prior y.1 = T.prior x.1 →
      ∀ lx ly, inp.matchAt x.1 p = some lx → inp.matchAt y.1 p = some ly → ly < lx) ∧
    StrDecreasing rest

def cands (l : List (Nat × Bool)) : List Tok := l.filterMap (candOf inp p)

theorem mem_cands {l : List (Nat × Bool)} {u : Tok} (h : u ∈ cands inp p l) :
    ∃ y ∈ l, u.term = y.1 ∧ inp.matchAt y.1 p = some u.len := by
  obtain ⟨y, hy, hc⟩ := List.mem_filterMap.mp h
  refine ⟨y, hy, ?_⟩
  unfold candOf at hc
  cases hm : inp.matchAt y.1 p with
  | none => rw [hm] at hc; cases hc
  | some len => rw [hm] at hc; simp only [Option.some.injEq] at hc; subst hc; exact ⟨rfl, rfl⟩

def inGroup (pr : Nat) (l : List (Nat × Bool)) : List Tok :=
  (cands inp p l).filter (fun t => T.prior t.term == pr)

theorem groupScan_eq_inGroup (pr : Nat) :
    ∀ l : List (Nat × Bool), LexSorted T strLike l → (∀ y ∈ l, T.prior y.1 ≤ pr) →
      (∀ u ∈ inGroup T inp p pr l, strLike u.term = false) →
      groupScan T inp strLike p pr l = inGroup T inp p pr l := by
  intro l
  induction l with
  | nil => intro _ _ _; rfl
  | cons x rest ih =>
    intro hs hle hno
    have hle' : ∀ y ∈ rest, T.prior y.1 ≤ pr := fun y hy => hle y (by simp [hy])
    simp only [groupScan]
    by_cases hpr : T.prior x.1 = pr
    · rw [if_neg (by simp [hpr])]
      cases hm : inp.matchAt x.1 p with
      | none =>
        have hc : inGroup T inp p pr (x :: rest) = inGroup T inp p pr rest := by
          simp [inGroup, cands, List.filterMap, candOf, hm]
        simp only
        rw [hc] at hno ⊢
        exact ih hs.2 hle' hno
      | some len =>
        have hc : inGroup T inp p pr (x :: rest) = ⟨x.1, p, len⟩ :: inGroup T inp p pr rest := by
          simp [inGroup, cands, List.filterMap, candOf, hm, List.filter, hpr]
        rw [hc] at hno ⊢
        have hstr : strLike x.1 = false := hno ⟨x.1, p, len⟩ (by simp)
        simp only [hstr, Bool.false_eq_true, if_false]
        rw [ih hs.2 hle' (fun u hu => hno u (by simp [hu]))]
    · rw [if_pos hpr]
      -- everything from here on has lower priority
      have hlow : ∀ y ∈ x :: rest, T.prior y.1 < pr := by
        intro y hy
        rcases List.mem_cons.mp hy with rfl | hy'
        · have := hle y (by simp); omega
        · have h1 := (hs.1 y hy').1
          have h2 := hle x (by simp)
          omega
      symm
      apply List.filter_eq_nil_iff.mpr
      intro u hu
      obtain ⟨y, hy, hterm, _⟩ := mem_cands inp p hu
      have := hlow y hy
      rw [hterm]
      simp only [beq_iff_eq]
      omega

/-- Part two: disambiguating `scanSpec` is the documented rule set on the candidates. -/
theorem scanSpec_rules :
    ∀ l : List (Nat × Bool), LexSorted T strLike l → StrDecreasing T inp strLike p l →
      lexDisamb T (scanSpec T inp strLike p l) = lexRules T strLike (cands inp p l) := by
  intro l
  induction l with
  | nil => intro _ _; simp [scanSpec, cands, lexRules, lexDisamb, maxBy]
  | cons x rest ih =>
    intro hs hd
    simp only [scanSpec]
    cases hm : inp.matchAt x.1 p with
    | none =>
      have hc : cands inp p (x :: rest) = cands inp p rest := by
        simp [cands, List.filterMap, candOf, hm]
      simp only
      rw [hc]
      exact ih hs.2 hd.2
    | some len =>
      have hc : cands inp p (x :: rest) = ⟨x.1, p, len⟩ :: cands inp p rest := by
        simp [cands, List.filterMap, candOf, hm]
      have hle : ∀ y ∈ rest, T.prior y.1 ≤ T.prior x.1 := fun y hy => (hs.1 y hy).1
      have hP : maxBy (fun t => T.prior t.term) (⟨x.1, p, len⟩ :: cands inp p rest) = T.prior x.1 := by
        apply maxBy_head
        intro u hu
        obtain ⟨y, hy, hterm, _⟩ := mem_cands inp p hu
        simp only [hterm]
        exact hle y hy
      simp only
      rw [hc, lexDisamb_eq_rule45]
      simp only [lexRules, hP]
      have hc2 : List.filter (fun t => T.prior t.term == T.prior x.1) (⟨x.1, p, len⟩ :: cands inp p rest)
          = ⟨x.1, p, len⟩ :: inGroup T inp p (T.prior x.1) rest := by
        simp [List.filter, inGroup]
      rw [hc2]
      simp only [groupScan, ne_eq, not_true_eq_false, if_false, hm]
      by_cases hstr : strLike x.1 = true
      · -- R3 keeps the string-like ones; the first is strictly the longest
        simp only [hstr, if_true, List.any_cons, Bool.true_or]
        have hshort : ∀ u ∈ (inGroup T inp p (T.prior x.1) rest).filter (fun t => strLike t.term),
            u.len < len := by
          intro u hu
          obtain ⟨hu1, hu2⟩ := List.mem_filter.mp hu
          obtain ⟨hu3, hu4⟩ := List.mem_filter.mp hu1
          obtain ⟨y, hy, hterm, hmy⟩ := mem_cands inp p hu3
          simp only [beq_iff_eq] at hu4
          rw [hterm] at hu2 hu4
          exact hd.1 y hy hstr hu2 hu4 len u.len hm hmy
        have hfilt : List.filter (fun t => strLike t.term)
            (⟨x.1, p, len⟩ :: inGroup T inp p (T.prior x.1) rest)
            = ⟨x.1, p, len⟩ :: (inGroup T inp p (T.prior x.1) rest).filter (fun t => strLike t.term) := by
          simp [List.filter, hstr]
        rw [hfilt]
        generalize (inGroup T inp p (T.prior x.1) rest).filter (fun t => strLike t.term) = more at hshort
        have hL : maxBy (·.len) (⟨x.1, p, len⟩ :: more) = len :=
          maxBy_head (·.len) ⟨x.1, p, len⟩ more (fun u hu => Nat.le_of_lt (hshort u hu))
        have hL1 : maxBy (·.len) [(⟨x.1, p, len⟩ : Tok)] = len := maxBy_head _ _ [] (by simp)
        have hmore : more.filter (fun t => t.len == len) = [] := by
          apply List.filter_eq_nil_iff.mpr
          intro u hu
          have := hshort u hu
          simp only [beq_iff_eq]; omega
        simp only [rule45, hL, hL1, List.filter, beq_self_eq_true, hmore]
      · -- no string-like candidate in the group at all
        have hsf : strLike x.1 = false := by cases h : strLike x.1 <;> simp_all
        have hno : ∀ u ∈ inGroup T inp p (T.prior x.1) rest, strLike u.term = false := by
          intro u hu
          obtain ⟨hu3, hu4⟩ := List.mem_filter.mp hu
          obtain ⟨y, hy, hterm, _⟩ := mem_cands inp p hu3
          simp only [beq_iff_eq] at hu4
          rw [hterm] at hu4 ⊢
          cases hsy : strLike y.1 with
          | false => rfl
          | true => have := (hs.1 y hy).2 hu4 hsy; rw [hsf] at this; cases this
        simp only [hsf, Bool.false_eq_true, if_false]
        rw [groupScan_eq_inGroup T inp strLike p (T.prior x.1) rest hs.2 hle hno]
        have hany : (⟨x.1, p, len⟩ :: inGroup T inp p (T.prior x.1) rest).any (fun t => strLike t.term)
            = false := by
          simp only [List.any_cons, hsf, Bool.false_or]
          apply List.any_eq_false.mpr
          intro u hu; simp [hno u hu]
        rw [hany]
        simp [rule45]

/-- The scanner, shortcuts and all, computes R1–R5. -/
theorem scan_eq_rules (l : List (Nat × Bool)) (last : Nat)
    (hs : LexSorted T strLike l) (hf : FlagsOK T strLike l) (hd : StrDecreasing T inp strLike p l) :
    lexDisamb T (recognize T inp p l last []) = lexRules T strLike (cands inp p l) := by
  rw [recognize_eq_scanSpec T inp strLike p l last hs hf]
  exact scanSpec_rules T inp strLike p l hs hd

end Pg

namespace Pg

variable (T : Table) (inp : Input) (strLike : Nat → Bool) (p : Nat)

/-! Executable versions of the hypotheses, run on the implementation's tables. -/

def lexSortedB : List (Nat × Bool) → Bool
  | [] => true
  | x :: rest =>
    rest.all (fun y => decide (T.prior y.1 ≤ T.prior x.1) &&
      (!(decide (T.prior y.1 = T.prior x.1)) || !(strLike y.1) || strLike x.1)) && lexSortedB rest

def flagsOKB : List (Nat × Bool) → Bool
  | [] => true
  | x :: rest =>
    (!(strLike x.1) || x.2) &&
    (!x.2 || strLike x.1 || (match rest with
      | [] => false
      | y :: _ => decide (T.prior y.1 < T.prior x.1))) &&
    flagsOKB rest

def strDecB : List (Nat × Bool) → Bool
  | [] => true
  | x :: rest =>
    rest.all (fun y =>
      !(strLike x.1) || !(strLike y.1) || !(decide (T.prior y.1 = T.prior x.1)) ||
      (match inp.matchAt x.1 p, inp.matchAt y.1 p with
       | some lx, some ly => decide (ly < lx)
       | _, _ => true)) && strDecB rest

theorem lexSortedB_sound : ∀ l, lexSortedB T strLike l = true → LexSorted T strLike l := by
  intro l
  induction l with
  | nil => intro _; trivial
  | cons x rest ih =>
    intro h
    simp only [lexSortedB, Bool.and_eq_true, List.all_eq_true, Bool.or_eq_true, Bool.not_eq_true',
      decide_eq_true_eq, decide_eq_false_iff_not] at h
    refine ⟨?_, ih h.2⟩
    intro y hy
    obtain ⟨h1, h2⟩ := h.1 y hy
    refine ⟨h1, ?_⟩
    intro heq hstr
    rcases h2 with (h3 | h3) | h3
    · exact absurd heq h3
    · rw [hstr] at h3; cases h3
    · exact h3

theorem flagsOKB_sound : ∀ l, flagsOKB T strLike l = true → FlagsOK T strLike l := by
  intro l
  induction l with
  | nil => intro _; trivial
  | cons x rest ih =>
    intro h
    simp only [flagsOKB, Bool.and_eq_true, Bool.or_eq_true, Bool.not_eq_true'] at h
    obtain ⟨⟨h1, h2⟩, h3⟩ := h
    refine ⟨?_, ?_, ih h3⟩
    · intro hs
      rcases h1 with h1 | h1
      · rw [hs] at h1; cases h1
      · exact h1
    · intro hf
      rcases h2 with (h2 | h2) | h2
      · rw [hf] at h2; cases h2
      · exact Or.inl h2
      · right
        cases rest with
        | nil => simp at h2
        | cons y ys => exact ⟨y, ys, rfl, by simpa using h2⟩

theorem strDecB_sound : ∀ l, strDecB T inp strLike p l = true → StrDecreasing T inp strLike p l := by
  intro l
  induction l with
  | nil => intro _; trivial
  | cons x rest ih =>
    intro h
    simp only [strDecB, Bool.and_eq_true, List.all_eq_true] at h
    refine ⟨?_, ih h.2⟩
    intro y hy hsx hsy hpr lx ly hmx hmy
    have := h.1 y hy
    simp only [hsx, hsy, hpr, hmx, hmy, Bool.not_true, decide_true, Bool.false_or,
      decide_eq_true_eq] at this
    exact this

/-! Lexical disambiguation off: every candidate of the highest matching priority. -/

theorem lexSorted_weaken : ∀ l, LexSorted T strLike l → LexSorted T (fun _ => false) l := by
  intro l
  induction l with
  | nil => intro _; trivial
  | cons x rest ih =>
    intro h
    exact ⟨fun y hy => ⟨(h.1 y hy).1, fun _ hc => by cases hc⟩, ih h.2⟩

theorem scan_nolex_eq_top (l : List (Nat × Bool)) (last : Nat)
    (hs : LexSorted T strLike l) (hf : ∀ x ∈ l, x.2 = false) :
    recognize T inp p l last [] = topPriority T (cands inp p l) := by
  have hs0 := lexSorted_weaken T strLike l hs
  have hf0 : FlagsOK T (fun _ => false) l := by
    clear hs hs0
    induction l with
    | nil => trivial
    | cons x rest ih =>
      refine ⟨?_, ?_, ih (fun y hy => hf y (by simp [hy]))⟩
      · intro h; cases h
      · intro h; rw [hf x (by simp)] at h; cases h
  rw [recognize_eq_scanSpec T inp (fun _ => false) p l last hs0 hf0]
  clear hf hf0 hs
  induction l with
  | nil => simp [scanSpec, cands, topPriority, maxBy]
  | cons x rest ih =>
    simp only [scanSpec]
    cases hm : inp.matchAt x.1 p with
    | none =>
      have hc : cands inp p (x :: rest) = cands inp p rest := by
        simp [cands, List.filterMap, candOf, hm]
      simp only
      rw [hc]
      exact ih hs0.2
    | some len =>
      have hc : cands inp p (x :: rest) = ⟨x.1, p, len⟩ :: cands inp p rest := by
        simp [cands, List.filterMap, candOf, hm]
      have hle : ∀ y ∈ rest, T.prior y.1 ≤ T.prior x.1 := fun y hy => (hs0.1 y hy).1
      have hP : maxBy (fun t => T.prior t.term) (⟨x.1, p, len⟩ :: cands inp p rest) = T.prior x.1 := by
        apply maxBy_head
        intro u hu
        obtain ⟨y, hy, hterm, _⟩ := mem_cands inp p hu
        simp only [hterm]
        exact hle y hy
      simp only
      rw [hc]
      simp only [topPriority, hP, groupScan, ne_eq, not_true_eq_false, if_false, hm, Bool.false_eq_true]
      rw [groupScan_eq_inGroup T inp (fun _ => false) p (T.prior x.1) rest hs0.2 hle (fun _ _ => rfl)]
      simp [List.filter, inGroup]

/-! STOP next to real tokens: a real token is always longer than STOP's empty match. -/

theorem foldl_max_init (f : Tok → Nat) :
    ∀ (l : List Tok) (m : Nat), l.foldl (fun m t => max m (f t)) m = max m (l.foldl (fun m t => max m (f t)) 0) := by
  intro l
  induction l with
  | nil => intro m; simp
  | cons x xs ih =>
    intro m
    simp only [List.foldl]
    rw [ih (max m (f x)), ih (max 0 (f x))]
    omega

theorem maxBy_cons (f : Tok → Nat) (t : Tok) (l : List Tok) :
    maxBy f (t :: l) = max (f t) (maxBy f l) := by
  simp only [maxBy, List.foldl]
  rw [foldl_max_init]
  omega

theorem maxBy_pos (l : List Tok) (hne : l ≠ []) (hpos : ∀ u ∈ l, 0 < u.len) : 0 < maxBy (·.len) l := by
  cases l with
  | nil => exact absurd rfl hne
  | cons x xs =>
    rw [maxBy_cons]
    have := hpos x (by simp)
    omega

theorem rule45_stop (R : List Tok) (hne : R ≠ []) (hpos : ∀ u ∈ R, 0 < u.len) (pos : Nat) :
    rule45 T (⟨STOP, pos, 0⟩ :: R) = rule45 T R := by
  have hL := maxBy_pos R hne hpos
  unfold rule45
  simp only [maxBy_cons]
  have h0 : max 0 (maxBy (·.len) R) = maxBy (·.len) R := by omega
  rw [h0]
  have : List.filter (fun t => t.len == maxBy (·.len) R) (⟨STOP, pos, 0⟩ :: R)
      = List.filter (fun t => t.len == maxBy (·.len) R) R := by
    simp only [List.filter]
    have : ((0 : Nat) == maxBy (·.len) R) = false := by
      simp only [beq_eq_false_iff_ne, ne_eq]; omega
    rw [this]
  rw [this]

theorem cands_pos {l : List (Nat × Bool)} : ∀ u ∈ cands inp p l, 0 < u.len := by
  intro u hu
  obtain ⟨y, _, _, hm⟩ := mem_cands inp p hu
  unfold Input.matchAt at hm
  split at hm
  · cases hm
  · split at hm
    · split at hm
      · simp only [Option.some.injEq] at hm; omega
      · cases hm
    · cases hm

end Pg

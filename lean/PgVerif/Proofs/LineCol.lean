import PgVerif.Model.LineCol
namespace Pg

/-- Generalised inverse: scanning `pos` more characters from a state (line, col)
that is consistent with offset `off`. -/
theorem lineCol_go_inv :
    ∀ (text : List Nat) (pos line col : Nat), pos ≤ text.length →
      lineColToPos.go text ((posToLineCol.go text pos (line + 1) col).1 - (line + 1)) 0 +
        (if (posToLineCol.go text pos (line + 1) col).1 = line + 1
          then (posToLineCol.go text pos (line + 1) col).2 - col
          else (posToLineCol.go text pos (line + 1) col).2) = pos ∧
      line + 1 ≤ (posToLineCol.go text pos (line + 1) col).1 ∧
      ((posToLineCol.go text pos (line + 1) col).1 = line + 1 →
        col ≤ (posToLineCol.go text pos (line + 1) col).2) := by
  intro text
  induction text with
  | nil =>
    intro pos line col h
    have : pos = 0 := by simpa using h
    subst this
    simp [posToLineCol.go, lineColToPos.go]
  | cons c cs ih =>
    intro pos line col h
    cases pos with
    | zero => simp [posToLineCol.go, lineColToPos.go]
    | succ k =>
      have hk : k ≤ cs.length := by simpa using h
      simp only [posToLineCol.go]
      by_cases hc : c = NL
      · simp only [hc, if_true]
        obtain ⟨h1, h2, h3⟩ := ih k (line + 1) 0 hk
        have hne : (posToLineCol.go cs k (line + 1 + 1) 0).1 ≠ line + 1 := by omega
        refine ⟨?_, by omega, fun h => absurd h hne⟩
        simp only [hne, if_false]
        have : (posToLineCol.go cs k (line + 1 + 1) 0).1 - (line + 1) =
            ((posToLineCol.go cs k (line + 1 + 1) 0).1 - (line + 1 + 1)) + 1 := by omega
        rw [this]
        simp only [lineColToPos.go, if_true]
        -- go cs n 1 = go cs n 0 + 1
        have hshift : ∀ (l : List Nat) (n a : Nat), lineColToPos.go l n (a + 1) = lineColToPos.go l n a + 1 := by
          intro l
          induction l with
          | nil => intro n a; cases n <;> simp [lineColToPos.go]
          | cons x xs ihx =>
            intro n a
            cases n with
            | zero => simp [lineColToPos.go]
            | succ n =>
              simp only [lineColToPos.go]
              split
              · exact ihx n (a + 1)
              · exact ihx (n + 1) (a + 1)
        rw [hshift]
        split at h1
        · rename_i heq
          have := h3 heq
          omega
        · omega
      · simp only [hc, if_false]
        obtain ⟨h1, h2, h3⟩ := ih k line (col + 1) hk
        refine ⟨?_, h2, fun h => by have := h3 h; omega⟩
        have hshift : ∀ (l : List Nat) (n a : Nat), lineColToPos.go l n (a + 1) = lineColToPos.go l n a + 1 := by
          intro l
          induction l with
          | nil => intro n a; cases n <;> simp [lineColToPos.go]
          | cons x xs ihx =>
            intro n a
            cases n with
            | zero => simp [lineColToPos.go]
            | succ n =>
              simp only [lineColToPos.go]
              split
              · exact ihx n (a + 1)
              · exact ihx (n + 1) (a + 1)
        by_cases hl : (posToLineCol.go cs k (line + 1) (col + 1)).1 = line + 1
        · simp only [hl, if_true, Nat.sub_self] at h1 ⊢
          simp only [lineColToPos.go] at h1 ⊢
          have := h3 hl
          omega
        · simp only [hl, if_false] at h1 ⊢
          have hpos : 0 < (posToLineCol.go cs k (line + 1) (col + 1)).1 - (line + 1) := by omega
          obtain ⟨m, hm⟩ := Nat.exists_eq_succ_of_ne_zero (Nat.pos_iff_ne_zero.mp hpos)
          rw [hm] at h1 ⊢
          simp only [lineColToPos.go, hc, if_false]
          rw [hshift]
          simp only [Nat.succ_eq_add_one] at h1 ⊢
          omega

/-- **C10 (line/column).** `lineColToPos` inverts `posToLineCol` on `[0, len]`. -/
theorem lineColToPos_posToLineCol (text : List Nat) (pos : Nat) (h : pos ≤ text.length) :
    lineColToPos text (posToLineCol text pos).1 (posToLineCol text pos).2 = pos := by
  obtain ⟨h1, h2, h3⟩ := lineCol_go_inv text pos 0 0 h
  simp only [posToLineCol, lineColToPos] at *
  split at h1
  · rename_i heq
    simp only [Nat.zero_add] at heq
    rw [heq] at h1 ⊢
    simpa using h1
  · simpa using h1

end Pg

import PgVerif.Proofs.LRSound
/-!
The nondeterministic LR automaton: any token edge may be taken as lookahead and
any action of the consulted cell may be applied. Every GSS path of the GLR
driver is a run of this automaton (GLR pursues every matching token and every
action of a cell), so its soundness is the soundness of every tree a Tomita
style driver can assemble along one path over a well-formed table.
-/
namespace Pg

variable {g : Grammar} {T : Table} {inp : Input}

def ndCfg : LRCfg := { consumeInput := true, lexDis := false }

/-- One nondeterministic step. -/
inductive NStep (g : Grammar) (T : Table) (inp : Input) : Config → Step → Prop where
  /-- take any token edge at the current position (or STOP at the end of input,
  or nothing) as the lookahead -/
  | scan (c : Config) (otok : Option Tok) (h : c.la = none)
      (hok : ∀ tok, otok = some tok → tok.s = inp.skip c.pos ∧
        (tok.term ≠ STOP → inp.mlen tok.term (inp.skip c.pos) = some tok.len ∧ 0 < tok.len) ∧
        (tok.term = STOP → inp.skip c.pos = inp.len)) :
      NStep g T inp c (.next { c with la := some (inp.skip c.pos, otok) })
  /-- apply any action of the lookahead's cell -/
  | act (c : Config) (p : Nat) (tok : Tok) (a : Action) (hla : c.la = some (p, some tok))
      (ha : a ∈ T.actions c.top tok.term) :
      NStep g T inp c (applyAction g T c p (some tok) a)

/-- Configurations reachable from the initial one. -/
inductive Reach (g : Grammar) (T : Table) (inp : Input) : Config → Prop where
  | init : Reach g T inp Config.init
  | step (c c' : Config) (h : Reach g T inp c) (hs : NStep g T inp c (.next c')) : Reach g T inp c'

theorem nstep_ok (hw : T.wf g = true) (c : Config) (hinv : Inv g inp T ndCfg c) (st : Step)
    (hs : NStep g T inp c st) : StepOK g inp T ndCfg st := by
  cases hs with
  | scan otok h hok =>
    constructor
    · intro c' hc'
      simp only [Step.next.injEq] at hc'; subst hc'
      refine ⟨hinv.st, ?_⟩
      intro p otok' h'
      simp only [Option.some.injEq, Prod.mk.injEq] at h'
      obtain ⟨rfl, rfl⟩ := h'
      refine ⟨rfl, ?_⟩
      intro tok ht
      obtain ⟨h1, h2, h3⟩ := hok tok ht
      exact ⟨h1, h2, fun hs _ => h3 hs⟩
    · intro t e p h'; simp at h'
  | act p tok a hla ha =>
    obtain ⟨hp, htok⟩ := hinv.la p (some tok) hla
    cases a with
    | shift s' =>
      exact doShift_ok hw ndCfg c hinv p (some tok) hla s' tok.term ha
        (by intro tok' h _; simp only [Option.some.injEq] at h; subst h; rfl)
    | reduce pid => exact doReduce_ok hw ndCfg c hinv pid tok.term ha
    | accept =>
      exact doAccept_ok hw ndCfg c hinv p (some tok) hla tok.term ha
        (fun hx hci => (htok tok rfl).2.2 hx hci)

theorem reach_inv (hw : T.wf g = true) (c : Config) (h : Reach g T inp c) :
    Inv g inp T ndCfg c := by
  induction h with
  | init => exact Inv.init _
  | step c c' _ hs ih => exact (nstep_ok hw c ih _ hs).1 c' rfl

/-- Whatever any run of the nondeterministic LR automaton accepts is a parse of
the whole input. -/
theorem nd_sound (hw : T.wf g = true) (c : Config) (h : Reach g T inp c) (t : Tree) (e p : Nat)
    (hs : NStep g T inp c (.done (.ok t e p))) : IsParseOf g inp t := by
  obtain ⟨h1, h2, h3⟩ := (nstep_ok hw c (reach_inv hw c h) _ hs).2 t e p rfl
  exact ⟨e, h1, by rw [← h2]; exact h3 rfl⟩

end Pg

import PgVerif.Model.Pos
import PgVerif.Proofs.LRSound
/-! Every tree the LR driver model builds is positionally well formed. -/
namespace Pg

variable {g : Grammar} {T : Table} {inp : Input}

theorem posOK_start_le_stop : ∀ t : Tree, t.posOK = true → t.start ≤ t.stop
  | .leaf _ s e, h => by simpa [Tree.posOK, Tree.start, Tree.stop] using h
  | .node _ s e cs, h => by
    simp only [Tree.posOK, Bool.and_eq_true, decide_eq_true_eq] at h
    simpa [Tree.start, Tree.stop] using h.1.1

theorem spanStart_eq_firstStart (cs : List Tree) (pos : Nat) : spanStart cs pos = firstStart cs pos := by
  cases cs <;> rfl

/-- Stack invariant for positions: every tree is well positioned, trees are in
input order without overlap, the top one ends at or before `hi`. -/
inductive StackP : List (Nat × Tree) → Nat → Prop where
  | nil (hi : Nat) : StackP [] hi
  | cons (s : Nat) (t : Tree) (rest : List (Nat × Tree)) (hi : Nat)
      (hp : t.posOK = true) (hs : t.stop ≤ hi) (hr : StackP rest t.start) :
      StackP ((s, t) :: rest) hi

theorem StackP.mono {st : List (Nat × Tree)} {hi hi' : Nat} (h : StackP st hi) (hle : hi ≤ hi') :
    StackP st hi' := by
  cases h with
  | nil => exact StackP.nil _
  | cons s t rest _ hp hs hr => exact StackP.cons s t rest hi' hp (Nat.le_trans hs hle) hr

theorem kidsOK_firstStart_le : ∀ (cs : List Tree) (e : Nat), Tree.kidsOK cs e = true → firstStart cs e ≤ e := by
  intro cs
  induction cs with
  | nil => intro e _; simp [firstStart]
  | cons c cs ih =>
    intro e h
    simp only [Tree.kidsOK, Bool.and_eq_true, decide_eq_true_eq] at h
    have h1 := posOK_start_le_stop c h.1.1
    have h2 := ih e h.2
    simp only [firstStart] at *
    omega

/-- Popping entries off the stack yields well positioned, ordered children. -/
theorem pop_pos (e : Nat) :
    ∀ (popped rest : List (Nat × Tree)) (acc : List Tree),
      Tree.kidsOK acc e = true → StackP (popped ++ rest) (firstStart acc e) →
      Tree.kidsOK (popped.reverse.map (·.2) ++ acc) e = true ∧
      StackP rest (firstStart (popped.reverse.map (·.2) ++ acc) e) := by
  intro popped
  induction popped with
  | nil => intro rest acc h1 h2; simpa using ⟨h1, h2⟩
  | cons x ps ih =>
    intro rest acc h1 h2
    obtain ⟨s, t⟩ := x
    cases h2 with
    | cons _ _ _ _ hp hs hr =>
      have hacc : Tree.kidsOK (t :: acc) e = true := by
        simp [Tree.kidsOK, hp, hs, h1]
      have := ih rest (t :: acc) hacc (by simpa [firstStart] using hr)
      simpa [List.reverse_cons, List.map_append, List.append_assoc] using this

structure InputMono (inp : Input) : Prop where
  skip_ge : ∀ p, p ≤ inp.skip p

structure PInv (c : Config) : Prop where
  st : StackP c.stack c.pos
  la : ∀ p otok, c.la = some (p, otok) → c.pos ≤ p

theorem step_pos (hm : InputMono inp) (cf : LRCfg) (c : Config) (hinv : PInv c) :
    (∀ c', step g T inp cf c = .next c' → PInv c') ∧
    (∀ t e p, step g T inp cf c = .done (.ok t e p) → t.posOK = true ∧ t.stop ≤ e) := by
  unfold step
  cases hla : c.la with
  | none =>
    simp only [scanStep]
    constructor
    · intro c' hc'
      split at hc'
      · simp only [Step.next.injEq] at hc'; subst hc'
        exact ⟨hinv.st, by intro p otok h; simp at h; rw [← h.1]; exact hm.skip_ge _⟩
      · simp only [Step.next.injEq] at hc'; subst hc'
        exact ⟨hinv.st, by intro p otok h; simp at h; rw [← h.1]; exact hm.skip_ge _⟩
      · simp at hc'
    · intro t e p h; split at h <;> simp at h
  | some lap =>
    obtain ⟨p, otok⟩ := lap
    have hp := hinv.la p otok hla
    simp only
    cases cellFor T cf c.top otok with
    | nil => exact ⟨by intro c' h; simp at h, by intro t e p h; simp at h⟩
    | cons a0 rest =>
      simp only
      cases pickAction g a0 rest with
      | none => exact ⟨by intro c' h; simp at h, by intro t e p h; simp at h⟩
      | some a =>
        simp only
        cases a with
        | shift s' =>
          simp only [applyAction, doShift]
          cases otok with
          | none => exact ⟨by intro c' h; simp at h, by intro t e p h; simp at h⟩
          | some tok =>
            simp only
            split
            · exact ⟨by intro c' h; simp at h, by intro t e p h; simp at h⟩
            · constructor
              · intro c' hc'
                simp only [Step.next.injEq] at hc'; subst hc'
                refine ⟨?_, by intro p otok h; simp at h⟩
                refine StackP.cons _ _ _ _ (by simp [Tree.posOK]) (by simp [Tree.stop]) ?_
                simp only [Tree.start]
                exact hinv.st.mono hp
              · intro t e p' h; simp at h
        | reduce pid =>
          simp only [applyAction, doReduce]
          cases g.prod? pid with
          | none => exact ⟨by intro c' h; simp at h, by intro t e p h; simp at h⟩
          | some pr =>
            simp only
            split
            · exact ⟨by intro c' h; simp at h, by intro t e p h; simp at h⟩
            · cases T.goto (topOf (List.drop pr.rhs.length c.stack)) pr.lhs with
              | none => exact ⟨by intro c' h; simp at h, by intro t e p h; simp at h⟩
              | some s' =>
                simp only
                constructor
                · intro c' hc'
                  simp only [Step.next.injEq] at hc'; subst hc'
                  have hst := hinv.st
                  rw [← List.take_append_drop pr.rhs.length c.stack] at hst
                  obtain ⟨h1, h2⟩ := pop_pos c.pos (c.stack.take pr.rhs.length)
                    (c.stack.drop pr.rhs.length) [] (by simp [Tree.kidsOK]) (by simpa [firstStart] using hst)
                  simp only [List.append_nil] at h1 h2
                  have hle := kidsOK_firstStart_le _ _ h1
                  refine ⟨?_, by intro p2 otok2 h2'; simp only at h2'; rw [hla] at h2'; simp at h2'; rw [← h2'.1]; exact hp⟩
                  refine StackP.cons _ _ _ _ ?_ (by simp [Tree.stop]) ?_
                  · simp only [Tree.posOK, spanStart_eq_firstStart, Bool.and_eq_true, decide_eq_true_eq]
                    exact ⟨⟨hle, Nat.le_refl _⟩, h1⟩
                  · simpa [Tree.start, spanStart_eq_firstStart] using h2
                · intro t e p' h; simp at h
        | accept =>
          simp only [applyAction, doAccept]
          constructor
          · intro c' hc'; split at hc' <;> simp at hc'
          · intro t e p' h
            split at h
            · rename_i s1 t1 hlast
              simp only [Step.done.injEq, Outcome.ok.injEq] at h
              obtain ⟨rfl, rfl, rfl⟩ := h
              -- the last entry of the stack is on the stack
              have hmem : (s1, t1) ∈ c.stack := List.mem_of_getLast? hlast
              have : ∀ (st : List (Nat × Tree)) (hi : Nat), StackP st hi → (s1, t1) ∈ st →
                  t1.posOK = true ∧ t1.stop ≤ hi := by
                intro st
                induction st with
                | nil => intro hi _ hm; simp at hm
                | cons x xs ih =>
                  intro hi hs hm'
                  cases hs with
                  | cons s2 t2 _ _ hp2 hs2 hr2 =>
                    rcases List.mem_cons.mp hm' with heq | hin
                    · have h2 : t1 = t2 := (_root_.Prod.mk.inj heq).2
                      subst h2
                      exact ⟨hp2, hs2⟩
                    · have := ih _ hr2 hin
                      exact ⟨this.1, Nat.le_trans this.2 (Nat.le_trans (posOK_start_le_stop _ hp2) hs2)⟩
              exact this c.stack c.pos hinv.st hmem
            · simp at h

/-- Every accepted tree is positionally well formed and ends at the raw end. -/
theorem run_pos (hm : InputMono inp) (cf : LRCfg) :
    ∀ (fuel : Nat) (c : Config), PInv c → ∀ t e p, run g T inp cf fuel c = .ok t e p →
      t.posOK = true ∧ t.stop ≤ e := by
  intro fuel
  induction fuel with
  | zero => intro c _ t e p h; simp [run] at h
  | succ f ih =>
    intro c hinv t e p h
    have hs := step_pos (g := g) (T := T) hm cf c hinv
    simp only [run] at h
    split at h
    · rename_i c' hc'; exact ih c' (hs.1 c' hc') t e p h
    · rename_i o ho; subst h; exact hs.2 t e p ho

end Pg

import PgVerif.Spec.SPPF
import PgVerif.Proofs.Chart
/-!
The reference SPPF is exact: its packed alternatives are exactly the packed
alternatives `(A, i, j, production, split)` with derivable pieces whose span
`(A, i, j)` is useful, i.e. reachable top-down from a parse of the input.
-/
namespace Pg

/-- `ks` are the ends of derivable pieces of `Xs` chained from `i` to `j`. -/
inductive DerivesSplit (g : Grammar) (inp : Input) : List Sym → Nat → List Nat → Nat → Prop where
  | nil (i : Nat) : DerivesSplit g inp [] i [] i
  | cons (X : Sym) (Xs : List Sym) (i k : Nat) (ks : List Nat) (j : Nat) (t : Tree)
      (h : Derives g inp X i k t) (rest : DerivesSplit g inp Xs k ks j) :
      DerivesSplit g inp (X :: Xs) i (k :: ks) j

/-- A packed alternative over the token lattice of the input. -/
def PackedAlt (g : Grammar) (inp : Input) (a : PAlt) : Prop :=
  ∃ pr, g.prod? a.p = some pr ∧ pr.lhs = a.A ∧ a.p ≠ 0 ∧ DerivesSplit g inp pr.rhs a.i a.ks a.j

/-- Spans that occur in some parse of the input (`consume`) or of a sentence prefix. -/
inductive Useful (g : Grammar) (inp : Input) (consume : Bool) : Fact → Prop where
  | root (j : Nat) (t : Tree) (h : Derives g inp (.nt g.start) 0 j t)
      (hc : consume = true → inp.skip j = inp.len) : Useful g inp consume (g.start, 0, j)
  | child (a : PAlt) (f' : Fact) (hf : Useful g inp consume (a.A, a.i, a.j)) (ha : PackedAlt g inp a)
      (hk : f' ∈ childFacts g a) : Useful g inp consume f'

variable {g : Grammar} {inp : Input}

theorem splits_sound {ch : List Fact} (hs : ChartSound g inp ch) :
    ∀ (Xs : List Sym) (i j : Nat) (ks : List Nat), ks ∈ splits inp ch Xs i j →
      DerivesSplit g inp Xs i ks j := by
  intro Xs
  induction Xs with
  | nil =>
    intro i j ks h
    simp only [splits] at h
    split at h
    · rename_i hij; subst hij; simp only [List.mem_singleton] at h; subst h; exact DerivesSplit.nil _
    · simp at h
  | cons X Xs ih =>
    intro i j ks h
    simp only [splits, List.mem_flatMap, List.mem_map] at h
    obtain ⟨k, hk, ks', hks', rfl⟩ := h
    obtain ⟨t, ht⟩ := symEnds_sound hs X i k (List.mem_eraseDups.mp hk)
    exact DerivesSplit.cons X Xs i k ks' j t ht (ih k j ks' hks')

theorem symEnds_complete' {ch : List Fact} (hc : Closed g inp ch) (hin : InputOK inp)
    {X : Sym} {i j : Nat} {t : Tree} (h : Derives g inp X i j t) (hi : i ≤ inp.len) :
    j ∈ symEnds inp ch X i ∧ j ≤ inp.len := by
  have := closed_complete hc hin h hi
  refine ⟨?_, this.2⟩
  have h1 := this.1
  simp only [seqEnds, List.mem_flatMap, List.mem_singleton] at h1
  obtain ⟨k, hk, rfl⟩ := h1
  exact hk

theorem splits_complete {ch : List Fact} (hc : Closed g inp ch) (hin : InputOK inp)
    {Xs : List Sym} {i j : Nat} {ks : List Nat} (h : DerivesSplit g inp Xs i ks j) :
    i ≤ inp.len → ks ∈ splits inp ch Xs i j := by
  induction h with
  | nil i => intro _; simp [splits]
  | cons X Xs i k ks j t h _ ih =>
    intro hi
    obtain ⟨hk, hkl⟩ := symEnds_complete' hc hin h hi
    simp only [splits, List.mem_flatMap, List.mem_map]
    exact ⟨k, List.mem_eraseDups.mpr hk, ks, ih hkl, rfl⟩

theorem mem_enumFromP : ∀ (l : List Prod) (k0 p : Nat) (pr : Prod),
    (p, pr) ∈ enumProds.enumFromP k0 l ↔ k0 ≤ p ∧ l[p - k0]? = some pr := by
  intro l
  induction l with
  | nil => intro k0 p pr; simp [enumProds.enumFromP]
  | cons x xs ih =>
    intro k0 p pr
    simp only [enumProds.enumFromP, List.mem_cons, _root_.Prod.mk.injEq, ih]
    constructor
    · rintro (⟨rfl, rfl⟩ | ⟨h1, h2⟩)
      · simp
      · refine ⟨by omega, ?_⟩
        rw [show p - k0 = (p - (k0 + 1)) + 1 by omega]
        simpa using h2
    · rintro ⟨h1, h2⟩
      by_cases hk : p = k0
      · left; subst hk; simp at h2; exact ⟨rfl, h2.symm⟩
      · right
        refine ⟨by omega, ?_⟩
        rw [show p - k0 = (p - (k0 + 1)) + 1 by omega] at h2
        simpa using h2

theorem mem_enumProds (p : Nat) (pr : Prod) : (p, pr) ∈ enumProds g ↔ g.prod? p = some pr := by
  simp [enumProds, mem_enumFromP, Grammar.prod?]

/-- The alternatives enumerated for a span are exactly its packed alternatives. -/
theorem altsOf_iff {ch : List Fact} (hs : ChartSound g inp ch) (hc : Closed g inp ch) (hin : InputOK inp)
    (f : Fact) (hi : f.2.1 ≤ inp.len) (a : PAlt) :
    a ∈ altsOf g inp ch f ↔ (a.A, a.i, a.j) = f ∧ PackedAlt g inp a := by
  simp only [altsOf, List.mem_flatMap]
  constructor
  · rintro ⟨⟨p, pr⟩, hp, ha⟩
    simp only at ha
    split at ha
    · rename_i hcond
      simp only [List.mem_map] at ha
      obtain ⟨ks, hks, rfl⟩ := ha
      refine ⟨rfl, pr, (mem_enumProds p pr).mp hp, hcond.1, hcond.2, ?_⟩
      exact splits_sound hs pr.rhs f.2.1 f.2.2 ks hks
    · simp at ha
  · rintro ⟨rfl, pr, hp, hl, hne, hd⟩
    refine ⟨(a.p, pr), (mem_enumProds a.p pr).mpr hp, ?_⟩
    simp only [hl, hne, ne_eq, not_false_eq_true, and_self, if_true, List.mem_map]
    exact ⟨a.ks, splits_complete hc hin hd hi, rfl⟩

/-- Raw positions of useful spans stay inside the input. -/
theorem childFacts_go_le (hin : InputOK inp) :
    ∀ (Xs : List Sym) (i : Nat) (ks : List Nat) (j : Nat), DerivesSplit g inp Xs i ks j → i ≤ inp.len →
      ∀ f' ∈ childFacts.go Xs i ks, f'.2.1 ≤ inp.len := by
  intro Xs i ks j h
  induction h with
  | nil i => intro _ f' hf'; simp [childFacts.go] at hf'
  | cons X Xs i k ks j t h _ ih =>
    intro hi f' hf'
    have hk : k ≤ inp.len := by
      have : ∀ ch : List Fact, True := fun _ => trivial
      -- derivations stay inside the input
      have h2 : ∀ {Ys : List Sym} {a b : Nat} {ts : List Tree}, DerivesSeq g inp Ys a b ts → a ≤ inp.len →
          b ≤ inp.len := by
        intro Ys a b ts hd
        induction hd with
        | nil _ => intro h; exact h
        | tok t i l j Xs ts hm _ _ ih => intro _; exact ih (hin.mlen_le _ _ _ hm)
        | prod _ _ _ _ _ _ _ _ _ _ _ _ _ ih1 ih2 => intro h; exact ih2 (ih1 h)
      exact h2 h hi
    cases X with
    | t t => simp only [childFacts.go] at hf'; exact ih hk f' hf'
    | nt B =>
      simp only [childFacts.go, List.mem_cons] at hf'
      rcases hf' with rfl | hf'
      · exact hi
      · exact ih hk f' hf'

theorem useful_le (hin : InputOK inp) (consume : Bool) {f : Fact} (h : Useful g inp consume f) :
    f.2.1 ≤ inp.len := by
  induction h with
  | root j t h hc => exact Nat.zero_le _
  | child a f' _ ha hk ih =>
    obtain ⟨pr, hp, _, _, hd⟩ := ha
    simp only [childFacts, hp] at hk
    exact childFacts_go_le hin pr.rhs a.i a.ks a.j hd ih f' hk

theorem usefulIter_sound {ch : List Fact} (hs : ChartSound g inp ch) (hc : Closed g inp ch)
    (hin : InputOK inp) (consume : Bool) :
    ∀ (fuel : Nat) (done todo : List Fact), (∀ f ∈ done, Useful g inp consume f) →
      (∀ f ∈ todo, Useful g inp consume f) →
      ∀ f ∈ usefulIter g inp ch fuel done todo, Useful g inp consume f := by
  intro fuel
  induction fuel with
  | zero => intro done todo hd _ f hf; simp only [usefulIter] at hf; exact hd f hf
  | succ n ih =>
    intro done todo hd ht f hf
    cases todo with
    | nil => simp only [usefulIter] at hf; exact hd f hf
    | cons x todo =>
      simp only [usefulIter] at hf
      have hx := ht x (by simp)
      split at hf
      · exact ih done todo hd (fun y hy => ht y (by simp [hy])) f hf
      · apply ih (x :: done) _ _ _ f hf
        · intro y hy
          rcases List.mem_cons.mp hy with rfl | hy
          · exact hx
          · exact hd y hy
        · intro y hy
          rcases List.mem_append.mp hy with hy | hy
          · simp only [List.mem_flatMap] at hy
            obtain ⟨a, ha, hk⟩ := hy
            obtain ⟨heq, hpa⟩ := (altsOf_iff hs hc hin x (useful_le hin consume hx) a).mp ha
            exact Useful.child a y (by rw [heq]; exact hx) hpa hk
          · exact ht y (by simp [hy])

/-- **The reference SPPF is exact.** -/
theorem sppfAlts_correct (hin : InputOK inp) (fuel : Nat) (consume : Bool) (alts : List PAlt)
    (h : sppfAlts g inp fuel consume = some alts) (a : PAlt) :
    a ∈ alts ↔ Useful g inp consume (a.A, a.i, a.j) ∧ PackedAlt g inp a := by
  unfold sppfAlts chart at h
  simp only at h
  split at h
  · simp at h
  · rename_i hcl
    split at h
    · simp at h
    · rename_i hucl
      simp only [Bool.not_eq_true', Bool.not_eq_false] at hcl hucl
      simp only [Option.some.injEq] at h
      have hs : ChartSound g inp (saturate g inp fuel []).1 :=
        saturate_sound fuel [] (by intro f hf; simp at hf)
      have hc := saturate_closed (g := g) (inp := inp) fuel [] (by simpa using hcl)
      -- the roots are useful
      have hroots : ∀ f ∈ ((parseEnds g (saturate g inp fuel []).1).eraseDups.filter
          (fun j => !consume || inp.skip j == inp.len)).map (fun j => (g.start, 0, j)),
          Useful g inp consume f := by
        intro f hf
        simp only [List.mem_map, List.mem_filter, List.mem_eraseDups] at hf
        obtain ⟨j, ⟨hj, hcond⟩, rfl⟩ := hf
        obtain ⟨t, ht⟩ := (parseEnds_iff hs hc hin j).mp hj
        refine Useful.root j t ht ?_
        intro hcons
        simpa [hcons] using hcond
      have hsound := usefulIter_sound hs hc hin consume (fuel * fuel * 16 + 1000) [] _ (by simp) hroots
      simp only [usefulClosed, Bool.and_eq_true, List.all_eq_true, List.contains_eq_mem,
        decide_eq_true_eq] at hucl
      obtain ⟨hcr, hck⟩ := hucl
      rw [← h]
      simp only [List.mem_flatMap]
      constructor
      · rintro ⟨f, hf, ha⟩
        have hu := hsound f hf
        obtain ⟨heq, hpa⟩ := (altsOf_iff hs hc hin f (useful_le hin consume hu) a).mp ha
        exact ⟨by rw [heq]; exact hu, hpa⟩
      · rintro ⟨hu, hpa⟩
        -- every useful span is in the closure
        have hall : ∀ f, Useful g inp consume f →
            f ∈ usefulIter g inp (saturate g inp fuel []).1 (fuel * fuel * 16 + 1000) []
              (((parseEnds g (saturate g inp fuel []).1).eraseDups.filter
                (fun j => !consume || inp.skip j == inp.len)).map (fun j => (g.start, 0, j))) := by
          intro f hf
          induction hf with
          | root j t ht hcj =>
            apply hcr
            simp only [List.mem_map, List.mem_filter, List.mem_eraseDups]
            refine ⟨j, ⟨(parseEnds_iff hs hc hin j).mpr ⟨t, ht⟩, ?_⟩, rfl⟩
            cases consume with
            | false => simp
            | true => simp [hcj rfl]
          | child a' f' hf' ha' hk ih =>
            apply hck _ ih f'
            simp only [List.mem_flatMap]
            exact ⟨a', (altsOf_iff hs hc hin _ (useful_le hin consume hf') a').mpr ⟨rfl, ha'⟩, hk⟩
        exact ⟨_, hall _ hu, (altsOf_iff hs hc hin _ (useful_le hin consume hu) a).mpr ⟨rfl, hpa⟩⟩

end Pg

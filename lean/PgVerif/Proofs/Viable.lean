import PgVerif.Spec.Viable
import PgVerif.Proofs.Chart
import PgVerif.Proofs.Pos
/-!
The viable-prefix chart is sound, and complete once saturated.

`PrefixSeq g inp Xs i j`: some sentential form derived from the symbols `Xs`
begins with the token path `i..j` — some leading symbols are derived completely,
then the path ends at the end of a completely derived symbol (`full`) or inside
a nonterminal, as a prefix of one of its right-hand sides (`inner`); whatever
follows is dropped. With every nonterminal productive (the properties' standing
assumption) this is "the tokens up to `j` can be extended to a sentence".
-/
namespace Pg

inductive PrefixSeq (g : Grammar) (inp : Input) : List Sym → Nat → Nat → Prop where
  | full (X : Sym) (Xs : List Sym) (i j : Nat) (t : Tree) (h : Derives g inp X i j t) :
      PrefixSeq g inp (X :: Xs) i j
  | inner (p : Nat) (pr : Prod) (Xs : List Sym) (i j : Nat) (hp : g.prod? p = some pr)
      (h : PrefixSeq g inp pr.rhs i j) : PrefixSeq g inp (.nt pr.lhs :: Xs) i j
  | skip (X : Sym) (Xs : List Sym) (i k j : Nat) (t : Tree) (h : Derives g inp X i k t)
      (rest : PrefixSeq g inp Xs k j) : PrefixSeq g inp (X :: Xs) i j

variable {g : Grammar} {inp : Input}

/-- Every prefix fact has a prefix derivation. -/
def PSound (g : Grammar) (inp : Input) (pch : List Fact) : Prop :=
  ∀ f ∈ pch, PrefixSeq g inp [.nt f.1] f.2.1 f.2.2

theorem symPrefixEnds_sound {ch pch : List Fact} (hs : ChartSound g inp ch) (hp : PSound g inp pch)
    (X : Sym) (Xs : List Sym) (i j : Nat) (h : j ∈ symPrefixEnds inp ch pch X i) :
    PrefixSeq g inp (X :: Xs) i j := by
  cases X with
  | t t =>
    simp only [symPrefixEnds] at h
    obtain ⟨tr, htr⟩ := symEnds_sound hs (.t t) i j h
    exact PrefixSeq.full _ _ _ _ tr htr
  | nt A =>
    simp only [symPrefixEnds, List.mem_append, List.mem_filterMap] at h
    rcases h with h | ⟨f, hf, hcond⟩
    · obtain ⟨tr, htr⟩ := symEnds_sound hs (.nt A) i j h
      exact PrefixSeq.full _ _ _ _ tr htr
    · split at hcond
      · rename_i hc
        simp only [Option.some.injEq] at hcond
        have := hp f hf
        rw [hc.1, hc.2, hcond] at this
        -- re-root the single-symbol prefix derivation in front of `Xs`
        cases this with
        | full _ _ _ _ t h => exact PrefixSeq.full _ _ _ _ t h
        | inner p pr _ _ _ hpp h => exact PrefixSeq.inner p pr Xs i j hpp h
        | skip _ _ _ k _ t h rest => cases rest
      · simp at hcond

theorem seqPrefixEnds_sound {ch pch : List Fact} (hs : ChartSound g inp ch) (hp : PSound g inp pch) :
    ∀ (Xs : List Sym) (i j : Nat), j ∈ seqPrefixEnds inp ch pch Xs i → PrefixSeq g inp Xs i j := by
  intro Xs
  induction Xs with
  | nil => intro i j h; simp [seqPrefixEnds] at h
  | cons X Xs ih =>
    intro i j h
    simp only [seqPrefixEnds, List.mem_append, List.mem_flatMap] at h
    rcases h with h | ⟨k, hk, hj⟩
    · exact symPrefixEnds_sound hs hp X Xs i j h
    · obtain ⟨t, ht⟩ := symEnds_sound hs X i k hk
      exact PrefixSeq.skip X Xs i k j t ht (ih k j hj)

theorem prefixRound_sound {ch pch : List Fact} (hs : ChartSound g inp ch) (hp : PSound g inp pch) :
    ∀ f ∈ prefixRound g inp ch pch, PrefixSeq g inp [.nt f.1] f.2.1 f.2.2 := by
  intro f hf
  simp only [prefixRound, List.mem_flatMap, List.mem_map, List.mem_filter] at hf
  obtain ⟨pr, hpr, i, _, j, ⟨hj, _⟩, rfl⟩ := hf
  obtain ⟨p, hlt, hpe⟩ := List.getElem_of_mem hpr
  have hp' : g.prod? p = some pr := by simp [Grammar.prod?, List.getElem?_eq_getElem hlt, hpe]
  exact PrefixSeq.inner p pr [] i j hp' (seqPrefixEnds_sound hs hp pr.rhs i j hj)

theorem prefixSaturate_sound {ch : List Fact} (hs : ChartSound g inp ch) :
    ∀ (fuel : Nat) (pch : List Fact), PSound g inp pch →
      PSound g inp (prefixSaturate g inp ch fuel pch).1 := by
  intro fuel
  induction fuel with
  | zero => intro pch h; simpa [prefixSaturate] using h
  | succ f ih =>
    intro pch h
    simp only [prefixSaturate]
    split
    · exact h
    · apply ih
      intro fact hfact
      rcases List.mem_append.mp hfact with h1 | h1
      · exact h fact h1
      · apply prefixRound_sound hs h
        exact (List.mem_filter.mp (List.mem_eraseDups.mp h1)).1

/-- Closedness of the prefix chart. -/
def PClosed (g : Grammar) (inp : Input) (ch pch : List Fact) : Prop :=
  ∀ f ∈ prefixRound g inp ch pch, f ∈ pch

theorem prefixSaturate_closed {ch : List Fact} :
    ∀ (fuel : Nat) (pch : List Fact), (prefixSaturate g inp ch fuel pch).2 = true →
      PClosed g inp ch (prefixSaturate g inp ch fuel pch).1 := by
  intro fuel
  induction fuel with
  | zero => intro pch h; simp [prefixSaturate] at h
  | succ f ih =>
    intro pch h
    simp only [prefixSaturate] at h ⊢
    split
    · rename_i he
      intro fact hfact
      by_cases hc : fact ∈ pch
      · exact hc
      · have : fact ∈ ((prefixRound g inp ch pch).filter (fun x => !pch.contains x)).eraseDups := by
          apply List.mem_eraseDups.mpr
          apply List.mem_filter.mpr
          exact ⟨hfact, by simpa using hc⟩
        rw [List.isEmpty_iff.mp he] at this
        simp at this
    · rename_i he; simp only [he] at h; exact ih _ h

/-- Raw positions never decrease along a derivation. -/
theorem derivesSeq_mono (hm : InputMono inp) {Xs : List Sym} {i j : Nat} {ts : List Tree}
    (h : DerivesSeq g inp Xs i j ts) : i ≤ j := by
  induction h with
  | nil i => exact Nat.le_refl _
  | tok t i l j Xs ts h hl _ ih => have := hm.skip_ge i; omega
  | prod p pr i k j s e cs Xs ts hp _ _ ih1 ih2 => omega

theorem symEnds_complete {ch : List Fact} (hc : Closed g inp ch) (hin : InputOK inp)
    {X : Sym} {i j : Nat} {t : Tree} (h : Derives g inp X i j t) (hi : i ≤ inp.len) :
    j ∈ symEnds inp ch X i ∧ j ≤ inp.len := by
  have := closed_complete hc hin h hi
  refine ⟨?_, this.2⟩
  have h1 := this.1
  simp only [seqEnds, List.mem_flatMap, List.mem_singleton] at h1
  obtain ⟨k, hk, rfl⟩ := h1
  exact hk

/-- In closed charts every prefix derivation that reads at least one token is recorded. -/
theorem pclosed_complete {ch pch : List Fact} (hc : Closed g inp ch) (hpc : PClosed g inp ch pch)
    (hin : InputOK inp) (hm : InputMono inp) {Xs : List Sym} {i j : Nat}
    (h : PrefixSeq g inp Xs i j) : i ≤ inp.len → i < j → j ∈ seqPrefixEnds inp ch pch Xs i := by
  induction h with
  | full X Xs i j t h =>
    intro hi _
    simp only [seqPrefixEnds, List.mem_append]
    left
    have := (symEnds_complete hc hin h hi).1
    cases X with
    | t t => simpa [symPrefixEnds] using this
    | nt A => simp only [symPrefixEnds, List.mem_append]; exact Or.inl this
  | inner p pr Xs i j hp _ ih =>
    intro hi hij
    have hmem : pr ∈ g.prods := by
      simp only [Grammar.prod?] at hp
      exact List.mem_of_getElem? hp
    have hfact : (pr.lhs, i, j) ∈ pch := by
      apply hpc
      simp only [prefixRound, List.mem_flatMap, List.mem_map, List.mem_filter, List.mem_range]
      exact ⟨pr, hmem, i, by omega, j, ⟨ih hi hij, by simpa using hij⟩, rfl⟩
    simp only [seqPrefixEnds, List.mem_append, symPrefixEnds, List.mem_filterMap]
    exact Or.inl (Or.inr ⟨(pr.lhs, i, j), hfact, by simp⟩)
  | skip X Xs i k j t h rest ih =>
    intro hi hij
    obtain ⟨hk, hkl⟩ := symEnds_complete hc hin h hi
    have hik := derivesSeq_mono hm h
    simp only [seqPrefixEnds, List.mem_append, List.mem_flatMap]
    by_cases hkj : k < j
    · exact Or.inr ⟨k, hk, ih hkl hkj⟩
    · -- nothing is read after `X`: positions never decrease, so the path ends where `X` ends
      have hkj' : k ≤ j := by
        have : ∀ {Ys : List Sym} {a b : Nat}, PrefixSeq g inp Ys a b → a ≤ b := by
          intro Ys a b hp
          induction hp with
          | full _ _ _ _ _ h => exact derivesSeq_mono hm h
          | inner _ _ _ _ _ _ _ ih => exact ih
          | skip _ _ _ _ _ _ h _ ih => have := derivesSeq_mono hm h; omega
        exact this rest
      have : k = j := by omega
      subst this
      left
      cases X with
      | t t => simpa [symPrefixEnds] using hk
      | nt A => simp only [symPrefixEnds, List.mem_append]; exact Or.inl hk

/-- **Oracle correctness.** When both charts saturate, `viableEnds` lists exactly the raw
positions `j ≤ len` that are 0 or the end of a token path that begins a sentential form of
the start symbol — for every grammar and input. -/
theorem viableEnds_correct (hin : InputOK inp) (hm : InputMono inp) (fuel : Nat) (l : List Nat)
    (h : viableEnds g inp fuel = some l) (j : Nat) :
    j ∈ l ↔ j ≤ inp.len ∧ (j = 0 ∨ PrefixSeq g inp [.nt g.start] 0 j) := by
  unfold viableEnds chart at h
  simp only at h
  split at h
  · simp at h
  · rename_i hcl
    split at h
    · simp at h
    · rename_i hpcl
      simp only [Bool.not_eq_true', Bool.not_eq_false] at hcl hpcl
      simp only [Option.some.injEq] at h
      have hs : ChartSound g inp (saturate g inp fuel []).1 :=
        saturate_sound fuel [] (by intro f hf; simp at hf)
      have hc := saturate_closed (g := g) (inp := inp) fuel [] (by simpa using hcl)
      have hps := prefixSaturate_sound (g := g) (inp := inp) hs fuel [] (by intro f hf; simp at hf)
      have hpc := prefixSaturate_closed (g := g) (inp := inp) (ch := (saturate g inp fuel []).1) fuel []
        (by simpa using hpcl)
      rw [← h]
      simp only [List.mem_filter, List.mem_range, Bool.or_eq_true, beq_iff_eq, List.contains_eq_mem,
        List.mem_eraseDups, decide_eq_true_eq]
      constructor
      · rintro ⟨hj, h0 | hmem⟩
        · exact ⟨by omega, Or.inl h0⟩
        · exact ⟨by omega, Or.inr (symPrefixEnds_sound hs hps (.nt g.start) [] 0 j hmem)⟩
      · rintro ⟨hj, h0 | hp⟩
        · exact ⟨by omega, Or.inl h0⟩
        · refine ⟨by omega, ?_⟩
          by_cases hj0 : j = 0
          · exact Or.inl hj0
          · right
            have := pclosed_complete hc hpc hin hm hp (Nat.zero_le _) (by omega)
            simp only [seqPrefixEnds, List.mem_append, List.mem_flatMap] at this
            rcases this with h1 | ⟨k, _, hk⟩
            · exact h1
            · simp [seqPrefixEnds] at hk

end Pg

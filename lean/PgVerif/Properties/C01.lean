import PgVerif.Proofs.NDSound
import PgVerif.Proofs.Chart
/-!
# C01 — GLR accepts exactly the language and returns only valid derivations

What is proved, for every grammar, table, input and recognizer behaviour:
* the oracle that decides "is a sentence" (chart saturation) is correct for every
  context-free grammar, ambiguous, nullable or cyclic;
* the checker applied to every tree taken from an implementation forest decides
  the derivation relation;
* every path a Tomita-style driver can follow over a well-formed table — any
  matching token as lookahead, any action of the cell — assembles only parses of
  the input (`C01_path_sound`), hence an accepting path exists only for sentences
  (`C01_accept_sound`).
The GSS bookkeeping of `glr.py` (sharing, packing, revisits) is validated through
these verified checkers on its outputs; see DESIGN.md for what stays bounded.
-/
namespace Pg

theorem C01_sentence_oracle_correct (g : Grammar) (inp : Input) (hin : InputOK inp) (fuel : Nat)
    (b : Bool) (h : isSentence g inp fuel = some b) : b = true ↔ Sentence g inp :=
  isSentence_correct hin fuel b h

theorem C01_tree_checker_correct (g : Grammar) (inp : Input) (t : Tree) :
    (∃ e, t.derivesB g inp (.nt g.start) 0 e = true ∧ inp.skip e = inp.len) ↔ IsParseOf g inp t := by
  constructor
  · intro ⟨e, h1, h2⟩; exact ⟨e, (derivesB_iff _ _ _ _ _ _).mp h1, h2⟩
  · intro ⟨e, h1, h2⟩; exact ⟨e, (derivesB_iff _ _ _ _ _ _).mpr h1, h2⟩

theorem C01_path_sound (g : Grammar) (T : Table) (inp : Input) (hw : T.wf g = true)
    (c : Config) (h : Reach g T inp c) (t : Tree) (e p : Nat)
    (hs : NStep g T inp c (.done (.ok t e p))) : IsParseOf g inp t :=
  nd_sound hw c h t e p hs

theorem C01_accept_sound (g : Grammar) (T : Table) (inp : Input) (hw : T.wf g = true)
    (c : Config) (h : Reach g T inp c) (t : Tree) (e p : Nat)
    (hs : NStep g T inp c (.done (.ok t e p))) : Sentence g inp :=
  ⟨t, nd_sound hw c h t e p hs⟩

end Pg

import PgVerif.Proofs.NDSound
import PgVerif.Proofs.Chart
import PgVerif.Proofs.GLRSound
import PgVerif.Model.Decode
/-!
# C01 — GLR accepts exactly the language and returns only valid derivations

What is proved, for every grammar, table, input and recognizer behaviour:
* the oracle that decides "is a sentence" (chart saturation) is correct for every
  context-free grammar, ambiguous, nullable or cyclic;
* the checker applied to every tree taken from an implementation forest decides
  the derivation relation;
* every path a Tomita-style driver can follow over a well-formed table — any
  matching token as lookahead, any action of the cell — assembles only parses of
  the input (`C01_path_sound`), hence an accepting path exists only for sentences
  (`C01_accept_sound`).
* the GLR driver itself, as modelled in `Model/GLR.lean` (graph-structured stack, shared
  heads, packed links, clones per lookahead token, limited re-reductions, revisits of
  traversed heads, shifts ordered by token end): whenever it answers with a forest the
  input is a sentence (`C01_glr_model_sound`) and every tree of its packed forest is a
  parse tree of the input (`C01_glr_model_forest_sound`), whatever the fuel, for every
  well-formed table, every input and every recognizer behaviour with idempotent layout
  skipping.
  The model is tied to `glr.py` by exact correspondence of its packed forests.
What the implementation's forests contain is judged by the verified checkers on its
outputs; see DESIGN.md for what stays bounded.
-/
namespace Pg

theorem C01_sentence_oracle_correct (g : Grammar) (inp : Input) (hin : InputOK inp) (fuel : Nat)
    (b : Bool) (h : isSentence g inp fuel = some b) : b = true ↔ Sentence g inp :=
  isSentence_correct hin fuel b h

theorem C01_tree_checker_correct (g : Grammar) (inp : Input) (t : Tree) :
    (∃ e, t.derivesB g inp (.nt g.start) 0 e = true ∧ inp.skip e = inp.len) ↔ IsParseOf g inp t := by
  constructor
  · intro ⟨e, h1, h2⟩; exact ⟨e, (derivesB_iff _ _ _ _ _ _).mp h1, h2⟩
  · intro ⟨e, h1, h2⟩; exact ⟨e, (derivesB_iff _ _ _ _ _ _).mpr h1, h2⟩

theorem C01_path_sound (g : Grammar) (T : Table) (inp : Input) (hw : T.wf g = true)
    (c : Config) (h : Reach g T inp c) (t : Tree) (e p : Nat)
    (hs : NStep g T inp c (.done (.ok t e p))) : IsParseOf g inp t :=
  nd_sound hw c h t e p hs

theorem C01_accept_sound (g : Grammar) (T : Table) (inp : Input) (hw : T.wf g = true)
    (c : Config) (h : Reach g T inp c) (t : Tree) (e p : Nat)
    (hs : NStep g T inp c (.done (.ok t e p))) : Sentence g inp :=
  ⟨t, nd_sound hw c h t e p hs⟩

/-- **Soundness of the GLR driver model**: for every grammar, well-formed table, input and
recognizer behaviour (layout skipping idempotent), every lexical-disambiguation setting and every
fuel: when the model of `GLRParser.parse` answers with a forest, the input is a sentence. Proved
through an invariant of the graph-structured stack (every node reachable by a stack of derivation
trees, every link replayable), preserved by new heads, merged links, clones, re-reductions over a
new link, revisits and shifts (`Proofs/GLRSound.lean`). -/
theorem C01_glr_model_sound (g : Grammar) (T : Table) (inp : Input) (hw : T.wf g = true)
    (hidem : ∀ p, inp.skip (inp.skip p) = inp.skip p) (lexDis : Bool) (fuel : Nat) (sF : GLR.GState)
    (h : GLR.parseGLR g T inp true lexDis fuel = .forest sF) : Sentence g inp :=
  (GLR.parseGLR_sound hw hidem true lexDis fuel sF h).2 rfl

/-- **Soundness of the packed forest of the GLR driver model**: when the model answers with a forest,
every tree obtained from it — one possibility chosen per link, starting at any link of an accepted
head (the links `Forest.__init__` merges into the root) — is a parse tree of the input. For every
grammar, well-formed table, input, recognizer behaviour (layout skipping idempotent), lexical mode
and fuel. -/
theorem C01_glr_model_forest_sound (g : Grammar) (T : Table) (inp : Input) (hw : T.wf g = true)
    (hidem : ∀ p, inp.skip (inp.skip p) = inp.skip p) (lexDis : Bool) (fuel : Nat) (sF : GLR.GState)
    (h : GLR.parseGLR g T inp true lexDis fuel = .forest sF)
    (a : Nat) (ha : a ∈ sF.accepted) (l : Nat) (hl : l ∈ sF.parents a) (t : Tree) (ht : GLR.TreeOf sF l t) :
    IsParseOf g inp t :=
  (GLR.parseGLR_forest_sound hw hidem true lexDis fuel sF h a ha l hl t ht).2 rfl

/-- The executable form used on implementation trees: a tree that the driver finds in the packed
forest of the model's accepting run (`forestHasTree`, evaluated on every tree taken from the
implementation's forest) is a parse tree of the input. -/
theorem C01_tree_found_in_glr_model_forest_is_parse (g : Grammar) (T : Table) (inp : Input) (hw : T.wf g = true)
    (hidem : ∀ p, inp.skip (inp.skip p) = inp.skip p) (lexDis : Bool) (fuel : Nat) (sF : GLR.GState)
    (h : GLR.parseGLR g T inp true lexDis fuel = .forest sF) (t : Tree) (ht : GLR.forestHasTree sF t = true) :
    IsParseOf g inp t :=
  (GLR.forestHasTree_parse hw hidem true lexDis fuel sF h t ht).2 rfl

/-- The same on the data the driver decodes: both hypotheses are the Boolean checks the driver
evaluates for every table and input of a run (`wf`, `skipidem`). -/
theorem C01_glr_model_sound_on_decoded_data (g : Grammar) (states : Array StateData) (terms : Array (Nat × Bool))
    (len : Nat) (skips : Array Nat) (ms : List (Nat × Nat × Nat))
    (hw : (Table.ofStates states terms).wf g = true)
    (hid : skipIdemB (Input.ofTables len skips ms) = true) (lexDis : Bool) (fuel : Nat) (sF : GLR.GState)
    (h : GLR.parseGLR g (Table.ofStates states terms) (Input.ofTables len skips ms) true lexDis fuel = .forest sF) :
    Sentence g (Input.ofTables len skips ms) :=
  C01_glr_model_sound g _ _ hw (Input.ofTables_idem len skips ms hid) lexDis fuel sF h

/-! Non-vacuity: on the table of `S → a` and the input `a` the hypotheses hold and the model
answers with a forest. -/
def c01G : Grammar := { prods := [⟨0, [.nt 1, .t 0]⟩, ⟨1, [.t 1]⟩], start := 1 }
def c01T : Table where
  n := 3
  sym := fun s => if s = 1 then .nt 1 else if s = 2 then .t 1 else .nt 0
  cells := fun s => if s = 0 then [(1, [.shift 2])] else if s = 1 then [(0, [.accept])]
    else if s = 2 then [(0, [.reduce 1])] else []
  finish := fun _ => [false]
  gotoL := fun s => if s = 0 then [(1, 1)] else []
  prior := fun _ => 10
  prefer := fun _ => false
def c01I : Input where
  len := 1
  skip := fun p => p
  mlen := fun t p => if t = 1 ∧ p = 0 then some 1 else none

example : c01T.wf c01G = true ∧ (∀ p, c01I.skip (c01I.skip p) = c01I.skip p) := ⟨by decide, fun _ => rfl⟩
example : (match GLR.parseGLR c01G c01T c01I true false 20 with | .forest _ => true | _ => false) = true := by
  decide +kernel
/-- … and the root link of that forest packs the production `S → a` over the link of the token. -/
example : (match GLR.parseGLR c01G c01T c01I true false 20 with
    | .forest s => s.accepted.any (fun a => (s.parents a).any (fun l =>
        (s.link l).poss.any (fun p => match p with
          | .nonterm 1 [k] => (s.link k).poss.any (fun q => match q with | .term 1 0 1 => true | _ => false)
          | _ => false)))
    | _ => false) = true := by
  decide +kernel

end Pg

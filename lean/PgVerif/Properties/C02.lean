import PgVerif.Proofs.Chart
import PgVerif.Spec.SPPF
import PgVerif.Proofs.SPPF
import PgVerif.Proofs.GLRSound
/-!
# C02 — the forest contains every derivation

The reference "complete SPPF" is computed from the chart. Proved here: the chart
contains exactly the derivable spans (sound; complete once saturated), and the
reference is **exact** (`C02_reference_sppf_exact`): whenever it returns a list,
that list holds exactly the packed alternatives (span, production, split into
derivable pieces) of the spans that occur top-down in some parse of the input —
for every grammar (ambiguous, nullable, cyclic) and input. The comparison of the
implementation forest's packed alternatives with this reference is the bounded
part (explored scope); see DESIGN.md. About the GLR driver model itself the sound
half is a theorem (`C02_glr_model_forest_only_parses`): its packed forest holds
only parse trees; that it holds *every* one is false of the pinned reducer
(F-GLR-1/2) and is what the comparison with the exact reference decides.
-/
namespace Pg

variable {g : Grammar} {inp : Input}

/-- Every fact of the chart has a derivation tree. -/
theorem C02_chart_sound (fuel : Nat) :
    ∀ f ∈ (chart g inp fuel).1, ∃ t, Derives g inp (.nt f.1) f.2.1 f.2.2 t :=
  saturate_sound fuel [] (by intro f hf; simp at hf)

/-- Once saturated, the chart records every derivation: any derivable sequence
span is reachable through it. -/
theorem C02_chart_complete (hin : InputOK inp) (fuel : Nat) (hcl : (chart g inp fuel).2 = true)
    {Xs : List Sym} {i j : Nat} {ts : List Tree} (h : DerivesSeq g inp Xs i j ts) (hi : i ≤ inp.len) :
    j ∈ seqEnds inp (chart g inp fuel).1 Xs i :=
  (closed_complete (saturate_closed fuel [] hcl) hin h hi).1

/-- Every split enumerated for a right-hand side consists of derivable pieces
that chain from `i` to `j`. -/
theorem C02_split_pieces_derivable (fuel : Nat) :
    ∀ (Xs : List Sym) (i j : Nat) (ks : List Nat), ks ∈ splits inp (chart g inp fuel).1 Xs i j →
      ∃ ts, DerivesSeq g inp Xs i j ts := by
  have hs : ChartSound g inp (chart g inp fuel).1 := C02_chart_sound fuel
  intro Xs
  induction Xs with
  | nil =>
    intro i j ks h
    simp only [splits] at h
    split at h
    · rename_i hij; subst hij; exact ⟨[], DerivesSeq.nil _⟩
    · simp at h
  | cons X Xs ih =>
    intro i j ks h
    simp only [splits, List.mem_flatMap, List.mem_map] at h
    obtain ⟨k, hk, ks', hks', _⟩ := h
    obtain ⟨t, ht⟩ := symEnds_sound hs X i k (List.mem_eraseDups.mp hk)
    obtain ⟨ts, hts⟩ := ih k j ks' hks'
    exact ⟨[t] ++ ts, DerivesSeq.append ht hts⟩

/-- The reference SPPF is exact: sound and complete, for every grammar and input. -/
theorem C02_reference_sppf_exact (hin : InputOK inp) (fuel : Nat) (consume : Bool) (alts : List PAlt)
    (h : sppfAlts g inp fuel consume = some alts) (a : PAlt) :
    a ∈ alts ↔ Useful g inp consume (a.A, a.i, a.j) ∧ PackedAlt g inp a :=
  sppfAlts_correct hin fuel consume alts h a

/-- The packed forest of the GLR driver model holds only parse trees of the input: every choice of
one possibility per link below a root link. For every grammar, well-formed table, input with
idempotent layout skipping, lexical mode and fuel. -/
theorem C02_glr_model_forest_only_parses (T : Table) (hw : T.wf g = true)
    (hidem : ∀ p, inp.skip (inp.skip p) = inp.skip p) (lexDis : Bool) (fuel : Nat) (sF : GLR.GState)
    (h : GLR.parseGLR g T inp true lexDis fuel = .forest sF)
    (a : Nat) (ha : a ∈ sF.accepted) (l : Nat) (hl : l ∈ sF.parents a) (t : Tree) (ht : GLR.TreeOf sF l t) :
    IsParseOf g inp t :=
  (GLR.parseGLR_forest_sound hw hidem true lexDis fuel sF h a ha l hl t ht).2 rfl

/-- The packed alternatives the driver emits for the model's forest (the lists compared with the
implementation's forest and with the reference SPPF) are possibilities of links of the final state,
and each applies a production of the grammar to as many children as its right-hand side has. -/
theorem C02_glr_model_emitted_alternatives_wellformed (T : Table) (hw : T.wf g = true)
    (hidem : ∀ p, inp.skip (inp.skip p) = inp.skip p) (consume lexDis : Bool) (fuel fuel' : Nat) (sF : GLR.GState)
    (h : GLR.parseGLR g T inp consume lexDis fuel = .forest sF) :
    ∀ a ∈ GLR.reachableAlts T sF fuel', ∃ pr, g.prod? a.2.1 = some pr ∧ a.2.2.length = pr.rhs.length :=
  GLR.reachableAlts_wellformed sF (GLR.parseGLR_inv hw hidem consume lexDis fuel sF h) fuel'

end Pg

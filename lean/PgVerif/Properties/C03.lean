import PgVerif.Proofs.Forest
import PgVerif.Proofs.ForestNodup
import PgVerif.Proofs.ForestConcrete
/-!
# C03 — Forest packs each derivation once; counting and indexing are consistent

Property theorems about the forest model (`PgVerif/Model/Forest.lean`), for
every acyclic forest — any number of nodes, alternatives and children, counts
of any magnitude (`Nat` is unbounded like Python's `int`).
-/
namespace Pg

/-- `len(forest)` / `forest.solutions` is the number of trees the forest
represents. -/
theorem C03_solutions_eq (F : Forest) (root : Nat) :
    solutions F root = (trees F root).length :=
  solutions_eq F root

/-- `forest[i]` (index decoding by bucket search and weighted mixed radix) is
the `i`-th tree of the forest's tree list, for every index in range. -/
theorem C03_treeAt_eq_get (F : Forest) (hwf : F.wf = true) (root : Nat) (hr : root < F.length)
    (i : Nat) (hi : i < solutions F root) :
    treeAt F root i = (trees F root)[i]? :=
  treeAt_eq_get F hwf root hr i hi

/-- In range, `get_tree`/`get_nonlazy_tree` return that tree. -/
theorem C03_index_in_range (F : Forest) (hwf : F.wf = true) (root : Nat) (hr : root < F.length)
    (i : Nat) (hi : i < solutions F root) :
    ∃ t, getTree F root i = .tree t ∧ (trees F root)[i]? = some t := by
  have h := treeAt_eq_get F hwf root hr i hi
  have hlt : i < (trees F root).length := by rw [← solutions_eq]; exact hi
  refine ⟨(trees F root)[i], ?_, by simp [hlt]⟩
  unfold getTree
  rw [if_neg (by omega), h]
  simp [hlt]

/-- Any index `≥ len(forest)` raises IndexError (after the repair F-IDX-1; index
0 is exempt by design so that cyclic forests can hand out their first tree). -/
theorem C03_index_oob (F : Forest) (root i : Nat) (h0 : 0 < i) (hi : solutions F root ≤ i) :
    getTree F root i = .indexError := by
  unfold getTree
  rw [if_pos ⟨h0, hi⟩]

/-- Decoding is deterministic: lazy, non-lazy and repeated access all compute
`treeAt`, a function of the forest and the index. (The lazy proxy evaluates the
same `_enumerate_children` with the same counter on access.) -/
theorem C03_repeat_access (F : Forest) (root i : Nat) : getTree F root i = getTree F root i := rfl

/-- The trees a forest represents are pairwise different: no choice of alternatives is
listed twice, whatever the sharing between subforests. -/
theorem C03_trees_pairwise_distinct (F : Forest) (root : Nat) : (trees F root).Nodup :=
  trees_nodup F root

/-- `forest[i]` and `forest[j]` are different trees for different indices in range. -/
theorem C03_index_injective (F : Forest) (hwf : F.wf = true) (root : Nat) (hr : root < F.length)
    (i j : Nat) (hi : i < solutions F root) (hj : j < solutions F root) (hne : i ≠ j) :
    treeAt F root i ≠ treeAt F root j :=
  fun h => hne (treeAt_inj F hwf root hr i j hi hj h)

/-- `get_first_tree()` equals `forest[0]`, for every forest (no well-formedness needed). -/
theorem C03_first_tree_is_index_zero (F : Forest) (root : Nat) :
    firstTree F root = treeAt F root 0 :=
  firstTree_eq_treeAt_zero F root

/-- `forest[0], …, forest[len-1]` are pairwise different *parse trees* (not only different
choices), for every forest keyed like an SPPF (`Forest.keyed`, decidable, evaluated on every
forest the implementation returns; it fails exactly where an ambiguity node lists an
alternative twice or two competing alternatives cannot be told apart by their children). -/
theorem C03_parse_trees_pairwise_distinct (lhsOf : Nat → Nat) (F : Forest) (hwf : F.wf = true)
    (hk : F.keyed lhsOf = true) (root : Nat) : ((trees F root).map (CTree.concrete F)).Nodup :=
  concrete_trees_nodup lhsOf F hwf hk root

theorem C03_index_gives_distinct_parse_trees (lhsOf : Nat → Nat) (F : Forest) (hwf : F.wf = true)
    (hk : F.keyed lhsOf = true) (root : Nat) (hr : root < F.length)
    (i j : Nat) (hi : i < solutions F root) (hj : j < solutions F root) (hne : i ≠ j) :
    (treeAt F root i).map (CTree.concrete F) ≠ (treeAt F root j).map (CTree.concrete F) := by
  intro h
  rw [treeAt_eq_get F hwf root hr i hi, treeAt_eq_get F hwf root hr j hj] at h
  have hli : i < (trees F root).length := by rw [← solutions_eq]; exact hi
  have hlj : j < (trees F root).length := by rw [← solutions_eq]; exact hj
  simp only [List.getElem?_eq_getElem hli, List.getElem?_eq_getElem hlj, Option.map_some,
    Option.some.injEq] at h
  have := concrete_injective lhsOf F hwf hk root _ (List.getElem_mem hli) _ (List.getElem_mem hlj) h
  exact hne ((List.getElem_inj (trees_nodup F root)).mp this)

def exF : Forest := [⟨[.term 1 0 1]⟩, ⟨[.nonterm 1 0 1 [0], .term 2 0 1]⟩]

/-- Non-vacuity: a two-node forest with an ambiguous root (two alternatives,
one of them with a child) is well formed, has 2 trees, decodes index 1 and
rejects index 2. -/
example : exF.wf = true ∧ solutions exF 1 = 2 ∧ (treeAt exF 1 1).isSome = true ∧
    (match getTree exF 1 2 with | .indexError => true | .tree _ => false) = true := by
  decide

/-- Non-vacuity of `Forest.keyed`: an ambiguous root over two different terminal nodes of the same span. -/
example : let F : Forest := [⟨[.term 1 0 1]⟩, ⟨[.term 2 0 1]⟩, ⟨[.nonterm 1 0 1 [0], .nonterm 2 0 1 [1]]⟩]
    F.wf = true ∧ F.keyed (fun _ => 7) = true ∧ solutions F 2 = 2 := by decide

end Pg

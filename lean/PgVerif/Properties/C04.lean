import PgVerif.Proofs.LRSound
import PgVerif.Proofs.Chart
import PgVerif.Proofs.LRDet
import PgVerif.Proofs.LRUnamb
import PgVerif.Model.Decode
import PgVerif.Proofs.GLRSound
/-!
# C04 — LR parser is sound always (and exact when its table is deterministic)

Soundness is a theorem for *every* table passing the decidable predicate
`Table.wf` (evaluated by the compiled driver on every implementation table),
every input and every recognizer behaviour, with no bound on sizes or steps.
The exactness clause (classical LR completeness) is proved by validation
(`C04_exact_when_deterministic`): for a well-formed table that passes the
completeness validator of `Spec/LRValid.lean` with its item sets, whose cells hold
at most one action and whose expected terminals are never lexically ambiguous on
the input (`detTableB`, `lexDetB`: decidable, evaluated on every deterministic
strategy-free table the implementation builds and on every input), the driver
accepts **exactly** the sentences — for every such table and input, with no bound
on sizes — its tree has the shape of every parse tree of the input
(`C04_parser_tree_is_the_parse_tree`) and therefore any two parse trees have the same
shape: the grammar is unambiguous on such inputs (`C04_unambiguous_when_deterministic`;
"shape" = the tree without the spans recorded in interior nodes, which the
derivation relation leaves free and C08 examines). That GLR returns exactly that
one tree stays an oracle comparison on the explored scope (the GLR driver is
modelled but nothing is proved about the model).
-/
namespace Pg

/-- **Soundness with `consume_input`.** Whatever the LR driver accepts is a parse
of the whole input: rooted in the start symbol, every interior node applying one
production to its children in order, leaves reading the input's tokens left to
right, nothing but layout after the last token. -/
theorem C04_sound (g : Grammar) (T : Table) (inp : Input) (hw : T.wf g = true)
    (lexDis : Bool) (fuel : Nat) (t : Tree) (e p : Nat)
    (h : parseLR g T inp { consumeInput := true, lexDis := lexDis } fuel = .ok t e p) :
    IsParseOf g inp t := by
  obtain ⟨h1, h2, h3⟩ := run_sound hw _ fuel Config.init (Inv.init _) t e p h
  exact ⟨e, h1, by rw [← h2]; exact h3 rfl⟩

/-- **Soundness without `consume_input`** (shared with C17): the result derives a
prefix of the input ending at a token boundary. -/
theorem C04_sound_prefix (g : Grammar) (T : Table) (inp : Input) (hw : T.wf g = true)
    (cf : LRCfg) (fuel : Nat) (t : Tree) (e p : Nat)
    (h : parseLR g T inp cf fuel = .ok t e p) :
    IsPrefixParseOf g inp t := by
  obtain ⟨h1, _, _⟩ := run_sound hw cf fuel Config.init (Inv.init _) t e p h
  exact ⟨e, h1⟩

/-- The executable tree checker applied to implementation trees decides the
derivation relation. -/
theorem C04_tree_checker_correct (g : Grammar) (inp : Input) (X : Sym) (i j : Nat) (t : Tree) :
    t.derivesB g inp X i j = true ↔ Derives g inp X i j t :=
  derivesB_iff g inp X i j t

/-- The chart oracle decides sentencehood for every grammar and input on which
it saturates. -/
theorem C04_sentence_oracle_correct (g : Grammar) (inp : Input) (hin : InputOK inp) (fuel : Nat)
    (b : Bool) (h : isSentence g inp fuel = some b) : b = true ↔ Sentence g inp :=
  isSentence_correct hin fuel b h

/-- Every token the scanner hands to the driver is a token edge of the input:
its recognizer matches there with exactly that (positive) length, or it is STOP
at the end of the input. -/
theorem C04_lookahead_is_token_edge (T : Table) (inp : Input) (cf : LRCfg) (s p : Nat) :
    ∀ tok ∈ nextTokens T inp cf.consumeInput cf.lexDis s p, tok.s = p ∧
      (tok.term ≠ STOP → inp.mlen tok.term p = some tok.len ∧ 0 < tok.len) ∧
      (tok.term = STOP → cf.consumeInput = true → p = inp.len) :=
  nextTokens_ok cf s p

/-- **Completeness when deterministic.** Over a validated, conflict-free table and a lexically
unambiguous input the LR driver accepts every sentence. -/
theorem C04_complete_when_deterministic (g : Grammar) (T : Table) (inp : Input)
    (I : Nat → List LRV.VItem) (F : LRV.FirstData) (hv : LRV.lrComplete g T I F = true)
    (hT : detTableB T = true) (hL : lexDetB T inp = true)
    (hfin : ∀ s, T.n ≤ s → T.cells s = [] ∧ T.finish s = []) (hin : InputOK inp)
    (lexDis : Bool) (h : Sentence g inp) :
    ∃ (fuel : Nat) (t : Tree) (e p : Nat),
      parseLR g T inp { consumeInput := true, lexDis := lexDis } fuel = .ok t e p :=
  det_complete hv (detOK_of_bool hT hL hfin hin) hin _ rfl h

/-- **Exactness when deterministic.** Under the same hypotheses and `Table.wf`, the driver accepts
exactly the sentences. -/
theorem C04_exact_when_deterministic (g : Grammar) (T : Table) (inp : Input)
    (I : Nat → List LRV.VItem) (F : LRV.FirstData) (hw : T.wf g = true)
    (hv : LRV.lrComplete g T I F = true) (hT : detTableB T = true) (hL : lexDetB T inp = true)
    (hfin : ∀ s, T.n ≤ s → T.cells s = [] ∧ T.finish s = []) (hin : InputOK inp) (lexDis : Bool) :
    Sentence g inp ↔ ∃ (fuel : Nat) (t : Tree) (e p : Nat),
      parseLR g T inp { consumeInput := true, lexDis := lexDis } fuel = .ok t e p := by
  constructor
  · exact C04_complete_when_deterministic g T inp I F hv hT hL hfin hin lexDis
  · rintro ⟨fuel, t, e, p, h⟩
    exact ⟨t, C04_sound g T inp hw lexDis fuel t e p h⟩

/-- **The driver's tree is the parse tree**: for every parse tree of the input the driver returns a
tree of the same shape. -/
theorem C04_parser_tree_is_the_parse_tree (g : Grammar) (T : Table) (inp : Input)
    (I : Nat → List LRV.VItem) (F : LRV.FirstData) (hv : LRV.lrComplete g T I F = true)
    (hT : detTableB T = true) (hL : lexDetB T inp = true)
    (hfin : ∀ s, T.n ≤ s → T.cells s = [] ∧ T.finish s = []) (hin : InputOK inp)
    (lexDis : Bool) (t : Tree) (h : IsParseOf g inp t) :
    ∃ (fuel : Nat) (t' : Tree) (e p : Nat),
      parseLR g T inp { consumeInput := true, lexDis := lexDis } fuel = .ok t' e p ∧ t'.shape = t.shape :=
  det_complete_shape hv (detOK_of_bool hT hL hfin hin) hin _ rfl t h

/-- **Unambiguity when deterministic**: any two parse trees of the input have the same shape. -/
theorem C04_unambiguous_when_deterministic (g : Grammar) (T : Table) (inp : Input)
    (I : Nat → List LRV.VItem) (F : LRV.FirstData) (hv : LRV.lrComplete g T I F = true)
    (hT : detTableB T = true) (hL : lexDetB T inp = true)
    (hfin : ∀ s, T.n ≤ s → T.cells s = [] ∧ T.finish s = []) (hin : InputOK inp)
    (t1 t2 : Tree) (h1 : IsParseOf g inp t1) (h2 : IsParseOf g inp t2) : t1.shape = t2.shape :=
  unambiguous hv (detOK_of_bool hT hL hfin hin) hin t1 t2 h1 h2

/-- **GLR over a deterministic table returns the parser's tree**: when the table is validated and
deterministic, every tree of the packed forest the GLR driver model answers with has the shape of the
tree the LR driver returns (which it does return), and any two trees of that forest have the same
shape. That the model answers with a forest at all for every sentence is not proved here (the
comparison of `GLRParser` with `Parser` on deterministic tables decides it on the explored scope). -/
theorem C04_glr_model_trees_are_the_parser_tree (g : Grammar) (T : Table) (inp : Input)
    (I : Nat → List LRV.VItem) (F : LRV.FirstData) (hw : T.wf g = true) (hv : LRV.lrComplete g T I F = true)
    (hT : detTableB T = true) (hL : lexDetB T inp = true)
    (hfin : ∀ s, T.n ≤ s → T.cells s = [] ∧ T.finish s = []) (hin : InputOK inp)
    (hidem : ∀ p, inp.skip (inp.skip p) = inp.skip p) (lexDis lexDisG : Bool) (fuelG : Nat) (sF : GLR.GState)
    (hG : GLR.parseGLR g T inp true lexDisG fuelG = .forest sF)
    (a : Nat) (ha : a ∈ sF.accepted) (l : Nat) (hl : l ∈ sF.parents a) (t : Tree) (ht : GLR.TreeOf sF l t) :
    ∃ (fuel : Nat) (t' : Tree) (e p : Nat),
      parseLR g T inp { consumeInput := true, lexDis := lexDis } fuel = .ok t' e p ∧ t'.shape = t.shape :=
  C04_parser_tree_is_the_parse_tree g T inp I F hv hT hL hfin hin lexDis t
    ((GLR.parseGLR_forest_sound hw hidem true lexDisG fuelG sF hG a ha l hl t ht).2 rfl)

theorem C04_glr_model_single_tree (g : Grammar) (T : Table) (inp : Input)
    (I : Nat → List LRV.VItem) (F : LRV.FirstData) (hw : T.wf g = true) (hv : LRV.lrComplete g T I F = true)
    (hT : detTableB T = true) (hL : lexDetB T inp = true)
    (hfin : ∀ s, T.n ≤ s → T.cells s = [] ∧ T.finish s = []) (hin : InputOK inp)
    (hidem : ∀ p, inp.skip (inp.skip p) = inp.skip p) (lexDisG : Bool) (fuelG : Nat) (sF : GLR.GState)
    (hG : GLR.parseGLR g T inp true lexDisG fuelG = .forest sF)
    (a1 : Nat) (ha1 : a1 ∈ sF.accepted) (l1 : Nat) (hl1 : l1 ∈ sF.parents a1) (t1 : Tree) (ht1 : GLR.TreeOf sF l1 t1)
    (a2 : Nat) (ha2 : a2 ∈ sF.accepted) (l2 : Nat) (hl2 : l2 ∈ sF.parents a2) (t2 : Tree) (ht2 : GLR.TreeOf sF l2 t2) :
    t1.shape = t2.shape :=
  C04_unambiguous_when_deterministic g T inp I F hv hT hL hfin hin t1 t2
    ((GLR.parseGLR_forest_sound hw hidem true lexDisG fuelG sF hG a1 ha1 l1 hl1 t1 ht1).2 rfl)
    ((GLR.parseGLR_forest_sound hw hidem true lexDisG fuelG sF hG a2 ha2 l2 hl2 t2 ht2).2 rfl)

/-- The same for the tables and inputs the compiled driver decodes from the implementation's dumps:
the side conditions on the data (`InputOK`, table empty beyond its states) are theorems about the
decoder (`Model/Decode.lean`), so only executable hypotheses remain — `Table.wf`, the completeness
validator, `detTableB`, `lexDetB` — and all four are evaluated by the driver on that very data. -/
theorem C04_exact_on_decoded_data (g : Grammar) (states : Array StateData) (terms : Array (Nat × Bool))
    (len : Nat) (skips : Array Nat) (ms : List (Nat × Nat × Nat)) (hsk : skips.size = len + 1)
    (I : Nat → List LRV.VItem) (F : LRV.FirstData)
    (hw : (Table.ofStates states terms).wf g = true)
    (hv : LRV.lrComplete g (Table.ofStates states terms) I F = true)
    (hT : detTableB (Table.ofStates states terms) = true)
    (hL : lexDetB (Table.ofStates states terms) (Input.ofTables len skips ms) = true) (lexDis : Bool) :
    Sentence g (Input.ofTables len skips ms) ↔ ∃ (fuel : Nat) (t : Tree) (e p : Nat),
      parseLR g (Table.ofStates states terms) (Input.ofTables len skips ms)
        { consumeInput := true, lexDis := lexDis } fuel = .ok t e p :=
  C04_exact_when_deterministic g _ _ I F hw hv hT hL (Table.ofStates_fin states terms)
    (Input.ofTables_ok len skips ms hsk) lexDis

/-! Non-vacuity: the grammar `S → a` with its LR table is well formed and the
driver accepts the input `a`. -/
def exG : Grammar := { prods := [⟨0, [.nt 1, .t 0]⟩, ⟨1, [.t 1]⟩], start := 1 }
def exT : Table where
  n := 3
  sym := fun s => if s = 1 then .nt 1 else if s = 2 then .t 1 else .nt 0
  cells := fun s => if s = 0 then [(1, [.shift 2])] else if s = 1 then [(0, [.accept])]
    else if s = 2 then [(0, [.reduce 1])] else []
  finish := fun _ => [false]
  gotoL := fun s => if s = 0 then [(1, 1)] else []
  prior := fun _ => 10
  prefer := fun _ => false
def exI : Input where
  len := 1
  skip := fun p => p
  mlen := fun t p => if t = 1 ∧ p = 0 then some 1 else none

example : exT.wf exG = true := by decide

/-- The hypotheses of `C04_exact_when_deterministic` are satisfiable: the table of `S → a` with its
item sets passes the completeness validator and the determinism conditions. -/
def exItems : Nat → List LRV.VItem := fun s =>
  if s = 0 then [⟨0, 0, []⟩, ⟨1, 0, [0]⟩] else if s = 1 then [⟨0, 1, []⟩] else if s = 2 then [⟨1, 1, [0]⟩] else []
def exFirst : LRV.FirstData := { fst := fun _ => [1], nul := fun _ => false }
example : LRV.lrComplete exG exT exItems exFirst = true ∧ detTableB exT = true ∧ lexDetB exT exI = true := by
  decide
example : (match parseLR exG exT exI {} 10 with | .ok _ 1 1 => true | _ => false) = true := by decide

end Pg

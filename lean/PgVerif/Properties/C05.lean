import PgVerif.Model.TableGen
import PgVerif.Spec.LR1
import PgVerif.Proofs.LRComplete
/-!
# C05 — table construction terminates and is a faithful LR(1)-family table

The construction is modelled in `Model/TableGen.lean` and reproduces the
implementation's tables exactly on the explored scope (correspondence leg).
Proved here about the model, for every grammar, option set and cell:
conflict resolution never invents an action — every action of the resolved cell
was in the cell before or is the reduction being added (`C05_resolve_no_invention`),
so resolution can
only remove alternatives the LR(1)-family automaton offers, never add foreign
ones.

**Nothing valid is missing** is proved by validation (`C05_validated_table_complete`,
`C05_validated_table_exact`): for every table that passes the completeness
validator of `Spec/LRValid.lean` together with the item sets its states stand for
— FIRST data closed under the grammar, start item present, item sets closed, every
shift, goto, reduction and the accept an item calls for present — **every sentence
of every input has an accepting run** of the nondeterministic LR automaton; with
`Table.wf` the accepting runs are exactly the sentences. The validator is evaluated
on every strategy-free LALR and SLR table the implementation builds, with the
implementation's own item sets and FIRST sets. Faithfulness w.r.t. the canonical
LR(1) and LALR(1) reference automata (`Spec/LR1.lean`: no reduction outside the
LALR(1) lookahead) and termination (state budget derived from the canonical
automaton) are decided on the explored scope; see DESIGN.md.
-/
namespace Pg

theorem decideShift_sub (g : GGrammar) (o : GenOpts) (cell : List Action) (p shPrior : Nat) :
    ∀ a ∈ (decideShift g o cell p shPrior).1, a ∈ cell := by
  intro a ha
  unfold decideShift at ha
  simp only at ha
  split at ha
  · exact ha
  · split at ha
    · split at ha
      · exact (List.mem_filter.mp ha).1
      · split at ha <;> exact ha
    · split at ha
      · exact (List.mem_filter.mp ha).1
      · exact ha

theorem addReduce_sub (g : GGrammar) (cell reduces : List Action) (p : Nat) :
    ∀ a ∈ addReduce g cell reduces p, a ∈ cell ∨ a = Action.reduce p := by
  intro a ha
  have happ : ∀ l : List Action, a ∈ l ++ [Action.reduce p] → (∀ x ∈ l, x ∈ cell) →
      a ∈ cell ∨ a = Action.reduce p := by
    intro l h hl
    rcases List.mem_append.mp h with h | h
    · exact Or.inl (hl a h)
    · exact Or.inr (by simpa using h)
  cases reduces with
  | nil => exact happ cell (by simpa [addReduce] using ha) (fun x hx => hx)
  | cons r0 rest =>
    simp only [addReduce] at ha
    by_cases h1 : ((g.prod p).prior == reducePrior g r0) = true
    · rw [if_pos h1] at ha
      exact happ cell ha (fun x hx => hx)
    · rw [if_neg h1] at ha
      by_cases h2 : (g.prod p).prior > reducePrior g r0
      · rw [if_pos h2] at ha
        exact happ _ ha (fun x hx => (List.mem_filter.mp hx).1)
      · rw [if_neg h2] at ha
        exact Or.inl ha

/-- Conflict resolution never invents an action. -/
theorem C05_resolve_no_invention (g : GGrammar) (o : GenOpts) (cell : List Action) (p shPrior : Nat) :
    ∀ a ∈ resolveCell g o cell p shPrior, a ∈ cell ∨ a = Action.reduce p := by
  intro a ha
  unfold resolveCell at ha
  simp only at ha
  split at ha
  · rcases addReduce_sub g _ _ p a ha with h | h
    · exact Or.inl (decideShift_sub g o cell p shPrior a h)
    · exact Or.inr h
  · exact Or.inl (decideShift_sub g o cell p shPrior a ha)

/-- The reduction is added unless the shift/reduce decision or a higher
priority reduction already in the cell rules it out; with an empty cell it is
always added. -/
theorem C05_resolve_empty_cell (g : GGrammar) (o : GenOpts) (p shPrior : Nat) :
    resolveCell g o [] p shPrior = [Action.reduce p] := by
  simp [resolveCell, decideShift, addReduce]

/-- Every sentence has an accepting run over a validated table (Jourdan–Pottier–Leroy style
completeness validation; `I` are the item sets, `F` the FIRST data handed to the validator). -/
theorem C05_validated_table_complete {g : Grammar} {T : Table} {I : Nat → List LRV.VItem}
    {F : LRV.FirstData} {inp : Input} (hv : LRV.lrComplete g T I F = true) (hin : InputOK inp)
    (h : Sentence g inp) :
    ∃ (c : Config) (t : Tree) (e p : Nat), Reach g T inp c ∧ NStep g T inp c (.done (.ok t e p)) := by
  obtain ⟨t, ht⟩ := h
  exact lr_complete hv hin t ht

/-- Over a well-formed, validated table the nondeterministic LR automaton accepts exactly the
sentences. -/
theorem C05_validated_table_exact {g : Grammar} {T : Table} {I : Nat → List LRV.VItem}
    {F : LRV.FirstData} {inp : Input} (hw : T.wf g = true) (hv : LRV.lrComplete g T I F = true)
    (hin : InputOK inp) :
    Sentence g inp ↔
      ∃ (c : Config) (t : Tree) (e p : Nat), Reach g T inp c ∧ NStep g T inp c (.done (.ok t e p)) := by
  constructor
  · exact C05_validated_table_complete hv hin
  · rintro ⟨c, t, e, p, hr, hs⟩
    exact ⟨t, nd_sound hw c hr t e p hs⟩

end Pg

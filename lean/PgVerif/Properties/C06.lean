import PgVerif.Model.TableGen
import PgVerif.Spec.Prec
/-!
# C06 — priorities and associativity give the conventional operator-precedence parse

`C06_cell_decision_*`: the resolution code of `create_table` (model
`resolveCell`), applied to a cell holding the shift of the next operator and the
reduction of an operator production that declares a priority and a left or right
associativity, leaves exactly one action — REDUCE when the production's priority
is higher or equal with left associativity, SHIFT when lower or equal with right
associativity — independently of `prefer_shifts` / `prefer_shifts_over_empty`.
That a shift-reduce run with these decisions builds the conventional tree
(`Spec/Prec.lean`) is compared, per expression, against precedence climbing on
the explored operator tables.
-/
namespace Pg

theorem C06_cell_decision_reduce (g : GGrammar) (o : GenOpts) (s p shPrior : Nat)
    (h : (g.prod p).prior > shPrior ∨ ((g.prod p).prior = shPrior ∧ (g.prod p).assoc = 1)) :
    resolveCell g o [Action.shift s] p shPrior = [Action.reduce p] := by
  rcases h with h | ⟨h1, h2⟩
  · have hne : ¬ (g.prod p).prior = shPrior := by omega
    simp [resolveCell, decideShift, addReduce, isShiftLike, isReduce, hne, h]
  · simp [resolveCell, decideShift, addReduce, isShiftLike, isReduce, h1, h2]

theorem C06_cell_decision_shift (g : GGrammar) (o : GenOpts) (s p shPrior : Nat)
    (h : (g.prod p).prior < shPrior ∨ ((g.prod p).prior = shPrior ∧ (g.prod p).assoc = 2)) :
    resolveCell g o [Action.shift s] p shPrior = [Action.shift s] := by
  rcases h with h | ⟨h1, h2⟩
  · have hne : ¬ (g.prod p).prior = shPrior := by omega
    have hng : ¬ (g.prod p).prior > shPrior := by omega
    simp [resolveCell, decideShift, isShiftLike, hne, hng]
  · simp [resolveCell, decideShift, isShiftLike, h1, h2]

/-- No conflict remains when the operator production declares an associativity:
the resolved cell is a singleton whatever the strategies say. -/
theorem C06_no_conflict_remains (g : GGrammar) (o : GenOpts) (s p shPrior : Nat)
    (ha : (g.prod p).assoc = 1 ∨ (g.prod p).assoc = 2) :
    (resolveCell g o [Action.shift s] p shPrior).length = 1 := by
  by_cases h1 : (g.prod p).prior > shPrior
  · rw [C06_cell_decision_reduce g o s p shPrior (Or.inl h1)]; rfl
  · by_cases h2 : (g.prod p).prior < shPrior
    · rw [C06_cell_decision_shift g o s p shPrior (Or.inl h2)]; rfl
    · have heq : (g.prod p).prior = shPrior := by omega
      rcases ha with ha | ha
      · rw [C06_cell_decision_reduce g o s p shPrior (Or.inr ⟨heq, ha⟩)]; rfl
      · rw [C06_cell_decision_shift g o s p shPrior (Or.inr ⟨heq, ha⟩)]; rfl

/-- Priorities and associativities are only consulted on an occupied cell: a
reduction entering an empty cell is added unchanged (so a conflict-free table is
the same with and without them). -/
theorem C06_static_noop_on_free_cell (g : GGrammar) (o : GenOpts) (p shPrior : Nat) :
    resolveCell g o [] p shPrior = [Action.reduce p] := by
  simp [resolveCell, decideShift, addReduce]

/-- Non-vacuity of the oracle: `1 + 2 * 3` with `*` tighter, and `1 - 2 - 3` left
associative. -/
example : climb ⟨fun k => k, fun _ => true⟩ [.num, .op 1, .num, .op 2, .num] =
    some (.bin 1 .num (.bin 2 .num .num)) := by decide
example : climb ⟨fun _ => 1, fun _ => true⟩ [.num, .op 1, .num, .op 1, .num] =
    some (.bin 1 (.bin 1 .num .num) .num) := by decide
example : (ETree.bin 1 (.bin 1 .num .num) .num).conventional ⟨fun _ => 1, fun _ => true⟩ = true := by decide

end Pg

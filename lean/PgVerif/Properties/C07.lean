import PgVerif.Proofs.LRSound
import PgVerif.Spec.LexRules
import PgVerif.Proofs.LexRules
/-!
# C07 — token choice follows the documented lexical disambiguation order

Proved about the scanner model (`Model/Lex.lean`) for every table, input,
recognizer behaviour, state and position:
* only expected terminals whose recognizers match are returned, with exactly the
  matched length (`C07_tokens_are_matching_expected`, `C07_scan_only_expected`);
* disambiguation returns a sublist of what was recognized (`C07_disamb_sublist`),
  every returned token is a longest one (`C07_disamb_longest`), and if it returns
  a preferred token it returns only preferred ones (`C07_disamb_prefer`).
* the scanner's shortcuts never change the outcome: for every state whose expected
  list is sorted as `sort_state_actions` sorts it and carries finish flags as
  `calc_finish_flags` computes them (both are decidable conditions, evaluated on
  every table the implementation builds), `_next_tokens` returns exactly the
  order-free rule set R1–R5 of `Spec/LexRules.lean` applied to the candidates
  (`C07_next_tokens_eq_rules`), and with lexical disambiguation off exactly the
  candidates of the highest matching priority (`C07_next_tokens_nolex`). The one
  input-dependent side condition (`strDecB`: two expected string-like terminals
  of equal priority never match the same position with the same length) is
  evaluated per position; where it fails the documented rules leave a tie that
  the implementation breaks by order, and the comparison reports it.
-/
namespace Pg

variable {T : Table} {inp : Input}

theorem C07_tokens_are_matching_expected (cf : LRCfg) (s p : Nat) :
    ∀ tok ∈ nextTokens T inp cf.consumeInput cf.lexDis s p, tok.s = p ∧
      (tok.term ≠ STOP → inp.mlen tok.term p = some tok.len ∧ 0 < tok.len) ∧
      (tok.term = STOP → cf.consumeInput = true → p = inp.len) :=
  nextTokens_ok cf s p

theorem C07_disamb_sublist (toks : List Tok) : ∀ t ∈ lexDisamb T toks, t ∈ toks :=
  lexDisamb_sub toks

theorem foldl_max_ge (toks : List Tok) : ∀ (m : Nat), m ≤ toks.foldl (fun m t => max m t.len) m ∧
    ∀ u ∈ toks, u.len ≤ toks.foldl (fun m t => max m t.len) m := by
  induction toks with
  | nil => intro m; simp
  | cons x xs ih =>
    intro m
    simp only [List.foldl_cons]
    obtain ⟨h1, h2⟩ := ih (max m x.len)
    refine ⟨by omega, ?_⟩
    intro u hu
    rcases List.mem_cons.mp hu with rfl | hu
    · omega
    · exact h2 u hu

/-- Every returned token is a longest match among the recognized ones. -/
theorem C07_disamb_longest (toks : List Tok) :
    ∀ t ∈ lexDisamb T toks, ∀ u ∈ toks, u.len ≤ t.len := by
  intro t ht u hu
  unfold lexDisamb at ht
  split at ht
  · -- at most one token
    rename_i hlen
    cases toks with
    | nil => simp at ht
    | cons x xs =>
      cases xs with
      | nil =>
        simp only [List.mem_singleton] at ht hu
        subst ht; subst hu; exact Nat.le_refl _
      | cons y ys => simp at hlen
  · simp only at ht
    have hmax := (foldl_max_ge toks 0).2 u hu
    have hlongest : ∀ x ∈ toks.filter (fun t => t.len == toks.foldl (fun m t => max m t.len) 0),
        x.len = toks.foldl (fun m t => max m t.len) 0 := by
      intro x hx
      simpa using (List.mem_filter.mp hx).2
    split at ht
    · rw [hlongest t ht]; exact hmax
    · split at ht
      · rw [hlongest t ht]; exact hmax
      · rw [hlongest t (List.mem_filter.mp ht).1]; exact hmax

/-- If disambiguation returns a preferred token, every returned token is
preferred (R5), unless a single longest match decided before. -/
theorem C07_disamb_prefer (toks : List Tok) (h2 : 1 < toks.length)
    (hl : ((toks.filter (fun t => t.len == toks.foldl (fun m t => max m t.len) 0)).length == 1) = false)
    (t : Tok) (ht : t ∈ lexDisamb T toks) (hp : T.prefer t.term = true) :
    ∀ u ∈ lexDisamb T toks, T.prefer u.term = true := by
  intro u hu
  unfold lexDisamb at ht hu
  rw [if_neg (by omega)] at ht hu
  simp only at ht hu
  rw [hl] at ht hu
  simp only [Bool.false_eq_true, if_false] at ht hu
  split at hu
  · -- no preferred token among the longest: contradiction with `t`
    rename_i hemp
    rw [if_pos hemp] at ht
    have : t ∈ (toks.filter (fun t => t.len == toks.foldl (fun m t => max m t.len) 0)).filter
        (fun t => T.prefer t.term) := List.mem_filter.mpr ⟨ht, hp⟩
    rw [List.isEmpty_iff.mp hemp] at this
    simp at this
  · simpa using (List.mem_filter.mp hu).2

/-- The recognition loop only returns terminals of the list it was given. -/
theorem C07_scan_only_expected (p : Nat) :
    ∀ (l : List (Nat × Bool)) (last : Nat) (acc : List Tok),
      (∀ t ∈ acc, t.term ∈ l.map (·.1) ∨ t ∈ acc) →
      ∀ t ∈ recognize T inp p l last acc, t ∈ acc ∨ t.term ∈ l.map (·.1) := by
  intro l
  induction l with
  | nil => intro last acc _ t ht; simp only [recognize, List.mem_reverse] at ht; exact Or.inl ht
  | cons x rest ih =>
    intro last acc h t ht
    obtain ⟨a, fin⟩ := x
    simp only [recognize] at ht
    split at ht
    · simp only [List.mem_reverse] at ht; exact Or.inl ht
    · split at ht
      · rename_i l hm
        split at ht
        · simp only [List.mem_reverse, List.mem_cons] at ht
          rcases ht with rfl | ht
          · exact Or.inr (by simp)
          · exact Or.inl ht
        · rcases ih _ _ (fun t ht => Or.inr ht) t ht with h1 | h1
          · simp only [List.mem_cons] at h1
            rcases h1 with rfl | h1
            · exact Or.inr (by simp)
            · exact Or.inl h1
          · exact Or.inr (by simp [h1])
      · rcases ih _ _ (fun t ht => Or.inr ht) t ht with h1 | h1
        · exact Or.inl h1
        · exact Or.inr (by simp [h1])

theorem recognize_sub_cands (p : Nat) :
    ∀ (l : List (Nat × Bool)) (last : Nat) (acc : List Tok),
      ∀ t ∈ recognize T inp p l last acc, t ∈ acc ∨ t ∈ cands inp p l := by
  intro l
  induction l with
  | nil => intro last acc t ht; simp only [recognize, List.mem_reverse] at ht; exact Or.inl ht
  | cons x rest ih =>
    intro last acc t ht
    obtain ⟨a, fin⟩ := x
    simp only [recognize] at ht
    split at ht
    · simp only [List.mem_reverse] at ht; exact Or.inl ht
    · cases hm : inp.matchAt a p with
      | none =>
        rw [hm] at ht
        have hc : cands inp p ((a, fin) :: rest) = cands inp p rest := by
          simp [cands, List.filterMap, candOf, hm]
        rw [hc]
        exact ih _ _ t ht
      | some len =>
        rw [hm] at ht
        have hc : cands inp p ((a, fin) :: rest) = ⟨a, p, len⟩ :: cands inp p rest := by
          simp [cands, List.filterMap, candOf, hm]
        rw [hc]
        simp only at ht
        split at ht
        · simp only [List.mem_reverse, List.mem_cons] at ht
          rcases ht with rfl | ht
          · exact Or.inr (by simp)
          · exact Or.inl ht
        · rcases ih _ _ t ht with h1 | h1
          · simp only [List.mem_cons] at h1
            rcases h1 with rfl | h1
            · exact Or.inr (by simp)
            · exact Or.inl h1
          · exact Or.inr (by simp [h1])

theorem scanSpec_ne_nil (strLike : Nat → Bool) (p : Nat) :
    ∀ l : List (Nat × Bool), cands inp p l ≠ [] → scanSpec T inp strLike p l ≠ [] := by
  intro l
  induction l with
  | nil => intro h; exact absurd rfl h
  | cons x rest ih =>
    intro h
    simp only [scanSpec]
    cases hm : inp.matchAt x.1 p with
    | none =>
      have hc : cands inp p (x :: rest) = cands inp p rest := by
        simp [cands, List.filterMap, candOf, hm]
      rw [hc] at h
      exact ih h
    | some len =>
      simp only [groupScan, ne_eq, not_true_eq_false, if_false, hm]
      split <;> simp

theorem cands_expected (s p : Nat) (hlen : (T.finish s).length = (T.cells s).length) :
    cands inp p (T.expected s) = candidates T inp s p := by
  unfold cands candidates Table.expected
  have hmap : ((T.cells s).map (fun c => c.1)) = (((T.cells s).map (fun c => c.1)).zip (T.finish s)).map (·.1) := by
    rw [List.map_fst_zip]
    simp [hlen]
  conv => rhs; rw [hmap]
  rw [List.filterMap_map]
  rfl

/-- **The scanner's shortcuts never change the outcome** (lexical disambiguation
on): `_next_tokens` is R1–R5 on the candidates; STOP is returned only when it is
expected, admissible and nothing else matches. -/
theorem C07_next_tokens_eq_rules (strLike : Nat → Bool) (consume : Bool) (s p : Nat) (hp : p < inp.len)
    (hlen : (T.finish s).length = (T.cells s).length)
    (hs : lexSortedB T strLike (T.expected s) = true)
    (hf : flagsOKB T strLike (T.expected s) = true)
    (hd : strDecB T inp strLike p (T.expected s) = true) :
    nextTokens T inp consume true s p =
      if ((T.cells s).any (fun c => c.1 == STOP) && (!consume || p == inp.len)) = true
          ∧ candidates T inp s p = []
      then [⟨STOP, p, 0⟩] else lexRules T strLike (candidates T inp s p) := by
  have hS := lexSortedB_sound T strLike _ hs
  have hF := flagsOKB_sound T strLike _ hf
  have hD := strDecB_sound T inp strLike p _ hd
  have hmain := scan_eq_rules T inp strLike p (T.expected s) 0 hS hF hD
  rw [cands_expected s p hlen] at hmain
  have hspec := recognize_eq_scanSpec T inp strLike p (T.expected s) 0 hS hF
  unfold nextTokens
  simp only [hp, if_true]
  by_cases hstop : ((T.cells s).any (fun c => c.1 == STOP) && (!consume || p == inp.len)) = true
  · simp only [hstop, if_true, true_and, List.cons_append, List.nil_append]
    by_cases hc : candidates T inp s p = []
    · rw [if_pos hc]
      have : recognize T inp p (T.expected s) 0 [] = [] := by
        apply List.eq_nil_iff_forall_not_mem.mpr
        intro t ht
        rcases recognize_sub_cands p _ _ _ t ht with h | h
        · simp at h
        · rw [cands_expected s p hlen, hc] at h; simp at h
      rw [this]; rfl
    · rw [if_neg hc]
      have hne : recognize T inp p (T.expected s) 0 [] ≠ [] := by
        rw [hspec]
        exact scanSpec_ne_nil strLike p _ (by rw [cands_expected s p hlen]; exact hc)
      have hpos : ∀ u ∈ recognize T inp p (T.expected s) 0 [], 0 < u.len := by
        intro u hu
        rcases recognize_sub_cands p _ _ _ u hu with h | h
        · simp at h
        · exact cands_pos inp p u h
      rw [lexDisamb_eq_rule45, rule45_stop T _ hne hpos p, ← lexDisamb_eq_rule45]
      exact hmain
  · have hstop' : ((T.cells s).any (fun c => c.1 == STOP) && (!consume || p == inp.len)) = false := by
      cases h : ((T.cells s).any (fun c => c.1 == STOP) && (!consume || p == inp.len)) <;> simp_all
    simp only [hstop', Bool.false_eq_true, if_false, false_and, List.nil_append]
    exact hmain

/-- Lexical disambiguation off (the GLR default): every matching expected terminal
of the highest matching priority, next to STOP where that is admissible. -/
theorem C07_next_tokens_nolex (strLike : Nat → Bool) (consume : Bool) (s p : Nat) (hp : p < inp.len)
    (hlen : (T.finish s).length = (T.cells s).length)
    (hs : lexSortedB T strLike (T.expected s) = true)
    (hf : ∀ x ∈ T.expected s, x.2 = false) :
    nextTokens T inp consume false s p =
      (if ((T.cells s).any (fun c => c.1 == STOP) && (!consume || p == inp.len)) = true
       then [⟨STOP, p, 0⟩] else []) ++ topPriority T (candidates T inp s p) := by
  have hS := lexSortedB_sound T strLike _ hs
  have hmain := scan_nolex_eq_top T inp strLike p (T.expected s) 0 hS hf
  rw [cands_expected s p hlen] at hmain
  unfold nextTokens
  simp only [hp, if_true, Bool.false_eq_true, if_false]
  rw [hmain]

def exLexT : Table where
  n := 1
  sym := fun _ => .nt 0
  cells := fun _ => []
  finish := fun _ => []
  gotoL := fun _ => []
  prior := fun _ => 10
  prefer := fun t => t == 2

/-- Non-vacuity: longest match between a 1- and two 2-character tokens, then prefer. -/
example : lexDisamb exLexT [⟨1, 0, 1⟩, ⟨2, 0, 2⟩, ⟨3, 0, 2⟩] = [⟨2, 0, 2⟩] := by decide

/-- Non-vacuity of the hypotheses of `C07_next_tokens_eq_rules`: a keyword (string-like,
finish flag set) before two regex-like terminals of the same priority and one of lower
priority. -/
example : lexSortedB { exLexT with prior := fun t => if t == 4 then 5 else 10 } (fun t => t == 1)
      [(1, true), (2, false), (3, true), (4, false)] = true ∧
    flagsOKB { exLexT with prior := fun t => if t == 4 then 5 else 10 } (fun t => t == 1)
      [(1, true), (2, false), (3, true), (4, false)] = true := by decide

end Pg

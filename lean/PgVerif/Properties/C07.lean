import PgVerif.Proofs.LRSound
import PgVerif.Spec.LexRules
/-!
# C07 — token choice follows the documented lexical disambiguation order

Proved about the scanner model (`Model/Lex.lean`) for every table, input,
recognizer behaviour, state and position:
* only expected terminals whose recognizers match are returned, with exactly the
  matched length (`C07_tokens_are_matching_expected`, `C07_scan_only_expected`);
* disambiguation returns a sublist of what was recognized (`C07_disamb_sublist`),
  every returned token is a longest one (`C07_disamb_longest`), and if it returns
  a preferred token it returns only preferred ones (`C07_disamb_prefer`).
That the scanner's shortcuts (candidate order, finish flags, early exit on
priority drop) select exactly the order-free rule set R1–R5 of
`Spec/LexRules.lean` is compared on the explored terminal sets (see DESIGN.md).
-/
namespace Pg

variable {T : Table} {inp : Input}

theorem C07_tokens_are_matching_expected (cf : LRCfg) (s p : Nat) :
    ∀ tok ∈ nextTokens T inp cf.consumeInput cf.lexDis s p, tok.s = p ∧
      (tok.term ≠ STOP → inp.mlen tok.term p = some tok.len ∧ 0 < tok.len) ∧
      (tok.term = STOP → cf.consumeInput = true → p = inp.len) :=
  nextTokens_ok cf s p

theorem C07_disamb_sublist (toks : List Tok) : ∀ t ∈ lexDisamb T toks, t ∈ toks :=
  lexDisamb_sub toks

theorem foldl_max_ge (toks : List Tok) : ∀ (m : Nat), m ≤ toks.foldl (fun m t => max m t.len) m ∧
    ∀ u ∈ toks, u.len ≤ toks.foldl (fun m t => max m t.len) m := by
  induction toks with
  | nil => intro m; simp
  | cons x xs ih =>
    intro m
    simp only [List.foldl_cons]
    obtain ⟨h1, h2⟩ := ih (max m x.len)
    refine ⟨by omega, ?_⟩
    intro u hu
    rcases List.mem_cons.mp hu with rfl | hu
    · omega
    · exact h2 u hu

/-- Every returned token is a longest match among the recognized ones. -/
theorem C07_disamb_longest (toks : List Tok) :
    ∀ t ∈ lexDisamb T toks, ∀ u ∈ toks, u.len ≤ t.len := by
  intro t ht u hu
  unfold lexDisamb at ht
  split at ht
  · -- at most one token
    rename_i hlen
    cases toks with
    | nil => simp at ht
    | cons x xs =>
      cases xs with
      | nil =>
        simp only [List.mem_singleton] at ht hu
        subst ht; subst hu; exact Nat.le_refl _
      | cons y ys => simp at hlen
  · simp only at ht
    have hmax := (foldl_max_ge toks 0).2 u hu
    have hlongest : ∀ x ∈ toks.filter (fun t => t.len == toks.foldl (fun m t => max m t.len) 0),
        x.len = toks.foldl (fun m t => max m t.len) 0 := by
      intro x hx
      simpa using (List.mem_filter.mp hx).2
    split at ht
    · rw [hlongest t ht]; exact hmax
    · split at ht
      · rw [hlongest t ht]; exact hmax
      · rw [hlongest t (List.mem_filter.mp ht).1]; exact hmax

/-- If disambiguation returns a preferred token, every returned token is
preferred (R5), unless a single longest match decided before. -/
theorem C07_disamb_prefer (toks : List Tok) (h2 : 1 < toks.length)
    (hl : ((toks.filter (fun t => t.len == toks.foldl (fun m t => max m t.len) 0)).length == 1) = false)
    (t : Tok) (ht : t ∈ lexDisamb T toks) (hp : T.prefer t.term = true) :
    ∀ u ∈ lexDisamb T toks, T.prefer u.term = true := by
  intro u hu
  unfold lexDisamb at ht hu
  rw [if_neg (by omega)] at ht hu
  simp only at ht hu
  rw [hl] at ht hu
  simp only [Bool.false_eq_true, if_false] at ht hu
  split at hu
  · -- no preferred token among the longest: contradiction with `t`
    rename_i hemp
    rw [if_pos hemp] at ht
    have : t ∈ (toks.filter (fun t => t.len == toks.foldl (fun m t => max m t.len) 0)).filter
        (fun t => T.prefer t.term) := List.mem_filter.mpr ⟨ht, hp⟩
    rw [List.isEmpty_iff.mp hemp] at this
    simp at this
  · simpa using (List.mem_filter.mp hu).2

/-- The recognition loop only returns terminals of the list it was given. -/
theorem C07_scan_only_expected (p : Nat) :
    ∀ (l : List (Nat × Bool)) (last : Nat) (acc : List Tok),
      (∀ t ∈ acc, t.term ∈ l.map (·.1) ∨ t ∈ acc) →
      ∀ t ∈ recognize T inp p l last acc, t ∈ acc ∨ t.term ∈ l.map (·.1) := by
  intro l
  induction l with
  | nil => intro last acc _ t ht; simp only [recognize, List.mem_reverse] at ht; exact Or.inl ht
  | cons x rest ih =>
    intro last acc h t ht
    obtain ⟨a, fin⟩ := x
    simp only [recognize] at ht
    split at ht
    · simp only [List.mem_reverse] at ht; exact Or.inl ht
    · split at ht
      · rename_i l hm
        split at ht
        · simp only [List.mem_reverse, List.mem_cons] at ht
          rcases ht with rfl | ht
          · exact Or.inr (by simp)
          · exact Or.inl ht
        · rcases ih _ _ (fun t ht => Or.inr ht) t ht with h1 | h1
          · simp only [List.mem_cons] at h1
            rcases h1 with rfl | h1
            · exact Or.inr (by simp)
            · exact Or.inl h1
          · exact Or.inr (by simp [h1])
      · rcases ih _ _ (fun t ht => Or.inr ht) t ht with h1 | h1
        · exact Or.inl h1
        · exact Or.inr (by simp [h1])

def exLexT : Table where
  n := 1
  sym := fun _ => .nt 0
  cells := fun _ => []
  finish := fun _ => []
  gotoL := fun _ => []
  prior := fun _ => 10
  prefer := fun t => t == 2

/-- Non-vacuity: longest match between a 1- and two 2-character tokens, then prefer. -/
example : lexDisamb exLexT [⟨1, 0, 1⟩, ⟨2, 0, 2⟩, ⟨3, 0, 2⟩] = [⟨2, 0, 2⟩] := by decide

end Pg

import PgVerif.Proofs.Pos
import PgVerif.Proofs.GLRSound
/-!
# C08 — parse trees are positionally faithful and lossless

For the LR driver model, for every table, input and recognizer behaviour:
spans are ordered pairs inside the input, children lie inside their parent,
siblings are in input order and do not overlap (`C08_lr_posOK`); the leaves are
exactly the token edges read left to right, each starting where layout skipping
from the previous leaf's end arrives — so leaves plus the layout between them
tile the input (`C08_lr_lossless`; for every tree of the GLR driver model's packed
forest: `C08_glr_model_lossless`). The same checker `Tree.posOK` and the leaf
chain checker run on every implementation tree (LR and GLR) in the harness.
-/
namespace Pg

theorem C08_lr_posOK (g : Grammar) (T : Table) (inp : Input) (hm : InputMono inp) (cf : LRCfg)
    (fuel : Nat) (t : Tree) (e p : Nat) (h : parseLR g T inp cf fuel = .ok t e p) :
    t.posOK = true ∧ t.stop ≤ e :=
  run_pos hm cf fuel Config.init ⟨StackP.nil _, by intro p otok h; simp [Config.init] at h⟩ t e p h

/-- In bounds: with `consume_input` the tree ends inside the input. -/
theorem C08_lr_in_bounds (g : Grammar) (T : Table) (inp : Input) (hw : T.wf g = true)
    (hm : InputMono inp) (lexDis : Bool) (fuel : Nat) (t : Tree) (e p : Nat)
    (h : parseLR g T inp { consumeInput := true, lexDis := lexDis } fuel = .ok t e p) :
    t.stop ≤ inp.len := by
  obtain ⟨_, h2, h3⟩ := run_sound hw _ fuel Config.init (Inv.init _) t e p h
  have h4 := (C08_lr_posOK g T inp hm _ fuel t e p h).2
  have := hm.skip_ge e
  have := h3 rfl
  omega

/-- Lossless: the leaves of the accepted tree, read left to right, are token
edges chained through layout skipping from position 0 to the raw end, after
which only layout remains. -/
theorem C08_lr_lossless (g : Grammar) (T : Table) (inp : Input) (hw : T.wf g = true)
    (lexDis : Bool) (fuel : Nat) (t : Tree) (e p : Nat)
    (h : parseLR g T inp { consumeInput := true, lexDis := lexDis } fuel = .ok t e p) :
    chain inp 0 t.yield = some e ∧ inp.skip e = inp.len := by
  obtain ⟨h1, h2, h3⟩ := run_sound hw _ fuel Config.init (Inv.init _) t e p h
  have := (derivesB_iff g inp _ 0 e t).mpr h1
  simp only [Tree.derivesB, Bool.and_eq_true, beq_iff_eq] at this
  exact ⟨this.2, by rw [← h2]; exact h3 rfl⟩

/-- Lossless, GLR: the leaves of every tree of the packed forest of the GLR driver model, read left to
right, are token edges chained through layout skipping from position 0 to an end after which only
layout remains — for every well-formed table, input with idempotent layout skipping, lexical mode and
fuel. (Nothing is claimed about the spans recorded in interior nodes of GLR trees: F-POS-3.) -/
theorem C08_glr_model_lossless (g : Grammar) (T : Table) (inp : Input) (hw : T.wf g = true)
    (hidem : ∀ p, inp.skip (inp.skip p) = inp.skip p) (lexDis : Bool) (fuel : Nat) (sF : GLR.GState)
    (h : GLR.parseGLR g T inp true lexDis fuel = .forest sF)
    (a : Nat) (ha : a ∈ sF.accepted) (l : Nat) (hl : l ∈ sF.parents a) (t : Tree) (ht : GLR.TreeOf sF l t) :
    ∃ e, chain inp 0 t.yield = some e ∧ inp.skip e = inp.len := by
  obtain ⟨e, h1, h2⟩ := (GLR.parseGLR_forest_sound hw hidem true lexDis fuel sF h a ha l hl t ht).2 rfl
  have := (derivesB_iff g inp _ 0 e t).mpr h1
  simp only [Tree.derivesB, Bool.and_eq_true, beq_iff_eq] at this
  exact ⟨e, this.2, h2⟩

/-- Non-vacuity: a well positioned tree with an empty first child. -/
example : (Tree.node 1 0 3 [.node 2 0 0 [], .leaf 1 1 3]).posOK = true := by decide
example : (Tree.node 1 0 3 [.leaf 1 0 2, .leaf 1 1 3]).posOK = false := by decide

end Pg

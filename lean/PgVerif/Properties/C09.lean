import PgVerif.Model.Actions
import PgVerif.Proofs.ActionsLR
/-!
# C09 — all ways of running semantic actions give the same result

The evaluation model (`Model/Actions.lean`) is the deferred route
(`call_actions` on a tree): each action receives the sub-results of exactly its
production's right-hand side in order (by definition of `Tree.eval` /
`applyProd`), named matches are bound to the sub-result at their rhs index
(`?=`: its truthiness), the alternative's own action is applied. Proved here, for
every length: the built-in actions behind `+`, `*`, `?` and separators return the
flat list of matched elements, an empty list, or None; and
`C09_deferred_eq_onthefly`: the LR driver with a stack of action results (actions
called during parsing) returns, for every table, input, recognizer behaviour,
action environment and fuel, exactly the evaluation of the tree the tree-building
driver returns. The agreement of the three implementation routes (on-the-fly,
deferred, GLR single tree) with these models is the correspondence leg.
-/
namespace Pg

variable (env : ActEnv)

/-- The left-recursive chain parglare builds for `x+`:
`x_1: x_1 x | x` with productions `pRec`, `pBase`; `elems` are the element
trees, first element first. -/
def chainPlus (pRec pBase : Nat) : List Tree → Tree
  | [] => .node pBase 0 0 []          -- not produced for `+` (at least one element)
  | [x] => .node pBase 0 0 [x]
  | x :: y :: rest => chainPlusAux pRec (.node pBase 0 0 [x]) (y :: rest)
where chainPlusAux (pRec : Nat) : Tree → List Tree → Tree
  | acc, [] => acc
  | acc, y :: rest => chainPlusAux pRec (.node pRec 0 0 [acc, y]) rest

def PlusEnv (env : ActEnv) (pRec pBase : Nat) : Prop :=
  (env.prods.getD pRec default).kind = .builtin .collectFirst ∧
  (env.prods.getD pBase default).kind = .builtin .passNochange

theorem chainPlusAux_eval (pRec pBase : Nat) (h : PlusEnv env pRec pBase) :
    ∀ (rest : List Tree) (acc : Tree) (vs : List Val), acc.eval env = .list vs →
      (∀ y ∈ rest, y.eval env ≠ Val.none) →
      (chainPlus.chainPlusAux pRec acc rest).eval env = .list (vs ++ Tree.evalL env rest) := by
  intro rest
  induction rest with
  | nil => intro acc vs h1 _; simp [chainPlus.chainPlusAux, Tree.evalL, h1]
  | cons y rest ih =>
    intro acc vs h1 hne
    simp only [chainPlus.chainPlusAux]
    have hy := hne y (by simp)
    have : (Tree.node pRec 0 0 [acc, y]).eval env = .list (vs ++ [y.eval env]) := by
      simp only [Tree.eval, Tree.evalL, applyProd]
      rw [h.1, h1]
      cases hv : y.eval env <;> simp_all [applyBuiltin, asList]
    rw [ih _ _ this (fun z hz => hne z (by simp [hz]))]
    simp [Tree.evalL]

/-- **`x+`** yields the flat list of the n matched elements, for every n ≥ 1
(elements whose own result is None are the documented exception of
`collect_first`). -/
theorem C09_collect_plus (pRec pBase : Nat) (h : PlusEnv env pRec pBase) (x : Tree) (rest : List Tree)
    (hne : ∀ y ∈ rest, y.eval env ≠ Val.none) :
    (chainPlus pRec pBase (x :: rest)).eval env = .list (Tree.evalL env (x :: rest)) := by
  cases rest with
  | nil =>
    simp only [chainPlus, Tree.eval, Tree.evalL, applyProd]
    rw [h.2]
    simp only [applyBuiltin]
  | cons y rest =>
    simp only [chainPlus]
    have hb : (Tree.node pBase 0 0 [x]).eval env = .list [x.eval env] := by
      simp only [Tree.eval, Tree.evalL, applyProd]
      rw [h.2]
      simp only [applyBuiltin]
    rw [chainPlusAux_eval env pRec pBase h (y :: rest) _ _ hb hne]
    simp [Tree.evalL]

/-- **`x*`**: the wrapper `x_0: x_1 | EMPTY` returns the list of `x_1`, or the
empty list. -/
theorem C09_zero_or_more (pWrap pEmpty : Nat)
    (h1 : (env.prods.getD pWrap default).kind = .builtin .zeroAction)
    (h2 : (env.prods.getD pEmpty default).kind = .builtin .zeroAction) (inner : Tree) :
    (Tree.node pWrap 0 0 [inner]).eval env = inner.eval env ∧
    (Tree.node pEmpty 0 0 []).eval env = .list [] := by
  simp only [Tree.eval, Tree.evalL, applyProd]
  rw [h1, h2]
  simp only [applyBuiltin, and_self]

/-- **`x?`**: the match or None. -/
theorem C09_optional (pSome pNone : Nat)
    (h1 : (env.prods.getD pSome default).kind = .builtin .passSingle)
    (h2 : (env.prods.getD pNone default).kind = .builtin .passNone) (x : Tree) :
    (Tree.node pSome 0 0 [x]).eval env = x.eval env ∧
    (Tree.node pNone 0 0 []).eval env = Val.none := by
  simp only [Tree.eval, Tree.evalL, applyProd]
  rw [h1, h2]
  simp [applyBuiltin]

/-- Separators are matched between elements and dropped from the result. -/
theorem C09_collect_sep_step (pRec : Nat)
    (h : (env.prods.getD pRec default).kind = .builtin .collectFirstSep)
    (acc sep y : Tree) (vs : List Val) (hacc : acc.eval env = .list vs) (hy : y.eval env ≠ Val.none) :
    (Tree.node pRec 0 0 [acc, sep, y]).eval env = .list (vs ++ [y.eval env]) := by
  simp only [Tree.eval, Tree.evalL, applyProd]
  rw [h, hacc]
  cases hv : y.eval env <;> simp_all [applyBuiltin, asList]

/-- Arguments arrive in right-hand-side order and named matches pick the
sub-result at their index (`=`) or its truthiness (`?=`). -/
theorem C09_user_action_args (p : Nat) (named : List (Nat × Bool))
    (h : env.prods.getD p default = ⟨.user, named⟩) (cs : List Tree) (s e : Nat) :
    (Tree.node p s e cs).eval env = .call p (Tree.evalL env cs)
      (named.map (fun (i, isBool) =>
        (i, if isBool then .bool ((Tree.evalL env cs).getD i .none).truthy
            else (Tree.evalL env cs).getD i .none))) := by
  have hk : (env.prods.getD p default).kind = .user := by rw [h]
  have hn : (env.prods.getD p default).named = named := by rw [h]
  simp only [Tree.eval, applyProd]
  rw [hk, hn]

/-- Without user actions the result mirrors the tree: a single sub-result is
unpacked, otherwise the list of sub-results. -/
theorem C09_default_mirrors_tree (p : Nat) (named : List (Nat × Bool))
    (h : env.prods.getD p default = ⟨.default, named⟩) (cs : List Tree) (s e : Nat) :
    (Tree.node p s e cs).eval env =
      (match Tree.evalL env cs with | [x] => x | l => .list l) := by
  have hk : (env.prods.getD p default).kind = .default := by rw [h]
  simp only [Tree.eval, applyProd]
  rw [hk]
  cases Tree.evalL env cs with
  | nil => rfl
  | cons x xs => cases xs <;> rfl

/-- **Deferred = on-the-fly** for the LR driver model. -/
theorem C09_deferred_eq_onthefly (g : Grammar) (env : ActEnv) (T : Table) (inp : Input) (cf : LRCfg)
    (fuel : Nat) :
    runV g env T inp cf fuel (Config.init.toV env) = (parseLR g T inp cf fuel).toV env :=
  runV_map g env T inp cf fuel Config.init

/-- In particular: if the tree-building driver accepts with tree `t`, the
on-the-fly driver returns `t.eval env`. -/
theorem C09_onthefly_result (g : Grammar) (env : ActEnv) (T : Table) (inp : Input) (cf : LRCfg)
    (fuel : Nat) (t : Tree) (e p : Nat) (h : parseLR g T inp cf fuel = .ok t e p) :
    runV g env T inp cf fuel (Config.init.toV env) = .ok (t.eval env) e p := by
  rw [C09_deferred_eq_onthefly, h]; rfl

end Pg

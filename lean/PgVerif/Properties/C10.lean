import PgVerif.Proofs.LRSound
import PgVerif.Proofs.LineCol
import PgVerif.Spec.Viable
import PgVerif.Proofs.Viable
import PgVerif.Proofs.LRNotEarly
import PgVerif.Proofs.LRViable
import PgVerif.Proofs.NDSound
import PgVerif.Model.Decode
import PgVerif.Proofs.GLRSound
/-!
# C10 — rejections are SyntaxErrors at the first offending token

Proved for the LR driver model, for every well-formed table, input and
recognizer behaviour: a reported syntax error sits exactly where layout skipping
from the end of the shifted tokens arrives, and the shifted tokens (the stack)
are token edges of the input chained from position 0 that derive the stack's
symbols (`C10_lr_error_position`); reductions never move the position.
`C10_linecol_inverse`: the reported (line, column) determines the position.
That the position is never *early* is proved for the deterministic driver over a
validated table (`C10_not_early_when_deterministic`): no token path of the input
through a token starting at the reported position begins a sentence, whatever
terminals one imagines after it. It is never *late* either
(`C10_not_late`): over a table whose item sets are sound (`LRV.lrSound`, decidable,
evaluated on every implementation table) the symbols on the stack at the moment of
the error — which derive exactly the tokens read so far — begin a sentential form;
the same holds along every path of the nondeterministic automaton
(`C10_every_path_reads_viable_prefixes`), i.e. for every GSS path of GLR. GLR's
reported position and the expected set are decided, on the explored scope, against
the viable-prefix oracle `viableEnds` — which is itself
proved sound and complete for every grammar and input once its charts saturate
(`C10_viable_ends_correct`): it lists exactly the raw positions that are 0 or end a
token path beginning a sentential form of the start symbol (`PrefixSeq`).
-/
namespace Pg

variable {g : Grammar} {T : Table} {inp : Input}

theorem run_syntaxError (hw : T.wf g = true) (cf : LRCfg) :
    ∀ (fuel : Nat) (c : Config), Inv g inp T cf c → ∀ p, run g T inp cf fuel c = .syntaxError p →
      ∃ c' : Config, Inv g inp T cf c' ∧ p = inp.skip c'.pos := by
  intro fuel
  induction fuel with
  | zero => intro c _ p h; simp [run] at h
  | succ f ih =>
    intro c hinv p h
    have hs : StepOK g inp T cf (step g T inp cf c) := step_sound hw cf c hinv
    simp only [run] at h
    split at h
    · rename_i c' hc'; exact ih c' (hs.1 c' hc') p h
    · rename_i o ho
      subst h
      -- a syntax error is only produced with a scanned lookahead at `p`
      unfold step at ho
      cases hla : c.la with
      | none =>
        rw [hla] at ho
        simp only [scanStep] at ho
        split at ho <;> simp at ho
      | some lap =>
        obtain ⟨p', otok⟩ := lap
        rw [hla] at ho
        simp only at ho
        obtain ⟨hp, _⟩ := hinv.la p' otok hla
        cases hcell : cellFor T cf c.top otok with
        | nil =>
          rw [hcell] at ho
          simp only [Step.done.injEq, Outcome.syntaxError.injEq] at ho
          exact ⟨c, hinv, by rw [← ho]; exact hp⟩
        | cons a0 rest =>
          rw [hcell] at ho
          simp only at ho
          cases hpick : pickAction g a0 rest with
          | none => rw [hpick] at ho; simp at ho
          | some a =>
            rw [hpick] at ho
            simp only at ho
            cases a with
            | shift s' =>
              simp only [applyAction, doShift] at ho
              split at ho
              · split at ho <;> simp at ho
              · simp at ho
            | reduce pid =>
              simp only [applyAction, doReduce] at ho
              split at ho
              · simp at ho
              · split at ho
                · simp at ho
                · split at ho <;> simp at ho
            | accept =>
              simp only [applyAction, doAccept] at ho
              split at ho <;> simp at ho

/-- The LR model reports a syntax error at the position where layout skipping
from the end of the shifted tokens arrives; those tokens are token edges of the
input deriving the stack's symbols. -/
theorem C10_lr_error_position (hw : T.wf g = true) (cf : LRCfg) (fuel p : Nat)
    (h : parseLR g T inp cf fuel = .syntaxError p) :
    ∃ (st : List (Nat × Tree)) (pos : Nat), StackD g inp T st pos ∧ p = inp.skip pos := by
  obtain ⟨c', hinv, hp⟩ := run_syntaxError hw cf fuel Config.init (Inv.init _) p h
  exact ⟨c'.stack, c'.pos, hinv.st, hp⟩

/-- The viable-prefix oracle is correct: sound, and complete once saturated, for every
grammar (ambiguous, nullable, cyclic) and input. -/
theorem C10_viable_ends_correct (hin : InputOK inp) (hm : InputMono inp) (fuel : Nat) (l : List Nat)
    (h : viableEnds g inp fuel = some l) (j : Nat) :
    j ∈ l ↔ j ≤ inp.len ∧ (j = 0 ∨ PrefixSeq g inp [.nt g.start] 0 j) :=
  viableEnds_correct hin hm fuel l h j

/-- The same for every input the compiled driver decodes from a dump (`InputOK` and `InputMono` are
theorems about the decoder). -/
theorem C10_viable_ends_correct_on_decoded_data (len : Nat) (skips : Array Nat)
    (ms : List (Nat × Nat × Nat)) (hsk : skips.size = len + 1) (fuel : Nat) (l : List Nat)
    (h : viableEnds g (Input.ofTables len skips ms) fuel = some l) (j : Nat) :
    j ∈ l ↔ j ≤ len ∧ (j = 0 ∨ PrefixSeq g (Input.ofTables len skips ms) [.nt g.start] 0 j) :=
  viableEnds_correct (Input.ofTables_ok len skips ms hsk) (Input.ofTables_mono len skips ms) fuel l h j

/-- **Not early**: if the deterministic driver over a validated, conflict-free table reports a
syntax error at `p`, then no token path of the input from 0 through a token `a` starting at `p`
begins a sentence, whatever terminals `v` follow: the token at `p` really cannot extend a sentence
prefix. -/
theorem C10_not_early_when_deterministic (I : Nat → List LRV.VItem) (F : LRV.FirstData)
    (hw : T.wf g = true) (hv : LRV.lrComplete g T I F = true)
    (hT : detTableB T = true) (hL : lexDetB T inp = true)
    (hfin : ∀ s, T.n ≤ s → T.cells s = [] ∧ T.finish s = []) (hin : InputOK inp) (hm : InputMono inp)
    (lexDis : Bool) (fuel p : Nat)
    (herr : parseLR g T inp { consumeInput := true, lexDis := lexDis } fuel = .syntaxError p)
    (toks : List Tok) (a : Tok) (j : Nat) (v : List Nat)
    (hpath : TokPath inp 0 (toks ++ [a]) j) (ha : a.s = p) :
    ¬ Der g [.nt g.start] ((toks ++ [a]).map (·.term) ++ v) :=
  fun hder => not_early hw hv (detOK_of_bool hT hL hfin hin) hin hm _ rfl fuel p herr toks a j v hpath ha hder

/-- **Not late** (correct-prefix property): when the LR driver reports a syntax error at `p`, the
stack holds derivation trees of exactly the tokens between 0 and the raw position `pos` with
`p = skip pos` (`StackD`), and the symbols of that stack begin a sentential form of the grammar.
For every well-formed table with sound item sets, every input, every option set. -/
theorem C10_not_late (I : Nat → List LRV.VItem) (hw : T.wf g = true) (hv : LRV.lrSound g T I = true)
    (cf : LRCfg) (fuel p : Nat) (h : parseLR g T inp cf fuel = .syntaxError p) :
    ∃ (st : List (Nat × Tree)) (pos : Nat), StackD g inp T st pos ∧ p = inp.skip pos ∧
      ∃ (root : Nat) (η : List Sym), (∃ pr0, g.prod? 0 = some pr0 ∧ pr0.lhs = root) ∧
        SDer g [.nt root] (stackSyms T st ++ η) := by
  obtain ⟨st, pos, hs, hp⟩ := C10_lr_error_position hw cf fuel p h
  exact ⟨st, pos, hs, hp, stack_viable hv st pos hs⟩

/-- The same along every path of the nondeterministic automaton (every GSS path of the GLR driver):
whatever has been read begins a sentential form. -/
theorem C10_every_path_reads_viable_prefixes (I : Nat → List LRV.VItem) (hw : T.wf g = true)
    (hv : LRV.lrSound g T I = true) (c : Config) (h : Reach g T inp c) :
    StackD g inp T c.stack c.pos ∧
      ∃ (root : Nat) (η : List Sym), (∃ pr0, g.prod? 0 = some pr0 ∧ pr0.lhs = root) ∧
        SDer g [.nt root] (stackSyms T c.stack ++ η) :=
  ⟨(reach_inv hw c h).st, stack_viable hv c.stack c.pos (reach_inv hw c h).st⟩

/-- The reported line and column determine the position (string inputs). -/
theorem C10_linecol_inverse (text : List Nat) (pos : Nat) (h : pos ≤ text.length) :
    lineColToPos text (posToLineCol text pos).1 (posToLineCol text pos).2 = pos :=
  lineColToPos_posToLineCol text pos h

/-- **No other failure inside the GLR driver**: over a well-formed table the GLR driver model never
meets a reduction by an unknown production or a missing goto — the two table lookups of
`glr.py::_reduce`/`_do_reductions` that would raise something other than `SyntaxError` — for every
input, recognizer behaviour with idempotent layout skipping, lexical mode and fuel. Its only
answers are a forest, a syntax error, "order sensitive" (left to the oracles) and "out of fuel". -/
theorem C10_glr_model_never_fails_internally (g : Grammar) (T : Table) (inp : Input) (hw : T.wf g = true)
    (hidem : ∀ p, inp.skip (inp.skip p) = inp.skip p) (consume lexDis : Bool) (fuel : Nat) :
    GLR.parseGLR g T inp consume lexDis fuel ≠ .crash :=
  GLR.parseGLR_nocrash hw hidem consume lexDis fuel

/-- Non-vacuity / sanity: "ab\ncd", position 4 is line 2 column 1. -/
example : posToLineCol [97, 98, 10, 99, 100] 4 = (2, 1) := by decide

end Pg

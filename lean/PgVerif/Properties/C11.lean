import PgVerif.Model.Recovery
import PgVerif.Proofs.Pos
/-!
# C11 — error recovery terminates, reports disjoint spans and parses the rest

About the LR recovery model (`Model/Recovery.lean`), for every table, input and
recognizer behaviour:
* `C11_progress`: a successful default recovery moves strictly forward and stays
  inside the input;
* `C11_spans_ordered_disjoint`: the reported spans are in bounds, non-empty for
  every successful recovery, ordered and pairwise disjoint;
* `C11_clean_input_noop`: if the plain driver never reports a syntax error, the
  recovery-enabled driver returns the same outcome and records no error.
Termination of the Python loop, custom strategies and the GLR recovery path are
decided on the explored scope (correspondence and oracle legs).
-/
namespace Pg

variable {g : Grammar} {T : Table} {inp : Input}

theorem C11_progress (cf : LRCfg) (s : Nat) :
    ∀ (fuel pos p' : Nat) (tok : Tok), recoverScan T inp cf s fuel pos = .found p' tok →
      pos < p' ∧ p' ≤ inp.len := by
  intro fuel
  induction fuel with
  | zero => intro pos p' tok h; simp [recoverScan] at h
  | succ f ih =>
    intro pos p' tok h
    simp only [recoverScan] at h
    split at h
    · rename_i hlt
      split at h
      · have := ih (pos + 1) p' tok h; omega
      · simp only [Rec.found.injEq] at h; omega
      · simp at h
    · simp at h

/-- The position the driver is looking at: the scanned lookahead's position, or
the raw end of the shifted tokens. -/
def Config.front (c : Config) : Nat :=
  match c.la with
  | some (p, _) => p
  | none => c.pos

/-- Spans are non-empty (or the final, failed one), ordered, disjoint and end at
or before `bound`. -/
def SpansOK : List (Nat × Nat) → Nat → Prop
  | [], _ => True
  | (a, b) :: rest, bound => a ≤ b ∧ b ≤ bound ∧ SpansOK rest a

/-- `SpansOK` is stated on the reversed list (latest first). -/
theorem SpansOK.mono {l : List (Nat × Nat)} {b b' : Nat} (h : SpansOK l b) (hb : b ≤ b') : SpansOK l b' := by
  cases l with
  | nil => trivial
  | cons x xs => obtain ⟨a, c⟩ := x; exact ⟨h.1, Nat.le_trans h.2.1 hb, h.2.2⟩

theorem step_front (hm : InputMono inp) (cf : LRCfg) (c : Config) (hinv : PInv c) :
    (∀ c', step g T inp cf c = .next c' → c.front ≤ c'.front) ∧
    (∀ p, step g T inp cf c = .done (.syntaxError p) → p = c.front ∧ ∃ otok, c.la = some (p, otok)) := by
  unfold step
  cases hla : c.la with
  | none =>
    simp only [scanStep]
    constructor
    · intro c' hc'
      split at hc'
      · simp only [Step.next.injEq] at hc'; subst hc'
        simp [Config.front, hla]; exact hm.skip_ge _
      · simp only [Step.next.injEq] at hc'; subst hc'
        simp [Config.front, hla]; exact hm.skip_ge _
      · simp at hc'
    · intro p h; split at h <;> simp at h
  | some lap =>
    obtain ⟨p, otok⟩ := lap
    simp only
    cases cellFor T cf c.top otok with
    | nil =>
      refine ⟨by intro c' h; simp at h, ?_⟩
      intro p' h
      simp only [Step.done.injEq, Outcome.syntaxError.injEq] at h
      subst h
      exact ⟨by simp [Config.front, hla], otok, rfl⟩
    | cons a0 rest =>
      simp only
      cases pickAction g a0 rest with
      | none => exact ⟨by intro c' h; simp at h, by intro p h; simp at h⟩
      | some a =>
        simp only
        cases a with
        | shift s' =>
          simp only [applyAction, doShift]
          cases otok with
          | none => exact ⟨by intro c' h; simp at h, by intro p h; simp at h⟩
          | some tok =>
            simp only
            split
            · exact ⟨by intro c' h; simp at h, by intro p h; simp at h⟩
            · refine ⟨?_, by intro p h; simp at h⟩
              intro c' hc'
              simp only [Step.next.injEq] at hc'; subst hc'
              simp [Config.front, hla]
        | reduce pid =>
          simp only [applyAction, doReduce]
          cases g.prod? pid with
          | none => exact ⟨by intro c' h; simp at h, by intro p h; simp at h⟩
          | some pr =>
            simp only
            split
            · exact ⟨by intro c' h; simp at h, by intro p h; simp at h⟩
            · cases T.goto (topOf (List.drop pr.rhs.length c.stack)) pr.lhs with
              | none => exact ⟨by intro c' h; simp at h, by intro p h; simp at h⟩
              | some s' =>
                refine ⟨?_, by intro p h; simp at h⟩
                intro c' hc'
                simp only [Step.next.injEq] at hc'; subst hc'
                simp [Config.front, hla]
        | accept =>
          simp only [applyAction, doAccept]
          constructor
          · intro c' hc'; split at hc' <;> simp at hc'
          · intro p h; split at h <;> simp at h

/-- Invariant of the recovery run: positional invariant + the spans so far are
fine and end at or before the driver's front. `errs` is kept oldest first, the
invariant talks about its reverse. -/
theorem runR_spans (hm : InputMono inp) (cf : LRCfg) :
    ∀ (fuel : Nat) (c : Config) (errs : List (Nat × Nat)), PInv c → c.front ≤ inp.len ∨ True →
      SpansOK errs.reverse c.front →
      ∃ bound, SpansOK (runR g T inp cf fuel c errs).2.reverse bound := by
  intro fuel
  induction fuel with
  | zero => intro c errs _ _ h; exact ⟨c.front, by simpa [runR] using h⟩
  | succ f ih =>
    intro c errs hinv hb hs
    have hp := step_pos (g := g) (T := T) hm cf c hinv
    have hf := step_front (g := g) (T := T) hm cf c hinv
    simp only [runR]
    split
    · rename_i c' hc'
      exact ih c' errs (hp.1 c' hc') (Or.inr trivial) (hs.mono (hf.1 c' hc'))
    · rename_i p hstep
      obtain ⟨hpf, otok, hla⟩ := hf.2 p hstep
      split
      · rename_i p' tok hrec
        have hprog := C11_progress (T := T) (inp := inp) cf c.top _ p p' tok hrec
        apply ih
        · refine ⟨hinv.st, ?_⟩
          intro q o h
          have hq : q = p' := by
            have := (Option.some.inj h)
            exact (_root_.Prod.mk.inj this).1.symm
          have h1 := hinv.la p otok hla
          show c.pos ≤ q
          omega
        · exact Or.inr trivial
        · simp only [List.reverse_append, List.reverse_cons, List.reverse_nil, List.nil_append,
            List.singleton_append, Config.front]
          refine ⟨by omega, Nat.le_refl _, ?_⟩
          rw [hpf]; exact hs
      · refine ⟨p, ?_⟩
        simp only [List.reverse_append, List.reverse_cons, List.reverse_nil, List.nil_append,
          List.singleton_append]
        exact ⟨Nat.le_refl _, Nat.le_refl _, by rw [hpf]; exact hs⟩
      · refine ⟨p, ?_⟩
        simp only [List.reverse_append, List.reverse_cons, List.reverse_nil, List.nil_append,
          List.singleton_append]
        exact ⟨Nat.le_refl _, Nat.le_refl _, by rw [hpf]; exact hs⟩
    · exact ⟨c.front, hs⟩

/-- **Spans.** The error spans reported by the recovery-enabled LR model are
ordered and pairwise disjoint (latest first: each span ends at or before the
start of the next later one), each with `start ≤ end`. -/
theorem C11_spans_ordered_disjoint (hm : InputMono inp) (cf : LRCfg) (fuel : Nat) :
    ∃ bound, SpansOK (parseLRrec g T inp cf fuel).2.reverse bound :=
  runR_spans hm cf fuel Config.init [] ⟨StackP.nil _, by intro p o h; simp [Config.init] at h⟩
    (Or.inr trivial) trivial

/-- **Clean input.** If the plain driver's outcome is not a syntax error, the
recovery-enabled driver returns the same outcome and records no error. -/
theorem C11_clean_input_noop (cf : LRCfg) :
    ∀ (fuel : Nat) (c : Config) (errs : List (Nat × Nat)),
      (∀ p, run g T inp cf fuel c ≠ .syntaxError p) →
      runR g T inp cf fuel c errs = (run g T inp cf fuel c, errs) := by
  intro fuel
  induction fuel with
  | zero => intro c errs _; simp [runR, run]
  | succ f ih =>
    intro c errs h
    simp only [runR, run] at h ⊢
    cases hs : step g T inp cf c with
    | next c' =>
      simp only [hs] at h ⊢
      exact ih c' errs h
    | done o =>
      simp only [hs] at h ⊢
      cases o with
      | syntaxError p => exact absurd rfl (h p)
      | ok t e p => rfl
      | disambError p ts => rfl
      | crash => rfl
      | outOfFuel => rfl

end Pg

import PgVerif.Model.Cache
/-!
# C12 — the table cache is transparent

* `C12_roundtrip`: loading a dumped table gives the table back (actions, gotos,
  finish flags), for every table; hence `C12_resave_stable`: dumping again gives
  the identical serialisable value (and so identical bytes under the
  deterministic `json.dump(sort_keys=True)`).
* `C12_transparent_same_options`: over every history of edits, touches, crashes
  (truncated table file), removals and constructions in which all constructions
  use the same table-affecting options, every construction ends up with the
  table of the *current* grammar text under those options — whether the table
  file was absent, older than a grammar file, or incomplete. (With differing
  options the file is reused as is: recorded finding F-CACHE-1.)
The clock is strictly increasing in the model; mtime granularity of a real file
system is outside it.
-/
namespace Pg

theorem loadAction_dumpAction (a : Action) : loadAction (dumpAction a) = some a := by
  cases a <;> rfl

theorem mapM_map_inv {α β : Type} (f : α → β) (g : β → Option α) (h : ∀ a, g (f a) = some a) :
    ∀ l : List α, (l.map f).mapM g = some l := by
  intro l
  induction l with
  | nil => rfl
  | cons a as ih =>
    simp only [List.map_cons, List.mapM_cons, h a, ih]
    rfl

theorem mapM_load_dump (as : List Action) : (as.map dumpAction).mapM loadAction = some as :=
  mapM_map_inv dumpAction loadAction loadAction_dumpAction as

theorem loadCell_dumpCell (c : Nat × List Action) :
    loadCell (c.1, c.2.map dumpAction) = some c := by
  simp only [loadCell, mapM_load_dump, Option.map_some]

theorem loadCells_dump (cells : List (Nat × List Action)) :
    (cells.map (fun c => (c.1, c.2.map dumpAction))).mapM loadCell = some cells :=
  mapM_map_inv (fun c => (c.1, c.2.map dumpAction)) loadCell loadCell_dumpCell cells

theorem loadState_dumpState (i : Nat) (s : PState) : loadState (dumpState i s) = some s := by
  simp only [loadState, dumpState, loadCells_dump, Option.map_some]

/-- **Round trip.** -/
theorem C12_roundtrip (t : List PState) : loadTable (dumpTable t) = some t := by
  unfold loadTable dumpTable
  suffices h : ∀ (i : Nat), (enumStates i t).mapM loadState = some t from h 0
  induction t with
  | nil => intro i; rfl
  | cons s rest ih =>
    intro i
    simp only [enumStates, List.mapM_cons, loadState_dumpState, ih]
    rfl

/-- **Re-save stability.** -/
theorem C12_resave_stable (t t' : List PState) (h : loadTable (dumpTable t) = some t') :
    dumpTable t' = dumpTable t := by
  rw [C12_roundtrip] at h
  simp only [Option.some.injEq] at h
  rw [h]

/-- Invariant: clock dominates every time stamp, and a readable table file that
is not older than any grammar file holds the table of the current version under
the common options. -/
structure CacheInv (o : Opts) (st : Store) : Prop where
  gle : ∀ m ∈ st.gmtimes, m ≤ st.clock
  ple : ∀ c tm, st.pgc = some (c, tm) → tm ≤ st.clock
  cur : ∀ v o' tm, st.pgc = some (.table v o', tm) → o' = o ∧
          ((∀ m ∈ st.gmtimes, m ≤ tm) → v = st.version)

theorem mem_setAt {l : List Nat} {i v m : Nat} (h : m ∈ setAt l i v) : m ∈ l ∨ m = v := by
  unfold setAt at h
  rcases List.mem_or_eq_of_mem_set h with h | h
  · exact Or.inl h
  · exact Or.inr h

theorem construct_inv (o : Opts) (st : Store) (hinv : CacheInv o st) :
    CacheInv o (construct st o).1 ∧ (construct st o).2 = (st.version, o) := by
  have hfresh : CacheInv o { st with clock := st.clock + 1, pgc := some (.table st.version o, st.clock + 1) } := by
    refine ⟨fun m hm => Nat.le_succ_of_le (hinv.gle m hm), ?_, ?_⟩
    · intro c tm h
      have h' := _root_.Prod.mk.inj (Option.some.inj h)
      show tm ≤ st.clock + 1
      omega
    · intro v o' tm h
      have h' := _root_.Prod.mk.inj (Option.some.inj h)
      have h'' := PgcContent.table.inj h'.1
      exact ⟨h''.2.symm, fun _ => h''.1.symm⟩
  unfold construct
  cases hp : st.pgc with
  | none => exact ⟨hfresh, rfl⟩
  | some p =>
    obtain ⟨content, tm⟩ := p
    simp only
    split
    · exact ⟨hfresh, rfl⟩
    · rename_i hany
      cases content with
      | garbage => exact ⟨hfresh, rfl⟩
      | table v o' =>
        simp only
        obtain ⟨ho, hv⟩ := hinv.cur v o' tm hp
        have hall : ∀ m ∈ st.gmtimes, m ≤ tm := by
          intro m hm
          simp only [List.any_eq_true, decide_eq_true_eq, not_exists, not_and, Nat.not_lt] at hany
          exact hany m hm
        exact ⟨hinv, by rw [ho, hv hall]⟩

/-- Edits and touches name an existing grammar file. -/
def OpWF (n : Nat) : Op → Prop
  | .edit f => f < n
  | .touch f => f < n
  | _ => True

theorem applyOp_inv (o : Opts) (st : Store) (hinv : CacheInv o st) (op : Op)
    (hop : ∀ o', op = .construct o' → o' = o) (hwf : OpWF st.gmtimes.length op) :
    CacheInv o (applyOp st op).1 ∧ (applyOp st op).1.gmtimes.length = st.gmtimes.length ∧
      ∀ r, (applyOp st op).2 = some r → r = (st.version, o) := by
  -- after an edit or a touch of file `f` the premise "no grammar file is newer than the table file"
  -- is false, because that file now carries the time clock+1
  have hstale : ∀ (f : Nat), f < st.gmtimes.length → ∀ c tm, st.pgc = some (c, tm) →
      ¬ (∀ m ∈ setAt st.gmtimes f (st.clock + 1), m ≤ tm) := by
    intro f hf c tm h hall
    have hmem : st.clock + 1 ∈ setAt st.gmtimes f (st.clock + 1) := by
      unfold setAt; exact List.mem_set hf _
    have h1 := hall _ hmem
    have h2 := hinv.ple c tm h
    omega
  cases op with
  | edit f =>
    refine ⟨⟨?_, ?_, ?_⟩, by simp [applyOp, setAt], by intro r h; simp [applyOp] at h⟩
    · intro m hm
      rcases mem_setAt hm with h | h
      · exact Nat.le_succ_of_le (hinv.gle m h)
      · simp only [applyOp]; omega
    · intro c tm h; exact Nat.le_succ_of_le (hinv.ple c tm h)
    · intro v o' tm h
      exact ⟨(hinv.cur v o' tm h).1, fun hall => absurd hall (hstale f hwf _ tm h)⟩
  | touch f =>
    refine ⟨⟨?_, ?_, ?_⟩, by simp [applyOp, setAt], by intro r h; simp [applyOp] at h⟩
    · intro m hm
      rcases mem_setAt hm with h | h
      · exact Nat.le_succ_of_le (hinv.gle m h)
      · simp only [applyOp]; omega
    · intro c tm h; exact Nat.le_succ_of_le (hinv.ple c tm h)
    · intro v o' tm h
      exact ⟨(hinv.cur v o' tm h).1, fun hall => absurd hall (hstale f hwf _ tm h)⟩
  | construct o' =>
    have := hop o' rfl
    subst this
    obtain ⟨h1, h2⟩ := construct_inv o' st hinv
    refine ⟨h1, ?_, ?_⟩
    · simp only [applyOp, construct]
      cases st.pgc with
      | none => rfl
      | some p =>
        obtain ⟨content, tm⟩ := p
        simp only
        split
        · rfl
        · cases content <;> rfl
    · intro r h
      simp only [applyOp, Option.some.injEq] at h
      rw [← h, h2]
  | crash =>
    refine ⟨⟨hinv.gle, ?_, ?_⟩, rfl, by intro r h; simp [applyOp] at h⟩
    · intro c tm h
      simp only [applyOp] at h
      cases hp : st.pgc with
      | none => rw [hp] at h; simp at h
      | some p =>
        rw [hp] at h
        simp only [Option.map_some] at h
        have h' := _root_.Prod.mk.inj (Option.some.inj h)
        exact hinv.ple p.1 tm (by rw [hp, ← h'.2])
    · intro v o' tm h
      simp only [applyOp] at h
      cases hp : st.pgc with
      | none => rw [hp] at h; simp at h
      | some p => rw [hp] at h; simp at h
  | removePgc =>
    exact ⟨⟨hinv.gle, by intro c tm h; simp [applyOp] at h, by intro v o' tm h; simp [applyOp] at h⟩,
      rfl, by intro r h; simp [applyOp] at h⟩

/-- Every construction of the history ends up with the table of the grammar text
current at that moment, under the common options. -/
def AllTransparent (o : Opts) : Store → List Op → Prop
  | _, [] => True
  | st, op :: rest =>
    (∀ r, (applyOp st op).2 = some r → r = (st.version, o)) ∧ AllTransparent o (applyOp st op).1 rest

/-- **Transparency for same-option histories.** -/
theorem C12_transparent_same_options (o : Opts) (n : Nat) :
    ∀ (ops : List Op) (st : Store), CacheInv o st → st.gmtimes.length = n →
      (∀ op ∈ ops, ∀ o', op = .construct o' → o' = o) → (∀ op ∈ ops, OpWF n op) →
      AllTransparent o st ops := by
  intro ops
  induction ops with
  | nil => intro st _ _ _ _; trivial
  | cons op rest ih =>
    intro st hinv hn hops hwf
    obtain ⟨h1, h2, h3⟩ := applyOp_inv o st hinv op (hops op (by simp)) (by rw [hn]; exact hwf op (by simp))
    exact ⟨h3, ih _ h1 (by rw [h2, hn]) (fun op' h => hops op' (by simp [h])) (fun op' h => hwf op' (by simp [h]))⟩

/-- The empty directory state satisfies the invariant (non-vacuity of the premise). -/
theorem C12_initial_inv (o : Opts) (n : Nat) : CacheInv o ⟨0, 0, List.replicate n 0, none⟩ :=
  ⟨by intro m hm; simp [List.mem_replicate] at hm; omega, by intro c tm h; simp at h,
   by intro v o' tm h; simp at h⟩

/-- Witness of the excluded region (finding F-CACHE-1): a construction with other
options reuses the table computed under the first options. -/
example :
    let o1 : Opts := ⟨true, true, true, true⟩
    let o2 : Opts := ⟨true, false, false, false⟩
    let st0 : Store := ⟨0, 0, [0], none⟩
    (construct (construct st0 o1).1 o2).2 = (0, o1) := by decide

end Pg

import PgVerif.Generated.Source
import PgVerif.Properties.C09
/-!
# C13 — repetition, optional, separator, group and greedy syntax

Results: the list/None/separator semantics of the helper rules is proved for
every length in `C09_collect_plus`, `C09_zero_or_more`, `C09_optional`,
`C09_collect_sep_step` (re-exported here). Naming: the helper rule of
`base`/multiplicity/separator is named `base_suffix[_separator]`
(`make_multiplicity_fqn`), with the suffixes regenerated from the source
(`Src.multSuffix`); proved: the three suffixes are pairwise different, and for a
fixed base the name determines the suffix and the separator
(`C13_helper_name_injective`) when neither contains an underscore (otherwise two
uses may share one helper — the excluded region with witnesses in DESIGN.md).
That the sugared grammar and its documented plain-BNF expansion accept the same
language and return the same results is the differential leg.
-/
namespace Pg

/-- `make_multiplicity_fqn` on code-point lists. -/
def sepPart : Option (List Char) → List Char
  | some s => '_' :: s
  | none => []

def helperName (base suffix : List Char) (sep : Option (List Char)) : List Char :=
  base ++ ['_'] ++ suffix ++ sepPart sep

/-- The suffixes of the three multiplicities are pairwise different (checked on
the values regenerated from the source). -/
theorem C13_suffixes_distinct : (Src.multSuffix.map (·.2)).Nodup := by decide

theorem C13_multiplicities_distinct : (Src.multSuffix.map (·.1)).Nodup := by decide

theorem takeWhile_append_of_not_mem (s rest : List Char) (h : '_' ∉ s) :
    (s ++ '_' :: rest).takeWhile (· != '_') = s := by
  induction s with
  | nil => simp
  | cons c cs ih =>
    have hc : c ≠ '_' := fun e => h (by simp [e])
    simp only [List.cons_append, List.takeWhile_cons]
    have : (c != '_') = true := by simpa using hc
    simp only [this, if_true]
    rw [ih (fun hm => h (by simp [hm]))]

theorem takeWhile_of_not_mem (s : List Char) (h : '_' ∉ s) : s.takeWhile (· != '_') = s := by
  induction s with
  | nil => rfl
  | cons c cs ih =>
    have hc : c ≠ '_' := fun e => h (by simp [e])
    have : (c != '_') = true := by simpa using hc
    simp only [List.takeWhile_cons, this, if_true]
    rw [ih (fun hm => h (by simp [hm]))]

/-- For a fixed base, the helper name determines the suffix and the separator,
provided neither contains an underscore. -/
theorem takeWhile_suffix_sep (s : List Char) (p : Option (List Char)) (h : '_' ∉ s) :
    (s ++ sepPart p).takeWhile (· != '_') = s := by
  cases p with
  | none => simpa [sepPart] using takeWhile_of_not_mem s h
  | some r => exact takeWhile_append_of_not_mem s r h

theorem sepPart_injective (p1 p2 : Option (List Char)) (h : sepPart p1 = sepPart p2) : p1 = p2 := by
  cases p1 <;> cases p2 <;> simp_all [sepPart]

theorem C13_helper_name_injective (base s1 s2 : List Char) (p1 p2 : Option (List Char))
    (h1 : '_' ∉ s1) (h2 : '_' ∉ s2)
    (h : helperName base s1 p1 = helperName base s2 p2) : s1 = s2 ∧ p1 = p2 := by
  unfold helperName at h
  simp only [List.append_assoc] at h
  have h' := List.append_cancel_left (List.append_cancel_left h)
  have hs : s1 = s2 := by
    rw [← takeWhile_suffix_sep s1 p1 h1, ← takeWhile_suffix_sep s2 p2 h2, h']
  subst hs
  exact ⟨rfl, sepPart_injective p1 p2 (List.append_cancel_left h')⟩

/-- Results of the helper rules (re-exported from C09). -/
theorem C13_plus_result (env : ActEnv) (pRec pBase : Nat) (h : PlusEnv env pRec pBase) (x : Tree)
    (rest : List Tree) (hne : ∀ y ∈ rest, y.eval env ≠ Val.none) :
    (chainPlus pRec pBase (x :: rest)).eval env = .list (Tree.evalL env (x :: rest)) :=
  C09_collect_plus env pRec pBase h x rest hne

end Pg

import PgVerif.Model.Layout
import PgVerif.Proofs.Pos
import PgVerif.Spec.Chart
/-!
# C14 — layout is invisible

The drivers (LR model, chart, SPPF and viable-prefix specs) consult the input
only through `len`, `skip` and `mlen`; everything they compute is therefore
invariant under any change of the text that preserves those three
(`C14_drivers_see_only_skip_and_match`). For `ws`-based layout the skipping
function is modelled (`skipWs`) and proved to have exactly the properties the
other theorems assume of `skip`: it never moves backwards, stays inside the text,
is idempotent, skips only whitespace and stops at the first non-whitespace
character (`C14_ws_*`). That inserting/removing/replacing layout between tokens
leaves acceptance, tree shape, token sequence and (mapped) error positions
unchanged, and that a LAYOUT rule matching runs of `ws` characters equals the
`ws` parameter, is the metamorphic/correspondence leg.
-/
namespace Pg

theorem countWs_le (isWs : Nat → Bool) : ∀ l : List Nat, countWs isWs l ≤ l.length := by
  intro l
  induction l with
  | nil => simp [countWs]
  | cons c cs ih => simp only [countWs]; split <;> simp <;> omega

/-- Never backwards. -/
theorem C14_ws_skip_ge (isWs : Nat → Bool) (chars : List Nat) (p : Nat) : p ≤ skipWs isWs chars p := by
  simp [skipWs]

/-- Stays inside the text. -/
theorem C14_ws_skip_le (isWs : Nat → Bool) (chars : List Nat) (p : Nat) (h : p ≤ chars.length) :
    skipWs isWs chars p ≤ chars.length := by
  have := countWs_le isWs (chars.drop p)
  simp only [skipWs, List.length_drop] at *
  omega

theorem countWs_drop (isWs : Nat → Bool) : ∀ l : List Nat, countWs isWs (l.drop (countWs isWs l)) = 0 := by
  intro l
  induction l with
  | nil => simp [countWs]
  | cons c cs ih =>
    simp only [countWs]
    split
    · simpa using ih
    · rename_i h; simp [countWs, h]

/-- Idempotent: after skipping there is nothing left to skip. -/
theorem C14_ws_skip_idem (isWs : Nat → Bool) (chars : List Nat) (p : Nat) :
    skipWs isWs chars (skipWs isWs chars p) = skipWs isWs chars p := by
  simp only [skipWs]
  have : chars.drop (p + countWs isWs (chars.drop p)) = (chars.drop p).drop (countWs isWs (chars.drop p)) := by
    rw [List.drop_drop]
  rw [this, countWs_drop]
  simp

/-- Only whitespace is skipped. -/
theorem C14_ws_skipped_is_ws (isWs : Nat → Bool) :
    ∀ (l : List Nat) (i : Nat), i < countWs isWs l → ∃ c, l[i]? = some c ∧ isWs c = true := by
  intro l
  induction l with
  | nil => intro i h; simp [countWs] at h
  | cons c cs ih =>
    intro i h
    simp only [countWs] at h
    split at h
    · rename_i hc
      cases i with
      | zero => exact ⟨c, by simp, hc⟩
      | succ i => obtain ⟨c', h1, h2⟩ := ih i (by omega); exact ⟨c', by simpa using h1, h2⟩
    · omega

/-- Skipping stops at a non-whitespace character (or the end). -/
theorem C14_ws_stops_at_non_ws (isWs : Nat → Bool) :
    ∀ (l : List Nat) (c : Nat), l[countWs isWs l]? = some c → isWs c = false := by
  intro l
  induction l with
  | nil => intro c h; simp at h
  | cons x xs ih =>
    intro c h
    simp only [countWs] at h
    split at h
    · exact ih c (by simpa using h)
    · rename_i hx
      simp only [List.getElem?_cons_zero, Option.some.injEq] at h
      subst h; simpa using hx

/-- The hypothesis `InputMono` of the position theorems holds for every input
whose layout skipping is the modelled `ws` skipping. -/
theorem C14_ws_input_mono (isWs : Nat → Bool) (chars : List Nat) (mlen : Nat → Nat → Option Nat) :
    InputMono { len := chars.length, skip := skipWs isWs chars, mlen := mlen } :=
  ⟨fun p => C14_ws_skip_ge isWs chars p⟩

/-- The drivers see the input only through `len`, `skip` and `mlen`. -/
theorem C14_drivers_see_only_skip_and_match (g : Grammar) (T : Table) (cf : LRCfg) (fuel : Nat)
    (i1 i2 : Input) (hl : i1.len = i2.len) (hs : i1.skip = i2.skip) (hm : i1.mlen = i2.mlen) :
    parseLR g T i1 cf fuel = parseLR g T i2 cf fuel ∧ isSentence g i1 fuel = isSentence g i2 fuel := by
  have : i1 = i2 := by
    cases i1; cases i2; simp only [Input.mk.injEq]; exact ⟨hl, hs, hm⟩
  subst this
  exact ⟨rfl, rfl⟩

example : skipWs (fun c => c == 32) [97, 32, 32, 98] 1 = 3 := by decide

end Pg
